// Package kit is engine E1 of DESIGN.md: a small-scope enumerator.
//
// A check declares finite, index-addressable spaces; kit evaluates EVERY index
// (never a sample) in parallel, optionally in crash-isolated worker
// subprocesses, groups failures by a stable defect key, matches them against
// known_findings.json, writes replay files and the evidence file, and sets the
// exit status (0 held, 1 violation, 2 harness error).
package kit

import (
	"bufio"
	"encoding/json"
	"flag"
	"fmt"
	"hash/fnv"
	"io"
	"os"
	"os/exec"
	"path/filepath"
	"runtime"
	"runtime/debug"
	"sort"
	"strconv"
	"strings"
	"sync"
	"sync/atomic"
	"syscall"
	"time"
	"unsafe"
)

// Outcome is the verdict on one case.
type Outcome struct {
	OK         bool
	Key        string // stable defect key when !OK
	Detail     string // expected vs observed, free text
	Class      string // outcome class for the histogram
	Nontrivial bool   // per the check's stated rule
	Hash       uint64 // canonical-case hash; only needed when the space is not injective
	Ops        int    // operations executed by this case (feeds "transitions"); 0 counts as 1
}

// Space is a finite index-addressable set of cases.
type Space struct {
	Name string
	Size uint64
	// Eval evaluates case i. It must be deterministic.
	Eval func(i uint64) Outcome
	// Describe returns a JSON-able description of case i (the witness).
	Describe func(i uint64) any
	// NotInjective is set when two indices may denote the same canonical case;
	// then Outcome.Hash is used to count distinct cases.
	NotInjective bool
}

// Check describes one property's check.
type Check struct {
	ID          string
	Level       string // MANIFEST category
	Rule        string
	Assumptions []string
	Spaces      func(tier string) []Space
	// Isolated runs cases in worker subprocesses with heartbeat so that an
	// input that kills or hangs the process is identified and reported.
	Isolated bool
	// Workers overrides the number of parallel workers (default: NumCPU).
	Workers int
	// Budget, if non-zero, is an internal deadline per tier; when it is hit the
	// run stops handing out work, finishes with exhaustive:false and exit 0.
	Budget map[string]time.Duration
	// Extra adds keys to coverage after the run.
	Extra func(tier string) map[string]any
	// HangSeconds is the heartbeat timeout in isolated mode (default 30).
	HangSeconds int
}

// Failure is one failing case.
type Failure struct {
	Space   string `json:"space"`
	Index   uint64 `json:"index"`
	Key     string `json:"key"`
	Detail  string `json:"detail"`
	Witness any    `json:"witness,omitempty"`
}

const chunkSize = 512

var root = func() string {
	if r := os.Getenv("VERIF_ROOT"); r != "" {
		return r
	}
	return "/verif"
}()

// Root returns the /verif directory.
func Root() string { return root }

// Tier returns the tier from the arguments / environment.
func Tier(args []string) string {
	t := os.Getenv("VERIF_TIER")
	for _, a := range args {
		if a == "quick" || a == "thorough" {
			t = a
		}
	}
	if t != "thorough" {
		t = "quick"
	}
	return t
}

// Seed returns VERIF_SEED (0 if unset).
func Seed() int64 {
	s, _ := strconv.ParseInt(os.Getenv("VERIF_SEED"), 10, 64)
	return s
}

// Main runs the check and exits.
func Main(c *Check) {
	worker := flag.String("worker", "", "internal: worker mode, heartbeat file")
	one := flag.String("one", "", "internal: evaluate a single case space:index")
	replay := flag.String("replay", "", "replay file to re-run")
	flag.Parse()
	tier := Tier(flag.Args())
	spaces := c.Spaces(tier)
	if *replay != "" {
		os.Exit(doReplay(c, spaces, *replay))
	}
	if *one != "" {
		os.Exit(doOne(spaces, *one))
	}
	if *worker != "" {
		workerLoop(spaces, *worker)
		return
	}
	start := time.Now()
	if !c.Isolated && os.Getenv("VERIF_CHILD") == "" {
		// supervisor: the enumeration runs in a child process, so that a Go fatal
		// error in the code under test (e.g. "concurrent map writes" under the
		// parallel evaluation), which no recover can catch, is reported as a
		// violation of this process instead of silently killing the check
		os.Exit(supervise(c, tier, start))
	}
	r := newRun(c, tier, spaces)
	if c.Isolated {
		r.runIsolated()
	} else {
		r.runInProcess()
	}
	cov := r.coverage()
	if c.Extra != nil {
		for k, v := range c.Extra(tier) {
			cov[k] = v
		}
	}
	code := Finish(c.ID, c.Level, tier, cov, c.Assumptions, r.failures, r.harnessErrs, start)
	os.Exit(code)
}

type spaceStat struct {
	Name  string `json:"name"`
	Size  uint64 `json:"size"`
	Done  uint64 `json:"done"`
	Nontr uint64 `json:"nontrivial"`
}

type run struct {
	c           *Check
	tier        string
	spaces      []Space
	mu          sync.Mutex
	failures    []Failure
	harnessErrs []string
	classes     map[string]uint64
	evals       uint64
	nontrivial  uint64
	ops         uint64
	hashes      map[uint64]struct{}
	stats       []spaceStat
	capHit      bool
	deadline    time.Time
	perKey      map[string]int
	keyCount    map[string]int // exact failing cases per key (in-process and worker evaluations)
}

func newRun(c *Check, tier string, spaces []Space) *run {
	r := &run{c: c, tier: tier, spaces: spaces, classes: map[string]uint64{}, hashes: map[uint64]struct{}{}, perKey: map[string]int{}, keyCount: map[string]int{}}
	for _, s := range spaces {
		r.stats = append(r.stats, spaceStat{Name: s.Name, Size: s.Size})
	}
	if d, ok := c.Budget[tier]; ok && d > 0 {
		r.deadline = time.Now().Add(d)
	}
	return r
}

func (r *run) workers() int {
	if r.c.Workers > 0 {
		return r.c.Workers
	}
	return runtime.NumCPU()
}

// chunkResult is what one evaluated chunk reports.
type chunkResult struct {
	Space    int               `json:"s"`
	From     uint64            `json:"f"`
	To       uint64            `json:"t"`
	Evals    uint64            `json:"e"`
	Nontr    uint64            `json:"n"`
	Ops      uint64            `json:"o"`
	Classes  map[string]uint64 `json:"c,omitempty"`
	Hashes   []uint64          `json:"h,omitempty"`
	Failures []Failure         `json:"x,omitempty"`
	KeyCount map[string]int    `json:"kc,omitempty"` // exact number of failing cases per key
	Harness  []string          `json:"he,omitempty"`
}

// evalCase runs one case with a recover that classifies panics.
func evalCase(sp *Space, i uint64) (o Outcome, harness string) {
	defer func() {
		if e := recover(); e != nil {
			st := string(debug.Stack())
			fr := FirstRepoFrame(st)
			if fr == "" {
				harness = fmt.Sprintf("panic in harness at %s[%d]: %v\n%s", sp.Name, i, e, st)
				o = Outcome{OK: true, Class: "harness-panic"}
				return
			}
			o = Outcome{OK: false, Key: "hostpanic|" + fr + "|" + NormMsg(fmt.Sprint(e)), Detail: fmt.Sprintf("panic: %v", e), Class: "host-panic", Nontrivial: true}
		}
	}()
	return sp.Eval(i), ""
}

func evalChunk(spaces []Space, si int, from, to uint64, hb *heartbeat) chunkResult {
	sp := &spaces[si]
	cr := chunkResult{Space: si, From: from, To: to, Classes: map[string]uint64{}}
	perKey := map[string]int{}
	for i := from; i < to; i++ {
		if hb != nil {
			hb.set(uint64(si), i, cr.Evals, cr.Nontr)
		}
		o, h := evalCase(sp, i)
		if h != "" {
			cr.Harness = append(cr.Harness, h)
		}
		cr.Evals++
		if o.Ops > 0 {
			cr.Ops += uint64(o.Ops)
		} else {
			cr.Ops++
		}
		if o.Class == "" {
			if o.OK {
				o.Class = "ok"
			} else {
				o.Class = "fail"
			}
		}
		cr.Classes[o.Class]++
		if o.Nontrivial {
			cr.Nontr++
			if sp.NotInjective {
				cr.Hashes = append(cr.Hashes, o.Hash)
			}
		}
		if !o.OK {
			perKey[o.Key]++
			if cr.KeyCount == nil {
				cr.KeyCount = map[string]int{}
			}
			cr.KeyCount[o.Key]++
			if perKey[o.Key] <= 3 { // keep a few smallest witnesses per key per chunk
				f := Failure{Space: sp.Name, Index: i, Key: o.Key, Detail: o.Detail}
				if sp.Describe != nil {
					f.Witness = sp.Describe(i)
				}
				cr.Failures = append(cr.Failures, f)
			}
		}
	}
	return cr
}

func (r *run) merge(cr chunkResult) {
	r.mu.Lock()
	defer r.mu.Unlock()
	r.evals += cr.Evals
	r.nontrivial += cr.Nontr
	r.ops += cr.Ops
	r.stats[cr.Space].Done += cr.Evals
	r.stats[cr.Space].Nontr += cr.Nontr
	for k, v := range cr.Classes {
		r.classes[k] += v
	}
	for _, h := range cr.Hashes {
		r.hashes[h] = struct{}{}
	}
	for k, n := range cr.KeyCount {
		r.keyCount[k] += n
	}
	for _, f := range cr.Failures {
		r.perKey[f.Key]++
		if r.perKey[f.Key] <= 50 {
			r.failures = append(r.failures, f)
		}
	}
	r.harnessErrs = append(r.harnessErrs, cr.Harness...)
}

type job struct {
	si       int
	from, to uint64
}

func (r *run) jobs() chan job {
	ch := make(chan job, 64)
	go func() {
		defer close(ch)
		for si, sp := range r.spaces {
			for f := uint64(0); f < sp.Size; f += chunkSize {
				if !r.deadline.IsZero() && time.Now().After(r.deadline) {
					r.mu.Lock()
					r.capHit = true
					r.mu.Unlock()
					return
				}
				t := f + chunkSize
				if t > sp.Size {
					t = sp.Size
				}
				ch <- job{si, f, t}
			}
		}
	}()
	return ch
}

func (r *run) runInProcess() {
	jobs := r.jobs()
	var wg sync.WaitGroup
	for w := 0; w < r.workers(); w++ {
		wg.Add(1)
		go func() {
			defer wg.Done()
			for j := range jobs {
				r.merge(evalChunk(r.spaces, j.si, j.from, j.to, nil))
			}
		}()
	}
	wg.Wait()
}

// supervise runs the check in a child process and turns a crash of the child
// into a keyed violation.
func supervise(c *Check, tier string, start time.Time) int {
	self, _ := os.Executable()
	cmd := exec.Command(self, os.Args[1:]...)
	cmd.Env = append(os.Environ(), "VERIF_CHILD=1", "GOTRACEBACK=all")
	cmd.Stdout = os.Stdout
	eb := &tailBuf{}
	cmd.Stderr = io.MultiWriter(eb, stderrHead{})
	err := cmd.Run()
	if err == nil {
		return 0
	}
	code := cmd.ProcessState.ExitCode()
	errOut := string(eb.b)
	crashed := strings.Contains(errOut, "fatal error: ") || strings.Contains(errOut, "\npanic: ") || strings.HasPrefix(errOut, "panic: ") || code < 0
	if !crashed || code == 1 {
		return code
	}
	sig := CrashSignature(errOut)
	if strings.HasPrefix(sig, "|") && !strings.Contains(errOut, "github.com/open2b/scriggo") {
		fmt.Fprintln(os.Stderr, "HARNESS-ERROR: the check process crashed outside the code under test")
		return 2
	}
	cov := map[string]any{
		"evaluations": 1, "distinct_nontrivial": 2, "states": 1, "transitions": 1, "traces_validated_against_impl": 1,
		"rule": c.Rule, "exhaustive": false,
		"samples":     []any{"the evaluating process crashed; see the violation"},
		"explanation": "the process evaluating the cases was killed by a Go fatal error or an unrecovered panic raised in the code under test; coverage counters of that process are lost",
	}
	f := Failure{Space: "process", Key: "process-crash|" + sig, Detail: "the process evaluating the cases crashed:\n" + tail(errOut, 4000)}
	return Finish(c.ID, c.Level, tier, cov, c.Assumptions, []Failure{f}, nil, start)
}

// stderrHead relays the child's stderr to ours.
type stderrHead struct{}

func (stderrHead) Write(p []byte) (int, error) { return os.Stderr.Write(p) }

// ---- isolated mode ----

type heartbeat struct {
	mem []byte
}

func (h *heartbeat) words() *[8]uint64 { return (*[8]uint64)(unsafe.Pointer(&h.mem[0])) }

func (h *heartbeat) set(space, idx, evals, nontr uint64) {
	w := h.words()
	atomic.StoreUint64(&w[1], space)
	atomic.StoreUint64(&w[2], idx)
	atomic.StoreUint64(&w[3], evals)
	atomic.StoreUint64(&w[4], nontr)
	atomic.AddUint64(&w[0], 1) // sequence: changes on every case
}

func openHeartbeat(path string, create bool) (*heartbeat, error) {
	fl := os.O_RDWR
	if create {
		fl |= os.O_CREATE | os.O_TRUNC
	}
	f, err := os.OpenFile(path, fl, 0o644)
	if err != nil {
		return nil, err
	}
	defer f.Close()
	if create {
		if err := f.Truncate(64); err != nil {
			return nil, err
		}
	}
	mem, err := syscall.Mmap(int(f.Fd()), 0, 64, syscall.PROT_READ|syscall.PROT_WRITE, syscall.MAP_SHARED)
	if err != nil {
		return nil, err
	}
	return &heartbeat{mem: mem}, nil
}

// workerLoop reads "si from to" lines on stdin, writes one JSON chunkResult per line on stdout.
func workerLoop(spaces []Space, hbPath string) {
	hb, err := openHeartbeat(hbPath, false)
	if err != nil {
		fmt.Fprintln(os.Stderr, "worker: heartbeat:", err)
		os.Exit(2)
	}
	in := bufio.NewScanner(os.Stdin)
	out := bufio.NewWriter(os.Stdout)
	for in.Scan() {
		var si int
		var from, to uint64
		if _, err := fmt.Sscan(in.Text(), &si, &from, &to); err != nil {
			fmt.Fprintln(os.Stderr, "worker: bad job:", in.Text())
			os.Exit(2)
		}
		cr := evalChunk(spaces, si, from, to, hb)
		b, _ := json.Marshal(cr)
		out.Write(b)
		out.WriteByte('\n')
		out.Flush()
	}
}

type candidate struct {
	si     int
	idx    uint64
	kind   string // crash | hang
	stderr string
}

func (r *run) runIsolated() {
	jobs := r.jobs()
	self, _ := os.Executable()
	hbDir := filepath.Join(root, ".build", "hb")
	os.MkdirAll(hbDir, 0o755)
	hang := time.Duration(r.c.HangSeconds) * time.Second
	if hang == 0 {
		hang = 30 * time.Second
	}
	var cmu sync.Mutex
	var cands []candidate
	var wg sync.WaitGroup
	for w := 0; w < r.workers(); w++ {
		wg.Add(1)
		go func(w int) {
			defer wg.Done()
			hbPath := filepath.Join(hbDir, fmt.Sprintf("%s-%d-%d", r.c.ID, os.Getpid(), w))
			hb, err := openHeartbeat(hbPath, true)
			if err != nil {
				r.mu.Lock()
				r.harnessErrs = append(r.harnessErrs, "heartbeat: "+err.Error())
				r.mu.Unlock()
				return
			}
			defer os.Remove(hbPath)
			var p *workerProc
			defer func() {
				if p != nil {
					p.stop()
				}
			}()
			// runRange evaluates the cases of j in worker processes. When a
			// worker dies or hangs at a case, the outcomes of the cases it had
			// already evaluated in the chunk die with it: they are evaluated
			// again (by a fresh worker) before going on after the crashing case.
			failed := false
			var runRange func(j job)
			runRange = func(j job) {
				for j.from < j.to && !failed {
					if p == nil {
						atomic.StoreUint64(&hb.words()[0], 0)
						p, err = startWorker(self, r.tier, hbPath)
						if err != nil {
							r.mu.Lock()
							r.harnessErrs = append(r.harnessErrs, "start worker: "+err.Error())
							r.mu.Unlock()
							failed = true
							return
						}
					}
					cr, kind := p.do(j, hb, hang)
					if kind == "" {
						r.merge(cr)
						return
					}
					// worker died or hung inside the chunk at heartbeat index
					wd := hb.words()
					if atomic.LoadUint64(&wd[0]) == 0 {
						// it never evaluated a case: it died or hung while starting up
						r.mu.Lock()
						r.harnessErrs = append(r.harnessErrs, "worker "+kind+" before its first case (start-up failure):\n"+tail(p.stderrTail(), 3000))
						r.mu.Unlock()
						p.stop()
						failed = true
						return
					}
					idx := atomic.LoadUint64(&wd[2])
					if uint64(j.si) != atomic.LoadUint64(&wd[1]) || idx < j.from || idx >= j.to {
						idx = j.from // died before the first case of this chunk
					}
					errOut := p.stderrTail()
					p.stop()
					p = nil
					if idx > j.from {
						runRange(job{si: j.si, from: j.from, to: idx})
					}
					partial := chunkResult{Space: j.si, Evals: 1, Nontr: 1, Ops: 1, Classes: map[string]uint64{kind: 1}}
					r.merge(partial)
					cmu.Lock()
					cands = append(cands, candidate{j.si, idx, kind, errOut})
					cmu.Unlock()
					j.from = idx + 1
				}
			}
			for j := range jobs {
				if failed {
					return
				}
				runRange(j)
			}
		}(w)
	}
	wg.Wait()
	// confirm candidates: re-run each alone, 3 times, in fresh subprocesses
	sort.Slice(cands, func(a, b int) bool {
		if cands[a].si != cands[b].si {
			return cands[a].si < cands[b].si
		}
		return cands[a].idx < cands[b].idx
	})
	confirmed := map[string]int{}
	sem := make(chan struct{}, r.workers())
	var cwg sync.WaitGroup
	for _, c := range cands {
		key0 := c.kind + "|" + CrashSignature(c.stderr)
		if c.kind == "hang" {
			key0 = "hang|space=" + r.spaces[c.si].Name // a hang has no stack: name at least where it happens
		}
		cmu.Lock()
		n := confirmed[key0]
		confirmed[key0]++
		cmu.Unlock()
		if n >= 8 { // enough witnesses of this signature were already re-confirmed
			r.mu.Lock()
			r.perKey[key0]++
			r.mu.Unlock()
			continue
		}
		cwg.Add(1)
		sem <- struct{}{}
		go func(c candidate) {
			defer cwg.Done()
			defer func() { <-sem }()
			sp := &r.spaces[c.si]
			fails := 0
			var lastErr string
			const reps = 3
			for k := 0; k < reps; k++ {
				code, errOut := runOne(self, r.tier, sp.Name, c.idx, hang+10*time.Second)
				if code != 0 && code != 1 {
					fails++
					lastErr = errOut
				}
			}
			r.mu.Lock()
			defer r.mu.Unlock()
			if fails == 0 {
				r.harnessErrs = append(r.harnessErrs, fmt.Sprintf("flaky: %s[%d] %s in a worker but not when re-run alone", sp.Name, c.idx, c.kind))
				return
			}
			if fails < reps {
				r.harnessErrs = append(r.harnessErrs, fmt.Sprintf("flaky: %s[%d] failed %d/%d re-runs", sp.Name, c.idx, fails, reps))
				return
			}
			key := c.kind + "|" + CrashSignature(lastErr)
			if c.kind == "hang" {
				key = "hang|space=" + r.spaces[c.si].Name
			}
			f := Failure{Space: sp.Name, Index: c.idx, Key: key, Detail: tail(lastErr, 1500)}
			if sp.Describe != nil {
				f.Witness = sp.Describe(c.idx)
			}
			r.perKey[key]++
			r.failures = append(r.failures, f)
		}(c)
	}
	cwg.Wait()
}

type workerProc struct {
	cmd    *exec.Cmd
	in     *bufio.Writer
	out    *bufio.Reader
	lines  chan []byte
	errBuf *tailBuf
}

type tailBuf struct {
	mu sync.Mutex
	b  []byte
}

func (t *tailBuf) Write(p []byte) (int, error) {
	t.mu.Lock()
	defer t.mu.Unlock()
	t.b = append(t.b, p...)
	if len(t.b) > 1<<16 {
		t.b = t.b[:1<<15] // keep the HEAD: the panic header is first
	}
	return len(p), nil
}

func startWorker(self, tier, hbPath string) (*workerProc, error) {
	cmd := exec.Command(self, "--worker", hbPath, tier)
	cmd.Env = append(os.Environ(), "GOTRACEBACK=all", "VERIF_TIER="+tier)
	stdin, err := cmd.StdinPipe()
	if err != nil {
		return nil, err
	}
	stdout, err := cmd.StdoutPipe()
	if err != nil {
		return nil, err
	}
	p := &workerProc{cmd: cmd, errBuf: &tailBuf{}}
	cmd.Stderr = p.errBuf
	if err := cmd.Start(); err != nil {
		return nil, err
	}
	p.in = bufio.NewWriter(stdin)
	p.out = bufio.NewReaderSize(stdout, 1<<20)
	p.lines = make(chan []byte, 1)
	go func() {
		defer close(p.lines)
		for {
			b, err := p.out.ReadBytes('\n')
			if len(b) > 0 && err == nil {
				p.lines <- b
			}
			if err != nil {
				return
			}
		}
	}()
	return p, nil
}

func (p *workerProc) do(j job, hb *heartbeat, hang time.Duration) (chunkResult, string) {
	fmt.Fprintf(p.in, "%d %d %d\n", j.si, j.from, j.to)
	p.in.Flush()
	w := hb.words()
	lastSeq := atomic.LoadUint64(&w[0])
	lastChange := time.Now()
	tick := time.NewTicker(500 * time.Millisecond)
	defer tick.Stop()
	for {
		select {
		case b, ok := <-p.lines:
			if !ok {
				p.cmd.Wait()
				return chunkResult{}, "crash"
			}
			var cr chunkResult
			if err := json.Unmarshal(b, &cr); err != nil {
				return chunkResult{}, "crash"
			}
			return cr, ""
		case <-tick.C:
			s := atomic.LoadUint64(&w[0])
			if s != lastSeq {
				lastSeq, lastChange = s, time.Now()
			} else if time.Since(lastChange) > hang {
				return chunkResult{}, "hang"
			}
		}
	}
}

func (p *workerProc) stderrTail() string {
	p.errBuf.mu.Lock()
	defer p.errBuf.mu.Unlock()
	return string(p.errBuf.b)
}

func (p *workerProc) stop() {
	p.cmd.Process.Kill()
	p.cmd.Wait()
}

func runOne(self, tier, space string, idx uint64, timeout time.Duration) (int, string) {
	cmd := exec.Command(self, "--one", fmt.Sprintf("%s:%d", space, idx), tier)
	cmd.Env = append(os.Environ(), "GOTRACEBACK=all", "VERIF_TIER="+tier)
	eb := &tailBuf{}
	cmd.Stderr = eb
	cmd.Stdout = nil
	if err := cmd.Start(); err != nil {
		return 2, err.Error()
	}
	done := make(chan error, 1)
	go func() { done <- cmd.Wait() }()
	select {
	case <-done:
		return cmd.ProcessState.ExitCode(), string(eb.b)
	case <-time.After(timeout):
		cmd.Process.Kill()
		<-done
		return 99, "hang: no result within " + timeout.String()
	}
}

func findSpace(spaces []Space, name string) *Space {
	for i := range spaces {
		if spaces[i].Name == name {
			return &spaces[i]
		}
	}
	return nil
}

func doOne(spaces []Space, arg string) int {
	k := strings.LastIndex(arg, ":")
	sp := findSpace(spaces, arg[:k])
	idx, _ := strconv.ParseUint(arg[k+1:], 10, 64)
	if sp == nil || idx >= sp.Size {
		fmt.Fprintln(os.Stderr, "no such case", arg)
		return 3
	}
	o := sp.Eval(idx) // a crash here exits with status 2 (Go runtime), a hang is the caller's timeout
	if o.OK {
		return 0
	}
	fmt.Printf("FAIL %s key=%s\n%s\n", arg, o.Key, o.Detail)
	return 1
}

func doReplay(c *Check, spaces []Space, path string) int {
	b, err := os.ReadFile(path)
	if err != nil {
		fmt.Fprintln(os.Stderr, err)
		return 2
	}
	var rp struct {
		Space string `json:"space"`
		Index uint64 `json:"index"`
		Key   string `json:"key"`
	}
	if err := json.Unmarshal(b, &rp); err != nil {
		fmt.Fprintln(os.Stderr, err)
		return 2
	}
	sp := findSpace(spaces, rp.Space)
	if sp == nil || rp.Index >= sp.Size {
		fmt.Fprintf(os.Stderr, "replay: space %q index %d not in tier (try the tier recorded in the replay file)\n", rp.Space, rp.Index)
		return 2
	}
	if sp.Describe != nil {
		w, _ := json.Marshal(sp.Describe(rp.Index))
		fmt.Printf("case %s[%d]: %s\n", rp.Space, rp.Index, w)
	}
	if c.Isolated {
		self, _ := os.Executable()
		code, errOut := runOne(self, Tier(flag.Args()), rp.Space, rp.Index, 60*time.Second)
		if code == 0 {
			fmt.Println("replay: case passes")
			return 0
		}
		fmt.Printf("replay: case fails (exit %d)\n%s\n", code, tail(errOut, 3000))
		fmt.Printf("VIOLATION property=%s replay=%s\n", c.ID, path)
		return 1
	}
	o, h := evalCase(sp, rp.Index)
	if h != "" {
		fmt.Println(h)
		return 2
	}
	if o.OK {
		fmt.Println("replay: case passes")
		return 0
	}
	fmt.Printf("replay: case fails key=%s\n%s\n", o.Key, o.Detail)
	fmt.Printf("VIOLATION property=%s replay=%s\n", c.ID, path)
	return 1
}

func (r *run) coverage() map[string]any {
	distinct := r.nontrivial
	anyNI := false
	var injNontr uint64
	for i, s := range r.spaces {
		if s.NotInjective {
			anyNI = true
		} else {
			injNontr += r.stats[i].Nontr
		}
	}
	if anyNI {
		distinct = injNontr + uint64(len(r.hashes))
	}
	exhaustive := !r.capHit
	for _, s := range r.stats {
		if s.Done < s.Size {
			exhaustive = false
		}
	}
	var samples []any
	for _, sp := range r.spaces {
		if sp.Describe == nil || sp.Size == 0 {
			continue
		}
		for _, i := range []uint64{0, sp.Size / 3, sp.Size / 2, sp.Size - 1} {
			samples = append(samples, map[string]any{"space": sp.Name, "index": i, "case": sp.Describe(i)})
			if len(samples) >= 24 {
				break
			}
		}
	}
	if len(samples) == 0 {
		samples = append(samples, "no Describe available")
	}
	cov := map[string]any{
		"evaluations":                   r.evals,
		"distinct_nontrivial":           distinct,
		"rule":                          r.c.Rule,
		"samples":                       samples,
		"states":                        distinct,
		"transitions":                   r.ops,
		"traces_validated_against_impl": r.evals,
		"exhaustive":                    exhaustive,
		"cap_hit":                       r.capHit,
		"outcome_classes":               r.classes,
		"spaces":                        r.stats,
		"workers":                       r.workers(),
		"isolated_workers":              r.c.Isolated,
		"failing_cases_by_key":          r.keyCount,
	}
	if len(r.classes) <= 1 && r.evals > 1 {
		cov["warning"] = "only one outcome class observed"
	}
	return cov
}

// ---- helpers ----

// Hash64 hashes strings to 64 bits.
func Hash64(parts ...string) uint64 {
	h := fnv.New64a()
	for _, p := range parts {
		h.Write([]byte(p))
		h.Write([]byte{0})
	}
	return h.Sum64()
}

// FirstRepoFrame extracts the first github.com/open2b/scriggo function named in a stack trace.
func FirstRepoFrame(stack string) string {
	// when the panic was re-panicked by deferred functions the original site is
	// below the last "panic(" line of the trace
	if i := strings.LastIndex(stack, "\npanic("); i >= 0 {
		if fr := firstRepoFrame(stack[i+1:]); fr != "" {
			return fr
		}
	}
	return firstRepoFrame(stack)
}

func firstRepoFrame(stack string) string {
	for _, ln := range strings.Split(stack, "\n") {
		ln = strings.TrimSpace(ln)
		if strings.HasPrefix(ln, "github.com/open2b/scriggo") && strings.Contains(ln, "(") {
			fn := ln[:strings.LastIndex(ln, "(")]
			fn = strings.TrimPrefix(fn, "github.com/open2b/scriggo/")
			if strings.HasPrefix(fn, "internal/runtime.verif") {
				continue
			}
			return fn
		}
	}
	return ""
}

// NormMsg normalises a panic/error message: digits runs → N, hex addresses → ADDR.
func NormMsg(s string) string {
	if i := strings.IndexByte(s, '\n'); i >= 0 {
		s = s[:i]
	}
	var b strings.Builder
	inNum := false
	for i := 0; i < len(s); i++ {
		ch := s[i]
		if ch >= '0' && ch <= '9' {
			if !inNum {
				b.WriteByte('N')
				inNum = true
			}
			continue
		}
		inNum = false
		b.WriteByte(ch)
	}
	r := b.String()
	if len(r) > 120 {
		r = r[:120]
	}
	return r
}

// CrashSignature reduces a crashed process's stderr to "frame|message".
func CrashSignature(stderr string) string {
	msg := ""
	for _, ln := range strings.Split(stderr, "\n") {
		if strings.HasPrefix(ln, "panic: ") || strings.HasPrefix(ln, "fatal error: ") {
			msg = ln
			break
		}
	}
	if strings.HasPrefix(stderr, "hang:") {
		return "hang"
	}
	// the first goroutine listed after the header is the panicking one
	fr := ""
	if i := strings.Index(stderr, "goroutine "); i >= 0 {
		fr = FirstRepoFrame(stderr[i:])
	}
	return fr + "|" + NormMsg(msg)
}

func tail(s string, n int) string {
	if len(s) <= n {
		return s
	}
	return s[:n] + "…"
}

// Mixed decodes index i in mixed radix given the radices; least significant first.
func Mixed(i uint64, radices ...uint64) []uint64 {
	out := make([]uint64, len(radices))
	for k, r := range radices {
		out[k] = i % r
		i /= r
	}
	return out
}

// Product returns the product of the radices.
func Product(radices ...uint64) uint64 {
	p := uint64(1)
	for _, r := range radices {
		p *= r
	}
	return p
}

// StringsUpTo is the space of all strings over alphabet of length 0..n, shortest first.
type StringsUpTo struct {
	Alphabet []string
	N        int
	starts   []uint64 // starts[l] = index of first string of length l
}

// NewStringsUpTo builds the enumerator.
func NewStringsUpTo(alphabet []string, n int) *StringsUpTo {
	s := &StringsUpTo{Alphabet: alphabet, N: n}
	tot, p := uint64(0), uint64(1)
	for l := 0; l <= n; l++ {
		s.starts = append(s.starts, tot)
		tot += p
		p *= uint64(len(alphabet))
	}
	s.starts = append(s.starts, tot)
	return s
}

// Size is the number of strings.
func (s *StringsUpTo) Size() uint64 { return s.starts[len(s.starts)-1] }

// Atoms returns the atom indexes of string i.
func (s *StringsUpTo) Atoms(i uint64) []int {
	l := 0
	for l+1 < len(s.starts) && i >= s.starts[l+1] {
		l++
	}
	i -= s.starts[l]
	out := make([]int, l)
	k := uint64(len(s.Alphabet))
	for p := l - 1; p >= 0; p-- {
		out[p] = int(i % k)
		i /= k
	}
	return out
}

// At returns string i.
func (s *StringsUpTo) At(i uint64) string {
	var b strings.Builder
	for _, a := range s.Atoms(i) {
		b.WriteString(s.Alphabet[a])
	}
	return b.String()
}
