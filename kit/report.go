package kit

import (
	"crypto/sha1"
	"encoding/json"
	"fmt"
	"os"
	"path/filepath"
	"sort"
	"strings"
	"time"
)

// Finding is one entry of known_findings.json.
type Finding struct {
	Property string `json:"property"`
	Key      string `json:"key"`
	Status   string `json:"status"` // "known" | "fixed"
	Commit   string `json:"commit,omitempty"`
	Witness  any    `json:"witness,omitempty"`
	What     string `json:"what"`
	// Cases is the exact number of failing cases of this key on the tree the
	// finding was recorded on, per tier. A complete run that sees MORE failing
	// cases under the key reports a violation: a new defect that happens to
	// fall under the key of a recorded one must not hide behind it.
	Cases map[string]int `json:"cases,omitempty"`
}

// LoadFindings reads /verif/known_findings.json (never written at run time).
func LoadFindings() []Finding {
	b, err := os.ReadFile(filepath.Join(root, "known_findings.json"))
	if err != nil {
		return nil
	}
	var fs []Finding
	if err := json.Unmarshal(b, &fs); err != nil {
		fmt.Fprintln(os.Stderr, "known_findings.json:", err)
		os.Exit(2)
	}
	return fs
}

// Finish groups failures by key, prints KNOWN-FINDING / VIOLATION lines,
// writes replays and the evidence file and returns the exit code.
func Finish(id, level, tier string, cov map[string]any, assumptions []string, failures []Failure, harnessErrs []string, start time.Time) int {
	known := map[string]Finding{}
	for _, f := range LoadFindings() {
		if f.Property == id && f.Status == "known" {
			known[f.Key] = f
		}
	}
	byKey := map[string][]Failure{}
	for _, f := range failures {
		byKey[f.Key] = append(byKey[f.Key], f)
	}
	keys := make([]string, 0, len(byKey))
	for k := range byKey {
		keys = append(keys, k)
	}
	sort.Strings(keys)
	violations := 0
	counts, _ := cov["failing_cases_by_key"].(map[string]int)
	var knownSeen []string
	var vioKeys []string
	for _, k := range keys {
		fs := byKey[k]
		sort.Slice(fs, func(a, b int) bool {
			if fs[a].Space != fs[b].Space {
				return fs[a].Space < fs[b].Space
			}
			return fs[a].Index < fs[b].Index
		})
		if kf, ok := known[k]; ok {
			fmt.Printf("KNOWN-FINDING: property=%s %s — %s\n", id, k, kf.What)
			knownSeen = append(knownSeen, k)
			want, recorded := kf.Cases[tier]
			have := counts[k]
			if !recorded || have <= want || cov["exhaustive"] != true {
				continue
			}
			k = fmt.Sprintf("%s [%d failing cases, %d recorded with the finding]", k, have, want)
			fs = append([]Failure{}, fs...)
			fs[0].Detail = fmt.Sprintf("the known finding %q covers %d failing cases on the tree it was recorded on; this run has %d: other inputs now fail in the same way.\n(the witnesses listed are the smallest failing cases of the key, old and new)\n%s", kf.Key, want, have, fs[0].Detail)
		}
		violations++
		vioKeys = append(vioKeys, k)
		path := writeReplay(id, tier, k, fs)
		fmt.Printf("VIOLATION property=%s replay=%s\n", id, path)
		fmt.Printf("  key: %s\n  smallest witness: %s[%d]\n  %s\n", k, fs[0].Space, fs[0].Index, indent(tail(fs[0].Detail, 1200)))
	}
	cov["known_keys_seen"] = knownSeen
	cov["violation_keys"] = vioKeys
	if len(harnessErrs) > 0 {
		if len(harnessErrs) > 20 {
			harnessErrs = harnessErrs[:20]
		}
		cov["harness_errors"] = harnessErrs
	}
	ev := map[string]any{
		"property_id": id,
		"tier":        tier,
		"seed":        Seed(),
		"level":       level,
		"coverage":    cov,
		"assumptions": assumptions,
		"wall_s":      time.Since(start).Seconds(),
		"violations":  violations,
	}
	b, _ := json.MarshalIndent(ev, "", " ")
	os.MkdirAll(filepath.Join(outRoot(), "evidence"), 0o755)
	if err := os.WriteFile(filepath.Join(outRoot(), "evidence", id+".json"), append(b, '\n'), 0o644); err != nil {
		fmt.Fprintln(os.Stderr, "evidence:", err)
		return 2
	}
	fmt.Printf("%s %s: evaluations=%v distinct_nontrivial=%v exhaustive=%v violations=%d known=%d wall=%.1fs\n",
		id, tier, cov["evaluations"], cov["distinct_nontrivial"], cov["exhaustive"], violations, len(knownSeen), time.Since(start).Seconds())
	if violations > 0 {
		return 1
	}
	if len(harnessErrs) > 0 {
		for _, h := range harnessErrs {
			fmt.Fprintln(os.Stderr, "HARNESS-ERROR:", tail(h, 2000))
		}
		return 2
	}
	return 0
}

// outRoot is where evidence and replays are written: /verif, or the scratch
// directory named by VERIF_OUT_ROOT (used by bin/mutate so that a run against a
// deliberately broken tree never overwrites the real evidence).
func outRoot() string {
	if r := os.Getenv("VERIF_OUT_ROOT"); r != "" {
		return r
	}
	return root
}

func indent(s string) string { return strings.ReplaceAll(s, "\n", "\n  ") }

func writeReplay(id, tier, key string, fs []Failure) string {
	dir := filepath.Join(outRoot(), "replays", id)
	os.MkdirAll(dir, 0o755)
	h := sha1.Sum([]byte(key))
	path := filepath.Join(dir, fmt.Sprintf("%x.json", h[:6]))
	more := []Failure{}
	if len(fs) > 1 {
		more = fs[1:]
		if len(more) > 10 {
			more = more[:10]
		}
	}
	rp := map[string]any{
		"property": id,
		"tier":     tier,
		"key":      key,
		"space":    fs[0].Space,
		"index":    fs[0].Index,
		"witness":  fs[0].Witness,
		"detail":   fs[0].Detail,
		"count":    len(fs),
		"more":     more,
	}
	b, _ := json.MarshalIndent(rp, "", " ")
	os.WriteFile(path, append(b, '\n'), 0o644)
	return path
}
