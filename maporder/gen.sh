#!/bin/bash
# Generates the GOROOT overlay that gives the harness control over Go map
# iteration order (go1.26.8 only; see DESIGN.md §3.3). Output: /verif/.build/maporder/overlay.json
set -eu
GOROOT126=/opt/veriftools/go1.26.8
OUT=/verif/.build/maporder
mkdir -p $OUT
SRC=$GOROOT126/src/internal/runtime/maps
python3 - "$SRC" "$OUT" <<'PY'
import sys,re,json
src,out=sys.argv[1],sys.argv[2]
t=open(src+'/table.go').read()
assert t.count('it.entryOffset = rand()')==1 and t.count('it.dirOffset = rand()')==1
t=t.replace('it.entryOffset = rand()','it.entryOffset, it.dirOffset = verifIterOffsets()').replace('\tit.dirOffset = rand()\n','')
open(out+'/table.go','w').write(t)
m=open(src+'/map.go').read()
n=m.count('uintptr(rand())')
assert n>=3, n
m=m.replace('uintptr(rand())','uintptr(verifSeed())')
open(out+'/map.go','w').write(m)
open(out+'/verif_iter.go','w').write('''package maps

import _ "unsafe"

// Harness-controlled map iteration order (verification overlay, never part of a normal toolchain).
// mode 0: stock behaviour (random). mode 1: iterator number i (counted from the
// last reset) starts at entry/directory offset uniform, except iterator number
// devIndex which starts at devOffset; new maps get the fixed hash seed.
var (
	verifMode      uint64
	verifCounter   uint64
	verifUniform   uint64
	verifDevIndex  uint64
	verifDevOffset uint64
	verifFixedSeed uint64
)

func verifIterOffsets() (uint64, uint64) {
	if verifMode == 0 {
		return rand(), rand()
	}
	i := verifCounter
	verifCounter++
	if i == verifDevIndex {
		return verifDevOffset, verifDevOffset
	}
	return verifUniform, verifUniform
}

func verifSeed() uint64 {
	if verifMode == 0 {
		return rand()
	}
	return verifFixedSeed
}

// VerifMapOrder sets the control state and returns the number of iterators
// initialised since the previous call.
//
//go:linkname VerifMapOrder
func VerifMapOrder(mode, uniform, devIndex, devOffset, seed uint64) uint64 {
	n := verifCounter
	verifMode, verifUniform, verifDevIndex, verifDevOffset, verifFixedSeed = mode, uniform, devIndex, devOffset, seed
	verifCounter = 0
	return n
}
''')
json.dump({"Replace":{src+'/table.go':out+'/table.go',src+'/map.go':out+'/map.go',src+'/verif_iter.go':out+'/verif_iter.go'}},open(out+'/overlay.json','w'),indent=1)
PY
echo generated $OUT/overlay.json
