#!/bin/bash
# usage: bin/schedcheck.sh <ID> <pkg> <race:0|1> [quick|thorough] [--replay path] [--build-only]
# Scheduler-based checks are go test binaries (testing/synctest needs *testing.T).
set -u
cd /verif
. bin/env.sh
ID=$1; PKG=$2; RACE=$3; shift 3
tier=quick; replay=""; buildonly=0
while [ $# -gt 0 ]; do
  case "$1" in
    quick|thorough) tier="$1"; shift;;
    --replay) replay="$2"; shift 2;;
    --build-only) buildonly=1; shift;;
    *) shift;;
  esac
done
mkdir -p .build
GO=go; TAGS=verif
if [ "${VERIF_INTRA:-0}" = 1 ]; then
  # intra-instruction scheduling points: go1.26.8 + the reflect overlay (chanpoints/gen.sh, sched/intra_on.go)
  chanpoints/gen.sh >/dev/null || { echo "HARNESS-ERROR: reflect overlay generation failed" >&2; exit 2; }
  OV=.build/chanpoints/overlay.json
  if [ -n "${VERIF_OVERLAY:-}" ]; then
    python3 -c "import json,sys;a=json.load(open('.build/chanpoints/overlay.json'));b=json.load(open(sys.argv[1]));a['Replace'].update(b['Replace']);json.dump(a,open('.build/chanpoints/overlay.$ID.json','w'))" "$VERIF_OVERLAY" || exit 2
    OV=.build/chanpoints/overlay.$ID.json
  fi
  export GOTOOLCHAIN=local GOFLAGS="-mod=mod -overlay=$PWD/$OV"
  GO=/opt/veriftools/go1.26.8/bin/go; TAGS=verif,verifreflect
fi
if ! $GO test -c -tags $TAGS -o .build/$ID.test $PKG 2>.build/$ID.buildlog; then
  cat .build/$ID.buildlog >&2
  echo "HARNESS-ERROR: build of $ID against /repo's working tree failed" >&2
  exit 2
fi
if [ "$RACE" = 1 ] && [ -z "$replay" ]; then
  if ! $GO test -c -race -tags $TAGS -o .build/$ID.race.test $PKG 2>.build/$ID.race.buildlog; then
    cat .build/$ID.race.buildlog >&2
    echo "HARNESS-ERROR: -race build of $ID failed" >&2
    exit 2
  fi
fi
[ $buildonly = 1 ] && exit 0
VERIF_TIER=$tier VERIF_REPLAY=$replay exec .build/$ID.test -test.run '^TestVerif$' -test.timeout 0
