# sourced by every script: offline Go environment (see DESIGN.md §11)
export GOPROXY=off GOPRIVATE='*' GOTOOLCHAIN=auto GONOSUMDB='*'
export GOFLAGS=-mod=mod
# bin/mutate (overlay mode) sets VERIF_OVERLAY to a go build overlay file that
# substitutes deliberately broken copies of /repo files without touching /repo.
if [ -n "${VERIF_OVERLAY:-}" ]; then export GOFLAGS="$GOFLAGS -overlay=$VERIF_OVERLAY"; fi
export VERIF_ROOT=/verif
export PATH=$PATH:/usr/local/go/bin
