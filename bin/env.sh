# sourced by every script: offline Go environment (see DESIGN.md §11)
export GOFLAGS=-mod=mod GOPROXY=off GOPRIVATE='*' GOTOOLCHAIN=auto GONOSUMDB='*' GONOSUMCHECK=1 GOFLAGS=-mod=mod
export VERIF_ROOT=/verif
export PATH=$PATH:/usr/local/go/bin
