#!/usr/bin/env python3
"""Generates /verif/MANIFEST.json from the table below (kept valid at all times)."""
import json, os, subprocess
ROOT = '/verif'
props = [json.loads(l) for l in open(f'{ROOT}/properties.jsonl')]
# id -> (category, engine, technique, level text, level note, design ref)
CHECKS = json.load(open(f'{ROOT}/bin/checks_table.json'))
hooks_commits = []
try:
    out = subprocess.run(['git', '-C', '/repo', 'log', '--format=%H %s'], capture_output=True, text=True).stdout
    hooks_commits = [l.split()[0] for l in out.splitlines() if ' verif-hook:' in l or ' verif hook' in l]
except Exception:
    pass
m = {
    "version": 1,
    "setup_cmd": "bin/setup",
    "hooks": {
        "guard": "verif (Go build tag)",
        "enable": "go build -tags verif (bin/check does this for every check)",
        "baseline_off_cmd": "cd /repo && for m in . test; do (cd $m && GOFLAGS=-mod=mod go test -vet=off -count=1 -timeout 25m ./...); done",
        "source_commits": hooks_commits,
        "add_only": True,
    },
    "engines": [
        {"name": "E1 kit", "path": "kit/", "kind_free_text": "small-scope enumerator: complete enumeration of index-addressable finite spaces on the real code, crash-isolated workers, keyed findings", "serves_properties": sorted(k for k, v in CHECKS.items() if v["engine"].startswith("E1"))},
        {"name": "E2 sched", "path": "sched/", "kind_free_text": "controlled scheduler over the real VM (testing/synctest bubble + verif hooks), stateless DFS with iterative preemption bounding", "serves_properties": sorted(k for k, v in CHECKS.items() if "E2" in v["engine"])},
        {"name": "E3 deviations", "path": "kit/", "kind_free_text": "deviation enumerators: every write-failure index, lookup-failure index, map-iteration offset", "serves_properties": sorted(k for k, v in CHECKS.items() if "E3" in v["engine"])},
    ],
    "checks": [],
    "not_applicable": [],
    "notes": "All checks decide by complete enumeration of a stated bounded space on the real code (model checking family); see DESIGN.md.",
}
for p in props:
    i = p["id"]
    if i in CHECKS:
        c = CHECKS[i]
        m["checks"].append({
            "property_id": i,
            "quick_cmd": f"bin/check {i} quick",
            "thorough_cmd": f"bin/check {i} thorough",
            "evidence_file": f"/verif/evidence/{i}.json",
            "replay_cmd_template": f"bin/check {i} " + c.get("replay_tier", "thorough") + " --replay {path}",
            "engine": c["engine"],
            "level_claimed": {"category": c["category"], "text": c["text"], "design_ref": c.get("design_ref", "DESIGN.md §7 " + i)},
            "level_note": c["note"],
            "technique": c["technique"],
        })
    else:
        m["not_applicable"].append({"property_id": i, "reason": "no check registered yet in this commit (work in progress; see DESIGN.md §7 for the planned bounded-exhaustive check)"})
json.dump(m, open(f'{ROOT}/MANIFEST.json', 'w'), indent=1)
print("checks:", len(m["checks"]), "not_applicable:", len(m["not_applicable"]))
