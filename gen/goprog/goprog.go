// Package goprog turns families of tiny generated Go test functions into
// (a) batched source files for the gc reference oracle (oracle/gcref) and
// (b) single-case programs for Scriggo, and compares the two, case by case.
//
// A family is an index-addressable set of cases. The gc side is batched
// (BatchSize test functions per source file, called through dispatcher
// functions, a marker line before each) because a gc build costs ~0.5 s; the
// Scriggo side runs every case as its own program, so that a build error, a
// host panic or a hang is attributed to exactly one case and cannot mask the
// others (this is the "bisection" of a disagreeing batch, done always).
package goprog

import (
	"bytes"
	"context"
	"errors"
	"fmt"
	"regexp"
	"runtime/debug"
	"sort"
	"strconv"
	"strings"
	"sync"
	"sync/atomic"
	"time"

	"verif/kit"
	"verif/oracle/gcref"

	"github.com/open2b/scriggo"
)

// BatchSize is the number of cases per gc source file. It equals kit's chunk
// size, so that in isolated mode every batch is needed by exactly one worker.
const BatchSize = 512

// Case is one generated test.
type Case struct {
	// Decls are package-level declarations private to the case; every name
	// declared must carry the case index as a suffix (the generator gets it).
	Decls string
	// Body is the body of the test function, after the recover wrapper.
	Body string
	// Key is the defect-class part of the failure key ("family=arith op=/ form=var/var").
	Key string
	// Kind is appended to the key (" kind=int8") only when both sides complete
	// with a value: fault detection and build errors are kind-independent.
	Kind string
	// Attrs describe the case for the witness.
	Attrs map[string]any
	// Tagged marks cases whose output lines all start with "<index>:" and are
	// produced before main runs (package initialisation): the per-case gc
	// output is the subsequence of the batch's lines carrying the tag.
	Tagged bool
	// NoWrap: the body runs without the recover wrapper.
	NoWrap bool
	// CoarseBuildErr keys a Scriggo build error by the family only (the first
	// word of Key): used when the other key attributes cannot matter for it.
	CoarseBuildErr bool
	// DiffLabel adds to the key of an output mismatch where the first
	// difference is: DiffPrefix = the "name" of the first differing "name: …"
	// line; DiffLine = the first word of that line.
	DiffLabel int
}

// Values of Case.DiffLabel.
const (
	DiffNone = iota
	DiffPrefix
	DiffLine
)

// Wrapper is the deferred function that every test function starts with.
const Wrapper = `	defer func() {
		if r := recover(); r != nil {
			print("P:")
			switch v := r.(type) {
			case error:
				println(v.Error())
			case string:
				println("string", v)
			case int:
				println("int", v)
			default:
				println("other")
			}
		}
	}()
`

// Func returns the text of test function i.
func (c *Case) Func(i uint64) string {
	var b strings.Builder
	fmt.Fprintf(&b, "func t%d() {\n", i)
	if !c.NoWrap {
		b.WriteString(Wrapper)
	}
	b.WriteString(c.Body)
	if !strings.HasSuffix(c.Body, "\n") {
		b.WriteByte('\n')
	}
	b.WriteString("}\n")
	return b.String()
}

// Single returns the single-case program for case i.
func (c *Case) Single(i uint64) []byte {
	var b strings.Builder
	b.WriteString("package main\n\n")
	if c.Decls != "" {
		b.WriteString(c.Decls)
		b.WriteString("\n")
	}
	b.WriteString(c.Func(i))
	fmt.Fprintf(&b, "\nfunc main() {\n\tt%d()\n}\n", i)
	return []byte(b.String())
}

const marker = "@@"

// batchSource builds the gc source for the cases from..to-1, leaving out the
// indices in skip. lineOwner maps a 1-based line number to the case index.
func batchSource(gen func(uint64) Case, from, to uint64, skip map[uint64]bool) (src []byte, lineOwner []int64) {
	var b strings.Builder
	line := 1
	owner := []int64{-1} // line 0 unused
	write := func(s string, who int64) {
		b.WriteString(s)
		n := strings.Count(s, "\n")
		for k := 0; k < n; k++ {
			owner = append(owner, who)
		}
		line += n
	}
	write("package main\n\n", -1)
	var idx []uint64
	for i := from; i < to; i++ {
		if skip[i] {
			continue
		}
		idx = append(idx, i)
		c := gen(i)
		if c.Decls != "" {
			d := c.Decls
			if !strings.HasSuffix(d, "\n") {
				d += "\n"
			}
			write(d, int64(i))
		}
		write(c.Func(i), int64(i))
		write("\n", -1)
	}
	const perDispatcher = 100
	nd := 0
	for k := 0; k < len(idx); k += perDispatcher {
		write(fmt.Sprintf("func d%d() {\n", nd), -1)
		for _, i := range idx[k:min(k+perDispatcher, len(idx))] {
			write(fmt.Sprintf("\tprintln(\"%s%d\")\n\tt%d()\n", marker, i, i), -1)
		}
		write("}\n\n", -1)
		nd++
	}
	write("func main() {\n", -1)
	for k := 0; k < nd; k++ {
		write(fmt.Sprintf("\td%d()\n", k), -1)
	}
	write("\tprintln(\""+marker+"end\")\n}\n", -1)
	return []byte(b.String()), owner
}

var errLine = regexp.MustCompile(`(?m)^\./main\.go:(\d+):`)

// batch is the lazily computed gc result of one batch.
type batch struct {
	once     sync.Once
	out      map[uint64]string // per-case gc output
	rejected map[uint64]string // cases gc refuses to compile (generator produced an invalid program)
	err      string            // harness error
}

// Family is an index-addressable set of cases.
type Family struct {
	Name string
	Size uint64
	Gen  func(i uint64) Case
	// AllowGo builds the Scriggo programs with BuildOptions.AllowGoStmt.
	AllowGo bool
	// Batch is the number of cases per gc source file (default BatchSize).
	Batch uint64
	// Timeout, when non-zero, runs the Scriggo program with a context that
	// expires after it (used only by families with channel operations, where a
	// miscompiled program could block for ever).
	Timeout time.Duration
	// RunawayOutput, when non-zero (needs Timeout), stops the program as soon
	// as it has printed that many bytes — far more than any case of the family
	// prints: a miscompiled loop that prints for ever is then reported at once
	// and deterministically (status "runaway-output"), not after the time-out.
	RunawayOutput int

	batches []batch
	init    sync.Once
}

func (f *Family) bs() uint64 {
	if f.Batch > 0 {
		return f.Batch
	}
	return BatchSize
}

func (f *Family) batchOf(i uint64) *batch {
	n := f.bs()
	f.init.Do(func() { f.batches = make([]batch, (f.Size+n-1)/n) })
	bi := i / n
	b := &f.batches[bi]
	b.once.Do(func() { f.compute(b, bi*n, min((bi+1)*n, f.Size)) })
	return b
}

func (f *Family) compute(b *batch, from, to uint64) {
	b.out = map[uint64]string{}
	b.rejected = map[uint64]string{}
	skip := map[uint64]bool{}
	for round := 0; ; round++ {
		src, owner := batchSource(f.Gen, from, to, skip)
		res, err := gcref.Run(src)
		if err != nil {
			b.err = err.Error()
			return
		}
		if !res.BuildOK {
			// identify the offending cases from the diagnostics and retry without them
			progressed := false
			for _, ln := range strings.Split(res.BuildErr, "\n") {
				m := errLine.FindStringSubmatch(ln)
				if m == nil {
					continue
				}
				n, _ := strconv.Atoi(m[1])
				if n < len(owner) && owner[n] >= 0 {
					i := uint64(owner[n])
					if !skip[i] {
						skip[i] = true
						progressed = true
					}
					if _, dup := b.rejected[i]; !dup {
						b.rejected[i] = strings.TrimSpace(ln)
					}
				}
			}
			if !progressed || round > 20 {
				b.err = "gc rejects the batch outside any case:\n" + res.BuildErr
				return
			}
			continue
		}
		if res.TimedOut || res.ExitCode != 0 {
			b.err = fmt.Sprintf("gc batch %s[%d,%d) exit=%d timedOut=%v stderr tail: %s", f.Name, from, to, res.ExitCode, res.TimedOut, tailStr(string(res.Stderr), 800))
			return
		}
		out := string(res.Stderr)
		// tagged lines (package initialisation) come before the first marker
		tagged := map[uint64]*strings.Builder{}
		first := strings.Index(out, marker)
		if first < 0 {
			b.err = "gc batch output has no marker"
			return
		}
		for _, ln := range strings.SplitAfter(out[:first], "\n") {
			if k := strings.IndexByte(ln, ':'); k > 0 {
				if n, err := strconv.ParseUint(ln[:k], 10, 64); err == nil {
					if tagged[n] == nil {
						tagged[n] = &strings.Builder{}
					}
					tagged[n].WriteString(ln)
				}
			}
		}
		secs := strings.Split(out[first:], marker)
		sawEnd := false
		for _, s := range secs {
			if s == "" {
				continue
			}
			nl := strings.IndexByte(s, '\n')
			if nl < 0 {
				continue
			}
			if s[:nl] == "end" {
				sawEnd = true
				continue
			}
			n, err := strconv.ParseUint(s[:nl], 10, 64)
			if err != nil {
				b.err = "gc batch output has a bad marker " + strconv.Quote(s[:nl])
				return
			}
			body := s[nl+1:]
			if t := tagged[n]; t != nil {
				body = t.String() + body
			}
			b.out[n] = body
		}
		if !sawEnd {
			b.err = "gc batch did not reach its end marker"
		}
		return
	}
}

// Result of running a program with Scriggo.
type ScriggoResult struct {
	Status string // ok | build-error | panic | run-error | host-panic | timeout | unprintable
	Out    string // what print/println produced (gc formatting)
	Msg    string // error or panic text
	Frame  string // first scriggo frame of a host panic
	Ops    int
}

var posPrefix = regexp.MustCompile(`^[^ ]*:\d+:\d+: `)

// maxOutput bounds what is kept of a program's output.
const maxOutput = 1 << 20

// HangAfter is how long a Build or a Run may take before the case is declared
// hanging (a case normally takes well under a millisecond).
var HangAfter = 20 * time.Second

// RunScriggo builds and runs src with Scriggo's public API. Build and Run
// execute on their own goroutine under a watchdog: a compiler or VM that
// spins for ever is reported as status "hang" (the goroutine is abandoned; it
// keeps one core busy until the worker process ends, which is harmless).
func RunScriggo(src []byte, allowGo bool, timeout time.Duration) ScriggoResult {
	return RunScriggoBounded(src, allowGo, timeout, 0)
}

// RunScriggoBounded is RunScriggo with a bound on the output (see Family.RunawayOutput).
func RunScriggoBounded(src []byte, allowGo bool, timeout time.Duration, runaway int) ScriggoResult {
	ch := make(chan ScriggoResult, 1)
	var phase atomic.Int32
	go func() { ch <- runScriggo(src, allowGo, timeout, runaway, &phase) }()
	select {
	case r := <-ch:
		return r
	case <-time.After(HangAfter):
		what := "Build"
		if phase.Load() == 1 {
			what = "Run"
		}
		return ScriggoResult{Status: "hang", Msg: what + " did not return within " + HangAfter.String()}
	}
}

func runScriggo(src []byte, allowGo bool, timeout time.Duration, runaway int, phase *atomic.Int32) (res ScriggoResult) {
	var cancelRun context.CancelFunc
	ranAway := false
	var mu sync.Mutex
	var out []byte
	unprintable := false
	defer func() {
		if e := recover(); e != nil {
			st := string(debug.Stack())
			mu.Lock()
			res = ScriggoResult{Status: "host-panic", Msg: fmt.Sprint(e), Frame: kit.FirstRepoFrame(st), Out: string(out)}
			mu.Unlock()
		}
	}()
	var opts *scriggo.BuildOptions
	if allowGo {
		opts = &scriggo.BuildOptions{AllowGoStmt: true}
	}
	p, err := scriggo.Build(scriggo.Files{"main.go": src}, opts)
	if err != nil {
		var be *scriggo.BuildError
		if errors.As(err, &be) {
			return ScriggoResult{Status: "build-error", Msg: posPrefix.ReplaceAllString(be.Error(), "")}
		}
		return ScriggoResult{Status: "build-error", Msg: fmt.Sprintf("(%T) %v", err, err)}
	}
	ro := &scriggo.RunOptions{Print: func(v any) {
		mu.Lock()
		if runaway > 0 && len(out) > runaway && cancelRun != nil && !ranAway {
			ranAway = true
			cancelRun()
		}
		if len(out) < maxOutput { // a program that prints for ever must not exhaust the memory
			var ok bool
			out, ok = gcref.AppendPrint(out, v)
			if !ok {
				unprintable = true
			}
		}
		mu.Unlock()
	}}
	if timeout > 0 {
		ctx, cancel := context.WithTimeout(context.Background(), timeout)
		defer cancel()
		cancelRun = cancel
		ro.Context = ctx
	}
	phase.Store(1)
	err = p.Run(ro)
	mu.Lock()
	defer mu.Unlock()
	res.Out = string(out)
	switch {
	case err == nil:
		res.Status = "ok"
	case ranAway:
		res.Status = "runaway-output"
		res.Msg = fmt.Sprintf("stopped after more than %d bytes of output", runaway)
	case errors.Is(err, context.DeadlineExceeded):
		res.Status = "timeout"
		res.Msg = err.Error()
	default:
		var pe *scriggo.PanicError
		if errors.As(err, &pe) {
			res.Status = "panic"
			res.Msg = strings.TrimRight(pe.Error(), "\n")
		} else {
			res.Status = "run-error"
			res.Msg = fmt.Sprintf("(%T) %v", err, err)
		}
	}
	if unprintable && res.Status == "ok" {
		res.Status = "unprintable"
	}
	return res
}

// classify reduces an output to its class for the failure key.
func classify(out string) string {
	if i := strings.Index(out, "P:"); i >= 0 && (i == 0 || out[i-1] == '\n') {
		msg := out[i+2:]
		if j := strings.IndexByte(msg, '\n'); j >= 0 {
			msg = msg[:j]
		}
		return "panic(" + kit.NormMsg(msg) + ")"
	}
	return "value"
}

// Compare decides one case given gc's output for it.
func Compare(c *Case, want string, got ScriggoResult) kit.Outcome {
	gcClass := classify(want)
	o := kit.Outcome{OK: true, Nontrivial: true, Class: "gc=" + classHead(gcClass) + " scriggo=same", Ops: 1}
	if got.Status == "ok" && got.Out == want {
		return o
	}
	o.OK = false
	var sc string
	withKind := false
	familyOnly := false // the defect does not depend on the operator/form: key it by family only
	switch got.Status {
	case "ok":
		sc = classify(got.Out)
		switch {
		case sc == "value" && gcClass == "value":
			sc = "wrong-value"
			withKind = true
			if c.DiffLabel != DiffNone {
				sc += "(first difference at " + firstDiffLabel(want, got.Out, c.DiffLabel) + ")"
			}
		case sc == gcClass:
			gcClass = "panic"
			sc = "same-panic-but-output-differs"
			if c.DiffLabel != DiffNone {
				sc += "(first difference at " + firstDiffLabel(want, got.Out, c.DiffLabel) + ")"
			}
		case strings.HasPrefix(sc, "panic(") && strings.HasPrefix(gcClass, "panic(") && strings.HasPrefix(gcClass, strings.TrimSuffix(sc, ")")):
			// Scriggo's message is a proper prefix of gc's (e.g. the shortened slice-bounds text)
			gcClass = strings.TrimSuffix(sc, ")") + "…)"
			sc = "panic-text-shortened"
			familyOnly = true
		case gcClass == "value":
			withKind = true
		}
	case "build-error":
		if strings.Contains(got.Msg, "not supported in this release of Scriggo") {
			// Scriggo states that the construct is outside the subset it implements:
			// the program is not in the property's domain
			return kit.Outcome{OK: true, Class: "outside Scriggo's subset (" + kit.NormMsg(got.Msg) + ")", Ops: 1}
		}
		sc = "build-error(" + kit.NormMsg(got.Msg) + ")"
		familyOnly = c.CoarseBuildErr
	case "host-panic":
		sc = "host-panic"
		o.Key = "hostpanic|" + got.Frame + "|" + kit.NormMsg(got.Msg)
	case "panic":
		sc = "unrecovered-panic(" + kit.NormMsg(got.Msg) + ")"
	default:
		sc = got.Status
		if got.Msg != "" {
			sc += "(" + kit.NormMsg(got.Msg) + ")"
		}
	}
	if o.Key == "" {
		o.Key = c.Key
		if familyOnly {
			if i := strings.IndexByte(o.Key, ' '); i > 0 {
				o.Key = o.Key[:i]
			}
		}
		if withKind && c.Kind != "" {
			o.Key += " kind=" + c.Kind
		}
		o.Key += " gc=" + gcClass + " scriggo=" + sc
	}
	o.Class = "FAIL gc=" + classHead(gcClass) + " scriggo=" + classHead(sc)
	o.Detail = fmt.Sprintf("gc output:      %q\nscriggo output: %q\nscriggo status: %s %s", want, cut(got.Out, 1500), got.Status, got.Msg)
	return o
}

// firstDiffLabel names the first line of want that got does not reproduce.
func firstDiffLabel(want, got string, mode int) string {
	w := strings.Split(want, "\n")
	g := strings.Split(got, "\n")
	label := func(ln string) string {
		if mode == DiffPrefix {
			if k := strings.IndexByte(ln, ':'); k > 0 {
				return ln[:k]
			}
		}
		// the first word of the line names what the line reports
		if k := strings.IndexAny(ln, " :"); k > 0 {
			ln = ln[:k]
		}
		return strconv.Quote(kit.NormMsg(ln))
	}
	for i := range w {
		if i >= len(g) || w[i] != g[i] {
			if w[i] == "" && i < len(g) {
				return "extra scriggo line " + label(g[i])
			}
			return "gc line " + label(w[i])
		}
	}
	return "extra scriggo output"
}

func classHead(s string) string {
	if i := strings.IndexByte(s, '('); i >= 0 {
		return s[:i]
	}
	return s
}

// Space returns the kit space of the family.
func (f *Family) Space() kit.Space {
	return kit.Space{
		Name: f.Name,
		Size: f.Size,
		Eval: func(i uint64) kit.Outcome {
			b := f.batchOf(i)
			if b.err != "" {
				panic("harness: gc oracle unavailable for " + f.Name + ": " + b.err)
			}
			c := f.Gen(i)
			if why, bad := b.rejected[i]; bad {
				// the generator produced a program gc does not accept: it is not
				// in the property's domain. Counted, never silently.
				return kit.Outcome{OK: true, Class: "not-a-valid-program(gc rejects)", Detail: why}
			}
			want, ok := b.out[i]
			if !ok {
				panic(fmt.Sprintf("harness: gc output of %s[%d] is missing", f.Name, i))
			}
			got := RunScriggoBounded(c.Single(i), f.AllowGo, f.Timeout, f.RunawayOutput)
			o := Compare(&c, want, got)
			if !o.OK {
				o.Detail = "program:\n" + string(c.Single(i)) + "\n" + o.Detail
			}
			return o
		},
		Describe: func(i uint64) any {
			c := f.Gen(i)
			m := map[string]any{"program": string(c.Single(i))}
			keys := make([]string, 0, len(c.Attrs))
			for k := range c.Attrs {
				keys = append(keys, k)
			}
			sort.Strings(keys)
			for _, k := range keys {
				m[k] = c.Attrs[k]
			}
			return m
		},
	}
}

// BatchSource returns the gc source of batch bi (for debugging and setup).
func (f *Family) BatchSource(bi uint64) []byte {
	src, _ := batchSource(f.Gen, bi*f.bs(), min((bi+1)*f.bs(), f.Size), nil)
	return src
}

// Want returns gc's output for case i; rejected is non-empty when gc refuses
// to compile the case; err is a harness error (oracle unavailable).
func (f *Family) Want(i uint64) (out string, rejected string, err error) {
	b := f.batchOf(i)
	if b.err != "" {
		return "", "", errors.New(b.err)
	}
	if why, bad := b.rejected[i]; bad {
		return "", why, nil
	}
	out, ok := b.out[i]
	if !ok {
		return "", "", fmt.Errorf("gc output of %s[%d] is missing", f.Name, i)
	}
	return out, "", nil
}

// Prefill computes (or loads) the gc results of every batch of the family,
// in parallel; used by setup.sh to warm the cache.
func (f *Family) Prefill(par int) error {
	nb := (f.Size + f.bs() - 1) / f.bs()
	sem := make(chan struct{}, par)
	var wg sync.WaitGroup
	var mu sync.Mutex
	var first error
	for bi := uint64(0); bi < nb; bi++ {
		wg.Add(1)
		sem <- struct{}{}
		go func(bi uint64) {
			defer wg.Done()
			defer func() { <-sem }()
			b := f.batchOf(bi * f.bs())
			if b.err != "" {
				mu.Lock()
				if first == nil {
					first = errors.New(b.err)
				}
				mu.Unlock()
			}
		}(bi)
	}
	wg.Wait()
	return first
}

// PrefillAll warms the gc results of every batch of every family with at most
// par gc builds at a time.
func PrefillAll(fams []*Family, par int) error {
	type job struct {
		f  *Family
		bi uint64
	}
	var jobs []job
	for _, f := range fams {
		nb := (f.Size + f.bs() - 1) / f.bs()
		for bi := uint64(0); bi < nb; bi++ {
			jobs = append(jobs, job{f, bi})
		}
	}
	sem := make(chan struct{}, par)
	var wg sync.WaitGroup
	var mu sync.Mutex
	var first error
	for _, j := range jobs {
		wg.Add(1)
		sem <- struct{}{}
		go func(j job) {
			defer wg.Done()
			defer func() { <-sem }()
			if b := j.f.batchOf(j.bi * j.f.bs()); b.err != "" {
				mu.Lock()
				if first == nil {
					first = errors.New(j.f.Name + ": " + b.err)
				}
				mu.Unlock()
			}
		}(j)
	}
	wg.Wait()
	return first
}

func cut(s string, n int) string {
	if len(s) <= n {
		return s
	}
	return s[:n] + fmt.Sprintf("… (%d bytes in all)", len(s))
}

func tailStr(s string, n int) string {
	if len(s) <= n {
		return s
	}
	return "…" + s[len(s)-n:]
}

var _ = bytes.MinRead
