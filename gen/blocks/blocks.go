// Package blocks lets a check pre-evaluate the cases of a kit.Space in
// 512-aligned blocks (the kit hands out 512-aligned chunks to one worker at a
// time), so that expensive per-case round trips — a VM per case, a request to
// an oracle subprocess per case — can be batched. Every index is still
// evaluated and judged individually; the same index always gives the same
// entry.
package blocks

import (
	"sync"
	"sync/atomic"
)

// Size is the block size; it equals the kit's chunk size.
const Size = 512

// Cache holds the blocks of one space.
type Cache[E any] struct {
	m sync.Map // block number → *block[E]
}

type block[E any] struct {
	once      sync.Once
	entries   []E
	remaining atomic.Int64
}

// Get returns the entry of index i of a space of the given size. compute is
// called once per block with the index range [from, to) and must return
// to-from entries. A block is dropped when each of its entries has been taken
// once (a replay of a single index computes its block again).
func (c *Cache[E]) Get(i, size uint64, compute func(from, to uint64) []E) E {
	n := i / Size
	v, _ := c.m.LoadOrStore(n, &block[E]{})
	b := v.(*block[E])
	b.once.Do(func() {
		from, to := n*Size, (n+1)*Size
		if to > size {
			to = size
		}
		b.remaining.Store(int64(to - from))
		b.entries = compute(from, to)
		if uint64(len(b.entries)) != to-from {
			panic("blocks: compute returned the wrong number of entries")
		}
	})
	e := b.entries[i-n*Size]
	if b.remaining.Add(-1) == 0 {
		c.m.Delete(n)
	}
	return e
}
