// Package astgen enumerates template sources for the ast checks (C27, C28):
// an expression grammar, statements in Go form and template form, multi-file
// templates and the template corpus of /repo, and parses them to *ast.Tree
// through the public API (BuildTemplate with a transformer that stops the build).
package astgen

import (
	"errors"
	"fmt"
	"io/fs"
	"os"
	"path/filepath"
	"sort"
	"strings"

	"github.com/open2b/scriggo"
	"github.com/open2b/scriggo/ast"
	"github.com/open2b/scriggo/native"
)

// Case is one template (possibly multi-file) to parse.
type Case struct {
	Name  string            `json:"name"`
	Entry string            `json:"entry"`
	Files map[string]string `json:"files"`
}

var errStop = errors.New("verif: stop the build")

// ParseUnexpanded returns the entry file's tree as parsed, before expansion.
func ParseUnexpanded(c Case) (tree *ast.Tree, err error) {
	defer func() {
		if e := recover(); e != nil {
			tree, err = nil, fmt.Errorf("verif: BuildTemplate panicked: %v", e)
		}
	}()
	fsys := scriggo.Files{}
	for n, s := range c.Files {
		fsys[n] = []byte(s)
	}
	_, err = scriggo.BuildTemplate(fsys, c.Entry, &scriggo.BuildOptions{
		AllowGoStmt: true,
		UnexpandedTransformer: func(t *ast.Tree) error {
			tree = t
			return errStop
		},
	})
	if tree != nil {
		return tree, nil
	}
	if err == nil {
		err = errors.New("verif: transformer not called")
	}
	return nil, err
}

// ParseExpanded returns the expanded tree (extends/import/render trees
// attached), before type checking.
func ParseExpanded(c Case) (tree *ast.Tree, err error) {
	defer func() {
		if e := recover(); e != nil {
			tree, err = nil, fmt.Errorf("verif: BuildTemplate panicked: %v", e)
		}
	}()
	fsys := scriggo.Files{}
	for n, s := range c.Files {
		fsys[n] = []byte(s)
	}
	_, err = scriggo.BuildTemplate(fsys, c.Entry, &scriggo.BuildOptions{
		AllowGoStmt: true,
		ExpandedTransformer: func(t *ast.Tree) error {
			tree = t
			return errStop
		},
	})
	if tree != nil {
		return tree, nil
	}
	if err == nil {
		err = errors.New("verif: transformer not called")
	}
	return nil, err
}

// TypedGlobals are the globals the type-checked cases may use.
func TypedGlobals() native.Declarations {
	g := 7
	gs := "s"
	return native.Declarations{
		"g":  &g,
		"gs": &gs,
		"F":  func(i int) int { return i + 1 },
		"K":  42,
	}
}

// ParseTyped builds the template completely and returns the expanded tree the
// type checker has annotated (Upvars, IR fields, reflect types): the tree
// handed to ExpandedTransformer is the object the checker then works on.
func ParseTyped(c Case) (tree *ast.Tree, err error) {
	defer func() {
		if e := recover(); e != nil {
			tree, err = nil, fmt.Errorf("verif: BuildTemplate panicked: %v", e)
		}
	}()
	fsys := scriggo.Files{}
	for n, s := range c.Files {
		fsys[n] = []byte(s)
	}
	_, err = scriggo.BuildTemplate(fsys, c.Entry, &scriggo.BuildOptions{
		AllowGoStmt: true,
		Globals:     TypedGlobals(),
		ExpandedTransformer: func(t *ast.Tree) error {
			tree = t
			return nil
		},
	})
	if err != nil {
		return nil, err
	}
	return tree, nil
}

// Typed returns templates that type check and make the checker annotate the
// tree: macros and function literals that capture local variables, package
// level variables, globals and other closures' variables; append calls, render
// expressions, using statements, extends/import.
func Typed() []Case {
	one := func(name, src string) Case {
		return Case{Name: "typed:" + name, Entry: "index.html", Files: map[string]string{"index.html": src}}
	}
	lib := "{% macro A %}a{% end %}{% var V = 3 %}{% macro B %}{{ V }}{% end %}"
	return []Case{
		one("macro-captures-var", "{% var v = 1 %}{% macro M %}{{ v }}{% end %}{{ M() }}"),
		one("macro-captures-two", "{% var v, w = 1, \"x\" %}{% macro M(a int) %}{{ v + a }}{{ w }}{% end %}{{ M(2) }}"),
		one("macro-captures-global", "{% macro M %}{{ g }}{{ gs }}{% end %}{{ M() }}"),
		one("macro-calls-macro", "{% var v = 1 %}{% macro A %}{{ v }}{% end %}{% macro B %}{{ A() }}{{ v }}{% end %}{{ B() }}"),
		one("func-captures-local", "{% x := 2 %}{% f := func() int { return x } %}{{ f() }}"),
		one("func-captures-and-assigns", "{% x := 2 %}{% f := func() { x++ } %}{% f() %}{{ x }}"),
		one("func-captures-global", "{% f := func() int { return g + F(K) } %}{{ f() }}"),
		one("nested-closures", "{% x := 1 %}{% f := func() func() int { y := 3; return func() int { return y + x + g } } %}{{ f()() }}"),
		one("closure-in-loop", "{% for i := 0; i < 2; i++ %}{% f := func() int { return i } %}{{ f() }}{% end %}"),
		one("closure-in-if-and-switch", "{% x := 1 %}{% if x > 0 %}{% f := func() int { return x } %}{{ f() }}{% end %}{% switch x %}{% case 1 %}{% h := func() int { return x * 2 } %}{{ h() }}{% end %}"),
		one("go-form-closure", "{%% x := 1; f := func(a int) (r int) { r = a + x; return }; show f(2) %%}"),
		one("append", "{% s := []int{} %}{% s = append(s, 1, 2) %}{% t := append(s, s...) %}{{ len(t) }}"),
		one("using", "{% show itea; using %}t{% end %}{% var u = itea; using html %}<b>{% end %}{{ u }}"),
		one("using-macro", "{% x := 1 %}{% show itea(2); using macro(a int) %}{{ a + x }}{% end %}"),
		one("package-level-using", "{% var P = itea; using %}p{% end %}{% macro M %}{{ P }}{% end %}{{ M() }}"),
		one("default-and-render-missing", "{{ nope default 3 }}{{ render \"missing.html\" default \"d\" }}"),
		one("types-and-consts", "{% type T struct { A int } %}{% const c = 2 %}{% t := T{A: c} %}{% f := func() int { return t.A } %}{{ f() }}"),
		one("switch-without-tag-with-init", "{% switch x := F(1); %}{% case x > 1 %}a{% default %}b{% end %}{%% switch y := F(2); { case y > 2: show y; default: } %%}"),
		one("type-switch-with-init", "{%% var i interface{} = K; switch j := i; v := j.(type) { case int: show v; case string, bool: show v; default: } %%}{% switch j := interface{}(gs); j.(type) %}{% case string %}s{% end %}"),
		one("for-and-if-with-init", "{% if x := F(1); x > 1 %}a{% else if y := F(x); y > 1 %}b{% else %}c{% end %}{% for i := 0; i < 2; i++ %}{{ i }}{% end %}{% for i, v := range []int{1, 2} %}{{ i + v }}{% end %}{% for v in []string{gs} %}{{ v }}{% else %}e{% end %}"),
		one("labels-and-select", "{%% ch := make(chan int, 1); L: for i := 0; i < 2; i++ { if i > 0 { break L }; select { case v, ok := <-ch: show v, ok; case ch <- 1: continue L; default: } } %%}"),
		one("parenthesised-leaves", "{% var x = (1) %}{% (x) = ((2)) %}{{ F((x)) + ((K)) }}{{ (gs) }}{{ ((\"s\")) }}"),
		one("select-and-defer", "{%% ch := make(chan int, 1); f := func() { defer func() { recover() }(); select { case ch <- g: default: } }; f(); show <-ch %%}"),
		{Name: "typed:render", Entry: "index.html", Files: map[string]string{"index.html": "{% x := 1 %}{{ render \"p.html\" }}{% f := func() int { return x } %}{{ f() }}", "p.html": "{% y := 2 %}{% h := func() int { return y + g } %}{{ h() }}"}},
		{Name: "typed:import", Entry: "index.html", Files: map[string]string{"index.html": "{% import \"lib.html\" %}{{ A() }}{{ B() }}{% macro C %}{{ V }}{{ A() }}{% end %}{{ C() }}", "lib.html": lib}},
		{Name: "typed:import-named", Entry: "index.html", Files: map[string]string{"index.html": "{% import l \"lib.html\" %}{% macro C %}{{ l.V }}{{ l.B() }}{% end %}{{ C() }}", "lib.html": lib}},
		{Name: "typed:extends", Entry: "index.html", Files: map[string]string{"index.html": "{% extends \"layout.html\" %}{% var v = 5 %}{% macro Title %}{{ v }}{% end %}{% macro Main %}{{ Title() }}{{ g }}{% end %}", "layout.html": "<html>{{ Title() }}{{ Main() }}</html>"}},
		{Name: "typed:extends-distfree", Entry: "index.html", Files: map[string]string{"index.html": "{% extends \"layout.html\" %}\n{% var v = 5 %}\n{% Main %}\nm {{ v + g }}", "layout.html": "<html>{{ Main() }}</html>"}},
	}
}

// ---- expression grammar ----

// A production is source text with holes: %e expression, %t type.
type production struct {
	src string
	op  bool // an operator expression (unary, binary, default)
}

var unaryOps = []string{"+", "-", "!", "^", "*", "&", "<-", "not "}
var binaryOps = []string{"==", "!=", "<", "<=", ">", ">=", "&&", "||", "and", "or", "+", "-", "*", "/", "%", "&", "|", "^", "&^", "<<", ">>", "contains", "not contains"}

func exprProductions() []production {
	var ps []production
	for _, u := range unaryOps {
		ps = append(ps, production{u + "%e", true})
	}
	for _, b := range binaryOps {
		ps = append(ps, production{"%e " + b + " %e", true})
	}
	for _, s := range []string{"a default %e", "a() default %e", `render "p.html" default %e`} {
		ps = append(ps, production{s, true})
	}
	for _, s := range []string{
		// calls, index, slicing, selector, assertion
		"%e()", "%e(%e)", "%e(%e, %e)", "%e(%e...)", "%e(%e, %e...)",
		"%e[%e]", "%e[:]", "%e[%e:]", "%e[:%e]", "%e[%e:%e]", "%e[%e:%e:%e]", "%e[:%e:%e]",
		"%e.f", "%e.(%t)",
		// full slice expression without the last index
		"%e[%e:%e:]", "%e[:%e:]", "%e[::]",
		// conversions and builtin calls taking types
		"%t(%e)", "(%t)(%e)", "make(%t, %e)", "new(%t)",
		// conversions to types that END in a func type without results
		"([]func())(%e)", "(map[%t]func())(%e)", "(func() func())(%e)", "(chan func())(%e)", "(*func())(%e)", "([2]func())(%e)", "(<-chan func())(%e)", "(func(%t) func(%t))(%e)",
		// calls whose arguments are parenthesised
		"%e((%e), (%e))", "%e((%e)...)",
		// composite literals
		"%t{}", "%t{%e}", "%t{%e, %e}", "%t{%e: %e}", "%t{%e: %e, %e: %e}", "&%t{%e}",
		"[]%t{%e}", "[...]%t{%e}", "[2]%t{%e, %e}", "map[%t]%t{%e: %e}", "[][]%t{{%e}, {%e}}", "[]*%t{{%e}}", "map[%t]%t{{%e}: {%e}}",
		"struct { F %t }{%e}", "struct { F %t }{F: %e}", "p.T{F: %e}",
		// function literals
		"func() {}", "func() { %e }", "func(x %t) %t { return %e }", "func(x %t, y ...%t) (%t, %t) { return %e, %e }", "func(%t, ...%t) {}", "func(x %t) (y, z %t) { return }", "func(x, y %t, z %t) %t { return %e }", "func(x, y %t) (z %t) { z = %e; return }", "func(x ...%t) { }", "func() { x := %e; _ = x }()",
		// parenthesised
		"(%e)", "((%e))",
		// a call of a default expression's operand
		"a(%e) default %e",
	} {
		ps = append(ps, production{s, false})
	}
	return ps
}

func typeProductions() []production {
	var ps []production
	for _, s := range []string{
		"[]%t", "[2]%t", "[...]%t", "[%e]%t", "map[%t]%t", "chan %t", "<-chan %t", "chan<- %t", "*%t",
		"func()", "func(%t)", "func(%t) %t", "func(%t, %t) (%t, %t)", "func(x %t) (y %t)", "func(x, y %t)", "func(...%t)", "func(x ...%t) %t",
		"struct { F %t }", "struct { %t }", "struct { *%t }", "struct { F, G %t; H %t }", "struct { F %t `k:\"v\"` }", "struct { }", "struct { F %t \"a`b\" }", "struct { F %t \"k:\\\"v\\\"\"; G %t \"\" }", "struct { F, G %t `t`; %t `u` }",
		"interface{}", "macro() html", "macro(x %t) string", "(%t)",
	} {
		ps = append(ps, production{s, false})
	}
	return ps
}

// Leaves.
var exprLeaves = []string{"a", "1"}
var exprLeavesExtra = append([]string{`"s"`, "`r`", "'c'", "1.5", "2i", "0x1F", "nil", "true", "_", `render "p.html"`, "itea", "p.V", "iota"}, literalLeaves()...)

// OddPaths are template paths, as source literals, that need escaping or are
// written as raw strings: backslash, tab, quote, backquote, non-ASCII.
var OddPaths = []string{`"we\\ird.html"`, `"ta\tb.html"`, `"q\"uote.html"`, "\"b`q.html\"", `"é.html"`, `"\u00e9\x41.html"`, "`raw\\b.html`", "`r\"q.html`", "`é.html`", `"sp ace.html"`}

// literalLeaves are string and rune literals whose text and value differ, and
// render expressions over the odd paths.
func literalLeaves() []string {
	out := []string{`"a\\b"`, `"t\tb"`, `"q\"q"`, "\"b`q\"", `"é"`, `"\u00e9\x41\101"`, `""`, "`a\\b`", "`q\"q`", "`é`", "``", "`l1\nl2`",
		`'\\'`, `'\t'`, `'\''`, `'"'`, `'é'`, `'\x3c'`, `'\u00e9'`, `'\U0001F600'`, `'\101'`}
	for _, p := range OddPaths {
		out = append(out, "render "+p, "render "+p+" default a")
	}
	return out
}

var typeLeaves = []string{"T", "int"}
var typeLeavesExtra = []string{"p.T", "html", "error"}

// fill expands the holes of src with every combination of es (for %e) and ts (for %t).
func fill(src string, es, ts []string) []string {
	out := []string{""}
	for {
		i := strings.IndexByte(src, '%')
		if i < 0 || i+1 >= len(src) || (src[i+1] != 'e' && src[i+1] != 't') {
			if i >= 0 {
				// a literal % (modulo operator): copy through it
				for k := range out {
					out[k] += src[:i+1]
				}
				src = src[i+1:]
				continue
			}
			for k := range out {
				out[k] += src
			}
			return out
		}
		fillers := es
		if src[i+1] == 't' {
			fillers = ts
		}
		next := make([]string, 0, len(out)*len(fillers))
		for _, o := range out {
			for _, f := range fillers {
				next = append(next, o+src[:i]+f)
			}
		}
		out = next
		src = src[i+2:]
	}
}

// holes returns the positions of the holes of src with their kinds.
func holes(src string) []byte {
	var hs []byte
	for i := 0; i+1 < len(src); i++ {
		if src[i] == '%' && (src[i+1] == 'e' || src[i+1] == 't') {
			hs = append(hs, src[i+1])
			i++
		}
	}
	return hs
}

// fillOne fills hole number h with each of xs and every other hole with its canonical leaf.
func fillOne(src string, h int, xs []string) []string {
	var out []string
	for _, x := range xs {
		var b strings.Builder
		k := 0
		for i := 0; i < len(src); i++ {
			if i+1 < len(src) && src[i] == '%' && (src[i+1] == 'e' || src[i+1] == 't') {
				switch {
				case k == h:
					b.WriteString(x)
				case src[i+1] == 'e':
					b.WriteString("a")
				default:
					b.WriteString("T")
				}
				k++
				i++
				continue
			}
			b.WriteByte(src[i])
		}
		out = append(out, b.String())
	}
	return out
}

func dedup(xs []string) []string {
	seen := map[string]bool{}
	var out []string
	for _, x := range xs {
		if !seen[x] {
			seen[x] = true
			out = append(out, x)
		}
	}
	return out
}

// Expressions returns the expression sources of the tier, smallest first.
func Expressions(tier string) []string { return expressions(tier, true) }

// ExpressionShapes is Expressions without the operator-pair cross product and
// the depth-3 operator chains, which only matter for precedence (C27), not for
// the variety of node kinds and fields (C28).
func ExpressionShapes(tier string) []string { return expressions(tier, false) }

func expressions(tier string, precedence bool) []string {
	eps, tps := exprProductions(), typeProductions()
	var out []string
	// depth 0
	out = append(out, exprLeaves...)
	out = append(out, exprLeavesExtra...)
	out = append(out, typeLeaves...)
	out = append(out, typeLeavesExtra...)
	// depth 1: every production over every combination of leaves, bare and in
	// parentheses (a parenthesis count lives on every expression, leaves included)
	d1 := append(append([]string{}, exprLeaves...), "(a)", "((1))", `("s")`)
	out = append(out, "(a)", "((1))", `("s")`, "(nil)", "('c')", "(1.5)", "(T)")
	for _, p := range eps {
		out = append(out, fill(p.src, d1, typeLeaves)...)
	}
	for _, p := range tps {
		out = append(out, fill(p.src, d1, typeLeaves)...)
	}
	// depth 1 with the extra leaves, one hole at a time
	for _, p := range append(append([]production{}, eps...), tps...) {
		for h, k := range holes(p.src) {
			if k == 'e' {
				out = append(out, fillOne(p.src, h, exprLeavesExtra)...)
			} else {
				out = append(out, fillOne(p.src, h, typeLeavesExtra)...)
			}
		}
	}
	// canonical depth-1 forms (leaf a / T only)
	var e1, t1, ops1 []string
	for _, p := range eps {
		s := fill(p.src, []string{"a"}, []string{"T"})[0]
		e1 = append(e1, s)
		if p.op {
			ops1 = append(ops1, s)
		}
	}
	for _, p := range tps {
		t1 = append(t1, fill(p.src, []string{"a"}, []string{"T"})[0])
	}
	// depth 2: every production, one hole at a time takes every depth-1 form,
	// bare and parenthesised (the parenthesised form is what makes the child a
	// genuine operand of the parent whatever the precedences)
	paren := func(xs []string) []string {
		out := append([]string{}, xs...)
		for _, x := range xs {
			out = append(out, "("+x+")")
		}
		return out
	}
	e1, t1 = paren(e1), paren(t1)
	ops1 = paren(ops1)
	for _, p := range append(append([]production{}, eps...), tps...) {
		for h, k := range holes(p.src) {
			if k == 'e' {
				out = append(out, fillOne(p.src, h, e1)...)
				// a type where an expression is expected: only as a call argument
				// (make, new and the like); a type as the operand of a selector,
				// index or operator parses but can never be valid source
				if p.src == "%e(%e)" && h == 1 {
					out = append(out, fillOne(p.src, h, t1)...)
				}
			} else {
				out = append(out, fillOne(p.src, h, t1)...)
			}
		}
	}
	if !precedence {
		return dedup(out)
	}
	// depth 2: operators of every precedence on both sides of every binary operator
	for _, b := range binaryOps {
		out = append(out, fill("%e "+b+" %e", ops1, nil)...)
	}
	// depth 3: chains of one-hole contexts over representatives of every
	// precedence level and every postfix form
	ctxs := []string{"-%e", "*%e", "&%e", "<-%e", "not %e", "!%e",
		"%e || a", "a || %e", "%e && a", "a && %e", "%e == a", "a == %e", "%e + a", "a + %e", "%e * a", "a * %e",
		"%e and a", "a or %e", "%e contains a", "a not contains %e", "a << %e", "%e &^ a",
		"%e.f", "%e[a]", "a[%e]", "%e()", "a(%e)", "%e.(T)", "%e[a:a]", "[]T(%e)", "(%e)", "a default %e", "T{%e}", "[]T{a: %e}"}
	if tier != "thorough" {
		ctxs = []string{"-%e", "*%e", "<-%e", "not %e", "%e || a", "a && %e", "%e == a", "a + %e", "%e * a", "a and %e", "%e contains a",
			"%e.f", "%e[a]", "%e()", "a default %e", "(%e)"}
	}
	for _, c1 := range ctxs {
		for _, c2 := range ctxs {
			for _, c3 := range ctxs {
				s := strings.Replace(c3, "%e", "a", 1)
				s = strings.Replace(c2, "%e", s, 1)
				s = strings.Replace(c1, "%e", s, 1)
				out = append(out, s)
			}
		}
	}
	if tier == "thorough" {
		// depth 2, full cross product for the productions with two holes
		e1x := append([]string{"a"}, e1...)
		t1x := append([]string{"T"}, t1...)
		for _, p := range append(append([]production{}, eps...), tps...) {
			if len(holes(p.src)) == 2 {
				out = append(out, fill(p.src, e1x, t1x)...)
			}
		}
		// depth 3: every operator context around every depth-2 operator pair
		var ops2 []string
		for _, b := range []string{"||", "&&", "==", "+", "*", "and", "or", "contains"} {
			ops2 = append(ops2, fill("%e "+b+" %e", ops1, nil)...)
		}
		for _, c := range []string{"-%e", "not %e", "<-%e", "%e.f", "%e[a]", "%e()", "%e * a", "a * %e", "a default %e"} {
			for _, o := range ops2 {
				out = append(out, strings.Replace(c, "%e", o, 1))
			}
		}
	}
	return dedup(out)
}

// ExprCase wraps an expression in a show statement of an HTML template.
func ExprCase(src string) Case {
	return Case{Name: "expr", Entry: "index.html", Files: map[string]string{"index.html": "{{ " + src + " }}"}}
}

// ---- statements ----

// statement patterns in Go form (inside {%% %%}); %e and %t are holes.
var goStmts = []string{
	"var x = %e", "var x %t", "var x %t = %e", "var x, y = %e, %e", "var x, y %t", "var x, y %t = %e, %e", "var (\n x = %e\n y %t\n)", "var _ = %e",
	"const c = %e", "const c %t = %e", "const c, d = %e, %e", "const (\n c = iota\n d\n e = %e\n)", "const (\n c %t = iota + %e\n d\n)",
	"type N %t", "type N = %t", "type (\n N %t\n M = %t\n)",
	"x := %e", "x, y := %e, %e", "x = %e", "x, y = %e, %e", "%e = %e", "x, _ = %e", "a[%e], a.f = %e, %e", "*%e = %e",
	"x += %e", "x -= %e", "x *= %e", "x /= %e", "x %= %e", "x &= %e", "x |= %e", "x ^= %e", "x &^= %e", "x <<= %e", "x >>= %e", "%e += %e",
	"x++", "x--", "%e++", "%e--", "(x) := %e", "(x), y = %e, %e", "(x)++", "(x) += %e", "var x, y %t = (%e), (%e)", "return (%e), (%e)",
	"%e <- %e", "<-%e", "f(%e)", "%e", "x.m(%e)",
	"go f(%e)", "defer f(%e)", "go func() { %e }()", "defer func() { recover() }()", "go %e", "defer %e",
	"goto L\nL:\nx = %e", "L:\nfor { break L }", "L: for { continue L }", "for { break }", "for { continue }", "L:\n{ x = %e }",
	"f := func() { return }", "f := func() %t { return %e }", "f := func() (%t, %t) { return %e, %e }",
	"if %e { }", "if %e { x = %e }", "if x := %e; %e { } else { }", "if %e { } else if %e { } else { y = %e }", "if x, y := %e, %e; x { }", "if %e; %e { }",
	"for { }", "for %e { }", "for i := %e; %e; i++ { }", "for ; %e; { }", "for i := %e; ; { }", "for ; ; i += %e { }", "for i, j := %e, %e; i < j; i, j = i+1, j-1 { }",
	"for i := range %e { }", "for i, v := range %e { }", "for range %e { }", "for i = range %e { }", "for i, v = range %e { }", "for _, v := range %e { break }", "for v in %e { }",
	"switch { }", "switch %e { }", "switch { case %e: }", "switch %e { case %e: x = %e; default: }", "switch x := %e; x { case %e, %e: fallthrough\n case %e: }", "switch x := %e; { default: x = %e }",
	"switch %e.(type) { }", "switch x := %e.(type) { case %t: case %t, %t: _ = x\n default: }", "switch y := %e; x := y.(type) { case nil: }",
	"select { }", "select { default: }", "select { case <-%e: }", "select { case x := <-%e: _ = x }", "select { case x, ok := <-%e: \n case %e <- %e: x = %e\n default: }", "select { case x = <-%e: }", "select { case x, ok = <-%e: }",
	"{ x := %e }", "{ }", "{ { x = %e } }",
	"show %e", "show %e, %e", "show",
	"return", "return %e",
	"var x = %e; y := %e", "x := %e\ny := %e\n",
	"import \"p\"", "import q \"p\"",
	"func f() { }",
}

// statement patterns in template form.
var tplStmts = []string{
	"{% if %e %}t{% end %}", "{% if %e %}t{% else %}u{% end if %}", "{% if x := %e; %e %}t{% else if %e %}u{% else %}v{% end %}", "{% if %e %}{% end %}", "{% if %e %} {% if %e %}t{% end %} {% end %}",
	"{% for %}{% break %}{% end %}", "{% for %e %}t{% end for %}", "{% for i := %e; %e; i++ %}{% continue %}{% end %}", "{% for v in %e %}{{ v }}{% end %}", "{% for v in %e %}t{% else %}u{% end %}",
	"{% for i, v := range %e %}t{% end %}", "{% for range %e %}t{% end %}", "{% for i := range %e %}t{% else %}u{% end for %}", "{% for _, v := range %e %}{% if v %}{% break %}{% end %}{% end %}",
	"{% L: %}{% for %}{% break L %}{% end %}", "{% L: for %}{% continue L %}{% end %}",
	"{% switch %e %}{% case %e %}t{% case %e, %e %}u{% default %}v{% end switch %}", "{% switch %}{% case %e %}t{% end %}", "{% switch %e %} \n {% case %e %}t{% fallthrough %}{% default %}{% end %}",
	"{% switch x := %e.(type) %}{% case %t %}t{% case %t, %t %}u{% default %}{% end %}", "{% switch x := %e; x %}{% end %}", "{% switch x := %e; %}{% case %e %}t{% end %}", "{% switch x := %e; y := x.(type) %}{% case %t %}t{% end %}", "{% if x := %e; x %}t{% end %}", "{% for x := %e; x; x = %e %}t{% end %}", "{% switch %e.(type) %}{% end %}",
	"{% select %}{% case <-%e %}t{% default %}u{% end select %}", "{% select %}{% case x := <-%e %}{{ x }}{% case %e <- %e %}u{% end %}", "{% select %} {% case x, ok := <-%e %}{% end %}", "{% select %}{% end %}",
	"{% macro M %}t{% end macro %}", "{% macro M(x %t) %}{{ x }}{% end %}", "{% macro M(x, y %t) html %}t{% end %}", "{% macro M() %}{% return %}{% end %}", "{% macro M(x %t, y ...%t) string %}{{ %e }}{% end macro %}", "{% macro M(%t, %t) %}t{% end %}",
	"{% var x = %e %}", "{% var x %t %}", "{% var x, y = %e, %e %}", "{% var x %t = %e %}", "{% const c = %e %}", "{% const c %t = %e %}", "{% type N %t %}", "{% type N = %t %}",
	"{% x := %e %}", "{% x = %e %}", "{% (x) := %e %}", "{% (x) = (%e) %}", "{{ (%e) }}", "{% show (%e), ((%e)) %}", "{% x, y := %e, %e %}", "{% x, y = %e, %e %}", "{% %e = %e %}",
	"{% x += %e %}", "{% x -= %e %}", "{% x *= %e %}", "{% x /= %e %}", "{% x %= %e %}", "{% x &= %e %}", "{% x |= %e %}", "{% x ^= %e %}", "{% x &^= %e %}", "{% x <<= %e %}", "{% x >>= %e %}", "{% x++ %}", "{% x-- %}",
	"{% show %e %}", "{% show %e, %e %}", "{{ %e }}", "{% f(%e) %}", "{% %e %}", "{% %e <- %e %}", "{% <-%e %}",
	"{% defer f(%e) %}", "{% go f(%e) %}", "{% defer %e %}", "{% go %e %}",
	"{% show %e; using %}t{% end using %}", "{% show itea; using %}t{% end %}", "{% var x = itea; using html %}t{% end %}", "{% x := itea; using %}t{% end %}", "{% x = itea; using markdown %}t{% end %}", "{% f(itea, %e); using macro %}t{% end %}", "{% show itea(%e); using macro(a %t) %}{{ a }}{% end %}", "{% show itea; using macro() css %}t{% end %}", "{% show itea; using css %}t{% end %}", "{% show itea; using js %}t{% end %}", "{% show itea; using json %}t{% end %}", "{% show itea; using string %}t{% end %}", "{% show itea; using macro(a %t) markdown %}t{% end %}", "{% var x = itea; using macro(a, b %t) js %}t{% end %}", "{% return itea; using %}t{% end %}", "{% x <- itea; using string %}t{% end %}", "{% go f(itea); using %}t{% end %}",
	"{% raw %}t {{ a }}{% end raw %}", "{% raw code %}t{% end raw code %}", "{% raw %}{% end %}", "{# comment #}", "t{# c #}u",
	"{% extends \"layout.html\" %}{% macro M %}t{% end %}", "{% extends \"layout.html\" %}{% var x = %e %}{% M %}t", "{% extends \"layout.html\" %}\n{% import \"p.html\" %}\n{% Main(x %t) %}\n t{{ x }}",
	"{% import \"p.html\" %}", "{% import p \"p.html\" %}", "{% import . \"p.html\" %}", "{% import \"p.html\" for A, B %}", "{% import _ \"p\" %}", "{% import \"p.html\" for A %}{{ A }}",
	"{{ render \"p.html\" }}", "{% show render \"p.html\" %}", "{{ render \"p.html\" default %e }}", "{% x := render \"p.html\" %}",
	"<a href=\"{{ %e }}\">t</a>", "<a href=\"/x?y={{ %e }}&z={{ %e }}\" class=\"{{ %e }}\">", "<img src={{ %e }}>", "<script>var v = {{ %e }}; var s = \"{{ %e }}\";</script>", "<style>a { color: {{ %e }}; content: \"{{ %e }}\" }</style>", "<div {{ %e }}>", "<script type=\"application/ld+json\">{\"a\": {{ %e }}, \"b\": \"{{ %e }}\"}</script>",
	"t {%% x := %e %%} u", "{%%\n x := %e\n show x\n%%}", "{%% if %e { show %e } %%}", "{%% for v in %e { show v } %%}",
	"{% if %e %}{%% x := %e %%}{{ x }}{% end %}",
	"  {% if %e %}\n  t\n  {% end %}\n", "a\n{% x := %e %}\nb",
}

// statement patterns for Markdown templates.
var mdStmts = []string{
	"# t\n\n{{ %e }}\n", "    {{ %e }}\n", "\t{{ %e }}\n", "t http://x/{{ %e }}?a={{ %e }} u\n", "[t](https://x/{{ %e }})\n", "{% if %e %}*t*{% end %}\n",
}

// fillers for the holes of statements: the canonical leaf plus a few shapes
// that stress each String method.
var stmtExprFillers = []string{"a", "a + b*c", "-a", "a.f(b)", "[]T{a}", "func() {}", "<-a", "a[b:c]", "x.(T)", "(a)", "a && !b", `"s"`, "*a", "a not contains b", "a default b"}
var stmtTypeFillers = []string{"T", "[]T", "map[T]T", "*T", "func(T) T", "struct { F T }", "chan T", "interface{}", "p.T"}

// Statements returns the statement cases of the tier.
func Statements(tier string) []Case {
	var out []Case
	seen := map[string]bool{}
	add := func(name, file, src string) {
		k := file + "\x00" + src
		if seen[k] {
			return
		}
		seen[k] = true
		out = append(out, Case{Name: name, Entry: file, Files: map[string]string{file: src}})
	}
	expand := func(p string) []string {
		var srcs []string
		srcs = append(srcs, fill(p, []string{"a"}, []string{"T"})...)
		for h, k := range holes(p) {
			if k == 'e' {
				srcs = append(srcs, fillOne(p, h, stmtExprFillers)...)
			} else {
				srcs = append(srcs, fillOne(p, h, stmtTypeFillers)...)
			}
		}
		if tier == "thorough" && len(holes(p)) <= 2 {
			srcs = append(srcs, fill(p, stmtExprFillers, stmtTypeFillers)...)
		}
		return srcs
	}
	for _, p := range goStmts {
		for _, s := range expand(p) {
			add("go-form", "index.html", "{%% "+s+" %%}")
			add("go-form-in-func", "index.html", "{%% f := func() { "+s+" } %%}")
		}
	}
	for _, p := range tplStmts {
		for _, s := range expand(p) {
			add("template-form", "index.html", s)
		}
		// extends/import/render with paths that need escaping
		for _, plain := range []string{`"p.html"`, `"layout.html"`, `"p"`} {
			if strings.Contains(p, plain) {
				canon := fill(p, []string{"a"}, []string{"T"})[0]
				for _, odd := range OddPaths {
					add("template-form-odd-path", "index.html", strings.Replace(canon, plain, odd, 1))
				}
			}
		}
	}
	for _, odd := range OddPaths {
		add("go-form-odd-path", "index.html", "{%% import "+odd+" %%}")
		add("go-form-odd-path", "index.html", "{%% import q "+odd+" %%}")
	}
	for _, p := range mdStmts {
		for _, s := range expand(p) {
			add("markdown", "index.md", s)
		}
	}
	for _, ext := range []string{"txt", "css", "js", "json"} {
		add("format-"+ext, "index."+ext, "t {{ a }} {% if a %}u{% end %}")
	}
	return out
}

// ---- multi-file templates ----

// MultiFile returns templates that use extends, import and render.
func MultiFile(tier string) []Case {
	layout := "<html>{{ Title() }}<body>{{ Main() }}{{ render \"footer.html\" }}</body></html>"
	footer := "<footer>{{ year }}{% if a %}x{% end %}</footer>"
	lib := "{% macro A %}a{% end %}{% macro B(x int) html %}{{ x }}{% end %}{% var V = 3 %}{% const C = 1 %}{% type T []int %}"
	lib2 := "{% import \"lib.html\" %}{% macro D %}{{ A() }}{% end %}"
	var out []Case
	add := func(name string, entry string, files map[string]string) {
		out = append(out, Case{Name: name, Entry: entry, Files: files})
	}
	add("extends", "index.html", map[string]string{"index.html": "{% extends \"layout.html\" %}{% macro Title %}t{% end %}{% macro Main %}m{{ 1 + 2 }}{% end %}", "layout.html": layout, "footer.html": footer})
	add("extends-distfree", "index.html", map[string]string{"index.html": "{% extends \"layout.html\" %}\n{% Title %}t\n{% Main %}\nm {{ f(x)[1:2] }}", "layout.html": layout, "footer.html": footer})
	add("extends-import", "index.html", map[string]string{"index.html": "{% extends \"layout.html\" %}{% import \"lib.html\" %}{% import l \"lib2.html\" %}{% macro Title %}{{ A() }}{% end %}{% macro Main %}{{ l.D() }}{% end %}", "layout.html": layout, "footer.html": footer, "lib.html": lib, "lib2.html": lib2})
	add("import", "index.html", map[string]string{"index.html": "{% import \"lib.html\" %}{{ A() }}{{ B(V) }}", "lib.html": lib})
	add("import-for", "index.html", map[string]string{"index.html": "{% import \"lib.html\" for A, V %}{{ A() }}{{ V }}", "lib.html": lib})
	add("import-named", "index.html", map[string]string{"index.html": "{% import l \"lib.html\" %}{% import . \"lib2.html\" %}{{ l.A() }}{{ D() }}", "lib.html": lib, "lib2.html": lib2})
	add("render", "index.html", map[string]string{"index.html": "a{{ render \"footer.html\" }}b{{ render \"footer.html\" }}", "footer.html": footer})
	add("render-nested", "index.html", map[string]string{"index.html": "{{ render \"a/b.html\" }}", "a/b.html": "b{{ render \"c.html\" }}{{ render \"/footer.html\" }}", "a/c.html": "c", "footer.html": footer})
	add("render-default-missing", "index.html", map[string]string{"index.html": "{{ render \"missing.html\" default \"d\" }}{{ render \"footer.html\" default x }}", "footer.html": footer})
	add("render-in-stmt", "index.html", map[string]string{"index.html": "{% x := render \"footer.html\" %}{% show render \"footer.html\"; using %}t{% end %}{% if a %}{{ render \"footer.html\" }}{% end %}", "footer.html": footer})
	add("md-extends-html", "index.md", map[string]string{"index.md": "{% extends \"layout.html\" %}{% macro Title %}t{% end %}{% macro Main %}# m\n\n    {{ c }}\n{% end %}", "layout.html": layout, "footer.html": footer})
	add("render-md-in-html", "index.html", map[string]string{"index.html": "{{ render \"p.md\" }}", "p.md": "# t\n{{ a }}\n\n\t{{ b }}\n"})
	add("import-md", "index.md", map[string]string{"index.md": "{% import \"lib.html\" %}\n# {{ A() }}\nhttp://x/{{ V }}\n", "lib.html": lib})
	return out
}

// ---- corpus ----

// Corpus returns the templates found under /repo/test/compare/testdata: every
// .html/.md/.txt/.css/.js/.json template outside a *.dir directory as a
// single-file case, and every *.dir directory as a multi-file case (entry
// index.*), each of its other files also parsed on its own.
func Corpus() []Case {
	root := "/repo/test/compare/testdata"
	var out []Case
	tplExt := map[string]bool{".html": true, ".md": true, ".txt": true, ".css": true, ".js": true, ".json": true}
	filepath.WalkDir(root, func(p string, d fs.DirEntry, err error) error {
		if err != nil {
			return nil
		}
		rel, _ := filepath.Rel(root, p)
		rel = filepath.ToSlash(rel)
		if d.IsDir() {
			if !strings.HasSuffix(d.Name(), ".dir") {
				return nil
			}
			files := map[string]string{}
			filepath.WalkDir(p, func(q string, d fs.DirEntry, err error) error {
				if err != nil || d.IsDir() {
					return nil
				}
				b, err := os.ReadFile(q)
				if err == nil && len(b) < 1<<16 {
					r, _ := filepath.Rel(p, q)
					files[filepath.ToSlash(r)] = string(b)
				}
				return nil
			})
			var names []string
			for n := range files {
				names = append(names, n)
			}
			sort.Strings(names)
			for _, n := range names {
				if tplExt[filepath.Ext(n)] {
					out = append(out, Case{Name: "corpus:" + rel + "/" + n, Entry: n, Files: files})
				}
			}
			return filepath.SkipDir
		}
		ext := filepath.Ext(p)
		if !tplExt[ext] || !strings.Contains(rel, "templates/") && ext != ".html" && ext != ".md" {
			return nil
		}
		b, err := os.ReadFile(p)
		if err != nil || len(b) > 1<<16 {
			return nil
		}
		out = append(out, Case{Name: "corpus:" + rel, Entry: "index" + ext, Files: map[string]string{"index" + ext: string(b)}})
		return nil
	})
	sort.Slice(out, func(a, b int) bool { return out[a].Name < out[b].Name })
	return out
}
