package astgen

import (
	"sync"

	"verif/kit"
)

// Finding is one failing key of a case.
type Finding struct {
	Key    string
	Detail string
}

// Result is what evaluating one case yields.
type Result struct {
	Findings   []Finding // distinct keys, sorted
	Class      string    // outcome class of the case
	Ops        int
	Nontrivial bool
}

// SlotSpace turns a list of cases that can each fail in several independent
// ways into an index space: index = case*slots + k, and slot k reports the
// k-th distinct failing key of the case (so one defect cannot hide another).
// Slot 0 carries the case's class and non-triviality.
func SlotSpace(name string, n, slots int, describe func(i int) any, eval func(i int) Result) kit.Space {
	var mu sync.Mutex
	cache := map[int]*Result{}
	get := func(i int) *Result {
		mu.Lock()
		r := cache[i]
		mu.Unlock()
		if r != nil {
			return r
		}
		res := eval(i)
		mu.Lock()
		cache[i] = &res
		// keep the cache small: results without findings are cheap to drop once all slots ran
		mu.Unlock()
		return &res
	}
	return kit.Space{
		Name: name,
		Size: uint64(n) * uint64(slots),
		Describe: func(i uint64) any {
			return map[string]any{"case": describe(int(i / uint64(slots))), "finding_slot": i % uint64(slots)}
		},
		Eval: func(i uint64) kit.Outcome {
			ci, slot := int(i/uint64(slots)), int(i%uint64(slots))
			r := get(ci)
			if slot == slots-1 {
				mu.Lock()
				delete(cache, ci)
				mu.Unlock()
			}
			o := kit.Outcome{OK: true}
			if slot == 0 {
				o.Class, o.Ops, o.Nontrivial = r.Class, r.Ops, r.Nontrivial
			} else {
				o.Class = "further-finding-slot"
			}
			if slot < len(r.Findings) {
				o.OK = false
				o.Nontrivial = true
				o.Key = r.Findings[slot].Key
				o.Detail = r.Findings[slot].Detail
			} else if slot == slots-1 && len(r.Findings) > slots {
				o.Class = "more-findings-than-slots"
			}
			return o
		},
	}
}

// Distinct sorts findings by key and keeps the first of each key.
func Distinct(fs []Finding) []Finding {
	// stable insertion sort: the lists are tiny
	for i := 1; i < len(fs); i++ {
		for j := i; j > 0 && fs[j].Key < fs[j-1].Key; j-- {
			fs[j], fs[j-1] = fs[j-1], fs[j]
		}
	}
	var out []Finding
	for _, f := range fs {
		if len(out) == 0 || out[len(out)-1].Key != f.Key {
			out = append(out, f)
		}
	}
	return out
}
