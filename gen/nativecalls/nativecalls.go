// Package nativecalls generates and runs the situation class "call form ×
// failure kind for native callees", shared by the checks C05 and C12.
//
// A native function (or method of a native type) that fails — panics with a
// string, an error, a custom value, a runtime.Error of its own, calls
// env.Stop or env.Fatal, or calls back a Scriggo function that panics or is
// cancelled — is reached through every call form: direct, function value in a
// local / package-level variable, passed as an argument, stored in a struct
// field / slice / map element, method value, method expression, deferred,
// inside a range body, inside a closure, native variable of function type,
// function returned by a native function, type-asserted from an interface,
// and in templates ({{ f(k) }}, through a macro). Optionally the caller
// recovers with a deferred function; then the program continues and prints
// locals of all four register kinds (int, float, string, general).
package nativecalls

import (
	"context"
	"errors"
	"fmt"
	"reflect"
	"runtime"
	"runtime/debug"
	"strings"

	"github.com/open2b/scriggo"
	"github.com/open2b/scriggo/native"
)

// failure kinds, simplest first
const (
	KString = iota
	KError
	KCustom
	KNilMap // runtime.Error raised by the native function's own code
	KIndex  // idem
	KStop
	KFatal
	KNone
	KCallbackPanics
	KCancelled
	NumKinds
)

var KindNames = []string{"panics with a string", "panics with an error", "panics with a custom type", "nil map write inside the native function", "index out of range inside the native function",
	"calls env.Stop", "calls env.Fatal", "returns normally", "calls back a Scriggo function that panics", "calls back a Scriggo function while the context is cancelled"}

// Form is a call form.
type Form struct {
	Name string
	Twin int // the direct form that must give the same outcome
	// lines of the form; F = callee, A = arguments, FT = function type, T.M = method
	lines    []string
	pkgDecl  string
	deferred bool
	noEnv    bool // the callee cannot receive the Env: no Stop/Fatal
}

var ProgramForms = []Form{
	{Name: "direct call host.F(k)", Twin: 0, lines: []string{"x = H.F(A)"}},
	{Name: "function value in a local variable", Twin: 0, lines: []string{"f := H.F", "x = f(A)"}},
	{Name: "function value in a package-level variable", Twin: 0, pkgDecl: "var pf = H.F", lines: []string{"x = pf(A)"}},
	{Name: "passed as an argument and called by a Scriggo function", Twin: 0, pkgDecl: "func apply(f FT, PARAMS) int {\n\treturn f(A)\n}", lines: []string{"x = apply(H.F, A)"}},
	{Name: "stored in a struct field", Twin: 0, lines: []string{"st := struct{ Fn FT }{H.F}", "x = st.Fn(A)"}},
	{Name: "stored in a slice element", Twin: 0, lines: []string{"fs := []FT{H.F}", "x = fs[0](A)"}},
	{Name: "stored in a map element", Twin: 0, lines: []string{"mf := map[string]FT{\"a\": H.F}", "x = mf[\"a\"](A)"}},
	{Name: "method call t.M(k)", Twin: 0, lines: []string{"t := H.TV", "x = t.M(A)"}},
	{Name: "method value m := t.M", Twin: 0, lines: []string{"t := H.TV", "m := t.M", "x = m(A)"}},
	{Name: "method expression H.T.M", Twin: 0, lines: []string{"t := H.TV", "me := H.T.M", "x = me(t, A)"}},
	{Name: "deferred direct call", Twin: 10, deferred: true, lines: []string{"defer H.F(A)"}},
	{Name: "deferred call of a function value", Twin: 10, deferred: true, lines: []string{"f := H.F", "defer f(A)"}},
	{Name: "direct call inside a range body", Twin: 0, lines: []string{"for _, kk := range []int{k} {", "\tx = H.F(AKK)", "}"}},
	{Name: "function value called inside a range body", Twin: 0, lines: []string{"f := H.F", "for _, kk := range []int{k} {", "\tx = f(AKK)", "}"}},
	{Name: "direct call inside a closure", Twin: 0, lines: []string{"func() {", "\tx = H.F(A)", "}()"}},
	{Name: "function value called inside a closure", Twin: 0, lines: []string{"f := H.F", "func() {", "\tx = f(A)", "}()"}},
	{Name: "native variable of function type", Twin: 0, noEnv: true, lines: []string{"x = H.FV(A)"}},
	{Name: "function returned by a native function", Twin: 0, noEnv: true, lines: []string{"g2 := H.Get()", "x = g2(A)"}},
	{Name: "function value type-asserted from an interface", Twin: 0, lines: []string{"var an any = H.F", "x = an.(FT)(A)"}},
	{Name: "deferred call of a method value", Twin: 10, deferred: true, lines: []string{"t := H.TV", "m := t.M", "defer m(A)"}},
	{Name: "function value called twice, failing the second time", Twin: 0, lines: []string{"f := H.F", "_ = f(AOK)", "x = f(A)"}},
}

var TemplateForms = []Form{
	{Name: "{{ F(k) }}", Twin: 0, lines: []string{"{{ H.F(A) }}"}},
	{Name: "{% var f = F %}{{ f(k) }}", Twin: 0, lines: []string{"{% var f = H.F %}", "{{ f(A) }}"}},
	{Name: "through a macro calling F directly", Twin: 0, lines: []string{"{% macro Mac(PARAMS) %}[{{ H.F(A) }}]{% end %}", "{{ Mac(A) }}"}},
	{Name: "through a macro receiving the function value", Twin: 0, lines: []string{"{% macro Mac(f FT, PARAMS) %}[{{ f(A) }}]{% end %}", "{{ Mac(H.F, A) }}"}},
	{Name: "method value in a template", Twin: 0, lines: []string{"{% var t = H.TV %}", "{% var m = t.M %}", "{{ m(A) }}"}},
	{Name: "function value called in a {%% %%} block", Twin: 0, lines: []string{"{%%", "\tf := H.F", "\tx := f(A)", "\t_ = x", "%%}"}},
	{Name: "function value in a for statement", Twin: 0, lines: []string{"{% var f = H.F %}", "{% for _, kk := range []int{k} %}{{ f(AKK) }}{% end %}"}},
}

// Case is one case of the class.
type Case struct {
	Template  bool
	EnvCallee bool // the native callee has a native.Env first parameter
	Form      int
	Kind      int
	Recovered bool
}

func (c Case) forms() []Form {
	if c.Template {
		return TemplateForms
	}
	return ProgramForms
}

// Applicable reports whether the combination exists.
func (c Case) Applicable() bool {
	f := c.forms()[c.Form]
	if f.noEnv && c.EnvCallee {
		return false
	}
	if (c.Kind == KStop || c.Kind == KFatal) && !c.EnvCallee {
		return false // Stop and Fatal are methods of the Env
	}
	return true
}

func (c Case) String() string {
	rec := "not recovered"
	if c.Recovered {
		rec = "recovered by a deferred function of the caller"
	}
	where := "program"
	if c.Template {
		where = "template"
	}
	env := "without Env parameter"
	if c.EnvCallee {
		env = "with a native.Env parameter"
	}
	return fmt.Sprintf("%s; call form: %s; the native callee (%s) %s; %s", where, c.forms()[c.Form].Name, env, KindNames[c.Kind], rec)
}

// Twin returns the case with the direct call form.
func (c Case) Twin() Case {
	t := c
	t.Form = c.forms()[c.Form].Twin
	return t
}

func callback(kind int) bool { return kind == KCallbackPanics || kind == KCancelled }

func (c Case) subst(s string) string {
	h := "host."
	if c.Template {
		h = ""
	}
	fn, meth, fv, get, ft, params, a, akk, aok := "F", "M", "FV", "Get", "func(int) int", "k int", "k", "kk", fmt.Sprint(KNone)
	if callback(c.Kind) {
		fn, meth, fv, get, ft, params, a, akk, aok = "F2", "M2", "FV2", "Get2", "func(int, func(int) int) int", "k int, cb func(int) int", "k, cb", "kk, cb", fmt.Sprint(KNone)+", cb"
	}
	if c.EnvCallee {
		fn, meth = "E"+fn, "E"+meth
	}
	r := strings.NewReplacer("H.FV", h+fv, "H.Get", h+get, "H.F", h+fn, "t.M", "t."+meth, "H.T.M", h+"T."+meth, "H.TV", h+"TV", "H.T", h+"T", "FT", ft, "PARAMS", params, "AKK", akk, "AOK", aok, "A", a)
	return r.Replace(s)
}

const cbPanics = "cb := func(n int) int {\n\t\tif n == 2 {\n\t\t\tpanic(\"cb-boom\")\n\t\t}\n\t\treturn n\n\t}"
const cbLoops = "cb := func(n int) int {\n\t\tsum := 0\n\t\tfor j := 0; j < 100; j++ {\n\t\t\tsum += j\n\t\t}\n\t\treturn sum + n\n\t}"

// Source returns the files of the case and the name of the template file.
func (c Case) Source() (map[string]string, string) {
	f := c.forms()[c.Form]
	var b strings.Builder
	if !c.Template {
		b.WriteString("package main\nimport \"host\"\n")
		if f.pkgDecl != "" {
			b.WriteString(c.subst(f.pkgDecl) + "\n")
		}
		b.WriteString("func try(k int) (x int) {\n\ti := 41\n\tfl := 1.5\n\ts := \"str\"\n\tg := []int{7}\n")
		if callback(c.Kind) {
			cb := cbPanics
			if c.Kind == KCancelled {
				cb = cbLoops
			}
			b.WriteString("\t" + cb + "\n\t_ = cb\n")
		}
		if c.Recovered {
			b.WriteString("\tdefer func() {\n\t\tif r := recover(); r != nil {\n\t\t\thost.Mark(\"recovered\")\n\t\t} else {\n\t\t\thost.Mark(\"nothing to recover\")\n\t\t}\n\t\thost.Show(i, fl, s, g[0], -1)\n\t}()\n")
		}
		for _, l := range f.lines {
			b.WriteString("\t" + c.subst(l) + "\n")
		}
		b.WriteString("\thost.Show(i, fl, s, g[0], x)\n\treturn x\n}\n")
		b.WriteString("func main() {\n\ta := 40\n\tb := 2.5\n\tc := \"main\"\n\td := []int{9}\n")
		fmt.Fprintf(&b, "\ty := try(%d)\n\thost.Show(a, b, c, d[0], y)\n}\n", c.Kind)
		return map[string]string{"main.go": b.String()}, ""
	}
	b.WriteString("{%%\n\ta := 40\n\tb := 2.5\n\tc := \"tmpl\"\n\td := []int{9}\n")
	fmt.Fprintf(&b, "\tk := %d\n\t_ = k\n", c.Kind)
	if callback(c.Kind) {
		cb := cbPanics
		if c.Kind == KCancelled {
			cb = cbLoops
		}
		b.WriteString("\t" + strings.ReplaceAll(cb, "\n\t", "\n") + "\n\t_ = cb\n")
	}
	if c.Recovered {
		b.WriteString("\tdefer func() {\n\t\tif r := recover(); r != nil {\n\t\t\tMark(\"recovered\")\n\t\t} else {\n\t\t\tMark(\"nothing to recover\")\n\t\t}\n\t\tShow(a, b, c, d[0], -1)\n\t}()\n")
	}
	b.WriteString("%%}\n")
	for _, l := range f.lines {
		b.WriteString(c.subst(l) + "\n")
	}
	b.WriteString("{%% Show(a, b, c, d[0], 1) %%}\n")
	return map[string]string{"index.html": b.String()}, "index.html"
}

// Custom is the custom type of the panic value of KCustom.
type Custom struct{ N int }

// T is the native type with the failing methods.
type T struct{ st *state }

type state struct {
	log    []string
	cancel context.CancelFunc
	errV   error
	stopE  error
	fatalV *fatalValue
}

type fatalValue struct{ n int }

func (st *state) fail(env native.Env, k int) int {
	switch k {
	case KString:
		panic("boom-string")
	case KError:
		panic(st.errV)
	case KCustom:
		panic(Custom{3})
	case KNilMap:
		var m map[string]int
		m["host-key"] = 1
	case KIndex:
		a := []int{1, 2, 3}
		i := 7
		return a[i]
	case KStop:
		env.Stop(st.stopE)
	case KFatal:
		env.Fatal(st.fatalV)
	}
	return 100 + k
}

func (st *state) fail2(k int, f func(int) int) int {
	if k == KCancelled {
		st.cancel()
		// the callback is invoked until the interpreter notices the
		// cancellation (it then panics out of f with the context's error)
		for n := 0; n < 50_000_000; n++ {
			f(n)
			runtime.Gosched()
		}
		return -7
	}
	sum := 0
	for n := 0; n < 4; n++ {
		sum += f(n)
	}
	return sum
}

// Result is what a run of a case gives.
type Result struct {
	BuildErr   error
	BuildPanic any
	Kind       string // "nil", "*PanicError", "Stop error", "context error", "Fatal value panic", "host panic", "other error"
	Err        error
	PanicMsg   string // String() of the returned *PanicError
	MsgOK      bool   // the message of the *PanicError is the value the native function panicked with
	HostPanic  any
	Stack      string
	Log        []string
}

// Summary is what the twin comparison compares.
func (r Result) Summary() string {
	s := r.Kind
	if r.Kind == "*PanicError" {
		s += " (" + r.PanicMsg + ")"
	}
	if r.Kind == "host panic" {
		s += fmt.Sprintf(" (%T: %v)", r.HostPanic, strings.TrimSpace(fmt.Sprint(r.HostPanic)))
	}
	if r.Kind == "other error" {
		s += " (" + r.Err.Error() + ")"
	}
	return s + " log=" + strings.Join(r.Log, " ; ")
}

// methodHost carries the state for the methods of the native type: the type
// is shared, the state is found through the env's context.
type ctxKey struct{}

func stateOf(env native.Env) *state {
	return env.Context().Value(ctxKey{}).(*state)
}

func (t T) M(k int) int                                    { return t.st.fail(nil, k) }
func (t T) M2(k int, f func(int) int) int                  { return t.st.fail2(k, f) }
func (t T) EM(env native.Env, k int) int                   { return stateOf(env).fail(env, k) }
func (t T) EM2(env native.Env, k int, f func(int) int) int { return stateOf(env).fail2(k, f) }

// Run builds and runs the case.
func Run(c Case) (res Result) {
	st := &state{errV: errors.New("boom-error"), stopE: errors.New("stop-error"), fatalV: &fatalValue{1}}
	base := context.WithValue(context.Background(), ctxKey{}, st)
	ctx, cancel := context.WithCancel(base)
	defer cancel()
	st.cancel = cancel
	tv := T{st}
	fv := func(k int) int { return st.fail(nil, k) }
	fv2 := func(k int, f func(int) int) int { return st.fail2(k, f) }
	decls := native.Declarations{
		"F":    func(k int) int { return st.fail(nil, k) },
		"F2":   func(k int, f func(int) int) int { return st.fail2(k, f) },
		"EF":   func(env native.Env, k int) int { return st.fail(env, k) },
		"EF2":  func(env native.Env, k int, f func(int) int) int { return st.fail2(k, f) },
		"TV":   &tv,
		"FV":   &fv,
		"FV2":  &fv2,
		"Get":  func() func(int) int { return fv },
		"Get2": func() func(int, func(int) int) int { return fv2 },
		"T":    reflect.TypeOf(T{}),
		"Mark": func(s string) { st.log = append(st.log, s) },
		"Show": func(i int, f float64, s string, g int, x int) {
			st.log = append(st.log, fmt.Sprintf("show(%d %v %s %d %d)", i, f, s, g, x))
		},
	}
	files := scriggo.Files{}
	src, entry := c.Source()
	for n, s := range src {
		files[n] = []byte(s)
	}
	var run func() error
	func() {
		defer func() {
			if v := recover(); v != nil {
				res.BuildPanic = v
				res.Stack = string(debug.Stack())
			}
		}()
		opts := &scriggo.RunOptions{Context: ctx, Print: func(any) {}}
		if c.Template {
			t, err := scriggo.BuildTemplate(files, entry, &scriggo.BuildOptions{Globals: decls})
			if err != nil {
				res.BuildErr = err
				return
			}
			run = func() error { return t.Run(&strings.Builder{}, nil, opts) }
		} else {
			p, err := scriggo.Build(files, &scriggo.BuildOptions{Packages: native.Packages{"host": native.Package{Name: "host", Declarations: decls}}})
			if err != nil {
				res.BuildErr = err
				return
			}
			run = func() error { return p.Run(opts) }
		}
	}()
	if run == nil {
		return
	}
	func() {
		defer func() {
			if v := recover(); v != nil {
				res.HostPanic = v
				res.Stack = string(debug.Stack())
			}
		}()
		res.Err = run()
	}()
	res.Log = st.log
	switch {
	case res.HostPanic != nil:
		res.Kind = "host panic"
		if res.HostPanic == any(st.fatalV) {
			res.Kind = "Fatal value panic"
		}
	case res.Err == nil:
		res.Kind = "nil"
	case res.Err == st.stopE:
		res.Kind = "Stop error"
	case ctx.Err() != nil && res.Err == ctx.Err():
		res.Kind = "context error"
	default:
		if pe, ok := res.Err.(*scriggo.PanicError); ok && pe != nil {
			res.Kind = "*PanicError"
			func() {
				defer func() {
					if v := recover(); v != nil {
						res.PanicMsg = fmt.Sprintf("<accessor panics: %v>", v)
					}
				}()
				res.PanicMsg = pe.String()
				if c.Kind == KCustom {
					res.PanicMsg = "a Custom value" // String() shows addresses
				}
				switch c.Kind {
				case KString:
					res.MsgOK = pe.Message() == any("boom-string")
				case KError:
					res.MsgOK = pe.Message() == any(st.errV)
				case KCustom:
					res.MsgOK = pe.Message() == any(Custom{3})
				case KCallbackPanics:
					res.MsgOK = strings.Contains(pe.String(), "cb-boom")
				default:
					res.MsgOK = true
				}
			}()
		} else {
			res.Kind = "other error"
		}
	}
	return
}

// IsHostRuntimeError reports whether v is the runtime.Error raised by the
// native function's own code in the kinds KNilMap and KIndex.
func IsHostRuntimeError(kind int, v any) bool {
	re, ok := v.(runtime.Error)
	if !ok {
		return false
	}
	switch kind {
	case KNilMap:
		return strings.Contains(re.Error(), "assignment to entry in nil map")
	case KIndex:
		return strings.Contains(re.Error(), "index out of range [7] with length 3")
	}
	return false
}

// Want returns the documented outcome kinds of a case ("" when only the twin
// comparison applies) and the expected log.
func Want(c Case) (kind string, log []string) {
	deferred := c.forms()[c.Form].deferred
	tryShow := func(x int) string { return fmt.Sprintf("show(41 1.5 str 7 %d)", x) }
	mainShow := func(y int) string { return fmt.Sprintf("show(40 2.5 main 9 %d)", y) }
	if c.Template {
		switch c.Kind {
		case KNone:
			log = []string{"show(40 2.5 tmpl 9 1)"}
			if c.Recovered {
				log = append(log, "nothing to recover", "show(40 2.5 tmpl 9 -1)")
			}
			return "nil", log
		case KStop:
			return "Stop error", nil
		case KFatal:
			return "Fatal value panic", nil
		case KCancelled:
			return "context error", nil
		case KNilMap, KIndex:
			return "", nil
		}
		if c.Recovered {
			return "nil", []string{"recovered", "show(40 2.5 tmpl 9 -1)"}
		}
		return "*PanicError", nil
	}
	switch c.Kind {
	case KNone:
		x := 100 + KNone
		if deferred {
			x = 0
		}
		log = []string{tryShow(x)}
		if c.Recovered {
			log = append(log, "nothing to recover", tryShow(-1))
		}
		return "nil", append(log, mainShow(x))
	case KStop:
		if deferred {
			return "Stop error", []string{tryShow(0)}
		}
		return "Stop error", nil
	case KFatal:
		if deferred {
			return "Fatal value panic", []string{tryShow(0)}
		}
		return "Fatal value panic", nil
	case KCancelled:
		if deferred {
			return "context error", []string{tryShow(0)}
		}
		return "context error", nil
	case KNilMap, KIndex:
		return "", nil
	}
	// an interpreted-visible panic
	if deferred {
		log = []string{tryShow(0)}
	}
	if c.Recovered {
		return "nil", append(log, "recovered", tryShow(-1), mainShow(0))
	}
	return "*PanicError", log
}

// Cases lists every case, simplest first: programs before templates, callees
// without Env first, not recovered first, kinds in their order, forms in
// their order.
func Cases() []Case {
	var cs []Case
	for _, tmpl := range []bool{false, true} {
		forms := ProgramForms
		if tmpl {
			forms = TemplateForms
		}
		for _, env := range []bool{false, true} {
			for _, rec := range []bool{false, true} {
				for k := 0; k < NumKinds; k++ {
					for f := range forms {
						cs = append(cs, Case{Template: tmpl, EnvCallee: env, Form: f, Kind: k, Recovered: rec})
					}
				}
			}
		}
	}
	return cs
}

// Describe returns the case and its source for a witness.
func (c Case) Describe() map[string]any {
	src, _ := c.Source()
	return map[string]any{"case": c.String(), "files": src}
}

// EnvValueDefect reports whether a host panic is the reflect.Set failure of a
// native function with an Env parameter used as a function value.
func EnvValueDefect(v any) bool {
	s, ok := v.(string)
	return ok && strings.HasPrefix(s, "reflect.Set: value of type func(native.Env")
}
