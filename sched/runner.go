package sched

import (
	"crypto/sha256"
	"encoding/json"
	"fmt"
	"os"
	"os/exec"
	"path/filepath"
	"runtime"
	"sort"
	"strings"
	"sync"
	"testing"
	"time"

	"verif/kit"
)

// CheckSpec describes a scheduler-based check.
type CheckSpec struct {
	ID          string
	Level       string
	Rule        string
	Assumptions []string
	// Scenarios returns the deterministic list of scenarios of a tier.
	Scenarios func(tier string) []*Scenario
	// MaxExec caps the executions per scenario (0 = none); a hit is reported as cap, never as a verdict.
	MaxExec func(tier string) int
	// Extra adds coverage keys (e.g. the free-running -race companion).
	Extra func(tier string) map[string]any
}

type shardResult struct {
	Stats []Stats `json:"stats"`
	Index []int   `json:"index"`
}

// RunCheck is called from TestVerif of a check package.
func RunCheck(t *testing.T, spec *CheckSpec) {
	tier := kit.Tier(nil)
	if rp := os.Getenv("VERIF_REPLAY"); rp != "" {
		os.Exit(replay(t, spec, tier, rp))
	}
	if sh := os.Getenv("VERIF_SHARD"); sh != "" {
		// worker: explore exactly one scenario
		var k int
		fmt.Sscanf(sh, "%d", &k)
		scs := spec.Scenarios(tier)
		maxExec := 0
		if spec.MaxExec != nil {
			maxExec = spec.MaxExec(tier)
		}
		res := shardResult{Stats: []Stats{Explore(t, scs[k], maxExec)}, Index: []int{k}}
		b, _ := json.Marshal(res)
		if err := os.WriteFile(os.Getenv("VERIF_OUT"), b, 0o644); err != nil {
			fmt.Fprintln(os.Stderr, err)
			os.Exit(2)
		}
		return
	}
	// parent
	start := time.Now()
	scs := spec.Scenarios(tier)
	n := runtime.NumCPU()
	if n > len(scs) {
		n = len(scs)
	}
	outDir := filepath.Join(kit.Root(), ".build", "shards", fmt.Sprintf("%s-%d", spec.ID, os.Getpid()))
	os.MkdirAll(outDir, 0o755)
	defer os.RemoveAll(outDir)
	var wg sync.WaitGroup
	results := make([]shardResult, len(scs))
	errs := make([]string, len(scs))
	hangs := make([]string, len(scs))
	jobs := make(chan int, len(scs))
	for k := range scs {
		jobs <- k
	}
	close(jobs)
	for w := 0; w < n; w++ {
		wg.Add(1)
		go func() {
			defer wg.Done()
			for i := range jobs {
				out := filepath.Join(outDir, fmt.Sprintf("scenario%d.json", i))
				cmd := exec.Command(os.Args[0], "-test.run", "^TestVerif$", "-test.timeout", "0")
				cmd.Env = append(os.Environ(), fmt.Sprintf("VERIF_SHARD=%d", i), "VERIF_OUT="+out, "VERIF_TIER="+tier, "GOMAXPROCS=1")
				var eb strings.Builder
				cmd.Stderr = &eb
				cmd.Stdout = &eb
				hb := out + ".hb"
				cmd.Env = append(cmd.Env, "VERIF_HB="+hb)
				os.WriteFile(hb, []byte("0"), 0o644)
				if err := cmd.Start(); err != nil {
					errs[i] = fmt.Sprintf("scenario %d (%s): %v", i, scs[i].Name, err)
					continue
				}
				// watchdog: one execution takes milliseconds; a worker that does not
				// start another execution for hangLimit is stuck inside the code under
				// test, outside every scheduling point
				exited := make(chan error, 1)
				go func() { exited <- cmd.Wait() }()
				var err error
				hung := false
				lastBeat, lastChange := "", time.Now()
			wait:
				for {
					select {
					case err = <-exited:
						break wait
					case <-time.After(2 * time.Second):
						b, _ := os.ReadFile(hb)
						if string(b) != lastBeat {
							lastBeat, lastChange = string(b), time.Now()
						} else if time.Since(lastChange) > hangLimit() {
							hung = true
							cmd.Process.Kill()
							err = <-exited
							break wait
						}
					}
				}
				if hung {
					hangs[i] = fmt.Sprintf("scenario %s: the worker started execution #%s and did not finish it within %v: the code under test spins or blocks outside every scheduling point (no VM instruction boundary is reached), so it can be neither scheduled nor cancelled\n%s", scs[i].Name, lastBeat, hangLimit(), tailStr(eb.String(), 2000))
					continue
				}
				if err != nil {
					errs[i] = fmt.Sprintf("scenario %d (%s): %v\n%s", i, scs[i].Name, err, tailStr(eb.String(), 4000))
					continue
				}
				b, err := os.ReadFile(out)
				if err != nil {
					errs[i] = fmt.Sprintf("scenario %d: %v\n%s", i, err, tailStr(eb.String(), 4000))
					continue
				}
				if err := json.Unmarshal(b, &results[i]); err != nil {
					errs[i] = fmt.Sprintf("scenario %d: %v", i, err)
				}
			}
		}()
	}
	wg.Wait()
	var harness []string
	for _, e := range errs {
		if e != "" {
			harness = append(harness, e)
		}
	}
	all := make([]Stats, len(scs))
	for _, r := range results {
		for k, st := range r.Stats {
			all[r.Index[k]] = st
		}
	}
	var failures []kit.Failure
	for k, h := range hangs {
		if h != "" {
			failures = append(failures, kit.Failure{Space: scs[k].Name, Index: uint64(k), Key: "execution-hangs-outside-scheduling-points|scenario=" + scs[k].Name, Detail: h, Witness: map[string]any{"scenario": scs[k].Name}})
		}
	}
	execs, trans, states, caps, selForks := 0, 0, 0, 0, 0
	distinctObs := 0
	exhaustive := true
	var perScenario []map[string]any
	var samples []any
	multiOutcome := 0
	for k, st := range all {
		execs += st.Executions
		trans += st.Transitions
		states += st.States
		caps += st.CapHits
		selForks += st.SelectForks
		distinctObs += len(st.Outcomes)
		if len(st.Outcomes) > 1 {
			multiOutcome++
		}
		if st.BoundDone < 0 {
			exhaustive = false
		}
		harness = append(harness, st.Harness...)
		for _, f := range st.Failures {
			failures = append(failures, kit.Failure{Space: scs[k].Name, Index: uint64(k), Key: f.Key, Detail: f.Detail + "\nschedule: " + fmt.Sprint(f.Choices) + "\n" + strings.Join(f.Trace, "\n"), Witness: map[string]any{"scenario": scs[k].Name, "choices": f.Choices}})
		}
		perScenario = append(perScenario, map[string]any{"name": scs[k].Name, "executions": st.Executions, "transitions": st.Transitions, "states": st.States, "bound_done": st.BoundDone, "cap_hits": st.CapHits, "max_points": st.MaxPoints, "select_forks": st.SelectForks, "distinct_observations": len(st.Outcomes)})
		if len(samples) < 6 && len(st.Samples) > 0 {
			samples = append(samples, map[string]any{"scenario": scs[k].Name, "schedule": st.Samples[len(st.Samples)-1]})
		}
	}
	bound := 0
	if len(scs) > 0 {
		bound = scs[0].Bound
	}
	cov := map[string]any{
		"evaluations":                     execs,
		"distinct_nontrivial":             states,
		"rule":                            spec.Rule,
		"samples":                         samples,
		"states":                          states,
		"transitions":                     trans,
		"traces_validated_against_impl":   execs,
		"exhaustive":                      exhaustive,
		"deviation_bound":                 bound,
		"cap_hits":                        caps,
		"select_forks":                    selForks,
		"scenarios":                       len(scs),
		"distinct_observations_total":     distinctObs,
		"scenarios_with_several_outcomes": multiOutcome,
		"per_scenario":                    perScenario,
		"shards":                          n,
	}
	if spec.Extra != nil {
		for k, v := range spec.Extra(tier) {
			cov[k] = v
			if k == "harness_error" {
				harness = append(harness, fmt.Sprint(v))
			}
			if k == "extra_failures" {
				if fs, ok := v.([]kit.Failure); ok {
					failures = append(failures, fs...)
				}
			}
		}
	}
	code := kit.Finish(spec.ID, spec.Level, tier, cov, spec.Assumptions, failures, harness, start)
	os.Exit(code)
}

// hangLimit is how long a worker may stay inside one execution (VERIF_HANG_SECONDS, default 180).
func hangLimit() time.Duration {
	if v := os.Getenv("VERIF_HANG_SECONDS"); v != "" {
		var n int
		if _, err := fmt.Sscanf(v, "%d", &n); err == nil && n > 0 {
			return time.Duration(n) * time.Second
		}
	}
	return 180 * time.Second
}

func tailStr(s string, n int) string {
	if len(s) <= n {
		return s
	}
	return "…" + s[len(s)-n:]
}

func replay(t *testing.T, spec *CheckSpec, tier, path string) int {
	b, err := os.ReadFile(path)
	if err != nil {
		fmt.Fprintln(os.Stderr, err)
		return 2
	}
	var rp struct {
		Witness struct {
			Scenario string `json:"scenario"`
			Choices  []int  `json:"choices"`
		} `json:"witness"`
	}
	if err := json.Unmarshal(b, &rp); err != nil {
		fmt.Fprintln(os.Stderr, err)
		return 2
	}
	for _, sc := range spec.Scenarios(tier) {
		if sc.Name != rp.Witness.Scenario {
			continue
		}
		x, obs := runOne(t, sc, rp.Witness.Choices)
		for _, l := range traceOf(x) {
			fmt.Println(" ", l)
		}
		if x.Diverged != "" {
			fmt.Println("replay diverged:", x.Diverged)
			return 2
		}
		key := ""
		if x.Violation != "" {
			key = strings.SplitN(x.Violation, "\x00", 2)[0]
		} else if x.CapHit && sc.CapKey != nil {
			key = sc.CapKey(x)
		} else {
			if x.Deadlock {
				obs = "DEADLOCK " + obs
			}
			if x.Leak {
				obs = "LEAK " + obs
			}
			_, key, _ = sc.Check(x, obs)
		}
		fmt.Printf("observation: %s\n", obs)
		if key != "" {
			fmt.Printf("replay: fails key=%s\nVIOLATION property=%s replay=%s\n", key, spec.ID, path)
			return 1
		}
		fmt.Println("replay: passes")
		return 0
	}
	fmt.Fprintf(os.Stderr, "replay: scenario %q not in tier %s\n", rp.Witness.Scenario, tier)
	return 2
}

// GCRun compiles and runs a single-file Go program with the gc toolchain and
// returns what it printed on stderr+stdout and its exit code. Results are
// cached under /verif/.cache/gc by source hash.
func GCRun(src string, gomaxprocs int) (string, int, error) {
	h := sha256.Sum256([]byte(src))
	dir := filepath.Join(kit.Root(), ".cache", "gc", fmt.Sprintf("%x", h[:12]))
	bin := filepath.Join(dir, "prog")
	if _, err := os.Stat(bin); err != nil {
		tmp := dir + fmt.Sprintf(".tmp%d", os.Getpid())
		os.MkdirAll(tmp, 0o755)
		os.WriteFile(filepath.Join(tmp, "main.go"), []byte(src), 0o644)
		os.WriteFile(filepath.Join(tmp, "go.mod"), []byte("module prog\n\ngo 1.25.0\n"), 0o644)
		cmd := exec.Command("go", "build", "-o", "prog", ".")
		cmd.Dir = tmp
		if out, err := cmd.CombinedOutput(); err != nil {
			os.RemoveAll(tmp)
			return string(out), -1, fmt.Errorf("gc build failed: %v\n%s", err, out)
		}
		os.MkdirAll(filepath.Dir(dir), 0o755)
		if err := os.Rename(tmp, dir); err != nil {
			os.RemoveAll(tmp) // another process won the race
		}
	}
	cmd := exec.Command(bin)
	cmd.Env = append(os.Environ(), fmt.Sprintf("GOMAXPROCS=%d", gomaxprocs), "GOTRACEBACK=none")
	out, err := cmd.CombinedOutput()
	code := 0
	if err != nil {
		if ee, ok := err.(*exec.ExitError); ok {
			code = ee.ExitCode()
		} else {
			return "", -1, err
		}
	}
	return string(out), code, nil
}

// GCReference runs the program 3 times at different GOMAXPROCS; differing outputs are an error of the generator.
func GCReference(src string) (string, error) {
	var outs []string
	for _, p := range []int{1, 4, 16} {
		o, code, err := GCRun(src, p)
		if err != nil {
			return "", err
		}
		outs = append(outs, fmt.Sprintf("%s[exit %d]", o, code))
	}
	sort.Strings(outs)
	if outs[0] != outs[2] {
		return "", fmt.Errorf("gc output is schedule-dependent (generator bug): %q vs %q", outs[0], outs[2])
	}
	return outs[0], nil
}

// RaceCompanion returns the Extra function that runs the free-running -race
// binary of a check (built by bin/schedcheck.sh as .build/<ID>.race.test): the
// same harness bodies, no scheduler, many goroutines. It can only add findings
// (a race report or a free-running mismatch); its silence proves nothing.
func RaceCompanion(id string) func(tier string) map[string]any {
	return func(tier string) map[string]any {
		bin := filepath.Join(kit.Root(), ".build", id+".race.test")
		if _, err := os.Stat(bin); err != nil {
			return map[string]any{"race_companion": "not built"}
		}
		cmd := exec.Command(bin, "-test.run", "^TestRace$", "-test.count", "1", "-test.timeout", "0")
		cmd.Env = append(os.Environ(), "VERIF_TIER="+tier, "GORACE=halt_on_error=0")
		out, err := cmd.CombinedOutput()
		s := string(out)
		res := map[string]any{}
		if strings.Contains(s, "WARNING: DATA RACE") {
			fr := ""
			if i := strings.Index(s, "WARNING: DATA RACE"); i >= 0 {
				fr = kit.FirstRepoFrame(s[i:])
			}
			res["race_companion"] = "DATA RACE reported"
			res["extra_failures"] = []kit.Failure{{Space: "race-companion", Key: "data-race|" + fr, Detail: headStr(s, 6000)}}
			return res
		}
		if err != nil {
			if strings.Contains(s, "MISMATCH") {
				key := "free-running-run-differs"
				for _, l := range strings.Split(s, "\n") {
					if i := strings.Index(l, "MISMATCH-KEY "); i >= 0 {
						key = strings.TrimSpace(l[i+len("MISMATCH-KEY "):])
						break
					}
				}
				res["race_companion"] = "free-running mismatch"
				res["extra_failures"] = []kit.Failure{{Space: "race-companion", Key: key, Detail: headStr(s, 6000)}}
				return res
			}
			res["race_companion"] = "failed to run"
			res["harness_error"] = "race companion: " + err.Error() + "\n" + headStr(s, 3000)
			return res
		}
		last := ""
		for _, l := range strings.Split(s, "\n") {
			if strings.Contains(l, "race-companion:") {
				last = strings.TrimSpace(l)
			}
		}
		res["race_companion"] = last
		return res
	}
}

func headStr(s string, n int) string {
	if len(s) > n {
		return s[:n]
	}
	return s
}
