//go:build !verifreflect

package sched

// IntraEnabled reports whether the binary was built with the reflect overlay
// (see intra_on.go): without it the scheduler has no points inside an instruction.
const IntraEnabled = false
