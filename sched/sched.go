// Package sched is engine E2 of DESIGN.md: a controlled scheduler over the
// real Scriggo VM, with stateless depth-first exploration of schedules by
// re-execution under a deviation (preemption) bound.
//
// One execution = one testing/synctest bubble. Every VM goroutine calls the
// verif hook before each instruction; the hook parks the goroutine on its own
// channel unless it is the thread the scheduler is currently running and the
// step is invisible. The scheduler loops: synctest.Wait() (every goroutine is
// now parked at a hook, durably blocked in a real channel operation, or
// finished) -> choose one parked thread per the choice sequence -> resume it.
// Channel enabledness is never modelled: a thread released into a blocking
// instruction blocks for real and re-parks by itself when a partner wakes it.
package sched

import (
	"fmt"
	"os"
	"reflect"
	"runtime"
	"sort"
	"strconv"
	"strings"
	"sync"
	"sync/atomic"
	"testing"
	"testing/synctest"
	"time"

	"github.com/open2b/scriggo"
)

// Thread statuses.
const (
	stParked  = iota // parked at a hook (or not yet started): enabled
	stRunning        // resumed; after Wait() this means "blocked for real"
	stEnded
	stPending // a context watcher that woke up; the scheduler decides at the next quiescence whether it is a thread
)

// Thread is a schedulable entity: a driver body, a VM goroutine or a context watcher.
type Thread struct {
	ID            int
	Name          string
	Watcher       bool
	Driver        bool
	Free          bool // switching to this thread never costs a deviation (environment event)
	status        int
	resume        chan struct{}
	ev            scriggo.VerifEvent // copy of the event the thread is parked at
	hasEv         bool
	vm            any
	Steps         int // instructions started
	invisible     int
	sawDone       bool // parked at a step with the done flag already visible
	force         int  // select case to force at resume, -1 none
	saved         []reflect.Value
	vmDepth       int    // nesting of VMs running on this goroutine (native callbacks into closures)
	label         string // label of a Yield point
	forceDone     int    // -1 none; 0 force the channel operation; 1 force the context's done case
	forcedPending bool   // a forced case was installed and the operation has not completed yet
	watched       *Thread // for a watcher: the VM thread whose flag it stores
	chanOps       int    // channel primitives reached through reflect since the last step (intra-instruction points, see intra_on.go)
}

// Op returns the operation the thread is parked at (0 if none).
func (t *Thread) Op() int {
	if !t.hasEv {
		return 0
	}
	return t.ev.Op
}

// Point is one scheduling decision.
type Point struct {
	Kind      string // "sched" | "select"
	Enabled   []int  // thread ids (sched) or case indexes (select) in canonical order
	Costs     []int  // deviation cost of each alternative
	Chosen    int    // index into Enabled
	CostSoFar int    // deviations used before this point
	Desc      string // what the chosen thread is about to do
}

// Exec is one execution.
type Exec struct {
	sc        *Scenario
	mu        sync.Mutex
	threads   []*Thread
	byVM      map[any]*Thread
	byGoid    map[uint64]*Thread // goroutine id -> thread, to attribute nested VMs started by native callbacks
	current   *Thread
	nextID    int
	Points    []Point
	Choices   []int
	prefix    []int
	Deadlock  bool
	Leak      bool
	CapHit    bool
	Diverged  string // harness error: replay diverged
	Violation string // set by the hook-level oracles (key|detail)
	Natives   []string
	Cancelled bool // set by scenario code when it cancels a context
	doneSeen  bool
	User      any // scenario's per-execution state
	schedGoid uint64 // goroutine of the scheduler loop (its own reflect calls are not scheduling points)
	// IntraPoints counts the intra-instruction scheduling points of this execution
	// (second and later channel primitives inside one VM instruction; only with
	// the reflect overlay, build tag verifreflect).
	IntraPoints int
}

// Scenario is a closed system to explore.
type Scenario struct {
	Name string
	// Setup runs inside the bubble at the start of every execution. It returns
	// the driver thread bodies (started lazily by the scheduler, in order) and
	// the function that produces the observation once the execution is over.
	Setup func(x *Exec) (bodies []Driver, observe func(x *Exec) string)
	// Visible reports whether a VM step is a scheduling point.
	Visible func(ev *scriggo.VerifEvent) bool
	// Bound is the maximum number of deviations (preemptions).
	Bound int
	// MaxPoints is the horizon: an execution with more scheduling points is cut (cap hit).
	MaxPoints int
	// Check judges one finished execution.
	Check func(x *Exec, obs string) (ok bool, key, detail string)
	// Policy orders the enabled threads and prices the alternatives; nil = DefaultPolicy.
	Policy func(x *Exec, enabled []*Thread, cur *Thread, pointIdx int) ([]*Thread, []int)
	// DoneOracle enables C11's rule: a thread resumed with the done flag visible must not start another instruction.
	DoneOracle bool
	// MaxInvisible forces a park after that many consecutive invisible steps (default 100000).
	MaxInvisible int
	// NoSelectForcing disables enumeration of ready select cases.
	NoSelectForcing bool
	// CapKey, if set, turns an execution cut at the horizon (MaxPoints) into a
	// violation when it returns a non-empty key (C11: still running long after
	// the cancellation became visible).
	CapKey func(x *Exec) string
	// RepeatKey, if non-empty, declares that the executions of this scenario
	// share an object under test on purpose (C10: one compiled artefact run
	// again and again). If the same schedule then gives two different
	// executions, that is a violation with this key (the object carried state
	// from one execution to the next), not a harness error.
	RepeatKey string
	// Prepare, if set, runs before every execution OUTSIDE the bubble and with
	// the hook inactive (build artefacts, compute references; use a sync.Once).
	Prepare func()
}

// Driver is a driver thread.
type Driver struct {
	Name string
	Body func()
	Free bool
}

// DefaultPolicy: the running thread first if still parked, then ascending id;
// switching away from a parked running thread costs 1, any choice after the
// running thread blocked or ended costs 0.
func DefaultPolicy(x *Exec, enabled []*Thread, cur *Thread, pointIdx int) ([]*Thread, []int) {
	sort.Slice(enabled, func(a, b int) bool { return enabled[a].ID < enabled[b].ID })
	curParked := false
	for i, t := range enabled {
		if t == cur {
			curParked = true
			copy(enabled[1:i+1], enabled[:i])
			enabled[0] = cur
			break
		}
	}
	costs := make([]int, len(enabled))
	for i := range enabled {
		if i > 0 && curParked && !enabled[i].Free {
			costs[i] = 1
		}
	}
	return enabled, costs
}

var (
	hookOnce                                            sync.Once
	curExec                                             atomic.Pointer[Exec]
	opSelect, opSend, opReceive, opClose, opGo, opPrint int
)

func installHook() {
	hookOnce.Do(func() {
		opSelect = scriggo.VerifOps["Select"]
		opSend = scriggo.VerifOps["Send"]
		opReceive = scriggo.VerifOps["Receive"]
		opClose = scriggo.VerifOps["Close"]
		opGo = scriggo.VerifOps["Go"]
		opPrint = scriggo.VerifOps["Print"]
		scriggo.VerifSetHook(func(ev *scriggo.VerifEvent) {
			x := curExec.Load()
			if x == nil {
				return
			}
			x.hook(ev)
		})
	})
}

// AbsOp returns the operation of a step event without the constant-operand sign.
func AbsOp(ev *scriggo.VerifEvent) int {
	if ev.Op < 0 {
		return -ev.Op
	}
	return ev.Op
}

func (x *Exec) newThread(name string) *Thread {
	t := &Thread{ID: x.nextID, Name: name, resume: make(chan struct{}, 1), force: -1, forceDone: -1}
	x.nextID++
	x.threads = append(x.threads, t)
	return t
}

func (x *Exec) fail(key, detail string) {
	if x.Violation == "" {
		x.Violation = key + "\x00" + detail
	}
}

// park blocks the calling goroutine until the scheduler resumes t.
func (x *Exec) park(t *Thread) {
	<-t.resume
}

func (x *Exec) hook(ev *scriggo.VerifEvent) {
	switch ev.Kind {
	case scriggo.VerifBegin:
		gid := goid()
		x.mu.Lock()
		t := x.byVM[ev.VM]
		if t == nil {
			// root VM of a Run called by a driver thread, or a nested VM started
			// by a native callback: it belongs to the thread of this goroutine
			// (which need not be the running one: a thread woken from a blocking
			// operation may call back again before its next scheduling point)
			t = x.byGoid[gid]
			if t == nil {
				x.mu.Unlock()
				stranger() // a goroutine of an abandoned execution
			}
			x.byVM[ev.VM] = t
		} else {
			x.byGoid[gid] = t
		}
		t.vm = ev.VM
		t.vmDepth++
		t.sawDone = false
		x.mu.Unlock()
	case scriggo.VerifEnd:
		x.mu.Lock()
		t := x.byVM[ev.VM]
		if t == nil {
			x.mu.Unlock()
			stranger()
		}
		t.vmDepth--
		t.forcedPending = false
		delete(x.byVM, ev.VM)
		if !t.Driver && t.vmDepth == 0 {
			t.status = stEnded
		}
		x.mu.Unlock()
	case scriggo.VerifSpawn:
		x.mu.Lock()
		p := x.byVM[ev.VM]
		if p == nil {
			x.mu.Unlock()
			stranger()
		}
		c := x.newThread(fmt.Sprintf("go#%d<-%d", x.nextID, p.ID))
		c.status = stRunning // it will park at its first step
		x.byVM[ev.Child] = c
		x.mu.Unlock()
	case scriggo.VerifStep:
		x.mu.Lock()
		t := x.byVM[ev.VM]
		if t == nil {
			x.mu.Unlock()
			stranger()
		}
		if x.sc.DoneOracle && t.sawDone {
			x.fail("instruction-after-done|op="+fmt.Sprint(AbsOp(ev)), fmt.Sprintf("thread %d (%s) was resumed with the done flag visible and started another instruction (pc %d)", t.ID, t.Name, ev.PC))
		}
		t.Steps++
		t.chanOps = 0
		t.forcedPending = false
		t.force, t.forceDone = -1, -1
		if ev.Done {
			x.doneSeen = true
		}
		maxInv := x.sc.MaxInvisible
		if maxInv == 0 {
			maxInv = 100000
		}
		t.ev = *ev
		t.hasEv = true
		if t == x.current && !x.sc.Visible(ev) && t.invisible < maxInv {
			t.invisible++
			x.mu.Unlock()
			return
		}
		t.invisible = 0
		t.sawDone = ev.Done && ev.HasCtx && !ev.InRange // the range receive is not followed by a done check
		t.status = stParked
		x.mu.Unlock()
		x.park(t)
		if t.force >= 0 && ev.Cases != nil {
			// enumerate select choices: mask every ready case but the forced one
			t.forcedPending = true
			t.saved = t.saved[:0]
			for i := range ev.Cases {
				t.saved = append(t.saved, ev.Cases[i].Chan)
				if i != t.force && ev.Cases[i].Dir != reflect.SelectDefault {
					ev.Cases[i].Chan = reflect.Value{}
				}
			}
		}
	case scriggo.VerifAfterSelect:
		x.mu.Lock()
		t := x.byVM[ev.VM]
		x.mu.Unlock()
		if t != nil {
			if t.force >= 0 {
				for i := range t.saved {
					if i < len(ev.Cases) {
						ev.Cases[i].Chan = t.saved[i]
					}
				}
			}
			t.force = -1
			t.forceDone = -1
			t.forcedPending = false
		}
	case scriggo.VerifDoneSelect:
		// the last case is the context's done case
		x.mu.Lock()
		t := x.byVM[ev.VM]
		x.mu.Unlock()
		if t == nil || len(ev.Cases) == 0 {
			return
		}
		last := len(ev.Cases) - 1
		switch {
		case t.forceDone == 1:
			t.forcedPending = true
			if t.force < 0 {
				t.saved = t.saved[:0]
				for i := 0; i < last; i++ {
					t.saved = append(t.saved, ev.Cases[i].Chan)
				}
				t.force = last // so that AfterSelect restores
			}
			for i := 0; i < last; i++ {
				if ev.Cases[i].Dir != reflect.SelectDefault {
					ev.Cases[i].Chan = reflect.Value{}
				}
			}
		case t.forceDone == 0 || t.force >= 0:
			t.forcedPending = true
			ev.Cases[last].Chan = reflect.Value{}
		}
		if t.forceDone >= 0 && (AbsOp(&t.ev) != opSelect) {
			t.forceDone = -1 // send/receive: nothing to restore afterwards
			t.force = -1
		}
	case scriggo.VerifWatcher:
		x.mu.Lock()
		vt := x.byVM[ev.VM]
		if vt == nil {
			// the VM's runFunc has ended already: nothing can observe this watcher
			x.mu.Unlock()
			return
		}
		// Whether this watcher is a schedulable thread is decided by the scheduler
		// at the next quiescence (see settleWatchers), never here: at this moment
		// the VM's goroutine may still be on its way to its next scheduling point,
		// and reading its status now would make the decision depend on timing.
		w := &Thread{ID: 100000 + vt.ID, Name: fmt.Sprintf("watcher-of-%d", vt.ID), Watcher: true, resume: make(chan struct{}, 1), force: -1, forceDone: -1, status: stPending, watched: vt}
		x.threads = append(x.threads, w)
		x.mu.Unlock()
		x.park(w)
		x.mu.Lock()
		w.status = stEnded
		x.mu.Unlock()
	case scriggo.VerifCallNative:
		pkg, name := scriggo.VerifNativeName(ev)
		x.mu.Lock()
		x.Natives = append(x.Natives, pkg+"."+name)
		x.mu.Unlock()
	}
}

// settleWatchers is called at quiescence. A context watcher that woke up
// (stPending) becomes a schedulable thread if the VM it belongs to is parked at
// an instruction (computing): "the flag is not visible yet" is then a delay the
// scheduler explores. Otherwise the VM's goroutine is blocked in a channel
// operation or its runFunc has ended (close(stop) races with ctx.Done in the
// watcher's select, which picks at random): the delay of this watcher cannot
// be observed, so it is released at once, without a scheduling point. It
// reports whether a watcher was released (the caller waits for quiescence again).
func (x *Exec) settleWatchers() bool {
	x.mu.Lock()
	defer x.mu.Unlock()
	released := false
	for _, th := range x.threads {
		if th.status != stPending {
			continue
		}
		if th.watched.status == stParked {
			th.status = stParked
		} else {
			th.status = stRunning
			th.resume <- struct{}{}
			released = true
		}
	}
	return released
}

// goid returns the id of the calling goroutine (parsed from the stack header;
// only used at VM begin events, which are rare).
func goid() uint64 {
	var buf [64]byte
	n := runtime.Stack(buf[:], false)
	// "goroutine 123 [running]:"
	f := strings.Fields(string(buf[:n]))
	if len(f) < 2 {
		return 0
	}
	id, _ := strconv.ParseUint(f[1], 10, 64)
	return id
}

// stranger blocks a goroutine that does not belong to the current execution forever.
func stranger() {
	select {}
}

// Yield is a scheduling point inside harness-supplied native code: the
// calling thread (which must be the running one) parks as at a visible step.
func (x *Exec) Yield(label string) {
	x.mu.Lock()
	t := x.current
	if t == nil {
		x.mu.Unlock()
		return
	}
	t.status = stParked
	t.hasEv = false
	t.label = label
	x.mu.Unlock()
	x.park(t)
}

// blockedOn reports whether some thread other than self is blocked for real in
// a receive (wantRecv) or send on channel ch.
func (x *Exec) blockedOn(self *Thread, ch reflect.Value, wantRecv bool) bool {
	for _, t := range x.threads {
		if t == self || t.status != stRunning || !t.hasEv {
			continue
		}
		switch op := AbsOp(&t.ev); op {
		case opReceive:
			if wantRecv && sameChan(t.ev.Chan, ch) {
				return true
			}
		case opSend:
			if !wantRecv && sameChan(t.ev.Chan, ch) {
				return true
			}
		case opSelect:
			for i, c := range t.ev.Cases {
				chv := c.Chan
				if i < len(t.saved) && t.force >= 0 {
					chv = t.saved[i]
				}
				if (c.Dir == reflect.SelectRecv) == wantRecv && c.Dir != reflect.SelectDefault && sameChan(chv, ch) {
					return true
				}
			}
		}
	}
	return false
}

func sameChan(a, b reflect.Value) bool {
	if !a.IsValid() || !b.IsValid() || a.Kind() != reflect.Chan || b.Kind() != reflect.Chan {
		return false
	}
	return a.Pointer() == b.Pointer() && a.Pointer() != 0
}

// readyCases computes which cases of the select t is parked at can proceed now.
func (x *Exec) readyCases(t *Thread, closed map[uintptr]bool) []int {
	var ready []int
	for i, c := range t.ev.Cases {
		switch c.Dir {
		case reflect.SelectSend:
			if !c.Chan.IsValid() || c.Chan.IsNil() {
				continue
			}
			if closed[c.Chan.Pointer()] || c.Chan.Len() < c.Chan.Cap() || x.blockedOn(t, c.Chan, true) {
				ready = append(ready, i)
			}
		case reflect.SelectRecv:
			if !c.Chan.IsValid() || c.Chan.IsNil() {
				continue
			}
			if closed[c.Chan.Pointer()] || c.Chan.Len() > 0 || x.blockedOn(t, c.Chan, false) {
				ready = append(ready, i)
			}
		}
	}
	return ready
}

// chanReady reports whether a send (or receive) on ch can proceed now.
func (x *Exec) chanReady(t *Thread, ch reflect.Value, send bool, closed map[uintptr]bool) bool {
	if !ch.IsValid() || ch.Kind() != reflect.Chan || ch.IsNil() {
		return false
	}
	if closed[ch.Pointer()] {
		return true
	}
	if send {
		return ch.Len() < ch.Cap() || x.blockedOn(t, ch, true)
	}
	return ch.Len() > 0 || x.blockedOn(t, ch, false)
}

func (x *Exec) choose(width int) (int, bool) {
	i := len(x.Choices)
	c := 0
	if i < len(x.prefix) {
		c = x.prefix[i]
		if c >= width {
			x.Diverged = fmt.Sprintf("replay diverged at point %d: choice %d but only %d alternatives", i, c, width)
			return 0, false
		}
	}
	x.Choices = append(x.Choices, c)
	return c, true
}

// runOne executes the scenario once following prefix, then default choices.
func runOne(t *testing.T, sc *Scenario, prefix []int) (x *Exec, obs string) {
	heartbeat()
	installHook()
	if sc.Prepare != nil {
		sc.Prepare()
	}
	x = &Exec{sc: sc, byVM: map[any]*Thread{}, byGoid: map[uint64]*Thread{}, prefix: prefix}
	maxPoints := sc.MaxPoints
	if maxPoints == 0 {
		maxPoints = 20000
	}
	policy := sc.Policy
	if policy == nil {
		policy = DefaultPolicy
	}
	func() {
		defer func() {
			if r := recover(); r != nil {
				msg := fmt.Sprint(r)
				if strings.Contains(msg, "deadlock") {
					x.Leak = true
					return
				}
				panic(r)
			}
		}()
		synctest.Test(t, func(t *testing.T) {
			x.schedGoid = goid()
			curExec.Store(x)
			defer curExec.Store(nil)
			bodies, observe := sc.Setup(x)
			for _, d := range bodies {
				th := x.newThread(d.Name)
				th.Driver = true
				th.Free = d.Free
				body := d.Body
				go func() {
					<-th.resume
					x.mu.Lock()
					x.byGoid[goid()] = th
					x.mu.Unlock()
					body()
					x.mu.Lock()
					th.status = stEnded
					x.mu.Unlock()
				}()
			}
			closed := map[uintptr]bool{}
			cost := 0
			var lastResumed *Thread
			for {
				synctest.Wait()
				if x.settleWatchers() {
					continue
				}
				if x.Violation != "" || x.Diverged != "" {
					break
				}
				if lastResumed != nil && lastResumed.forcedPending && lastResumed.status == stRunning {
					x.Diverged = fmt.Sprintf("model mismatch: thread %s was forced into a channel case that blocked", lastResumed.Name)
					break
				}
				x.mu.Lock()
				var enabled []*Thread
				allEnded := true
				for _, th := range x.threads {
					if th.status == stParked {
						enabled = append(enabled, th)
					}
					if th.status != stEnded {
						allEnded = false
					}
				}
				cur := x.current
				x.mu.Unlock()
				if len(enabled) == 0 {
					if !allEnded {
						x.Deadlock = true
					}
					break
				}
				if len(x.Points) >= maxPoints {
					x.CapHit = true
					break
				}
				ordered, costs := policy(x, enabled, cur, len(x.Points))
				c, ok := x.choose(len(ordered))
				if !ok {
					break
				}
				ids := make([]int, len(ordered))
				for i, th := range ordered {
					ids[i] = th.ID
				}
				th := ordered[c]
				desc := th.Name
				if th.hasEv {
					desc = fmt.Sprintf("%s pc=%d op=%d", th.Name, th.ev.PC, th.ev.Op)
				} else if th.label != "" {
					desc = th.Name + " " + th.label
				}
				x.Points = append(x.Points, Point{Kind: "sched", Enabled: ids, Costs: costs, Chosen: c, CostSoFar: cost, Desc: desc})
				cost += costs[c]
				if th.hasEv {
					op := AbsOp(&th.ev)
					// the context is cancelled but this thread has not seen the flag:
					// its channel operation will select between the operation and the done case
					hidden := th.ev.HasCtx && x.Cancelled && !th.ev.Done
					switch {
					case op == opClose:
						if th.ev.Chan.IsValid() && th.ev.Chan.Kind() == reflect.Chan && !th.ev.Chan.IsNil() {
							closed[th.ev.Chan.Pointer()] = true
						}
					case op == opSelect && !sc.NoSelectForcing && th.ev.Cases != nil && !th.ev.Done:
						x.mu.Lock()
						alts := x.readyCases(th, closed)
						x.mu.Unlock()
						hasDefault := false
						for _, c := range th.ev.Cases {
							if c.Dir == reflect.SelectDefault {
								hasDefault = true
							}
						}
						if hidden && !hasDefault {
							alts = append(alts, -1) // the done case
						}
						if len(alts) >= 2 {
							k, ok := x.choose(len(alts))
							if !ok {
								break
							}
							x.Points = append(x.Points, Point{Kind: "select", Enabled: alts, Costs: make([]int, len(alts)), Chosen: k, CostSoFar: cost, Desc: fmt.Sprintf("%s select case %d", th.Name, alts[k])})
							if alts[k] == -1 {
								th.forceDone = 1
							} else {
								th.force = alts[k]
							}
						}
					case (op == opSend || op == opReceive) && hidden && !sc.NoSelectForcing:
						x.mu.Lock()
						ready := x.chanReady(th, th.ev.Chan, op == opSend, closed)
						x.mu.Unlock()
						if ready {
							k, ok := x.choose(2)
							if !ok {
								break
							}
							x.Points = append(x.Points, Point{Kind: "select", Enabled: []int{0, -1}, Costs: []int{0, 0}, Chosen: k, CostSoFar: cost, Desc: fmt.Sprintf("%s op-vs-done %d", th.Name, k)})
							th.forceDone = k
						}
					}
				}
				if x.Diverged != "" {
					break
				}
				x.mu.Lock()
				x.current = th
				th.status = stRunning
				th.label = ""
				x.mu.Unlock()
				lastResumed = th
				th.resume <- struct{}{}
			}
			if x.Violation == "" && x.Diverged == "" && !x.Deadlock && !x.CapHit {
				obs = observe(x)
			}
		})
	}()
	return x, obs
}

// Stats summarises an exploration.
type Stats struct {
	Scenario    string   `json:"scenario"`
	Executions  int      `json:"executions"`
	Transitions int      `json:"transitions"`
	States      int      `json:"states"`
	BoundDone   int      `json:"bound_done"`
	CapHits     int      `json:"cap_hits"`
	Outcomes    []string `json:"distinct_observations"`
	MaxPoints   int      `json:"max_points"`
	SelectForks int      `json:"select_forks"`
	Failures    []Fail   `json:"failures,omitempty"`
	Harness     []string `json:"harness_errors,omitempty"`
	Samples     []string `json:"sample_schedules,omitempty"`
}

// Fail is one failing execution.
type Fail struct {
	Key     string   `json:"key"`
	Detail  string   `json:"detail"`
	Choices []int    `json:"choices"`
	Trace   []string `json:"trace"`
}

func traceOf(x *Exec) []string {
	out := make([]string, 0, len(x.Points))
	for _, p := range x.Points {
		out = append(out, fmt.Sprintf("%s %v -> [%d] %s", p.Kind, p.Enabled, p.Chosen, p.Desc))
	}
	return out
}

// Explore runs the exhaustive deviation-bounded DFS of one scenario.
var (
	hbLast  time.Time
	hbCount int
)

// heartbeat tells the parent process (RunCheck) that another execution is
// starting: an execution that never comes back (code under test spinning or
// blocked outside every scheduling point) is detected by the parent's watchdog.
func heartbeat() {
	hbCount++
	path := os.Getenv("VERIF_HB")
	if path == "" || time.Since(hbLast) < time.Second {
		return
	}
	hbLast = time.Now()
	os.WriteFile(path, []byte(fmt.Sprint(hbCount)), 0o644)
}

func Explore(t *testing.T, sc *Scenario, maxExec int) Stats {
	st := Stats{Scenario: sc.Name}
	outcomes := map[string]bool{}
	states := map[string]bool{}
	failed := map[string]bool{}
	// determinism obligation: the default schedule twice
	x1, o1 := runOne(t, sc, nil)
	x2, o2 := runOne(t, sc, nil)
	if (fmt.Sprint(traceOf(x1)) != fmt.Sprint(traceOf(x2)) || o1 != o2) && sc.RepeatKey != "" {
		st.Executions = 2
		st.Transitions = len(x1.Points) + len(x2.Points)
		st.States = len(x1.Points)
		st.BoundDone = -1
		st.Failures = append(st.Failures, Fail{Key: sc.RepeatKey, Choices: x2.Choices, Trace: traceOf(x2),
			Detail: fmt.Sprintf("the default schedule was executed twice on the same object under test and the two executions differ:\nfirst:  %s\nsecond: %s\nfirst trace:  %v\nsecond trace: %v", o1, o2, traceOf(x1), traceOf(x2))})
		return st
	}
	if fmt.Sprint(traceOf(x1)) != fmt.Sprint(traceOf(x2)) || o1 != o2 {
		st.Harness = append(st.Harness, fmt.Sprintf("nondeterministic default schedule in %s:\n%v\n%v\nobs %q vs %q", sc.Name, traceOf(x1), traceOf(x2), o1, o2))
		return st
	}
	checkedAlt := false
	leaky := 0
	var parentTrace []string
	var rec func(prefix []int) bool
	rec = func(prefix []int) bool {
		if maxExec > 0 && st.Executions >= maxExec {
			st.CapHits++
			return false
		}
		x, obs := runOne(t, sc, prefix)
		st.Executions++
		if x.Leak || x.CapHit || x.Deadlock {
			// such an execution abandons its goroutines (and their VMs): bound the damage
			leaky++
			if leaky > 40 {
				st.CapHits++
				return false
			}
		}
		st.Transitions += len(x.Points)
		if len(x.Points) > st.MaxPoints {
			st.MaxPoints = len(x.Points)
		}
		if x.Diverged != "" {
			msg := sc.Name + ": " + x.Diverged
			if parentTrace != nil {
				k := len(x.Points)
				lo := k - 6
				if lo < 0 {
					lo = 0
				}
				hi := k + 2
				if hi > len(parentTrace) {
					hi = len(parentTrace)
				}
				msg += fmt.Sprintf("\nrecorded run, points %d..%d: %v\nthis replay, points %d..%d: %v", lo, hi, parentTrace[lo:hi], lo, k, traceOf(x)[lo:])
			}
			st.Harness = append(st.Harness, msg)
			return false
		}
		if !checkedAlt && len(prefix) > 0 {
			// determinism obligation: one non-default schedule twice
			checkedAlt = true
			y, obs2 := runOne(t, sc, prefix)
			if fmt.Sprint(traceOf(x)) != fmt.Sprint(traceOf(y)) || obs != obs2 {
				st.Harness = append(st.Harness, fmt.Sprintf("nondeterministic replay of %v in %s:\n%v\n%v\nobs %q vs %q\nflags %v/%v %v/%v %v/%v", prefix, sc.Name, traceOf(x), traceOf(y), obs, obs2, x.Deadlock, y.Deadlock, x.Leak, y.Leak, x.CapHit, y.CapHit))
				return false
			}
		}
		for i, p := range x.Points {
			states[fmt.Sprintf("%d|%s|%v|%s", i, p.Kind, p.Enabled, p.Desc)] = true
			if p.Kind == "select" {
				st.SelectForks++
			}
		}
		key, detail := "", ""
		switch {
		case x.Violation != "":
			kv := strings.SplitN(x.Violation, "\x00", 2)
			key, detail = kv[0], kv[1]
		case x.CapHit && sc.CapKey != nil && sc.CapKey(x) != "":
			key = sc.CapKey(x)
			detail = fmt.Sprintf("the execution was still running after %d scheduling points", len(x.Points))
		case x.CapHit:
			st.CapHits++
		default:
			if x.Deadlock {
				obs = "DEADLOCK " + obs
			}
			if x.Leak {
				obs = "LEAK " + obs
			}
			ok, k, d := sc.Check(x, obs)
			if !ok {
				key, detail = k, d
			}
			if !outcomes[obs] {
				outcomes[obs] = true
				if len(st.Outcomes) < 12 {
					st.Outcomes = append(st.Outcomes, obs)
				}
			}
		}
		if key != "" {
			if !failed[key] {
				failed[key] = true
				// replay 3 more times: the same schedule must fail every time
				same := true
				for k := 0; k < 3; k++ {
					y, obs2 := runOne(t, sc, x.Choices)
					k2 := ""
					if y.Violation != "" {
						k2 = strings.SplitN(y.Violation, "\x00", 2)[0]
					} else if y.CapHit && sc.CapKey != nil {
						k2 = sc.CapKey(y)
					} else if !y.CapHit {
						if y.Deadlock {
							obs2 = "DEADLOCK " + obs2
						}
						if y.Leak {
							obs2 = "LEAK " + obs2
						}
						_, k2, _ = sc.Check(y, obs2)
					}
					if k2 != key {
						same = false
					}
				}
				if !same {
					st.Harness = append(st.Harness, fmt.Sprintf("flaky violation %q in %s schedule %v", key, sc.Name, x.Choices))
				} else {
					st.Failures = append(st.Failures, Fail{Key: key, Detail: detail, Choices: append([]int{}, x.Choices...), Trace: traceOf(x)})
				}
			}
			if len(st.Failures) >= 5 {
				return false
			}
		}
		if len(st.Samples) < 3 {
			st.Samples = append(st.Samples, fmt.Sprintf("choices=%v trace=%v obs=%q", x.Choices, traceOf(x), obs))
		}
		for i := len(prefix); i < len(x.Points); i++ {
			p := x.Points[i]
			for alt := 1; alt < len(p.Enabled); alt++ {
				if p.CostSoFar+p.Costs[alt] > sc.Bound {
					continue
				}
				np := append(append([]int{}, x.Choices[:i]...), alt)
				parentTrace = traceOf(x)
				if !rec(np) {
					return false
				}
			}
		}
		return true
	}
	complete := rec(nil)
	if complete && st.CapHits == 0 {
		st.BoundDone = sc.Bound
	} else {
		st.BoundDone = -1
	}
	st.States = len(states)
	return st
}

// YieldHere is a scheduling point for harness-supplied native functions: a
// no-op when no execution is being explored (solo reference runs, -race pass).
func YieldHere(label string) {
	if x := curExec.Load(); x != nil {
		x.Yield(label)
	}
}
