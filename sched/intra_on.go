//go:build verifreflect

package sched

import (
	"os"
	"runtime/debug"
	_ "unsafe"
)

var intraDebug = os.Getenv("VERIF_INTRA_DEBUG") != ""

// Intra-instruction scheduling points (go1.26.8 + the GOROOT overlay written by
// /verif/chanpoints/gen.sh). The VM executes one instruction between two
// verifStep hooks, so a window BETWEEN two channel primitives of one
// instruction — `if ch.Len() > 0 { ch.Recv() }` — has no hook in /repo. The
// overlay makes package reflect report every channel primitive (Recv, Send,
// TryRecv, TrySend, Close, Len and Cap of a channel); here the second and every
// later primitive a thread reaches since its last step becomes a scheduling
// point of its own (the first one directly follows the instruction's own point,
// with thread-local work only in between). On the unchanged tree no instruction
// performs two channel primitives, so the explored space is the same as without
// the overlay; code that introduces such a window is explored with it.

//go:linkname reflectSetChanHook reflect.VerifSetChanHook
func reflectSetChanHook(f func(op int))

// IntraEnabled reports whether the binary was built with the reflect overlay.
const IntraEnabled = true

var intraLabels = [...]string{"", "intra:Recv", "intra:Send", "intra:TryRecv", "intra:TrySend", "intra:Close", "intra:Len", "intra:Cap"}

func init() {
	reflectSetChanHook(func(op int) {
		x := curExec.Load()
		if x == nil {
			return
		}
		gid := goid()
		if gid == x.schedGoid {
			return
		}
		x.mu.Lock()
		t := x.byGoid[gid]
		if t == nil || t.Watcher || t.status == stEnded || t.vmDepth == 0 {
			// not a VM goroutine of this execution (harness code, a native goroutine)
			x.mu.Unlock()
			return
		}
		t.chanOps++
		if t.chanOps < 2 {
			x.mu.Unlock()
			return
		}
		x.IntraPoints++
		if intraDebug {
			println("intra point: thread", t.ID, t.Name, intraLabels[op], "chanOps", t.chanOps, "steps", t.Steps)
			debug.PrintStack()
		}
		t.status = stParked
		t.hasEv = false
		t.label = intraLabels[op]
		x.mu.Unlock()
		x.park(t)
	})
}
