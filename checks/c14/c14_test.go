package c14

import (
	"context"
	"fmt"
	"os"
	"runtime"
	"strings"
	"sync"
	"testing"
	"time"

	"verif/kit"
	"verif/sched"

	"github.com/open2b/scriggo"
	"github.com/open2b/scriggo/native"
)

var visibleOps = func() map[int]bool {
	m := map[int]bool{}
	for _, n := range []string{"Go", "Send", "Receive", "Select", "Close", "Print", "CallNative"} {
		m[scriggo.VerifOps[n]] = true
	}
	return m
}()

var helperPkg = native.Packages{"helper": native.Package{Name: "helper", Declarations: native.Declarations{
	"Send": func(ch chan int, v int) { ch <- v },
	// ParMap calls f(i), i < n, from `workers` goroutines at once and returns
	// the sum of the first results and the total length of the second ones.
	"ParMap": func(f func(int) (int, string), workers, n int) (int, int) {
		var wg sync.WaitGroup
		sums := make([]int, workers)
		lens := make([]int, workers)
		for w := 0; w < workers; w++ {
			wg.Add(1)
			go func(w int) {
				defer wg.Done()
				for i := w; i < n; i += workers {
					v, s := f(i)
					sums[w] += v
					lens[w] += len(s)
				}
			}(w)
		}
		wg.Wait()
		t, l := 0, 0
		for w := range sums {
			t += sums[w]
			l += lens[w]
		}
		return t, l
	},
}}}

func (p Prog) gcSource() string {
	if p.GcSrc != "" {
		return p.GcSrc
	}
	return p.Src
}

func scenario(p Prog, bound int, withCtx bool) *sched.Scenario {
	var once sync.Once
	var prog *scriggo.Program
	var buildErr error
	var want string
	var gcErr error
	prepare := func() {
		once.Do(func() {
			prog, buildErr = scriggo.Build(scriggo.Files{"main.go": []byte(p.Src)}, &scriggo.BuildOptions{AllowGoStmt: true, Packages: helperPkg})
			want, gcErr = sched.GCReference(p.gcSource())
		})
	}
	return &sched.Scenario{
		Name:      p.Name + map[bool]string{false: "", true: "+ctx"}[withCtx],
		Bound:     bound,
		MaxPoints: 5000,
		Visible:   func(ev *scriggo.VerifEvent) bool { return visibleOps[sched.AbsOp(ev)] },
		Prepare:   prepare,
		Setup: func(x *sched.Exec) ([]sched.Driver, func(*sched.Exec) string) {
			var mu sync.Mutex
			var out strings.Builder
			var cancels []context.CancelFunc
			status := "not run"
			body := func() {
				if buildErr != nil {
					status = "build error: " + buildErr.Error()
					return
				}
				defer func() {
					if r := recover(); r != nil {
						status = fmt.Sprintf("host panic: %v", r)
					}
				}()
				opts := &scriggo.RunOptions{Print: func(v any) {
					mu.Lock()
					fmt.Fprint(&out, v)
					mu.Unlock()
				}}
				if withCtx {
					// a cancellable context that is never cancelled while anything runs: channel
					// operations take the select-with-done path. It is cancelled by the final
					// observation only: cancelling when Run returns would race with the
					// goroutines that main left behind (the body goes on after the VM's last
					// scheduling point), and the same schedule would not replay.
					ctx, cancel := context.WithCancel(context.Background())
					cancels = append(cancels, cancel)
					opts.Context = ctx
				}
				err := prog.Run(opts)
				if err != nil {
					status = "run error: " + err.Error()
				} else {
					status = "exit 0"
				}
			}
			return []sched.Driver{{Name: "main", Body: body}}, func(*sched.Exec) string {
				mu.Lock()
				defer mu.Unlock()
				for _, c := range cancels {
					c()
				}
				return out.String() + "[" + status + "]"
			}
		},
		Check: func(x *sched.Exec, obs string) (bool, string, string) {
			if gcErr != nil {
				return false, "harness|gc-reference", gcErr.Error()
			}
			if obs == want {
				return true, "", ""
			}
			key := "output-differs-from-gc"
			switch {
			case strings.HasPrefix(obs, "DEADLOCK"):
				key = "deadlock"
			case strings.HasPrefix(obs, "LEAK"):
				key = "goroutine-leak"
			case strings.Contains(obs, "[host panic"):
				key = "host-panic"
			case strings.Contains(obs, "[build error"):
				key = "build-error"
			case strings.Contains(obs, "[run error"):
				key = "run-error"
			}
			fam := p.Name
			if i := strings.IndexByte(fam, '-'); i > 0 {
				fam = fam[:i]
			}
			return false, key + "|family=" + fam, fmt.Sprintf("program %s\n%s\ngc:      %q\nscriggo: %q", p.Name, p.Src, want, obs)
		},
	}
}

func TestVerif(t *testing.T) {
	sched.RunCheck(t, &sched.CheckSpec{
		ID:    "C14",
		Level: "model_checking",
		Rule:  "every program of a parameter grid of deterministic concurrent programs (pipelines, fan-out/fan-in, close+range, selects whose ready cases lead to the same output, send-selects, go at call depth d, token-channel mutex, ping-pong, per-iteration loop variables, select with quit channel) is run on the real VM under the controlled scheduler; ALL schedules with at most `deviation_bound` preemptions at visible operations (go, send, receive, range receive, select, close, print, native call) and ALL forced choices among ready select cases are executed; every execution's printed output is compared with gc's output for the same source. states = distinct (point index, enabled set, chosen step) tuples; transitions = scheduling steps",
		Assumptions: []string{
			"programs are data-race-free by construction, so scheduling points at synchronisation operations suffice; a separate free-running -race pass (checks/c14/race) supports this assumption but decides nothing",
			"schedules with more preemptions than the bound are not explored",
			"gc (go1.25.0) run 3 times at GOMAXPROCS 1/4/16 is the reference; differing gc outputs are a generator error (exit 2)",
		},
		Scenarios: func(tier string) []*sched.Scenario {
			bound := 1
			if tier == "thorough" {
				bound = 2
			}
			var scs []*sched.Scenario
			for _, p := range Programs(tier) {
				scs = append(scs, scenario(p, bound, false))
			}
			// the same programs with a cancellable (never cancelled) context, for the
			// smaller ones: every channel operation then goes through reflect.Select
			for _, p := range Programs(tier) {
				if tier == "thorough" || !strings.HasPrefix(p.Name, "fan-") && !strings.HasPrefix(p.Name, "pipeline-s2") {
					scs = append(scs, scenario(p, bound, true))
				}
			}
			return scs
		},
		MaxExec: func(tier string) int {
			if tier == "thorough" {
				return 400000
			}
			return 20000
		},
		Extra: sched.RaceCompanion("C14"),
	})
}

// TestRace is the free-running companion (meaningful in the -race build): the
// same programs, no scheduler, real parallelism; output compared with gc's.
func TestRace(t *testing.T) {
	iters := 15
	if kit.Tier(nil) == "thorough" {
		iters = 150
	}
	total := 0
	progs := Programs(kit.Tier(nil))
	// companion-only stress programs: many operations, to give real parallelism a
	// chance inside single VM instructions (which the controlled scheduler treats as atomic)
	stress := map[string]bool{}
	for _, sp := range []Prog{fixedConsumers(8, 40000), multiConsumer(8, 20000)} {
		stress[sp.Name] = true
		progs = append(progs, sp)
	}
	progs = append(progs, multiConsumer(4, 1000), nativeGo(8), callbackPar(2, 8), callbackPar(8, 4000))
	for _, p := range progs {
		prog, err := scriggo.Build(scriggo.Files{"main.go": []byte(p.Src)}, &scriggo.BuildOptions{AllowGoStmt: true, Packages: helperPkg})
		if err != nil {
			t.Fatalf("build %s: %v", p.Name, err)
		}
		want, err := sched.GCReference(p.gcSource())
		if err != nil {
			t.Fatalf("gc %s: %v", p.Name, err)
		}
		if strings.HasPrefix(p.Name, "loopvar") {
			continue // known finding of the scheduled part; its output is schedule-dependent in Scriggo
		}
		for _, procs := range []int{1, 4, 16} {
			runtime.GOMAXPROCS(procs)
			for _, withCtx := range []bool{false, true} {
				n := iters
				if stress[p.Name] {
					if procs == 1 {
						continue
					}
					n = 1 + iters/50 // long programs: a few runs each
				}
				for i := 0; i < n; i++ {
					var mu sync.Mutex
					var out strings.Builder
					opts := &scriggo.RunOptions{Print: func(v any) {
						mu.Lock()
						fmt.Fprint(&out, v)
						mu.Unlock()
					}}
					var cancel context.CancelFunc
					if withCtx {
						opts.Context, cancel = context.WithCancel(context.Background())
					}
					status := "exit 0"
					finished := make(chan struct{})
					go func() {
						defer close(finished)
						defer func() {
							if r := recover(); r != nil {
								status = fmt.Sprintf("host panic: %v", r)
							}
						}()
						if err := prog.Run(opts); err != nil {
							status = "run error: " + err.Error()
						}
					}()
					select {
					case <-finished:
					case <-time.After(60 * time.Second):
						// hang watchdog (the programs take microseconds): a free-running deadlock
						fam := p.Name
						if k := strings.IndexByte(fam, '-'); k > 0 {
							fam = fam[:k]
						}
						fmt.Printf("MISMATCH-KEY free-running-run-hangs|family=%s\nMISMATCH program %s (GOMAXPROCS=%d ctx=%v iteration %d) did not return within 60 s\n%s\n", fam, p.Name, procs, withCtx, i, p.Src)
						os.Exit(1)
					}
					if cancel != nil {
						cancel()
					}
					mu.Lock()
					got := out.String() + "[" + status + "]"
					mu.Unlock()
					total++
					if got != want {
						fam := p.Name
						if k := strings.IndexByte(fam, '-'); k > 0 {
							fam = fam[:k]
						}
						t.Fatalf("MISMATCH-KEY free-running-output-differs-from-gc|family=%s\nMISMATCH program %s (GOMAXPROCS=%d ctx=%v iteration %d)\n%s\ngc:      %q\nscriggo: %q", fam, p.Name, procs, withCtx, i, p.Src, want, got)
					}
				}
			}
		}
	}
	fmt.Printf("race-companion: %d free-running runs at GOMAXPROCS 1,4,16 with and without context, outputs equal gc's, no race reported\n", total)
}
