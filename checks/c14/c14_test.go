package c14

import (
	"fmt"
	"strings"
	"sync"
	"testing"

	"verif/sched"

	"github.com/open2b/scriggo"
)

var visibleOps = func() map[int]bool {
	m := map[int]bool{}
	for _, n := range []string{"Go", "Send", "Receive", "Select", "Close", "Print", "CallNative"} {
		m[scriggo.VerifOps[n]] = true
	}
	return m
}()

func scenario(p Prog, bound int) *sched.Scenario {
	var once sync.Once
	var prog *scriggo.Program
	var buildErr error
	var want string
	var gcErr error
	prepare := func() {
		once.Do(func() {
			prog, buildErr = scriggo.Build(scriggo.Files{"main.go": []byte(p.Src)}, &scriggo.BuildOptions{AllowGoStmt: true})
			want, gcErr = sched.GCReference(p.Src)
		})
	}
	return &sched.Scenario{
		Name:      p.Name,
		Bound:     bound,
		MaxPoints: 5000,
		Visible:   func(ev *scriggo.VerifEvent) bool { return visibleOps[sched.AbsOp(ev)] },
		Prepare:   prepare,
		Setup: func(x *sched.Exec) ([]sched.Driver, func(*sched.Exec) string) {
			var mu sync.Mutex
			var out strings.Builder
			status := "not run"
			body := func() {
				if buildErr != nil {
					status = "build error: " + buildErr.Error()
					return
				}
				defer func() {
					if r := recover(); r != nil {
						status = fmt.Sprintf("host panic: %v", r)
					}
				}()
				err := prog.Run(&scriggo.RunOptions{Print: func(v any) {
					mu.Lock()
					fmt.Fprint(&out, v)
					mu.Unlock()
				}})
				if err != nil {
					status = "run error: " + err.Error()
				} else {
					status = "exit 0"
				}
			}
			return []sched.Driver{{Name: "main", Body: body}}, func(*sched.Exec) string {
				mu.Lock()
				defer mu.Unlock()
				return out.String() + "[" + status + "]"
			}
		},
		Check: func(x *sched.Exec, obs string) (bool, string, string) {
			if gcErr != nil {
				return false, "harness|gc-reference", gcErr.Error()
			}
			if obs == want {
				return true, "", ""
			}
			key := "output-differs-from-gc"
			switch {
			case strings.HasPrefix(obs, "DEADLOCK"):
				key = "deadlock"
			case strings.HasPrefix(obs, "LEAK"):
				key = "goroutine-leak"
			case strings.Contains(obs, "[host panic"):
				key = "host-panic"
			case strings.Contains(obs, "[build error"):
				key = "build-error"
			case strings.Contains(obs, "[run error"):
				key = "run-error"
			}
			fam := p.Name
			if i := strings.IndexByte(fam, '-'); i > 0 {
				fam = fam[:i]
			}
			return false, key + "|family=" + fam, fmt.Sprintf("program %s\n%s\ngc:      %q\nscriggo: %q", p.Name, p.Src, want, obs)
		},
	}
}

func TestVerif(t *testing.T) {
	sched.RunCheck(t, &sched.CheckSpec{
		ID:    "C14",
		Level: "model_checking",
		Rule:  "every program of a parameter grid of deterministic concurrent programs (pipelines, fan-out/fan-in, close+range, selects whose ready cases lead to the same output, send-selects, go at call depth d, token-channel mutex, ping-pong, per-iteration loop variables, select with quit channel) is run on the real VM under the controlled scheduler; ALL schedules with at most `deviation_bound` preemptions at visible operations (go, send, receive, range receive, select, close, print, native call) and ALL forced choices among ready select cases are executed; every execution's printed output is compared with gc's output for the same source. states = distinct (point index, enabled set, chosen step) tuples; transitions = scheduling steps",
		Assumptions: []string{
			"programs are data-race-free by construction, so scheduling points at synchronisation operations suffice; a separate free-running -race pass (checks/c14/race) supports this assumption but decides nothing",
			"schedules with more preemptions than the bound are not explored",
			"gc (go1.25.0) run 3 times at GOMAXPROCS 1/4/16 is the reference; differing gc outputs are a generator error (exit 2)",
		},
		Scenarios: func(tier string) []*sched.Scenario {
			bound := 1
			if tier == "thorough" {
				bound = 2
			}
			var scs []*sched.Scenario
			for _, p := range Programs(tier) {
				scs = append(scs, scenario(p, bound))
			}
			return scs
		},
		MaxExec: func(tier string) int {
			if tier == "thorough" {
				return 400000
			}
			return 20000
		},
	})
}
