// Package c14: goroutine and channel programs agree with gc under every schedule.
package c14

import (
	"fmt"
	"strings"
)

// Prog is a deterministic concurrent program (its printed output is
// schedule-independent under Go semantics by construction).
type Prog struct {
	Name string
	Src  string
	// GcSrc, if set, is the equivalent source given to gc when Src uses the
	// harness' native package "helper" (whose functions are defined locally there).
	GcSrc string
}

func hdr() string { return "package main\n\n" }

// pipeline: producer -> s stages -> main, n items, buffer b.
func pipeline(s, n, b int) Prog {
	var w strings.Builder
	w.WriteString(hdr())
	fmt.Fprintf(&w, "func stage(in chan int, out chan int) {\n\tfor v := range in {\n\t\tout <- v*2 + 1\n\t}\n\tclose(out)\n}\n\n")
	w.WriteString("func main() {\n")
	fmt.Fprintf(&w, "\tc0 := make(chan int, %d)\n", b)
	for i := 1; i <= s; i++ {
		fmt.Fprintf(&w, "\tc%d := make(chan int, %d)\n\tgo stage(c%d, c%d)\n", i, b, i-1, i)
	}
	fmt.Fprintf(&w, "\tgo func() {\n\t\tfor i := 1; i <= %d; i++ {\n\t\t\tc0 <- i\n\t\t}\n\t\tclose(c0)\n\t}()\n", n)
	fmt.Fprintf(&w, "\tfor v := range c%d {\n\t\tprintln(v)\n\t}\n\tprintln(\"end\")\n}\n", s)
	return Prog{Name: fmt.Sprintf("pipeline-s%d-n%d-b%d", s, n, b), Src: w.String()}
}

// fan: w workers read jobs and send results; main sums (order-insensitive).
func fan(workers, n, b int) Prog {
	var w strings.Builder
	w.WriteString(hdr())
	w.WriteString("func main() {\n")
	fmt.Fprintf(&w, "\tjobs := make(chan int, %d)\n\tres := make(chan int, %d)\n", b, b)
	fmt.Fprintf(&w, "\tfor k := 0; k < %d; k++ {\n\t\tgo func(id int) {\n\t\t\tfor j := range jobs {\n\t\t\t\tres <- j * j\n\t\t\t}\n\t\t}(k)\n\t}\n", workers)
	fmt.Fprintf(&w, "\tgo func() {\n\t\tfor i := 1; i <= %d; i++ {\n\t\t\tjobs <- i\n\t\t}\n\t\tclose(jobs)\n\t}()\n", n)
	fmt.Fprintf(&w, "\tsum := 0\n\tfor i := 0; i < %d; i++ {\n\t\tsum += <-res\n\t}\n\tprintln(\"sum\", sum)\n}\n", n)
	return Prog{Name: fmt.Sprintf("fan-w%d-n%d-b%d", workers, n, b), Src: w.String()}
}

// closeRange: consumer goroutine ranges until close, reports through done.
func closeRange(n, b int) Prog {
	var w strings.Builder
	w.WriteString(hdr())
	w.WriteString("func main() {\n")
	fmt.Fprintf(&w, "\tc := make(chan string, %d)\n\tdone := make(chan int)\n", b)
	w.WriteString("\tgo func() {\n\t\ttot := 0\n\t\tfor s := range c {\n\t\t\ttot += len(s)\n\t\t}\n\t\tv, ok := <-c\n\t\tif ok || v != \"\" {\n\t\t\ttot = -1\n\t\t}\n\t\tdone <- tot\n\t}()\n")
	fmt.Fprintf(&w, "\tfor i := 0; i < %d; i++ {\n\t\tc <- \"ab\"\n\t}\n\tclose(c)\n\tprintln(\"total\", <-done)\n}\n", n)
	return Prog{Name: fmt.Sprintf("closerange-n%d-b%d", n, b), Src: w.String()}
}

// selectSum: two producers, main selects twice; every order gives the same sum.
func selectSum(b1, b2 int, nilArm bool) Prog {
	var w strings.Builder
	w.WriteString(hdr())
	w.WriteString("func main() {\n")
	fmt.Fprintf(&w, "\tc := make(chan int, %d)\n\td := make(chan int, %d)\n", b1, b2)
	if nilArm {
		w.WriteString("\tvar z chan int\n")
	}
	w.WriteString("\tgo func() { c <- 1 }()\n\tgo func() { d <- 2 }()\n\tx := 0\n\tfor i := 0; i < 2; i++ {\n\t\tselect {\n\t\tcase v := <-c:\n\t\t\tx += v\n\t\tcase w := <-d:\n\t\t\tx += w * 10\n")
	if nilArm {
		w.WriteString("\t\tcase u := <-z:\n\t\t\tx += u + 1000\n\t\tcase z <- 5:\n\t\t\tx += 5000\n")
	}
	w.WriteString("\t\t}\n\t}\n\tprintln(x)\n}\n")
	return Prog{Name: fmt.Sprintf("selectsum-b%d-%d-nil%v", b1, b2, nilArm), Src: w.String()}
}

// selectSend: two send cases ready on buffered channels; after two rounds both
// channels hold their own value whatever case was chosen first.
func selectSend(withRecvOK bool) Prog {
	var w strings.Builder
	w.WriteString(hdr())
	w.WriteString("func main() {\n\ta := make(chan int, 1)\n\tb := make(chan int, 1)\n\tfor i := 0; i < 2; i++ {\n\t\tselect {\n\t\tcase a <- 1:\n\t\tcase b <- 2:\n\t\t}\n\t}\n")
	if withRecvOK {
		w.WriteString("\tclose(a)\n\tv, ok := <-a\n\tprintln(v, ok)\n\tv, ok = <-a\n\tprintln(v, ok)\n\tprintln(<-b)\n}\n")
	} else {
		w.WriteString("\tprintln(<-a, <-b)\n}\n")
	}
	return Prog{Name: fmt.Sprintf("selectsend-ok%v", withRecvOK), Src: w.String()}
}

// goDepth: go statement with arguments issued at call depth d.
func goDepth(d int) Prog {
	var w strings.Builder
	w.WriteString(hdr())
	w.WriteString("func f(d int, s string, c chan int) int {\n\tif d == 0 {\n\t\tgo func(a, b int, t string) {\n\t\t\tc <- a + b + len(t)\n\t\t}(d+1, 7, s+\"x\")\n\t\treturn 1\n\t}\n\treturn f(d-1, s+\"y\", c) + 1\n}\n\n")
	fmt.Fprintf(&w, "func main() {\n\tc := make(chan int)\n\tn := f(%d, \"\", c)\n\tprintln(n, <-c)\n}\n", d)
	return Prog{Name: fmt.Sprintf("godepth-%d", d), Src: w.String()}
}

// token: a buffered channel of capacity 1 used as a mutex around a shared counter.
func token(k int) Prog {
	var w strings.Builder
	w.WriteString(hdr())
	fmt.Fprintf(&w, "func main() {\n\ttok := make(chan int, 1)\n\tdone := make(chan bool)\n\tcount := 0\n\tfor g := 0; g < 2; g++ {\n\t\tgo func() {\n\t\t\tfor i := 0; i < %d; i++ {\n\t\t\t\ttok <- 1\n\t\t\t\tcount = count + 1\n\t\t\t\t<-tok\n\t\t\t}\n\t\t\tdone <- true\n\t\t}()\n\t}\n\t<-done\n\t<-done\n\tprintln(\"count\", count)\n}\n", k)
	return Prog{Name: fmt.Sprintf("token-k%d", k), Src: w.String()}
}

// pingPong: strict alternation over two unbuffered channels.
func pingPong(n int) Prog {
	var w strings.Builder
	w.WriteString(hdr())
	fmt.Fprintf(&w, "func main() {\n\tping := make(chan int)\n\tpong := make(chan int)\n\tgo func() {\n\t\tfor v := range ping {\n\t\t\tpong <- v + 100\n\t\t}\n\t\tclose(pong)\n\t}()\n\tfor i := 0; i < %d; i++ {\n\t\tping <- i\n\t\tprintln(<-pong)\n\t}\n\tclose(ping)\n\t_, ok := <-pong\n\tprintln(ok)\n}\n", n)
	return Prog{Name: fmt.Sprintf("pingpong-n%d", n), Src: w.String()}
}

// loopVar: goroutines capture the per-iteration loop variable (Go 1.22 semantics).
func loopVar(n int) Prog {
	var w strings.Builder
	w.WriteString(hdr())
	fmt.Fprintf(&w, "func main() {\n\tres := make(chan int)\n\tfor i := 0; i < %d; i++ {\n\t\tgo func() {\n\t\t\tres <- i * 10\n\t\t}()\n\t}\n\tsum := 0\n\tfor i := 0; i < %d; i++ {\n\t\tsum += <-res\n\t}\n\tprintln(sum)\n}\n", n, n)
	return Prog{Name: fmt.Sprintf("loopvar-n%d", n), Src: w.String()}
}

// recvSelectDone: worker selects between work and a quit channel; quit is only
// closed after all work was acknowledged, so the output is fixed.
func recvSelectDone(n int) Prog {
	var w strings.Builder
	w.WriteString(hdr())
	fmt.Fprintf(&w, "func main() {\n\twork := make(chan int)\n\tack := make(chan int)\n\tquit := make(chan bool)\n\tfin := make(chan string)\n\tgo func() {\n\t\tfor {\n\t\t\tselect {\n\t\t\tcase v := <-work:\n\t\t\t\tack <- v + 1\n\t\t\tcase <-quit:\n\t\t\t\tfin <- \"bye\"\n\t\t\t\treturn\n\t\t\t}\n\t\t}\n\t}()\n\tfor i := 0; i < %d; i++ {\n\t\twork <- i\n\t\tprintln(<-ack)\n\t}\n\tclose(quit)\n\tprintln(<-fin)\n}\n", n)
	return Prog{Name: fmt.Sprintf("selectquit-n%d", n), Src: w.String()}
}

// selectShapes: one goroutine executes two differently shaped selects (send
// first, then receive first) so that the VM reuses its select-case slots with
// another direction; in each select exactly one case is ready.
func selectShapes() Prog {
	src := hdr() + `func main() {
	a := make(chan int, 1)
	b := make(chan int, 1)
	for round := 0; round < 2; round++ {
		select {
		case a <- round + 1:
			println("sent", round)
		case v := <-b:
			println("early", v)
		}
		b <- 7 + round
		select {
		case v := <-b:
			println("got", v)
		case a <- 100:
			println("late")
		}
		select {
		case w := <-a:
			println("drained", w)
		default:
			println("empty")
		}
	}
}
`
	return Prog{Name: "selectshapes", Src: src}
}

// multiConsumer: k consumers range over one small buffered channel; the grand total is fixed.
func multiConsumer(k, n int) Prog {
	var w strings.Builder
	w.WriteString(hdr())
	fmt.Fprintf(&w, "func main() {\n\tch := make(chan int, 2)\n\tres := make(chan int)\n\tfor c := 0; c < %d; c++ {\n\t\tgo func() {\n\t\t\tsum := 0\n\t\t\tcnt := 0\n\t\t\tfor {\n\t\t\t\tv, ok := <-ch\n\t\t\t\tif !ok {\n\t\t\t\t\tbreak\n\t\t\t\t}\n\t\t\t\tsum += v\n\t\t\t\tcnt++\n\t\t\t}\n\t\t\tres <- sum*1000 + cnt\n\t\t}()\n\t}\n", k)
	fmt.Fprintf(&w, "\tfor i := 1; i <= %d; i++ {\n\t\tch <- i\n\t}\n\tclose(ch)\n\ttotal := 0\n\tfor c := 0; c < %d; c++ {\n\t\ttotal += <-res\n\t}\n\tprintln(\"total\", total)\n}\n", n, k)
	return Prog{Name: fmt.Sprintf("multiconsumer-k%d-n%d", k, n), Src: w.String()}
}

// fixedConsumers: several consumers take a fixed number of values each from a
// small buffered channel that a producer keeps filling; the total is n(n+1)/2.
func fixedConsumers(workers, n int) Prog {
	src := hdr() + fmt.Sprintf(`func main() {
	jobs := make(chan int, 2)
	partial := make(chan int)
	go func() {
		for i := 1; i <= %d; i++ {
			jobs <- i
		}
	}()
	for w := 0; w < %d; w++ {
		go func() {
			s := 0
			for i := 0; i < %d; i++ {
				v := <-jobs
				s += v
			}
			partial <- s
		}()
	}
	total := 0
	for w := 0; w < %d; w++ {
		total += <-partial
	}
	println("total", total)
}
`, n, workers, n/workers, workers)
	return Prog{Name: fmt.Sprintf("fixedconsumers-w%d-n%d", workers, n), Src: src}
}

// nativeGo: a native (host) function started with the go statement several
// times in a row; gc gets the same function defined locally.
func nativeGo(n int) Prog {
	body := fmt.Sprintf("func main() {\n\tch := make(chan int)\n\tfor i := 1; i <= %d; i++ {\n\t\tgo SEND(ch, i)\n\t}\n\tsum := 0\n\tfor i := 0; i < %d; i++ {\n\t\tsum += <-ch\n\t}\n\tprintln(\"sum\", sum)\n}\n", n, n)
	return Prog{
		Name:  fmt.Sprintf("nativego-n%d", n),
		Src:   "package main\n\nimport \"helper\"\n\n" + strings.ReplaceAll(body, "SEND", "helper.Send"),
		GcSrc: "package main\n\nfunc send(ch chan int, v int) { ch <- v }\n\n" + strings.ReplaceAll(body, "SEND", "send"),
	}
}

// goFromClosure: a declared function that uses package-level variables is
// started with go from inside a function literal that captures locals (at
// closure depth d), directly and through a function value.
func goFromClosure(depth int) Prog {
	var b strings.Builder
	b.WriteString("package main\n\nvar g = 3\nvar names = []string{\"a\", \"b\"}\n\n")
	b.WriteString("func add(ch chan int, x int) { g += x; ch <- g*10 + len(names) }\n\n")
	b.WriteString("func main() {\n\tch := make(chan int)\n\tbase := 5\n\tlabel := \"L\"\n")
	b.WriteString("\tf := func() {\n")
	for i := 0; i < depth; i++ {
		fmt.Fprintf(&b, "\t\tfunc() {\n\t\tbase += %d\n", i+1)
	}
	b.WriteString("\t\tgo add(ch, base)\n\t\tprintln(label, <-ch)\n\t\th := add\n\t\tgo h(ch, base+1)\n\t\tprintln(label, <-ch)\n")
	for i := 0; i < depth; i++ {
		b.WriteString("\t\t}()\n")
	}
	b.WriteString("\t}\n\tf()\n\tprintln(g, base)\n}\n")
	return Prog{Name: fmt.Sprintf("goclosure-d%d", depth), Src: b.String()}
}

// selectClosed: a fan-in loop whose select receives with assignment (v, ok)
// from producers that close their channels: after a close the received value
// must be the zero value, whatever was received before.
func selectClosed(n int, twoValues bool) Prog {
	recv := "case v := <-a:\n\t\t\tif v == 0 {\n\t\t\t\ta = nil\n\t\t\t\topen--\n\t\t\t}\n\t\t\tsum += v\n\t\t\tlast = v"
	if twoValues {
		recv = "case v, ok := <-a:\n\t\t\tif !ok {\n\t\t\t\ta = nil\n\t\t\t\topen--\n\t\t\t}\n\t\t\tsum += v\n\t\t\tlast = v"
	}
	src := fmt.Sprintf(`package main

func produce(ch chan int, from, n int) {
	for i := 0; i < n; i++ {
		ch <- from + i
	}
	close(ch)
}

func main() {
	a := make(chan int)
	b := make(chan string, 1)
	go produce(a, 7, %d)
	go func() {
		b <- "x"
		close(b)
	}()
	open := 2
	sum, last, strs := 0, -1, ""
	for open > 0 {
		select {
		%s
		case s, ok := <-b:
			if !ok {
				b = nil
				open--
			}
			strs += s + "."
		}
	}
	println(sum, last, strs)
}
`, n, recv)
	return Prog{Name: fmt.Sprintf("selectclosed-n%d-ok%v", n, twoValues), Src: src}
}

// callbackPar: native code calls the same Scriggo function value (with results)
// from several goroutines at once and adds up what it returns.
func callbackPar(workers, n int) Prog {
	body := fmt.Sprintf(`func main() {
	k := 3
	sq := func(i int) (int, string) { return i*i + k, "s" }
	total, strs := PARMAP(sq, %d, %d)
	println(total, strs)
	total, strs = PARMAP(twice, %d, %d)
	println(total, strs)
}

func twice(i int) (int, string) { return 2 * i, "t" }
`, workers, n, workers, n)
	return Prog{
		Name: fmt.Sprintf("callbackpar-w%d-n%d", workers, n),
		Src:  "package main\n\nimport \"helper\"\n\n" + strings.ReplaceAll(body, "PARMAP", "helper.ParMap"),
		GcSrc: `package main

import "sync"

func parMap(f func(int) (int, string), workers, n int) (int, int) {
	var wg sync.WaitGroup
	sums := make([]int, workers)
	lens := make([]int, workers)
	for w := 0; w < workers; w++ {
		wg.Add(1)
		go func(w int) {
			defer wg.Done()
			for i := w; i < n; i += workers {
				v, s := f(i)
				if v != 0 || i == 0 {
					sums[w] += v
				}
				lens[w] += len(s)
			}
		}(w)
	}
	wg.Wait()
	t, l := 0, 0
	for w := range sums {
		t += sums[w]
		l += lens[w]
	}
	return t, l
}

` + strings.ReplaceAll(body, "PARMAP", "parMap"),
	}
}

// Programs returns the program grid of a tier.
// rangeThenOp: a stage goroutine ranges over its input until it is closed and
// only THEN performs its first other channel operation (send, select, receive):
// whatever the range statement leaves behind in the goroutine's VM when it ends
// by close meets a different kind of operation.
func rangeThenOp(n, b int, op string) Prog {
	var w strings.Builder
	w.WriteString(hdr())
	w.WriteString("func main() {\n")
	fmt.Fprintf(&w, "\tin := make(chan int, %d)\n\tout := make(chan int)\n\tgate := make(chan int, 1)\n\tgate <- 7\n", b)
	w.WriteString("\tgo func() {\n\t\tsum := 0\n\t\tfor v := range in {\n\t\t\tsum += v\n\t\t}\n")
	switch op {
	case "send":
		w.WriteString("\t\tout <- sum\n")
	case "select":
		w.WriteString("\t\tselect {\n\t\tcase out <- sum:\n\t\t}\n")
	case "recv":
		w.WriteString("\t\tg := <-gate\n\t\tout <- sum + g\n")
	case "select2":
		w.WriteString("\t\tselect {\n\t\tcase g := <-gate:\n\t\t\tout <- sum + g\n\t\tcase out <- sum:\n\t\t\tout <- <-gate\n\t\t}\n")
	}
	w.WriteString("\t}()\n")
	fmt.Fprintf(&w, "\tfor i := 0; i < %d; i++ {\n\t\tin <- i + 1\n\t}\n\tclose(in)\n\ta := <-out\n", n)
	if op == "select2" {
		w.WriteString("\tselect {\n\tcase b := <-out:\n\t\ta += b\n\tdefault:\n\t}\n")
	}
	w.WriteString("\tprintln(\"sum\", a)\n}\n")
	return Prog{Name: fmt.Sprintf("rangethen-%s-n%d-b%d", op, n, b), Src: w.String()}
}

func Programs(tier string) []Prog {
	var ps []Prog
	for _, s := range []int{1, 2} {
		for _, n := range []int{1, 2, 3} {
			for _, b := range []int{0, 1, 2} {
				if tier != "thorough" && (n == 3 || b == 2) && s == 2 {
					continue
				}
				ps = append(ps, pipeline(s, n, b))
			}
		}
	}
	for _, wk := range []int{2, 3} {
		for _, n := range []int{2, 3} {
			for _, b := range []int{0, 1} {
				if tier != "thorough" && (wk == 3 || n == 3 && b == 0) {
					continue // the larger fan programs need > 30k schedules: thorough only
				}
				ps = append(ps, fan(wk, n, b))
			}
		}
	}
	for _, n := range []int{0, 1, 2, 3} {
		for _, b := range []int{0, 1} {
			ps = append(ps, closeRange(n, b))
		}
	}
	for _, b1 := range []int{0, 1} {
		for _, b2 := range []int{0, 1} {
			ps = append(ps, selectSum(b1, b2, false))
		}
	}
	ps = append(ps, selectSum(0, 1, true), selectSum(1, 1, true))
	ps = append(ps, selectSend(false), selectSend(true))
	for _, d := range []int{0, 1, 5, 20} {
		ps = append(ps, goDepth(d))
	}
	ps = append(ps, token(1), token(2))
	for _, n := range []int{1, 2, 3} {
		ps = append(ps, pingPong(n))
	}
	ps = append(ps, loopVar(2), loopVar(3))
	ps = append(ps, recvSelectDone(1), recvSelectDone(2))
	ps = append(ps, selectShapes(), multiConsumer(2, 3), nativeGo(2), nativeGo(3), fixedConsumers(2, 4))
	ps = append(ps, goFromClosure(0), goFromClosure(1), goFromClosure(3))
	for _, n := range []int{0, 1, 2} {
		ps = append(ps, selectClosed(n, true))
	}
	ps = append(ps, selectClosed(2, false))
	for _, op := range []string{"send", "select", "recv"} {
		for _, n := range []int{0, 1, 2} {
			for _, b := range []int{0, 1} {
				ps = append(ps, rangeThenOp(n, b, op))
			}
		}
	}
	if tier == "thorough" {
		ps = append(ps, multiConsumer(3, 4), nativeGo(8))
	}
	return ps
}
