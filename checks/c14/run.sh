#!/bin/bash
exec /verif/bin/schedcheck.sh C14 ./checks/c14 1 "$@"
