#!/bin/bash
# C14: scheduler-based check (a go test binary because testing/synctest needs *testing.T)
set -u
cd /verif
. bin/env.sh
ID=C14; PKG=./checks/c14
tier=quick; replay=""
while [ $# -gt 0 ]; do
  case "$1" in
    quick|thorough) tier="$1"; shift;;
    --replay) replay="$2"; shift 2;;
    *) shift;;
  esac
done
mkdir -p .build
if ! go test -c -tags verif -o .build/$ID.test $PKG 2>.build/$ID.buildlog; then
  cat .build/$ID.buildlog >&2
  echo "HARNESS-ERROR: build of $ID against /repo's working tree failed" >&2
  exit 2
fi
VERIF_TIER=$tier VERIF_REPLAY=$replay exec .build/$ID.test -test.run '^TestVerif$' -test.timeout 0
