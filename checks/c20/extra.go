package main

// Further limit families, added after a review with seeded regressions:
//
//   - constant tables whose LAST entry is a special value that the emitter may
//     handle on another code path (nil, typed nils, the empty string, zero, a
//     duplicate of an earlier constant): the sweep over n puts the special
//     value at every position around the limit, in particular as the last
//     entry that still fits and as the first one that does not;
//   - registers taken by indirect variables (address taken, captured by a
//     closure), alone and as the last variable after ordinary locals;
//   - the counted thing in package-level variable initialisers (the hidden
//     init function) and in templates ({% var %} at top level and in a macro).

import (
	"fmt"
	"strings"
)

// genLocals declares n-1 ordinary general locals that need no temporary
// register (copies of the parameters a and b) and folds them into t.
func genLocals(b *strings.Builder, n int) int {
	for i := 1; i < n; i++ {
		fmt.Fprintf(b, "\tg%d := %c\n", i, "ab"[i%2])
	}
	b.WriteString("\tt := 0\n")
	t := 0
	for i := 1; i < n; i++ {
		fmt.Fprintf(b, "\tt = t*31 + g%d[0]\n", i)
		t = t*31 + []int{1001, 2002}[i%2]
	}
	return t
}

type special struct{ name, stmts string } // stmts update t (int) from the special value

func extraFamilies(tier string) []family {
	var fs []family

	// ---- constant tables with a special last entry ----
	generalSpecials := []special{
		{"nil-interface", "\tvar e interface{} = nil\n\tif e == nil {\n\t\tt = t*31 + 7\n\t} else {\n\t\tt = t*31 + 1\n\t}\n"},
		{"nil-pointer", "\tvar p *int = nil\n\tif p == nil {\n\t\tt = t*31 + 7\n\t} else {\n\t\tt = t*31 + 1\n\t}\n"},
		{"nil-slice", "\tvar s []int = nil\n\tt = t*31 + len(s) + 7\n\tif s != nil {\n\t\tt++\n\t}\n"},
		{"nil-map", "\tvar m map[string]int = nil\n\tt = t*31 + len(m) + 7\n\tif m != nil {\n\t\tt++\n\t}\n"},
		{"nil-func", "\tvar f func() = nil\n\tif f == nil {\n\t\tt = t*31 + 7\n\t} else {\n\t\tt = t*31 + 1\n\t}\n"},
		{"nil-chan", "\tvar c chan int = nil\n\tt = t*31 + len(c) + 7\n\tif c != nil {\n\t\tt++\n\t}\n"},
		{"zero-complex", "\tvar z complex128 = 0\n\tt = t*31 + int(real(z)) + int(imag(z)) + 7\n"},
		{"complex64", "\tvar z complex64 = 3 + 4i\n\tt = t*31 + int(real(z))*10 + int(imag(z))\n"},
		{"duplicate-of-first", "\tvar z complex128 = 1000 + 1i\n\tt = t*31 + int(real(z)) + int(imag(z))\n"},
		{"nil-in-append", "\ts := append([]interface{}{}, nil)\n\tt = t*31 + len(s) + 7\n\tif s[0] != nil {\n\t\tt++\n\t}\n"},
	}
	generalWant := map[string]func(t int) int{
		"nil-interface": func(t int) int { return t*31 + 7 }, "nil-pointer": func(t int) int { return t*31 + 7 },
		"nil-slice": func(t int) int { return t*31 + 7 }, "nil-map": func(t int) int { return t*31 + 7 },
		"nil-func": func(t int) int { return t*31 + 7 }, "nil-chan": func(t int) int { return t*31 + 7 },
		"zero-complex": func(t int) int { return t*31 + 7 }, "complex64": func(t int) int { return t*31 + 34 },
		"duplicate-of-first": func(t int) int { return t*31 + 1001 }, "nil-in-append": func(t int) int { return t*31 + 8 },
	}
	for _, sp := range generalSpecials {
		sp := sp
		for _, first := range []bool{false, true} {
			first := first
			name := "general-constants+last=" + sp.name
			if first {
				name = "general-constants+first=" + sp.name
			}
			fs = append(fs, family{name: name, limit: 256, ns: around([]int{256}, -4, 4), gen: func(n int) (string, string, string) {
				var b strings.Builder
				b.WriteString("func f_§() int {\n\tt := 0\n")
				t := 0
				if first {
					b.WriteString(sp.stmts)
					t = generalWant[sp.name](t)
				}
				b.WriteString("\tfor i, v := range []complex128{")
				for i := 0; i < n; i++ {
					if i%8 == 0 {
						b.WriteString("\n\t\t")
					}
					fmt.Fprintf(&b, "%d + %di, ", 1000+i, i%7+1)
				}
				b.WriteString("\n\t} {\n\t\tt = t*31 + (i+1)*int(real(v)) + int(imag(v))\n\t}\n")
				for i := 0; i < n; i++ {
					t = t*31 + (i+1)*(1000+i) + i%7 + 1
				}
				if !first {
					b.WriteString(sp.stmts)
					t = generalWant[sp.name](t)
				}
				b.WriteString("\treturn t\n}\n")
				return b.String(), "f_§()", fmt.Sprintf("%d\n", t)
			}})
		}
	}
	stringSpecials := []struct {
		name, stmts string
		want        func(t int) int
	}{
		{"empty-string", "\tvar e string = \"\"\n\tt = t*31 + len(e) + 7\n", func(t int) int { return t*31 + 7 }},
		{"duplicate-of-first", "\tvar e string = \"k0\"\n\tt = t*31 + len(e) + int(e[1])\n", func(t int) int { return t*31 + 2 + '0' }},
		{"new-string", "\tvar e string = \"zz9\"\n\tt = t*31 + len(e) + int(e[2])\n", func(t int) int { return t*31 + 3 + '9' }},
		{"string-in-interface", "\tvar e interface{} = \"yy8\"\n\tt = t*31 + len(e.(string)) + int(e.(string)[2])\n", func(t int) int { return t*31 + 3 + '8' }},
		{"concat-of-constants", "\te := \"a\" + \"b\" + \"c7\"\n\tt = t*31 + len(e) + int(e[3])\n", func(t int) int { return t*31 + 4 + '7' }},
	}
	for _, sp := range stringSpecials {
		sp := sp
		fs = append(fs, family{name: "string-constants+last=" + sp.name, limit: 256, ns: around([]int{256}, -4, 4), gen: func(n int) (string, string, string) {
			var b strings.Builder
			b.WriteString("func f_§() int {\n\tt := 0\n\tfor i, s := range []string{")
			t := 0
			for i := 0; i < n; i++ {
				if i%16 == 0 {
					b.WriteString("\n\t\t")
				}
				s := fmt.Sprintf("k%d", i)
				fmt.Fprintf(&b, "%q, ", s)
				t = t*31 + (i+1)*(len(s)+int(s[len(s)-1]))
			}
			b.WriteString("\n\t} {\n\t\tt = t*31 + (i+1)*(len(s)+int(s[len(s)-1]))\n\t}\n")
			b.WriteString(sp.stmts)
			t = sp.want(t)
			b.WriteString("\treturn t\n}\n")
			return b.String(), "f_§()", fmt.Sprintf("%d\n", t)
		}})
	}
	numNs := around([]int{1 << 14}, -2, 2)
	intSpecials := []struct {
		name, stmts string
		want        func(t int) int
	}{
		{"zero", "\tvar e int = 0\n\tt = t*31 + e + 7\n", func(t int) int { return t*31 + 7 }},
		{"big", "\tvar e int = 1099511627776\n\tt = t*31 + e>>30\n", func(t int) int { return t*31 + 1024 }},
		{"bool-true", "\tvar e bool = true\n\tif e {\n\t\tt = t*31 + 7\n\t}\n", func(t int) int { return t*31 + 7 }},
		{"uint8-200", "\tvar e uint8 = 200\n\tt = t*31 + int(e)\n", func(t int) int { return t*31 + 200 }},
		{"duplicate-of-first", "\tvar e int = 100000\n\tt = t*31 + e\n", func(t int) int { return t*31 + 100000 }},
	}
	for _, sp := range intSpecials {
		sp := sp
		fs = append(fs, family{name: "int-constants+last=" + sp.name, limit: 1 << 14, ns: numNs, gen: func(n int) (string, string, string) {
			var b strings.Builder
			b.WriteString("func f_§() int {\n\tt := 0\n\tfor i, v := range []int{")
			t := 0
			for i := 0; i < n; i++ {
				if i%16 == 0 {
					b.WriteString("\n\t\t")
				}
				fmt.Fprintf(&b, "%d, ", 100000+i)
				t = t*31 + (i%97+1)*(100000+i)
			}
			b.WriteString("\n\t} {\n\t\tt = t*31 + (i%97+1)*v\n\t}\n")
			b.WriteString(sp.stmts)
			t = sp.want(t)
			b.WriteString("\treturn t\n}\n")
			return b.String(), "f_§()", fmt.Sprintf("%d\n", t)
		}})
	}
	floatSpecials := []struct {
		name, stmts string
		want        func(t int) int
	}{
		{"zero", "\tvar e float64 = 0\n\tt = t*31 + int(e) + 7\n", func(t int) int { return t*31 + 7 }},
		{"new", "\tvar e float64 = 2.25\n\tt = t*31 + int(e*4)\n", func(t int) int { return t*31 + 9 }},
		{"float32", "\tvar e float32 = 0.1\n\tt = t*31 + int(e*100)\n", func(t int) int { return t*31 + 10 }},
	}
	for _, sp := range floatSpecials {
		sp := sp
		fs = append(fs, family{name: "float-constants+last=" + sp.name, limit: 1 << 14, ns: numNs, gen: func(n int) (string, string, string) {
			var b strings.Builder
			b.WriteString("func f_§() int {\n\tt := 0\n\tfor i, v := range []float64{")
			t := 0
			for i := 0; i < n; i++ {
				if i%16 == 0 {
					b.WriteString("\n\t\t")
				}
				fmt.Fprintf(&b, "%d.5, ", 100000+i)
				t = t*31 + (i%97+1)*(100000+i)
			}
			b.WriteString("\n\t} {\n\t\tt = t*31 + (i%97+1)*int(v)\n\t}\n")
			b.WriteString(sp.stmts)
			t = sp.want(t)
			b.WriteString("\treturn t\n}\n")
			return b.String(), "f_§()", fmt.Sprintf("%d\n", t)
		}})
	}

	// ---- registers taken by indirect variables ----
	regNs := around([]int{127}, -9, 5)
	type kindT struct{ name, typ, init, use, upd string } // init/use/upd use %d for i, x is the parameter
	// (plain assignments on purpose: `*p += v` is miscompiled for any p, a C01 finding)
	kinds := []kindT{
		{"int", "int", "x + %d", "v%d", "*p = *p + 1"},
		{"float", "float64", "float64(x) + %d.5", "int(v%d*2)", "*p = *p + 0.5"},
		{"string", "string", "\"s\" + string(rune('a'+x%%3+%d%%20))", "len(v%d) + int(v%d[1])", "*p = *p + \"\""},
		{"general", "[]int", "[]int{x + %d}", "v%d[0]", "(*p)[0] = (*p)[0] + 1"},
	}
	val := func(k kindT, i int) int { // the value `use` yields for variable i with x = 1000, after upd
		switch k.name {
		case "int":
			return 1000 + i + 1
		case "float":
			return int((1000 + float64(i) + 0.5 + 0.5) * 2)
		case "string":
			return 2 + int('a'+1000%3+i%20)
		}
		return 1000 + i + 1
	}
	use := func(k kindT, i int) string {
		if k.name == "string" {
			return fmt.Sprintf(k.use, i, i)
		}
		return fmt.Sprintf(k.use, i)
	}
	for _, k := range kinds {
		k := k
		// (a) every counted variable has its address taken
		fs = append(fs, family{name: "registers-address-taken-" + k.name, limit: 127, ns: regNs, gen: func(n int) (string, string, string) {
			var b strings.Builder
			fmt.Fprintf(&b, "func u_§(p *%s) {\n\t%s\n}\n\nfunc f_§(x int) int {\n", k.typ, k.upd)
			for i := 1; i <= n; i++ {
				fmt.Fprintf(&b, "\tv%d := "+k.init+"\n\tu_§(&v%d)\n", i, i, i)
			}
			b.WriteString("\tt := 0\n")
			t := 0
			for i := 1; i <= n; i++ {
				fmt.Fprintf(&b, "\tt = t*31 + %s\n", use(k, i))
				t = t*31 + val(k, i)
			}
			b.WriteString("\treturn t\n}\n")
			return b.String(), "f_§(1000)", fmt.Sprintf("%d\n", t)
		}})
		// (b) every counted variable is captured by a closure
		fs = append(fs, family{name: "registers-captured-" + k.name, limit: 127, ns: regNs, gen: func(n int) (string, string, string) {
			var b strings.Builder
			b.WriteString("func f_§(x int) int {\n")
			for i := 1; i <= n; i++ {
				fmt.Fprintf(&b, "\tv%d := "+k.init+"\n", i, i)
			}
			b.WriteString("\tfunc() {\n")
			for i := 1; i <= n; i++ {
				fmt.Fprintf(&b, "\t\t{\n\t\t\tp := &v%d\n\t\t\t%s\n\t\t}\n", i, k.upd)
			}
			b.WriteString("\t}()\n\tt := 0\n")
			t := 0
			for i := 1; i <= n; i++ {
				fmt.Fprintf(&b, "\tt = t*31 + %s\n", use(k, i))
				t = t*31 + val(k, i)
			}
			b.WriteString("\treturn t\n}\n")
			return b.String(), "f_§(1000)", fmt.Sprintf("%d\n", t)
		}})
		// (c) ordinary general locals, then ONE indirect variable of the kind,
		// declared last, with no further general allocation after it
		fs = append(fs, family{name: "registers-general-then-last-indirect-" + k.name, limit: 127, ns: regNs, gen: func(n int) (string, string, string) {
			var b strings.Builder
			fmt.Fprintf(&b, "var o_§ int\n\nfunc f_§(x int, a, b []int) *%s {\n", k.typ)
			t := genLocals(&b, n)
			fmt.Fprintf(&b, "\to_§ = t\n\tv%d := "+k.init+"\n\tp := &v%d\n\t%s\n\treturn p\n}\n", n, n, n, k.upd)
			var body string
			switch k.name {
			case "int":
				body = "\tr := f_§(1000, []int{1001}, []int{2002})\n\tprintln(o_§, *r)\n"
			case "float":
				body = "\tr := f_§(1000, []int{1001}, []int{2002})\n\tprintln(o_§, int(*r*2))\n"
			case "string":
				body = "\tr := f_§(1000, []int{1001}, []int{2002})\n\tprintln(o_§, len(*r)+int((*r)[1]))\n"
			default:
				body = "\tr := f_§(1000, []int{1001}, []int{2002})\n\tprintln(o_§, (*r)[0])\n"
			}
			return b.String(), body, fmt.Sprintf("%d %d\n", t, val(k, n))
		}})
		// (c'') the last, indirect, variable is declared without initialiser
		if k.name != "general" {
			fs = append(fs, family{name: "registers-general-then-last-indirect-var-zero-" + k.name, limit: 127, ns: regNs, gen: func(n int) (string, string, string) {
				var b strings.Builder
				fmt.Fprintf(&b, "var o_§ int\n\nfunc f_§(x int, a, b []int) *%s {\n", k.typ)
				t := genLocals(&b, n)
				var upd, body string
				w := 0
				switch k.name {
				case "int":
					upd, body, w = "y += 3", "println(o_§, *r)", 3
				case "float":
					upd, body, w = "y += 1.5", "println(o_§, int(*r*2))", 3
				default:
					upd, body, w = "y += \"abc\"", "println(o_§, len(*r))", 3
				}
				fmt.Fprintf(&b, "\to_§ = t\n\tvar y %s\n\t%s\n\treturn &y\n}\n", k.typ, upd)
				return b.String(), "\tr := f_§(1000, []int{1001}, []int{2002})\n\t" + body + "\n", fmt.Sprintf("%d %d\n", t, w)
			}})
		}
		// (c') the same with `return &x` directly after `x += …`
		if k.name == "int" || k.name == "general" {
			fs = append(fs, family{name: "registers-general-then-return-address-" + k.name, limit: 127, ns: regNs, gen: func(n int) (string, string, string) {
				var b strings.Builder
				fmt.Fprintf(&b, "var o_§ int\n\nfunc f_§(x int, a, b []int) *%s {\n", k.typ)
				t := genLocals(&b, n)
				w := 0
				if k.name == "int" {
					fmt.Fprintf(&b, "\to_§ = t\n\ty := x + %d\n\ty += 3\n\treturn &y\n}\n", n)
					w = 1000 + n + 3
					return b.String(), "\tr := f_§(1000, []int{1001}, []int{2002})\n\tprintln(o_§, *r)\n", fmt.Sprintf("%d %d\n", t, w)
				}
				fmt.Fprintf(&b, "\to_§ = t\n\ty := []int{x + %d}\n\ty[0] += 3\n\treturn &y\n}\n", n)
				w = 1000 + n + 3
				return b.String(), "\tr := f_§(1000, []int{1001}, []int{2002})\n\tprintln(o_§, (*r)[0])\n", fmt.Sprintf("%d %d\n", t, w)
			}})
		}
	}

	// ---- the counted thing in package-level declarations ----
	for _, k := range []string{"int", "float", "string", "general"} {
		k := k
		fs = append(fs, family{name: "package-level-vars-" + k, limit: 127, ns: around([]int{127, 256}, -5, 4), gen: func(n int) (string, string, string) {
			var b strings.Builder
			var call strings.Builder
			t := 0
			switch k {
			case "int":
				b.WriteString("var x_§ = b_§()\n\nfunc b_§() int {\n\treturn 1000\n}\n\n")
			case "float":
				b.WriteString("var x_§ = b_§()\n\nfunc b_§() float64 {\n\treturn 1000\n}\n\n")
			case "string":
				b.WriteString("var x_§ = b_§()\n\nfunc b_§() string {\n\treturn \"p\"\n}\n\n")
			default:
				b.WriteString("var x_§ = b_§()\n\nfunc b_§() []int {\n\treturn []int{1000}\n}\n\n")
			}
			call.WriteString("\tt := 0\n")
			for i := 1; i <= n; i++ {
				switch k {
				case "int":
					fmt.Fprintf(&b, "var v%d_§ = x_§ + %d\n", i, i)
					fmt.Fprintf(&call, "\tt = t*31 + v%d_§\n", i)
					t = t*31 + 1000 + i
				case "float":
					fmt.Fprintf(&b, "var v%d_§ = x_§ + %d.5\n", i, i)
					fmt.Fprintf(&call, "\tt = t*31 + int(v%d_§*2)\n", i)
					t = t*31 + (1000+i)*2 + 1
				case "string":
					fmt.Fprintf(&b, "var v%d_§ = x_§ + \"%d\"\n", i, i)
					fmt.Fprintf(&call, "\tt = t*31 + len(v%d_§)*1000 + int(v%d_§[len(v%d_§)-1])\n", i, i, i)
					s := fmt.Sprintf("p%d", i)
					t = t*31 + len(s)*1000 + int(s[len(s)-1])
				default:
					fmt.Fprintf(&b, "var v%d_§ = []int{x_§[0] + %d}\n", i, i)
					fmt.Fprintf(&call, "\tt = t*31 + v%d_§[0]\n", i)
					t = t*31 + 1000 + i
				}
			}
			call.WriteString("\tprintln(t)\n")
			return b.String(), call.String(), fmt.Sprintf("%d\n", t)
		}})
	}
	fs = append(fs,
		family{name: "package-level-initialiser-temporaries", limit: 127, ns: around([]int{64, 127}, -5, 4), gen: func(n int) (string, string, string) {
			var b strings.Builder
			b.WriteString("var x_§ = b_§()\n\nfunc b_§() int {\n\treturn 3\n}\n\nvar r_§ = ")
			for i := 1; i <= n; i++ {
				fmt.Fprintf(&b, "(x_§*%d - ", i)
			}
			b.WriteString("x_§" + strings.Repeat(")", n) + "\n")
			t := 3
			for i := n; i >= 1; i-- {
				t = 3*i - t
			}
			return b.String(), "r_§", fmt.Sprintf("%d\n", t)
		}},
		family{name: "package-level-string-constants", limit: 256, ns: around([]int{256}, -4, 4), gen: func(n int) (string, string, string) {
			var b strings.Builder
			b.WriteString("var s_§ = []string{")
			t := 0
			for i := 0; i < n; i++ {
				if i%16 == 0 {
					b.WriteString("\n\t")
				}
				s := fmt.Sprintf("k%d", i)
				fmt.Fprintf(&b, "%q, ", s)
				t = t*31 + (i+1)*(len(s)+int(s[len(s)-1]))
			}
			b.WriteString("\n}\n")
			return b.String(), "\tt := 0\n\tfor i, s := range s_§ {\n\t\tt = t*31 + (i+1)*(len(s)+int(s[len(s)-1]))\n\t}\n\tprintln(t)\n", fmt.Sprintf("%d\n", t)
		}},
		family{name: "package-level-general-constants+last=nil", limit: 256, ns: around([]int{256}, -4, 4), gen: func(n int) (string, string, string) {
			var b strings.Builder
			b.WriteString("var c_§ = []complex128{")
			t := 0
			for i := 0; i < n; i++ {
				if i%8 == 0 {
					b.WriteString("\n\t")
				}
				fmt.Fprintf(&b, "%d + %di, ", 1000+i, i%7+1)
				t = t*31 + (i+1)*(1000+i) + i%7 + 1
			}
			b.WriteString("\n}\n\nvar e_§ interface{} = nil\n")
			t = t*31 + 7
			return b.String(), "\tt := 0\n\tfor i, v := range c_§ {\n\t\tt = t*31 + (i+1)*int(real(v)) + int(imag(v))\n\t}\n\tif e_§ == nil {\n\t\tt = t*31 + 7\n\t} else {\n\t\tt = t*31 + 1\n\t}\n\tprintln(t)\n", fmt.Sprintf("%d\n", t)
		}},
		family{name: "package-level-types", limit: 256, ns: around([]int{128, 256}, -4, 4), gen: func(n int) (string, string, string) {
			var b strings.Builder
			b.WriteString("var x_§ = b_§()\n\nfunc b_§() int {\n\treturn 7\n}\n\n")
			var call strings.Builder
			call.WriteString("\tt := 0\n")
			t := 0
			for i := 1; i <= n; i++ {
				fmt.Fprintf(&b, "var a%d_§ = [%d]int{%d: x_§ + %d}\n", i, i, i-1, i)
				fmt.Fprintf(&call, "\tt = t*31 + a%d_§[%d] + len(a%d_§)\n", i, i-1, i)
				t = t*31 + 7 + i + i
			}
			call.WriteString("\tprintln(t)\n")
			return b.String(), call.String(), fmt.Sprintf("%d\n", t)
		}},
	)

	// ---- templates: {% var %} at top level and in a macro body ----
	for _, where := range []string{"top-level", "macro"} {
		where := where
		for _, k := range []string{"int", "string"} {
			k := k
			fs = append(fs, family{name: "template-" + where + "-vars-" + k, limit: 127, template: true, nogc: true, ns: regNs, gen: func(n int) (string, string, string) {
				var b strings.Builder
				if where == "macro" {
					b.WriteString("{% macro M(x int) %}")
				} else {
					b.WriteString("{% var x = 1000 %}")
				}
				t := 0
				for i := 1; i <= n; i++ {
					if k == "int" {
						fmt.Fprintf(&b, "{%% var v%d = x + %d %%}", i, i)
					} else {
						fmt.Fprintf(&b, "{%% var v%d = \"p%d\" %%}", i, i)
					}
				}
				b.WriteString("{% var t = 0 %}")
				for i := 1; i <= n; i++ {
					if k == "int" {
						fmt.Fprintf(&b, "{%% t = t*31 + v%d %%}", i)
						t = t*31 + 1000 + i
					} else {
						fmt.Fprintf(&b, "{%% t = t*31 + len(v%d)*1000 + int(v%d[len(v%d)-1]) %%}", i, i, i)
						s := fmt.Sprintf("p%d", i)
						t = t*31 + len(s)*1000 + int(s[len(s)-1])
					}
				}
				b.WriteString("{{ t }}")
				if where == "macro" {
					b.WriteString("{% end %}{{ M(1000) }}")
				}
				return b.String(), "", fmt.Sprintf("%d", t)
			}})
		}
		fs = append(fs, family{name: "template-" + where + "-string-constants+last=nil", limit: 256, template: true, nogc: true, ns: around([]int{256}, -4, 4), gen: func(n int) (string, string, string) {
			var b strings.Builder
			if where == "macro" {
				b.WriteString("{% macro M %}")
			}
			b.WriteString("{% var t = 0 %}{% for i, s := range []string{")
			t := 0
			for i := 0; i < n; i++ {
				s := fmt.Sprintf("k%d", i)
				fmt.Fprintf(&b, "%q, ", s)
				t = t*31 + (i+1)*(len(s)+int(s[len(s)-1]))
			}
			b.WriteString("} %}{% t = t*31 + (i+1)*(len(s)+int(s[len(s)-1])) %}{% end %}{% var e interface{} = nil %}{% if e == nil %}{% t = t*31 + 7 %}{% end %}{{ t }}")
			t = t*31 + 7
			if where == "macro" {
				b.WriteString("{% end %}{{ M() }}")
			}
			return b.String(), "", fmt.Sprintf("%d", t)
		}})
	}
	return fs
}
