// C20 — exceeding an implementation limit is an error, never wrong code.
//
// For every per-function limit of the compiler a family of programs sweeps the
// number n of the counted thing (locals of each register kind, temporaries,
// distinct constants of each kind, types, called functions, closures, native
// functions, struct fields, select cases) across the limit. Every program
// prints a checksum that depends on every counted thing and on its position.
// Oracle: Build succeeds and Run prints the checksum (computed analytically
// by the generator AND by gc for every family that needs no importer), or
// Build fails with a *scriggo.BuildError saying that a limit was exceeded;
// never a host panic, never another checksum; and once n fails every larger n
// of the sweep fails too.
package main

import (
	"context"
	"errors"
	"fmt"
	"os"
	"reflect"
	"regexp"
	"runtime"
	"sort"
	"strings"
	"sync"
	"time"

	"verif/gen/goprog"
	"verif/kit"
	"verif/oracle/gcref"

	"github.com/open2b/scriggo"
	"github.com/open2b/scriggo/native"
)

// family describes the programs of one limit.
type family struct {
	name   string
	limit  int
	ns     []int                                         // the sweep, ascending
	gen    func(n int) (decls, call string, want string) // decls of f_§, the call expression(s) printed, expected output
	native bool                                          // needs the importer (no gc run)
	nogc   bool                                          // too big for a gc batch: analytic expectation only
	// template: decls is the source of a template (index.txt); no gc run
	template bool
	// imports of a native family (default: "p")
	imports []string
	// base, when set, generates the reference program of a differential family:
	// the same program without the repeated references. If the base builds, a
	// limit error for the family's program is spurious.
	base func(n int) (decls, call string, want string)
}

func around(points []int, lo, hi int) []int {
	set := map[int]bool{}
	for _, p := range points {
		for d := lo; d <= hi; d++ {
			if p+d > 0 {
				set[p+d] = true
			}
		}
	}
	var out []int
	for n := range set {
		out = append(out, n)
	}
	sort.Ints(out)
	return out
}

func regFamily(kind string, ns []int) family {
	return family{name: "registers-" + kind, limit: 127, ns: ns, gen: func(n int) (string, string, string) {
		var b strings.Builder
		switch kind {
		case "int":
			b.WriteString("func f_§(x int) int {\n")
			for i := 1; i <= n; i++ {
				fmt.Fprintf(&b, "\tv%d := x + %d\n", i, i)
			}
			b.WriteString("\tt := 0\n")
			for i := 1; i <= n; i++ {
				fmt.Fprintf(&b, "\tt = t*31 + v%d\n", i)
			}
			b.WriteString("\treturn t\n}\n")
			t := 0
			for i := 1; i <= n; i++ {
				t = t*31 + 1000 + i
			}
			return b.String(), "f_§(1000)", fmt.Sprintf("%d\n", t)
		case "float":
			b.WriteString("func f_§(x float64) float64 {\n")
			for i := 1; i <= n; i++ {
				fmt.Fprintf(&b, "\tv%d := x + %d.5\n", i, i)
			}
			b.WriteString("\tt := 0.0\n")
			for i := 1; i <= n; i++ {
				fmt.Fprintf(&b, "\tt = t*0.5 + v%d\n", i)
			}
			b.WriteString("\treturn t\n}\n")
			t := 0.0
			for i := 1; i <= n; i++ {
				t = t*0.5 + (8 + float64(i) + 0.5)
			}
			return b.String(), "f_§(8)", string(gcref.AppendFloat(nil, t)) + "\n"
		case "string":
			b.WriteString("func f_§(x string) string {\n")
			for i := 1; i <= n; i++ {
				fmt.Fprintf(&b, "\tv%d := x + \"%d;\"\n", i, i)
			}
			b.WriteString("\tt := \"\"\n")
			for i := 1; i <= n; i++ {
				fmt.Fprintf(&b, "\tt += v%d\n", i)
			}
			b.WriteString("\treturn t\n}\n")
			t := ""
			for i := 1; i <= n; i++ {
				t += fmt.Sprintf("p%d;", i)
			}
			return b.String(), "f_§(\"p\")", t + "\n"
		default: // general
			b.WriteString("func f_§(x int) int {\n")
			for i := 1; i <= n; i++ {
				fmt.Fprintf(&b, "\tv%d := []int{x + %d}\n", i, i)
			}
			b.WriteString("\tt := 0\n")
			for i := 1; i <= n; i++ {
				fmt.Fprintf(&b, "\tt = t*31 + v%d[0]\n", i)
			}
			b.WriteString("\treturn t\n}\n")
			t := 0
			for i := 1; i <= n; i++ {
				t = t*31 + 1000 + i
			}
			return b.String(), "f_§(1000)", fmt.Sprintf("%d\n", t)
		}
	}}
}

func families(tier string) []family {
	regNs := around([]int{127}, -9, 5)
	fs := []family{
		regFamily("int", regNs), regFamily("float", regNs), regFamily("string", regNs), regFamily("general", regNs),
		{name: "registers-int-params", limit: 127, ns: around([]int{127}, -6, 4), gen: func(n int) (string, string, string) {
			var b, call strings.Builder
			b.WriteString("func f_§(")
			call.WriteString("f_§(")
			for i := 1; i <= n; i++ {
				if i > 1 {
					b.WriteString(", ")
					call.WriteString(", ")
				}
				fmt.Fprintf(&b, "p%d", i)
				fmt.Fprintf(&call, "%d", 1000+i)
			}
			b.WriteString(" int) int {\n\tt := 0\n")
			call.WriteString(")")
			t := 0
			for i := 1; i <= n; i++ {
				fmt.Fprintf(&b, "\tt = t*31 + p%d\n", i)
				t = t*31 + 1000 + i
			}
			b.WriteString("\treturn t\n}\n")
			return b.String(), call.String(), fmt.Sprintf("%d\n", t)
		}},
		{name: "registers-int-temporaries", limit: 127, ns: around([]int{64, 127}, -5, 4), gen: func(n int) (string, string, string) {
			// right-nested expression: every level keeps a temporary alive
			var b strings.Builder
			b.WriteString("func f_§(x int) int {\n\treturn ")
			for i := 1; i <= n; i++ {
				fmt.Fprintf(&b, "(x*%d - ", i)
			}
			b.WriteString("x")
			b.WriteString(strings.Repeat(")", n))
			b.WriteString("\n}\n")
			t := 3
			for i := n; i >= 1; i-- {
				t = 3*i - t
			}
			return b.String(), "f_§(3)", fmt.Sprintf("%d\n", t)
		}},
		{name: "string-constants", limit: 256, ns: around([]int{128, 256}, -4, 4), gen: func(n int) (string, string, string) {
			var b strings.Builder
			b.WriteString("func f_§() int {\n\tt := 0\n\tfor i, s := range []string{")
			t := 0
			for i := 0; i < n; i++ {
				if i%16 == 0 {
					b.WriteString("\n\t\t")
				}
				s := fmt.Sprintf("k%d", i)
				fmt.Fprintf(&b, "%q, ", s)
				t = t*31 + (i+1)*(len(s)+int(s[len(s)-1]))
			}
			fmt.Fprintf(&b, "\n\t} {\n\t\tt = t*31 + (i+1)*(len(s)+int(s[len(s)-1]))\n\t}\n\treturn t\n}\n")
			return b.String(), "f_§()", fmt.Sprintf("%d\n", t)
		}},
		{name: "general-constants", limit: 256, ns: around([]int{128, 256}, -4, 4), gen: func(n int) (string, string, string) {
			// general constants are the constants that live in no typed table: complex numbers
			var b strings.Builder
			b.WriteString("func f_§() int {\n\tt := 0\n\tfor i, v := range []complex128{")
			t := 0
			for i := 0; i < n; i++ {
				if i%8 == 0 {
					b.WriteString("\n\t\t")
				}
				fmt.Fprintf(&b, "%d + %di, ", 1000+i, i%7+1)
				t = t*31 + (i+1)*(1000+i) + i%7 + 1
			}
			b.WriteString("\n\t} {\n\t\tt = t*31 + (i+1)*int(real(v)) + int(imag(v))\n\t}\n\treturn t\n}\n")
			return b.String(), "f_§()", fmt.Sprintf("%d\n", t)
		}},
		{name: "types", limit: 256, ns: around([]int{64, 85, 128, 256}, -4, 4), gen: func(n int) (string, string, string) {
			var b strings.Builder
			b.WriteString("func f_§(x int) int {\n\tt := 0\n")
			t := 0
			for i := 1; i <= n; i++ {
				// one block per type: the register of a is free again after it
				fmt.Fprintf(&b, "\t{\n\t\tvar a [%d]int\n\t\ta[%d] = x + %d\n\t\tt = t*31 + a[%d] + len(a)\n\t}\n", i, i-1, i, i-1)
				t = t*31 + 7 + i + i
			}
			b.WriteString("\treturn t\n}\n")
			return b.String(), "f_§(7)", fmt.Sprintf("%d\n", t)
		}},
		{name: "scriggo-functions", limit: 256, ns: around([]int{128, 256}, -4, 4), gen: func(n int) (string, string, string) {
			var b strings.Builder
			t := 0
			for i := 1; i <= n; i++ {
				fmt.Fprintf(&b, "func g%d_§(x int) int {\n\treturn x + %d\n}\n\n", i, i)
			}
			b.WriteString("func f_§(x int) int {\n\tt := 0\n")
			for i := 1; i <= n; i++ {
				fmt.Fprintf(&b, "\tt = t*31 + g%d_§(x)\n", i)
				t = t*31 + 5 + i
			}
			b.WriteString("\treturn t\n}\n")
			return b.String(), "f_§(5)", fmt.Sprintf("%d\n", t)
		}},
		{name: "closures", limit: 256, ns: around([]int{128, 256}, -4, 4), gen: func(n int) (string, string, string) {
			var b strings.Builder
			t := 0
			b.WriteString("func f_§(x int) int {\n\tt := 0\n")
			for i := 1; i <= n; i++ {
				fmt.Fprintf(&b, "\tt = t*31 + func(y int) int { return x + y + %d }(%d)\n", i, i)
				t = t*31 + 5 + i + i
			}
			b.WriteString("\treturn t\n}\n")
			return b.String(), "f_§(5)", fmt.Sprintf("%d\n", t)
		}},
		{name: "field-indexes", limit: 256, ns: around([]int{128, 256}, -4, 4), gen: func(n int) (string, string, string) {
			var b strings.Builder
			b.WriteString("type S_§ struct {\n")
			for i := 0; i < n; i++ {
				fmt.Fprintf(&b, "\tF%d int\n", i)
			}
			b.WriteString("}\n\nfunc f_§(x int) int {\n\tvar s S_§\n")
			for i := 0; i < n; i++ {
				fmt.Fprintf(&b, "\ts.F%d = x + %d\n", i, i)
			}
			b.WriteString("\tt := 0\n")
			t := 0
			for i := 0; i < n; i++ {
				fmt.Fprintf(&b, "\tt = t*31 + s.F%d\n", i)
				t = t*31 + 9 + i
			}
			b.WriteString("\treturn t\n}\n")
			return b.String(), "f_§(9)", fmt.Sprintf("%d\n", t)
		}},
		{name: "native-functions", limit: 256, native: true, ns: around([]int{128, 256}, -4, 4), gen: func(n int) (string, string, string) {
			var b strings.Builder
			b.WriteString("func f_§(x int) int {\n\tt := 0\n")
			t := 0
			for i := 0; i < n; i++ {
				fmt.Fprintf(&b, "\tt = t*31 + p.F%d(x)\n", i)
				t = t*31 + 5 + i
			}
			b.WriteString("\treturn t\n}\n")
			return b.String(), "f_§(5)", fmt.Sprintf("%d\n", t)
		}},
	}
	intNs := around([]int{1 << 14}, -3, 3)
	if tier == "thorough" {
		intNs = around([]int{1 << 13, 1 << 14}, -4, 4)
	}
	fs = append(fs,
		family{name: "int-constants", limit: 1 << 14, ns: intNs, gen: func(n int) (string, string, string) {
			var b strings.Builder
			b.WriteString("func f_§() int {\n\tt := 0\n\tfor i, v := range []int{")
			t := 0
			for i := 0; i < n; i++ {
				if i%16 == 0 {
					b.WriteString("\n\t\t")
				}
				fmt.Fprintf(&b, "%d, ", 100000+i)
				t = t*31 + (i%97+1)*(100000+i)
			}
			fmt.Fprintf(&b, "\n\t} {\n\t\tt = t*31 + (i%%97+1)*v\n\t}\n\treturn t\n}\n")
			return b.String(), "f_§()", fmt.Sprintf("%d\n", t)
		}},
		family{name: "float-constants", limit: 1 << 14, ns: intNs, gen: func(n int) (string, string, string) {
			var b strings.Builder
			b.WriteString("func f_§() int {\n\tt := 0\n\tfor i, v := range []float64{")
			t := 0
			for i := 0; i < n; i++ {
				if i%16 == 0 {
					b.WriteString("\n\t\t")
				}
				fmt.Fprintf(&b, "%d.5, ", 100000+i)
				t = t*31 + (i%97+1)*(100000+i)
			}
			fmt.Fprintf(&b, "\n\t} {\n\t\tt = t*31 + (i%%97+1)*int(v)\n\t}\n\treturn t\n}\n")
			return b.String(), "f_§()", fmt.Sprintf("%d\n", t)
		}},
	)
	if tier == "thorough" {
		fs = append(fs, family{name: "select-cases", limit: 65536, nogc: true, ns: around([]int{65536}, -3, 2), gen: func(n int) (string, string, string) {
			var b strings.Builder
			b.WriteString("func f_§() int {\n\tvar c chan int\n\td := make(chan int, 1)\n\td <- 42\n\tselect {\n")
			for i := 0; i < n-1; i++ {
				b.WriteString("\tcase <-c:\n\t\treturn 1\n")
			}
			b.WriteString("\tcase v := <-d:\n\t\treturn v\n\t}\n\treturn 2\n}\n")
			return b.String(), "f_§()", "42\n"
		}})
	}
	fs = append(fs, extraFamilies(tier)...)
	fs = append(fs, variadicFamilies()...)
	fs = append(fs, registerLastStatementFamilies()...)
	return append(fs, repeatedReferenceFamilies(tier)...)
}

type testCase struct {
	fam  *family
	k    int // index into fam.ns
	fidx int
}

func (tc testCase) program(i uint64) goprog.Case {
	n := tc.fam.ns[tc.k]
	decls, call, _ := tc.fam.gen(n)
	sfx := fmt.Sprint(i)
	body := "\tprintln(" + strings.ReplaceAll(call, "§", sfx) + ")\n"
	if strings.HasPrefix(call, "\t") {
		body = strings.ReplaceAll(call, "§", sfx) // a whole body
	}
	return goprog.Case{
		Decls: strings.ReplaceAll(decls, "§", sfx),
		Body:  body,
		// no wrapper: these programs never panic, and the test function must stay small
		NoWrap: true,
	}
}

func nativePkgs() native.Packages {
	decls := native.Declarations{}
	for i := 0; i < 300; i++ {
		i := i
		decls[fmt.Sprintf("F%d", i)] = func(x int) int { return x + i }
	}
	fold := func(n int, obs func(i int) int) int {
		t := 0
		for i := 0; i < n; i++ {
			t = t*31 + (i+1)*obs(i)
		}
		return t*1000 + n
	}
	decls["Sum"] = func(xs ...int) int { return fold(len(xs), func(i int) int { return xs[i] }) }
	decls["SumF"] = func(a int, b string, xs ...int) int {
		return fold(len(xs), func(i int) int { return xs[i] }) + a + len(b)
	}
	decls["Cat"] = func(xs ...string) int {
		return fold(len(xs), func(i int) int { return len(xs[i])*1000 + int(xs[i][len(xs[i])-1]) })
	}
	decls["Any"] = func(xs ...interface{}) int { return fold(len(xs), func(i int) int { return xs[i].(int) }) }
	decls["Celsius"] = reflect.TypeOf(celsius(0))
	version := 42
	decls["Version"] = &version
	decls["Answer"] = 42
	return native.Packages{
		"p":       native.Package{Name: "p", Declarations: decls},
		"strings": native.Package{Name: "strings", Declarations: native.Declarations{"Builder": reflect.TypeOf(strings.Builder{})}},
	}
}

type celsius float64

var limitMsg = regexp.MustCompile(`count exceeded \d+$`)

// result of building and running one program with Scriggo.
type result struct {
	class string // ok | limit | other
	out   string
	msg   string
}

func runTemplate(src []byte) (r result) {
	t, err := scriggo.BuildTemplate(scriggo.Files{"index.txt": src}, "index.txt", nil)
	if err != nil {
		var be *scriggo.BuildError
		if errors.As(err, &be) {
			if limitMsg.MatchString(be.Message()) {
				return result{class: "limit", msg: be.Message()}
			}
			return result{class: "other", msg: "build error that is not a limit error: " + be.Error()}
		}
		return result{class: "other", msg: fmt.Sprintf("BuildTemplate returned (%T) %v, not a *BuildError", err, err)}
	}
	var out strings.Builder
	if err := t.Run(&out, nil, nil); err != nil {
		return result{class: "other", out: out.String(), msg: fmt.Sprintf("Run returned (%T) %v", err, err)}
	}
	return result{class: "ok", out: out.String()}
}

func runScriggo(src []byte, withNative bool) (r result) {
	var out []byte
	opts := &scriggo.BuildOptions{AllowGoStmt: true}
	if withNative {
		opts.Packages = nativePkgs()
	}
	p, err := scriggo.Build(scriggo.Files{"main.go": src}, opts)
	if err != nil {
		var be *scriggo.BuildError
		if errors.As(err, &be) {
			if limitMsg.MatchString(be.Message()) {
				return result{class: "limit", msg: be.Message()}
			}
			return result{class: "other", msg: "build error that is not a limit error: " + be.Error()}
		}
		return result{class: "other", msg: fmt.Sprintf("Build returned (%T) %v, not a *BuildError", err, err)}
	}
	// the context only guards against a miscompiled program that blocks for ever
	ctx, cancel := context.WithTimeout(context.Background(), 5*time.Second)
	defer cancel()
	var mu sync.Mutex
	err = p.Run(&scriggo.RunOptions{Context: ctx, Print: func(v any) {
		mu.Lock()
		out, _ = gcref.AppendPrint(out, v)
		mu.Unlock()
	}})
	mu.Lock()
	defer mu.Unlock()
	if err != nil {
		return result{class: "other", out: string(out), msg: fmt.Sprintf("Run returned (%T) %v", err, err)}
	}
	return result{class: "ok", out: string(out)}
}

func spaces(tier string) []kit.Space {
	fams := families(tier)
	var cases []testCase
	for fi := range fams {
		for k := range fams[fi].ns {
			cases = append(cases, testCase{fam: &fams[fi], k: k, fidx: fi})
		}
	}
	// the gc side: one goprog family over the cases that need no importer
	var gcIdx []int // gc family index -> case index
	gcOf := map[int]uint64{}
	for ci, c := range cases {
		if !c.fam.native && !c.fam.nogc {
			gcOf[ci] = uint64(len(gcIdx))
			gcIdx = append(gcIdx, ci)
		}
	}
	gcFam := &goprog.Family{Name: "C20.gc", Batch: 16, Size: uint64(len(gcIdx)), Gen: func(j uint64) goprog.Case { return cases[gcIdx[j]].program(j) }}
	gcFamilyForPrefill = gcFam

	mkSource := func(ci int, pc goprog.Case, j uint64) []byte {
		c := cases[ci]
		if c.fam.native {
			imports := c.fam.imports
			if imports == nil {
				imports = []string{"p"}
			}
			hdr := "package main\n\n"
			for _, im := range imports {
				hdr += "import \"" + im + "\"\n"
			}
			return []byte(hdr + "\n" + pc.Decls + "\n" + pc.Func(j) + fmt.Sprintf("\nfunc main() {\n\tt%d()\n}\n", j))
		}
		return pc.Single(j)
	}
	source := func(ci int) []byte {
		c := cases[ci]
		if c.fam.template {
			decls, _, _ := c.fam.gen(c.fam.ns[c.k])
			return []byte(decls)
		}
		j, ok := gcOf[ci]
		if !ok {
			j = uint64(ci)
		}
		return mkSource(ci, c.program(j), j)
	}
	baseSource := func(ci int) []byte {
		c := cases[ci]
		decls, call, _ := c.fam.base(c.fam.ns[c.k])
		tc := testCase{fam: &family{ns: []int{0}, gen: func(int) (string, string, string) { return decls, call, "" }}}
		return mkSource(ci, tc.program(uint64(ci)), uint64(ci))
	}
	eval := func(i uint64) kit.Outcome {
		ci := int(i)
		c := cases[ci]
		n := c.fam.ns[c.k]
		_, _, want := c.fam.gen(n)
		fam := "limit=" + c.fam.name
		if _, ok := gcOf[ci]; ok {
			gcWant, rejected, err := gcFam.Want(gcOf[ci])
			if err != nil {
				panic("harness: gc oracle unavailable: " + err.Error())
			}
			if rejected != "" {
				// gc has limits of its own (none is expected to be hit here)
				return kit.Outcome{OK: true, Class: "gc-rejects-the-program", Detail: rejected}
			}
			if gcWant != want {
				panic(fmt.Sprintf("harness: analytic checksum %q differs from gc's %q for %s n=%d", want, gcWant, c.fam.name, n))
			}
		}
		src := source(ci)
		run := func(src []byte) result {
			// memoised: the monotonicity check asks again for the smaller n of the sweep
			key := kit.Hash64(string(src))
			memoMu.Lock()
			r, ok := memo[key]
			memoMu.Unlock()
			if ok {
				return r
			}
			if c.fam.template {
				r = runTemplate(src)
			} else {
				r = runScriggo(src, c.fam.native)
			}
			memoMu.Lock()
			memo[key] = r
			memoMu.Unlock()
			return r
		}
		r := run(src)
		o := kit.Outcome{OK: true, Nontrivial: true, Ops: n}
		detail := func() string {
			s := string(src)
			if len(s) > 3000 {
				s = s[:1500] + "\n…\n" + s[len(s)-1200:]
			}
			return fmt.Sprintf("family %s n=%d\nexpected output %q\nobserved: %s %q %s\nprogram:\n%s", c.fam.name, n, want, r.class, r.out, r.msg, s)
		}
		switch r.class {
		case "ok":
			o.Class = "built+ran, checksum right"
			if r.out != want {
				o.OK = false
				o.Class = "WRONG CHECKSUM"
				o.Key = fam + " outcome=wrong-checksum"
				o.Detail = detail()
				return o
			}
			// monotonicity: no smaller n of the sweep may have hit the limit
			for k := 0; k < c.k; k++ {
				prev := run(source(ci - c.k + k))
				if prev.class == "limit" {
					o.OK = false
					o.Key = fam + " outcome=non-monotone"
					o.Detail = fmt.Sprintf("n=%d fails with %q but n=%d builds and runs\n", c.fam.ns[k], prev.msg, n) + detail()
					return o
				}
			}
		case "limit":
			o.Class = "limit error (" + kit.NormMsg(r.msg) + ")"
			if c.fam.base != nil {
				// the program only repeats references of a program that is accepted:
				// it is within the limits, the refusal is spurious
				if b := run(baseSource(ci)); b.class == "ok" {
					o.OK = false
					o.Class = "SPURIOUS LIMIT ERROR"
					o.Key = fam + " outcome=spurious-limit-error(" + kit.NormMsg(r.msg) + ")"
					o.Detail = "the same program without the repeated references builds and runs\n" + detail()
				}
			}
		default:
			o.OK = false
			o.Class = "OTHER FAILURE"
			o.Key = fam + " outcome=" + kit.NormMsg(r.msg)
			o.Detail = detail()
		}
		return o
	}
	return []kit.Space{{
		Name: "limits",
		Size: uint64(len(cases)),
		Eval: eval,
		Describe: func(i uint64) any {
			c := cases[i]
			return map[string]any{"limit": c.fam.name, "n": c.fam.ns[c.k], "documented_limit": c.fam.limit}
		},
	}}
}

var gcFamilyForPrefill *goprog.Family

var (
	memoMu sync.Mutex
	memo   = map[uint64]result{}
)

func main() {
	master := true
	for _, a := range os.Args[1:] {
		for _, f := range []string{"worker", "one", "replay"} {
			if a == "-"+f || a == "--"+f || strings.HasPrefix(a, "-"+f+"=") || strings.HasPrefix(a, "--"+f+"=") {
				master = false
			}
		}
	}
	if len(os.Args) >= 2 && os.Args[1] == "dump" {
		spaces(kit.Tier(os.Args[1:]))
		os.Stdout.Write(gcFamilyForPrefill.BatchSource(0))
		return
	}
	if master {
		start := time.Now()
		spaces(kit.Tier(os.Args[1:]))
		if err := gcFamilyForPrefill.Prefill(runtime.NumCPU()); err != nil {
			fmt.Fprintln(os.Stderr, "HARNESS-ERROR: gc oracle:", err)
			os.Exit(2)
		}
		fmt.Printf("gc oracle ready in %.1fs\n", time.Since(start).Seconds())
		if len(os.Args) >= 2 && os.Args[1] == "prefill" {
			return
		}
	}
	kit.Main(&kit.Check{
		ID:          "C20",
		Level:       "model_checking",
		Isolated:    true,
		HangSeconds: 120,
		Rule:        "for every limit family, every n of the sweep around the limit (and around its half and third, because one counted thing can take two or three table entries); each case is a distinct program; non-trivial = all (every program reaches the emitter)",
		Assumptions: []string{
			"the counted thing of a family is what the generator repeats n times; the exact n at which the limit error starts is not part of the oracle (temporaries and parameters also take entries), only: right checksum or limit error, and monotone",
			"a limit error is a *scriggo.BuildError whose message ends in \"count exceeded <N>\" (the wording of every newLimitExceededError call)",
			"checksums are position-weighted, so an index that wraps around (int8/uint8 table index) changes the result",
		},
		Spaces: spaces,
	})
}
