package main

// Third group of limit families (added after a second review):
//
//  1. calls with N individually listed arguments to variadic functions
//     (Scriggo functions with and without fixed parameters, closures, native
//     functions, append, print/println) for N around every encoding boundary;
//  2. functions that keep exactly k registers of one kind alive (k swept
//     across 127) and end with an instruction whose operands are register
//     ranges or register+count encodings;
//  3. table usage at the limit with REPEATED references: the same program with
//     and without the repeated references must be accepted alike (a limit
//     error for the one that only repeats references is spurious), plus one
//     thing referenced n times, plus constructs that use a table implicitly.

import (
	"fmt"
	"strings"
)

// ---------------------------------------------------------------- (1) variadic

type vElem struct {
	name, typ string
	arg       func(i int) string // i-th argument (1-based) as a constant expression
	argVar    func(i int) string // i-th argument computed from the variable x (= 1000) at run time
	obs       string             // int expression observing element x
	val       func(i int) int    // what obs yields for argument i
}

var vElems = []vElem{
	{"int", "int", func(i int) string { return fmt.Sprint(1000 + i) }, func(i int) string { return fmt.Sprintf("x + %d", i) }, "x", func(i int) int { return 1000 + i }},
	{"string", "string", func(i int) string { return fmt.Sprintf("\"a%d\"", i) }, func(i int) string { return fmt.Sprintf("s + \"%d\"", i) }, "len(x)*1000 + int(x[len(x)-1])",
		func(i int) int { s := fmt.Sprintf("a%d", i); return len(s)*1000 + int(s[len(s)-1]) }},
	{"float64", "float64", func(i int) string { return fmt.Sprintf("%d.5", i) }, func(i int) string { return fmt.Sprintf("f + %d.5", i) }, "int(x * 2)", func(i int) int { return 2*i + 1 }},
	{"interface", "interface{}", func(i int) string { return fmt.Sprint(1000 + i) }, func(i int) string { return fmt.Sprintf("x + %d", i) }, "x.(int)", func(i int) int { return 1000 + i }},
	{"slice", "[]int", func(i int) string { return fmt.Sprintf("[]int{%d}", 1000+i) }, func(i int) string { return fmt.Sprintf("[]int{x + %d}", i) }, "x[0]", func(i int) int { return 1000 + i }},
}

func vArgs(e vElem, n int, asVar bool) string {
	var a []string
	for i := 1; i <= n; i++ {
		if asVar {
			a = append(a, e.argVar(i))
		} else {
			a = append(a, e.arg(i))
		}
	}
	return strings.Join(a, ", ")
}

func vWant(e vElem, n int) int {
	t := 0
	for i := 1; i <= n; i++ {
		t = t*31 + i*e.val(i)
	}
	return t*1000 + n
}

// vPre declares the variables the run-time argument forms use. For float the
// argument i+0.5 must be what the constant form gives, so f is 0.
const vPre = "\tx := 1000\n\ts := \"a\"\n\tf := 0.0\n\t_, _, _ = x, s, f\n"

func variadicFamilies() []family {
	ns := []int{126, 127, 128, 129, 200, 255, 256, 257}
	var fs []family
	for _, e := range vElems {
		e := e
		for _, fixed := range []bool{false, true} {
			for _, asVar := range []bool{false, true} {
				fixed, asVar := fixed, asVar
				name := "variadic-call elem=" + e.name
				if fixed {
					name += " with-fixed-params"
				}
				if asVar {
					name += " args=run-time-values"
				} else {
					name += " args=constants"
				}
				fs = append(fs, family{name: name, limit: 127, ns: ns, gen: func(n int) (string, string, string) {
					params, lead, extra := "xs ..."+e.typ, "", 0
					if fixed {
						params, lead, extra = "a int, b string, xs ..."+e.typ, "7, \"bb\", ", 7+2
					}
					decl := fmt.Sprintf("func sum_§(%s) int {\n\tt := 0\n\tfor i, x := range xs {\n\t\tt = t*31 + (i+1)*(%s)\n\t}\n\treturn t*1000 + len(xs)", params, e.obs)
					if fixed {
						decl += " + a + len(b)"
					}
					decl += "\n}\n"
					body := ""
					if asVar {
						body = vPre
					}
					body += "\tprintln(sum_§(" + lead + vArgs(e, n, asVar) + "))\n"
					return decl, body, fmt.Sprintf("%d\n", vWant(e, n)+extra)
				}})
			}
		}
		// a closure, called indirectly
		fs = append(fs, family{name: "variadic-closure-call elem=" + e.name, limit: 127, ns: ns, gen: func(n int) (string, string, string) {
			body := fmt.Sprintf("\tsum := func(xs ...%s) int {\n\t\tt := 0\n\t\tfor i, x := range xs {\n\t\t\tt = t*31 + (i+1)*(%s)\n\t\t}\n\t\treturn t*1000 + len(xs)\n\t}\n\tprintln(sum(%s))\n", e.typ, e.obs, vArgs(e, n, false))
			return "", body, fmt.Sprintf("%d\n", vWant(e, n))
		}})
		// append with n listed elements
		for _, asVar := range []bool{false, true} {
			asVar := asVar
			name := "append-listed-elements elem=" + e.name + " args=constants"
			if asVar {
				name = "append-listed-elements elem=" + e.name + " args=run-time-values"
			}
			fs = append(fs, family{name: name, limit: 127, ns: ns, gen: func(n int) (string, string, string) {
				body := ""
				if asVar {
					body = vPre
				}
				body += fmt.Sprintf("\txs := append([]%s{}, %s)\n\tt := 0\n\tfor i, x := range xs {\n\t\tt = t*31 + (i+1)*(%s)\n\t}\n\tprintln(t*1000 + len(xs))\n", e.typ, vArgs(e, n, asVar), e.obs)
				return "", body, fmt.Sprintf("%d\n", vWant(e, n))
			}})
		}
	}
	// print and println with n arguments
	for _, fn := range []string{"println", "print"} {
		fn := fn
		fs = append(fs, family{name: fn + "-listed-arguments", limit: 127, ns: ns, gen: func(n int) (string, string, string) {
			var a, w []string
			for i := 1; i <= n; i++ {
				a = append(a, fmt.Sprint(i))
				w = append(w, fmt.Sprint(i))
			}
			if fn == "println" {
				return "", "\tprintln(" + strings.Join(a, ", ") + ")\n", strings.Join(w, " ") + "\n"
			}
			return "", "\tprint(" + strings.Join(a, ", ") + ")\n\tprintln()\n", strings.Join(w, "") + "\n"
		}})
	}
	// native variadic functions
	for _, nf := range []struct {
		fn, lead string
		extra    int
		e        vElem
	}{
		{"Sum", "", 0, vElems[0]}, {"SumF", "7, \"bb\", ", 9, vElems[0]}, {"Cat", "", 0, vElems[1]}, {"Any", "", 0, vElems[3]},
	} {
		nf := nf
		for _, asVar := range []bool{false, true} {
			asVar := asVar
			name := "variadic-native-call func=" + nf.fn + " args=constants"
			if asVar {
				name = "variadic-native-call func=" + nf.fn + " args=run-time-values"
			}
			fs = append(fs, family{name: name, limit: 127, native: true, ns: ns, gen: func(n int) (string, string, string) {
				body := ""
				if asVar {
					body = vPre
				}
				body += "\tprintln(p." + nf.fn + "(" + nf.lead + vArgs(nf.e, n, asVar) + "))\n"
				return "", body, fmt.Sprintf("%d\n", vWant(nf.e, n)+nf.extra)
			}})
		}
	}
	return fs
}

// ------------------------------------------ (2) exactly k registers + last statement

type rKind struct {
	name, typ string
	local     func(i int) string // initialiser of local i from the parameters
	obs       func(e string) string
	val       func(i int) int
}

var rKinds = []rKind{
	{"int", "int", func(i int) string { return fmt.Sprintf("x + %d", i) }, func(e string) string { return e }, func(i int) int { return 1000 + i }},
	{"float", "float64", func(i int) string { return fmt.Sprintf("y + %d.5", i) }, func(e string) string { return "int(" + e + "*2)" }, func(i int) int { return 2001 + 2*i }},
	{"string", "string", func(i int) string { return fmt.Sprintf("z + \"%d\"", i) }, func(e string) string { return "(len(" + e + ")*1000 + int(" + e + "[len(" + e + ")-1]))" },
		func(i int) int { s := fmt.Sprintf("p%d", i); return len(s)*1000 + int(s[len(s)-1]) }},
	{"general", "[]int", func(i int) string { return fmt.Sprintf("gs[%d]", i%7) }, func(e string) string { return e + "[0]" }, func(i int) int { return 2000 + i%7 }},
}

// a last-statement form: package-level declarations, the statement, what the
// caller prints after the call, and the expected printed values.
type rForm struct {
	name string
	gen  func(k rKind, n int) (decls, last, observe string, want []int, results string)
}

func lastLocals(n, m int) []int { // the indices of the last m locals
	var ix []int
	for i := n - m + 1; i <= n; i++ {
		if i >= 1 {
			ix = append(ix, i)
		}
	}
	return ix
}

func vnames(ix []int) string {
	var a []string
	for _, i := range ix {
		a = append(a, fmt.Sprintf("v%d", i))
	}
	return strings.Join(a, ", ")
}

func foldVals(k rKind, ix []int) int {
	t := 0
	for _, i := range ix {
		t = t*31 + k.val(i)
	}
	return t
}

func rForms() []rForm {
	var fs []rForm
	for m := 1; m <= 5; m++ {
		m := m
		fs = append(fs, rForm{fmt.Sprintf("append-%d-elements", m), func(k rKind, n int) (string, string, string, []int, string) {
			ix := lastLocals(n, m)
			return "var os_§ []" + k.typ + "\n", "os_§ = append(os_§, " + vnames(ix) + ")",
				"\tt := 0\n\tfor _, e := range os_§ {\n\t\tt = t*31 + " + k.obs("e") + "\n\t}\n\tprintln(len(os_§), t)\n", []int{len(ix), foldVals(k, ix)}, ""
		}})
	}
	three := func(k rKind, n int) []int { return lastLocals(n, 3) }
	foldFn := func(k rKind) string {
		return "func vf_§(xs ..." + k.typ + ") int {\n\tt := 0\n\tfor _, e := range xs {\n\t\tt = t*31 + " + k.obs("e") + "\n\t}\n\treturn t\n}\n"
	}
	fs = append(fs,
		rForm{"variadic-call-3-arguments", func(k rKind, n int) (string, string, string, []int, string) {
			ix := three(k, n)
			return "var oi_§ int\n\n" + foldFn(k), "oi_§ = vf_§(" + vnames(ix) + ")", "\tprintln(oi_§)\n", []int{foldVals(k, ix)}, ""
		}},
		rForm{"call-3-arguments", func(k rKind, n int) (string, string, string, []int, string) {
			ix := lastLocals(n, 3)
			for len(ix) < 3 {
				ix = append([]int{ix[0]}, ix...)
			}
			return "var oi_§ int\n\nfunc f3_§(a, b, c " + k.typ + ") int {\n\treturn (" + k.obs("a") + "*31+" + k.obs("b") + ")*31 + " + k.obs("c") + "\n}\n",
				"oi_§ = f3_§(" + vnames(ix) + ")", "\tprintln(oi_§)\n", []int{foldVals(k, ix)}, ""
		}},
		rForm{"slice-literal", func(k rKind, n int) (string, string, string, []int, string) {
			ix := three(k, n)
			return "var os_§ []" + k.typ + "\n", "os_§ = []" + k.typ + "{" + vnames(ix) + "}",
				"\tt := 0\n\tfor _, e := range os_§ {\n\t\tt = t*31 + " + k.obs("e") + "\n\t}\n\tprintln(len(os_§), t)\n", []int{len(ix), foldVals(k, ix)}, ""
		}},
		rForm{"array-literal", func(k rKind, n int) (string, string, string, []int, string) {
			ix := lastLocals(n, 2)
			for len(ix) < 2 {
				ix = append([]int{ix[0]}, ix...)
			}
			return "var oa_§ [2]" + k.typ + "\n", "oa_§ = [2]" + k.typ + "{" + vnames(ix) + "}",
				"\tprintln(" + k.obs("oa_§[0]") + ", " + k.obs("oa_§[1]") + ")\n", []int{k.val(ix[0]), k.val(ix[1])}, ""
		}},
		rForm{"struct-literal", func(k rKind, n int) (string, string, string, []int, string) {
			ix := lastLocals(n, 2)
			for len(ix) < 2 {
				ix = append([]int{ix[0]}, ix...)
			}
			return "type T_§ struct {\n\tA, B " + k.typ + "\n}\n\nvar ot_§ T_§\n", "ot_§ = T_§{" + vnames(ix) + "}",
				"\tprintln(" + k.obs("ot_§.A") + ", " + k.obs("ot_§.B") + ")\n", []int{k.val(ix[0]), k.val(ix[1])}, ""
		}},
		rForm{"map-literal", func(k rKind, n int) (string, string, string, []int, string) {
			ix := lastLocals(n, 2)
			for len(ix) < 2 {
				ix = append([]int{ix[0]}, ix...)
			}
			return "var om_§ map[string]" + k.typ + "\n", fmt.Sprintf("om_§ = map[string]%s{\"a\": v%d, \"b\": v%d}", k.typ, ix[0], ix[1]),
				"\tprintln(len(om_§), " + k.obs("om_§[\"a\"]") + ", " + k.obs("om_§[\"b\"]") + ")\n", []int{2, k.val(ix[0]), k.val(ix[1])}, ""
		}},
		rForm{"return-3-values", func(k rKind, n int) (string, string, string, []int, string) {
			ix := lastLocals(n, 3)
			for len(ix) < 3 {
				ix = append([]int{ix[0]}, ix...)
			}
			return "", "return " + vnames(ix), "\tprintln(" + k.obs("r1") + ", " + k.obs("r2") + ", " + k.obs("r3") + ")\n",
				[]int{k.val(ix[0]), k.val(ix[1]), k.val(ix[2])}, k.typ
		}},
		rForm{"assign-3-results-of-a-call", func(k rKind, n int) (string, string, string, []int, string) {
			i := n
			return "var o1_§, o2_§, o3_§ " + k.typ + "\n\nfunc tri_§(a " + k.typ + ") (" + k.typ + ", " + k.typ + ", " + k.typ + ") {\n\treturn a, a, a\n}\n",
				fmt.Sprintf("o1_§, o2_§, o3_§ = tri_§(v%d)", i), "\tprintln(" + k.obs("o1_§") + ", " + k.obs("o2_§") + ", " + k.obs("o3_§") + ")\n",
				[]int{k.val(i), k.val(i), k.val(i)}, ""
		}},
		rForm{"tuple-assignment-rotating-3-locals", func(k rKind, n int) (string, string, string, []int, string) {
			ix := lastLocals(n, 3)
			if len(ix) < 3 {
				ix = []int{1, 1, 1}
			}
			return "var o1_§, o2_§, o3_§ " + k.typ + "\n",
				fmt.Sprintf("v%d, v%d, v%d = v%d, v%d, v%d\n\to1_§, o2_§, o3_§ = v%d, v%d, v%d", ix[0], ix[1], ix[2], ix[2], ix[0], ix[1], ix[0], ix[1], ix[2]),
				"\tprintln(" + k.obs("o1_§") + ", " + k.obs("o2_§") + ", " + k.obs("o3_§") + ")\n", []int{k.val(ix[2]), k.val(ix[0]), k.val(ix[1])}, ""
		}},
		rForm{"go-with-3-arguments", func(k rKind, n int) (string, string, string, []int, string) {
			ix := three(k, n)
			return "var ch_§ = make(chan int, 1)\n\nfunc gsend_§(c chan int, xs ..." + k.typ + ") {\n\tt := 0\n\tfor _, e := range xs {\n\t\tt = t*31 + " + k.obs("e") + "\n\t}\n\tc <- t\n}\n",
				"go gsend_§(ch_§, " + vnames(ix) + ")", "\tprintln(<-ch_§)\n", []int{foldVals(k, ix)}, ""
		}},
		rForm{"go-with-last-local-and-channel", func(k rKind, n int) (string, string, string, []int, string) {
			return "var ch_§ = make(chan int, 1)\n\nfunc gone_§(a " + k.typ + ", c chan int) {\n\tc <- " + k.obs("a") + "\n}\n",
				fmt.Sprintf("c := ch_§\n\tgo gone_§(v%d, c)", n), "\tprintln(<-ch_§)\n", []int{k.val(n)}, ""
		}},
		rForm{"go-closure-with-arguments", func(k rKind, n int) (string, string, string, []int, string) {
			ix := lastLocals(n, 2)
			for len(ix) < 2 {
				ix = append([]int{ix[0]}, ix...)
			}
			return "var ch_§ = make(chan int, 1)\n",
				fmt.Sprintf("go func(a, b %s) {\n\t\tch_§ <- %s*31 + %s\n\t}(v%d, v%d)", k.typ, k.obs("a"), k.obs("b"), ix[0], ix[1]), "\tprintln(<-ch_§)\n", []int{k.val(ix[0])*31 + k.val(ix[1])}, ""
		}},
		rForm{"defer-with-3-arguments", func(k rKind, n int) (string, string, string, []int, string) {
			ix := three(k, n)
			return "var oi_§ int\n\nfunc dst_§(xs ..." + k.typ + ") {\n\tt := 0\n\tfor _, e := range xs {\n\t\tt = t*31 + " + k.obs("e") + "\n\t}\n\toi_§ = t\n}\n",
				"defer dst_§(" + vnames(ix) + ")", "\tprintln(oi_§)\n", []int{foldVals(k, ix)}, ""
		}},
		rForm{"defer-closure-capturing-last-local", func(k rKind, n int) (string, string, string, []int, string) {
			return "var oi_§ int\n", fmt.Sprintf("defer func() {\n\t\toi_§ = %s\n\t}()", k.obs(fmt.Sprintf("v%d", n))), "\tprintln(oi_§)\n", []int{k.val(n)}, ""
		}},
		rForm{"closure-capturing-last-local", func(k rKind, n int) (string, string, string, []int, string) {
			return "var of_§ func() int\n", fmt.Sprintf("of_§ = func() int {\n\t\treturn %s\n\t}", k.obs(fmt.Sprintf("v%d", n))), "\tprintln(of_§())\n", []int{k.val(n)}, ""
		}},
		rForm{"select-send-last-local", func(k rKind, n int) (string, string, string, []int, string) {
			return "var chk_§ = make(chan " + k.typ + ", 1)\n", fmt.Sprintf("select {\n\tcase chk_§ <- v%d:\n\tdefault:\n\t}", n),
				"\tw := <-chk_§\n\tprintln(" + k.obs("w") + ")\n", []int{k.val(n)}, ""
		}},
		rForm{"select-receive-into-new-variable", func(k rKind, n int) (string, string, string, []int, string) {
			return "var chk_§ = make(chan " + k.typ + ", 1)\n\nvar oi_§ int\n", fmt.Sprintf("chk_§ <- v%d\n\tselect {\n\tcase w, ok := <-chk_§:\n\t\tif ok {\n\t\t\toi_§ = %s\n\t\t}\n\t}", n, k.obs("w")),
				"\tprintln(oi_§)\n", []int{k.val(n)}, ""
		}},
		rForm{"range-with-both-variables", func(k rKind, n int) (string, string, string, []int, string) {
			ix := lastLocals(n, 2)
			for len(ix) < 2 {
				ix = append([]int{ix[0]}, ix...)
			}
			return "var oi_§ int\n", fmt.Sprintf("for i, w := range []%s{v%d, v%d} {\n\t\toi_§ = oi_§*31 + (i+1)*%s\n\t}", k.typ, ix[0], ix[1], k.obs("w")),
				"\tprintln(oi_§)\n", []int{k.val(ix[0])*31 + 2*k.val(ix[1])}, ""
		}},
		rForm{"range-over-string-with-both-variables", func(k rKind, n int) (string, string, string, []int, string) {
			return "var oi_§ int\n", fmt.Sprintf("for i, r := range \"ab\" {\n\t\toi_§ = oi_§*31 + (i+1)*int(r) + %s\n\t}", k.obs(fmt.Sprintf("v%d", n))),
				"\tprintln(oi_§)\n", []int{('a'+k.val(n))*31 + 2*'b' + k.val(n)}, ""
		}},
		rForm{"expression-chain", func(k rKind, n int) (string, string, string, []int, string) {
			ix := three(k, n)
			var parts []string
			for _, i := range ix {
				parts = append(parts, k.obs(fmt.Sprintf("v%d", i)))
			}
			w := 0
			for _, i := range ix {
				w += k.val(i)
			}
			return "var oi_§ int\n", "oi_§ = " + strings.Join(parts, " + "), "\tprintln(oi_§)\n", []int{w}, ""
		}},
		rForm{"println-3-arguments", func(k rKind, n int) (string, string, string, []int, string) {
			ix := three(k, n)
			var parts []string
			var w []int
			for _, i := range ix {
				parts = append(parts, k.obs(fmt.Sprintf("v%d", i)))
				w = append(w, k.val(i))
			}
			return "", "println(" + strings.Join(parts, ", ") + ")", "", w, "println"
		}},
		rForm{"store-in-interface-variable", func(k rKind, n int) (string, string, string, []int, string) {
			return "var oe_§ interface{}\n", fmt.Sprintf("oe_§ = v%d", n), "\tprintln(" + k.obs("oe_§.("+k.typ+")") + ")\n", []int{k.val(n)}, ""
		}},
		rForm{"address-of-last-local", func(k rKind, n int) (string, string, string, []int, string) {
			return "var op_§ *" + k.typ + "\n", fmt.Sprintf("op_§ = &v%d", n), "\tprintln(" + k.obs("(*op_§)") + ")\n", []int{k.val(n)}, ""
		}},
	)
	if true {
		fs = append(fs, rForm{"string-concatenation-chain", func(k rKind, n int) (string, string, string, []int, string) {
			if k.name != "string" {
				return "", "", "", nil, "skip"
			}
			ix := lastLocals(n, 4)
			var parts []string
			l := 0
			for _, i := range ix {
				parts = append(parts, fmt.Sprintf("v%d", i))
				l += len(fmt.Sprintf("p%d", i))
			}
			last := fmt.Sprintf("p%d", ix[len(ix)-1])
			return "var ostr_§ string\n", "ostr_§ = " + strings.Join(parts, " + \"-\" + "), "\tprintln(len(ostr_§), int(ostr_§[len(ostr_§)-1]))\n",
				[]int{l + len(ix) - 1, int(last[len(last)-1])}, ""
		}})
	}
	return fs
}

func registerLastStatementFamilies() []family {
	ns := around([]int{127}, -6, 1) // 121..128: the limit error starts between 123 and 127 depending on the form
	var fs []family
	for _, f := range rForms() {
		for _, k := range rKinds {
			f, k := f, k
			if _, _, _, _, res := f.gen(k, 10); res == "skip" {
				continue
			}
			fs = append(fs, family{name: "registers-" + k.name + "-then-" + f.name, limit: 127, ns: ns, gen: func(n int) (string, string, string) {
				decls, last, observe, want, results := f.gen(k, n)
				var b strings.Builder
				b.WriteString(decls)
				b.WriteString("\nvar tt_§ int\n\n")
				sig := "func f_§(x int, y float64, z string, gs [][]int)"
				if results != "" && results != "println" {
					sig += " (" + results + ", " + results + ", " + results + ")"
				}
				b.WriteString(sig + " {\n")
				for i := 1; i <= n; i++ {
					fmt.Fprintf(&b, "\tv%d := %s\n", i, k.local(i))
				}
				b.WriteString("\tt := 0\n")
				t := 0
				for i := 1; i <= n; i++ {
					fmt.Fprintf(&b, "\tt = t*31 + %s\n", k.obs(fmt.Sprintf("v%d", i)))
					t = t*31 + k.val(i)
				}
				b.WriteString("\ttt_§ = t\n\t" + last + "\n}\n")
				args := "1000, 1000, \"p\", [][]int{{2000}, {2001}, {2002}, {2003}, {2004}, {2005}, {2006}}"
				var body, exp string
				var ws []string
				for _, w := range want {
					ws = append(ws, fmt.Sprint(w))
				}
				switch {
				case results == "println":
					body = "\tf_§(" + args + ")\n\tprintln(tt_§)\n"
					exp = strings.Join(ws, " ") + "\n" + fmt.Sprintf("%d\n", t)
				case results != "":
					body = "\tr1, r2, r3 := f_§(" + args + ")\n\tprintln(tt_§)\n" + observe
					exp = fmt.Sprintf("%d\n", t) + strings.Join(ws, " ") + "\n"
				default:
					body = "\tf_§(" + args + ")\n\tprintln(tt_§)\n" + observe
					exp = fmt.Sprintf("%d\n", t) + strings.Join(ws, " ") + "\n"
				}
				return b.String(), body, exp
			}})
		}
	}
	return fs
}

// ------------------------------------------------ (3) repeated references at the limit

// tableFamily builds a family whose programs refer to n distinct things of a
// table and then (variant) refer again to the first, a middle and the last one.
// decl(n) gives the package-level declarations, use(i) the statements folding
// thing i (0-based) into t, val(i) the value folded.
func tableFamily(name string, limit int, ns []int, native bool, imports []string, decl func(n int) string, use func(i int) string, val func(i int) int) family {
	gen := func(n int, again bool) (string, string, string) {
		var b strings.Builder
		b.WriteString(decl(n))
		b.WriteString("\nfunc f_§(x int) int {\n\tt := 0\n")
		t := 0
		for i := 0; i < n; i++ {
			b.WriteString(use(i))
			t = t*31 + val(i)
		}
		if again {
			for rep := 0; rep < 2; rep++ {
				for _, i := range []int{0, n / 2, n - 1} {
					b.WriteString(use(i))
					t = t*31 + val(i)
				}
			}
		}
		b.WriteString("\treturn t\n}\n")
		return b.String(), "f_§(5)", fmt.Sprintf("%d\n", t)
	}
	return family{name: name + "+first-middle-last-again", limit: limit, ns: ns, native: native, imports: imports,
		gen:  func(n int) (string, string, string) { return gen(n, true) },
		base: func(n int) (string, string, string) { return gen(n, false) }}
}

func repeatedReferenceFamilies(tier string) []family {
	ns := around([]int{256}, -2, 2)
	var fs []family
	fs = append(fs,
		tableFamily("scriggo-functions", 256, ns, false, nil,
			func(n int) string {
				var b strings.Builder
				for i := 0; i < n; i++ {
					fmt.Fprintf(&b, "func g%d_§(x int) int {\n\treturn x + %d\n}\n\n", i, i)
				}
				return b.String()
			},
			func(i int) string { return fmt.Sprintf("\tt = t*31 + g%d_§(x)\n", i) }, func(i int) int { return 5 + i }),
		tableFamily("native-functions", 256, ns, true, []string{"p"}, func(n int) string { return "" },
			func(i int) string { return fmt.Sprintf("\tt = t*31 + p.F%d(x)\n", i) }, func(i int) int { return 5 + i }),
		tableFamily("types", 256, ns, false, nil, func(n int) string { return "" },
			func(i int) string {
				return fmt.Sprintf("\t{\n\t\tvar a [%d]int\n\t\ta[%d] = x + %d\n\t\tt = t*31 + a[%d] + len(a)\n\t}\n", i+1, i, i, i)
			}, func(i int) int { return 5 + i + i + 1 }),
		tableFamily("string-constants", 256, ns, false, nil, func(n int) string { return "" },
			func(i int) string {
				return fmt.Sprintf("\t{\n\t\ts := \"k%d\"\n\t\tt = t*31 + len(s) + int(s[len(s)-1])\n\t}\n", i)
			},
			func(i int) int { s := fmt.Sprintf("k%d", i); return len(s) + int(s[len(s)-1]) }),
		tableFamily("general-constants", 256, ns, false, nil, func(n int) string { return "" },
			func(i int) string {
				return fmt.Sprintf("\t{\n\t\tvar c complex128 = %d + %di\n\t\tt = t*31 + int(real(c)) + int(imag(c))\n\t}\n", 1000+i, i%7+1)
			},
			func(i int) int { return 1000 + i + i%7 + 1 }),
		tableFamily("field-indexes", 256, ns, false, nil,
			func(n int) string {
				var b strings.Builder
				b.WriteString("type S_§ struct {\n")
				for i := 0; i < n; i++ {
					fmt.Fprintf(&b, "\tF%d int\n", i)
				}
				b.WriteString("}\n\nvar s_§ = mk_§()\n\nfunc mk_§() *S_§ {\n\treturn &S_§{F0: 1}\n}\n")
				return b.String()
			},
			func(i int) string { return fmt.Sprintf("\ts_§.F%d += x + %d\n\tt = t*31 + s_§.F%d\n", i, i, i) },
			func(i int) int {
				if i == 0 {
					return -1 // placeholder, fixed below
				}
				return 5 + i
			}),
		tableFamily("package-variables", 256, append(around([]int{128}, -1, 1), ns...), false, nil,
			func(n int) string {
				var b strings.Builder
				b.WriteString("var base_§ = b_§()\n\nfunc b_§() int {\n\treturn 100\n}\n\n")
				for i := 0; i < n; i++ {
					fmt.Fprintf(&b, "var pv%d_§ = base_§ + %d\n", i, i)
				}
				return b.String()
			},
			func(i int) string { return fmt.Sprintf("\tt = t*31 + pv%d_§ + x\n", i) }, func(i int) int { return 105 + i }),
	)
	// field-indexes accumulates (+=), so the value of a repeated field differs: drop
	// that family's analytic placeholder by regenerating it with plain reads
	fs[5] = tableFamily("field-indexes", 256, ns, false, nil,
		func(n int) string {
			var b strings.Builder
			b.WriteString("type S_§ struct {\n")
			for i := 0; i < n; i++ {
				fmt.Fprintf(&b, "\tF%d int\n", i)
			}
			b.WriteString("}\n\nvar s_§ = mk_§()\n\nfunc mk_§() *S_§ {\n\ts := &S_§{}\n")
			for i := 0; i < n; i++ {
				fmt.Fprintf(&b, "\ts.F%d = %d\n", i, 100+i)
			}
			b.WriteString("\treturn s\n}\n")
			return b.String()
		},
		func(i int) string { return fmt.Sprintf("\tt = t*31 + s_§.F%d + x\n", i) }, func(i int) int { return 105 + i })

	numNs := []int{1<<14 - 1, 1 << 14, 1<<14 + 1}
	if tier == "thorough" {
		numNs = around([]int{1 << 14}, -2, 2)
	}
	for _, fl := range []bool{false, true} {
		fl := fl
		name, typ, lit := "int-constants", "int", func(i int) string { return fmt.Sprint(100000 + i) }
		obs := "v"
		if fl {
			name, typ, lit, obs = "float-constants", "float64", func(i int) string { return fmt.Sprintf("%d.5", 100000+i) }, "int(v)"
		}
		gen := func(n int, again bool) (string, string, string) {
			var b strings.Builder
			fmt.Fprintf(&b, "func f_§() int {\n\tt := 0\n\tfor i, v := range []%s{", typ)
			t := 0
			for i := 0; i < n; i++ {
				if i%16 == 0 {
					b.WriteString("\n\t\t")
				}
				b.WriteString(lit(i) + ", ")
				t = t*31 + (i%97+1)*(100000+i)
			}
			fmt.Fprintf(&b, "\n\t} {\n\t\tt = t*31 + (i%%97+1)*%s\n\t}\n", obs)
			if again {
				for rep := 0; rep < 2; rep++ {
					for _, i := range []int{0, n / 2, n - 1} {
						fmt.Fprintf(&b, "\t{\n\t\tvar v %s = %s\n\t\tt = t*31 + %s\n\t}\n", typ, lit(i), obs)
						t = t*31 + 100000 + i
					}
				}
			}
			b.WriteString("\treturn t\n}\n")
			return b.String(), "f_§()", fmt.Sprintf("%d\n", t)
		}
		fs = append(fs, family{name: name + "+first-middle-last-again", limit: 1 << 14, ns: numNs,
			gen:  func(n int) (string, string, string) { return gen(n, true) },
			base: func(n int) (string, string, string) { return gen(n, false) }})
	}

	// one thing referenced n times: must be accepted whenever one reference is
	manyNs := append(around([]int{128, 256}, -1, 1), 300)
	type single struct {
		name, decls string
		native      bool
		imports     []string
		pre, use    string // pre: once; use: repeated n times, folding into t
		post        string
		want        func(n int) int
	}
	fold := func(v int) func(n int) int {
		return func(n int) int {
			t := 0
			for i := 0; i < n; i++ {
				t = t*31 + v
			}
			return t
		}
	}
	singles := []single{
		{"scriggo-function-call", "func g_§(x int) int {\n\treturn x + 1\n}\n", false, nil, "", "\tt = t*31 + g_§(x)\n", "", fold(6)},
		{"native-function-call", "", true, []string{"p"}, "", "\tt = t*31 + p.F7(x)\n", "", fold(12)},
		{"native-method-call", "", true, []string{"strings"}, "\tvar b strings.Builder\n", "\tb.WriteString(\"x\")\n", "\tt = b.Len()\n", func(n int) int { return n }},
		{"native-method-call-on-pointer", "", true, []string{"strings"}, "\tb := new(strings.Builder)\n", "\tb.WriteString(\"xy\")\n", "\tt = b.Len()\n", func(n int) int { return 2 * n }},
		{"native-method-value", "", true, []string{"strings"}, "\tvar b strings.Builder\n\tw := b.WriteString\n", "\tw(\"x\")\n", "\tt = b.Len()\n", func(n int) int { return n }},
		{"native-type-conversion", "", true, []string{"p"}, "", "\tt = t*31 + int(p.Celsius(x))\n", "", fold(5)},
		{"native-variable", "", true, []string{"p"}, "", "\tt = t*31 + p.Version + x\n", "", fold(47)},
		{"native-constant", "", true, []string{"p"}, "", "\tt = t*31 + p.Answer + x\n", "", fold(47)},
		{"type-in-new", "", false, nil, "", "\t{\n\t\ta := new([3]int)\n\t\tt = t*31 + len(a) + x\n\t}\n", "", fold(8)},
		{"type-in-conversion", "type M_§ int\n", false, nil, "", "\tt = t*31 + int(M_§(x))\n", "", fold(5)},
		{"string-constant", "", false, nil, "", "\t{\n\t\ts := \"same\"\n\t\tt = t*31 + len(s)\n\t}\n", "", fold(4)},
		{"complex-constant", "", false, nil, "", "\t{\n\t\tvar c complex128 = 3 + 4i\n\t\tt = t*31 + int(real(c))\n\t}\n", "", fold(3)},
		{"nil-constant", "", false, nil, "", "\t{\n\t\tvar e interface{} = nil\n\t\tif e == nil {\n\t\t\tt = t*31 + 7\n\t\t}\n\t}\n", "", fold(7)},
		{"struct-field", "type S_§ struct {\n\tA, B int\n}\n\nvar s_§ = &S_§{1, 2}\n", false, nil, "", "\tt = t*31 + s_§.B + x\n", "", fold(7)},
		{"package-variable", "var pv_§ = b_§()\n\nfunc b_§() int {\n\treturn 40\n}\n", false, nil, "", "\tt = t*31 + pv_§ + x\n", "", fold(45)},
		{"closure-call", "", false, nil, "\tinc := func(v int) int {\n\t\treturn v + 2\n\t}\n", "\tt = t*31 + inc(x)\n", "", fold(7)},
		{"complex-negation", "", false, nil, "\tc := complex(float64(x), 2)\n", "\tc = -c\n", "\tt = int(real(c))*10 + int(imag(c))\n", func(n int) int {
			if n%2 == 0 {
				return 52
			}
			return -52
		}},
		{"complex-multiplication", "", false, nil, "\tc := complex(float64(x), 0)\n\td := complex(1, 0)\n", "\tc = c * d\n", "\tt = int(real(c))*10 + int(imag(c))\n", func(n int) int { return 50 }},
		{"complex-division", "", false, nil, "\tc := complex(float64(x), 0)\n\td := complex(1, 0)\n", "\tc = c / d\n", "\tt = int(real(c))*10 + int(imag(c))\n", func(n int) int { return 50 }},
	}
	for _, sg := range singles {
		sg := sg
		gen := func(n int) (string, string, string) {
			var b strings.Builder
			b.WriteString(sg.decls)
			b.WriteString("\nfunc f_§(x int) int {\n\tt := 0\n" + sg.pre)
			for i := 0; i < n; i++ {
				b.WriteString(sg.use)
			}
			b.WriteString(sg.post + "\treturn t\n}\n")
			return b.String(), "f_§(5)", fmt.Sprintf("%d\n", sg.want(n))
		}
		fs = append(fs, family{name: "one-" + sg.name + "-repeated-n-times", limit: 256, ns: manyNs, native: sg.native, imports: sg.imports,
			gen: gen, base: func(n int) (string, string, string) { return gen(1) }})
	}

	// implicit table users next to a nearly full table: n native functions, then a
	// construct implemented with helper functions used TWICE (base: once)
	for _, op := range []struct {
		name, pre, use, post string
		want                 func(reps int) int
	}{
		{"complex-negation", "\tc := complex(float64(x), 2)\n", "\tc = -c\n", "\tt = t*31 + int(real(c))*10 + int(imag(c))\n", func(r int) int {
			if r%2 == 0 {
				return 52
			}
			return -52
		}},
		{"complex-multiplication", "\tc := complex(float64(x), 0)\n\td := complex(2, 0)\n", "\tc = c * d\n", "\tt = t*31 + int(real(c))\n", func(r int) int { return 5 << uint(r) }},
		{"complex-division", "\tc := complex(float64(x)*4, 0)\n\td := complex(2, 0)\n", "\tc = c / d\n", "\tt = t*31 + int(real(c))\n", func(r int) int { return 20 >> uint(r) }},
		{"native-method-call", "\tvar b strings.Builder\n", "\tb.WriteString(\"x\")\n", "\tt = t*31 + b.Len()\n", func(r int) int { return r }},
	} {
		op := op
		imports := []string{"p"}
		if op.name == "native-method-call" {
			imports = []string{"p", "strings"}
		}
		gen := func(n, reps int) (string, string, string) {
			var b strings.Builder
			b.WriteString("func f_§(x int) int {\n\tt := 0\n")
			t := 0
			for i := 0; i < n; i++ {
				fmt.Fprintf(&b, "\tt = t*31 + p.F%d(x)\n", i)
				t = t*31 + 5 + i
			}
			b.WriteString(op.pre)
			for r := 0; r < reps; r++ {
				b.WriteString(op.use)
			}
			b.WriteString(op.post + "\treturn t\n}\n")
			t = t*31 + op.want(reps)
			return b.String(), "f_§(5)", fmt.Sprintf("%d\n", t)
		}
		fs = append(fs, family{name: "native-functions-then-" + op.name + "-twice", limit: 256, ns: around([]int{254}, -3, 3), native: true, imports: imports,
			gen:  func(n int) (string, string, string) { return gen(n, 2) },
			base: func(n int) (string, string, string) { return gen(n, 1) }})
	}
	// one STATEMENT repeated n times: its temporaries must be given back, so n
	// copies are accepted whenever one copy is
	for _, st := range []struct {
		name, decls, pre, use string
		native                bool
		want                  func(n int) int
	}{
		{"t+=call", "func g_§(x int) int {\n\treturn x + 1\n}\n", "", "\tt += g_§(x)\n", false, func(n int) int { return 6 * n }},
		{"t+=native-call", "", "", "\tt += p.F7(x)\n", true, func(n int) int { return 12 * n }},
		{"t=t+call", "func g_§(x int) int {\n\treturn x + 1\n}\n", "", "\tt = t + g_§(x)\n", false, func(n int) int { return 6 * n }},
		{"s+=call-then-len", "func h_§(x int) string {\n\treturn \"ab\"\n}\n", "\ts := \"\"\n", "\ts += h_§(x)\n\tt = len(s)\n", false, func(n int) int { return 2 * n }},
		{"f+=call", "func q_§(x int) float64 {\n\treturn 0.5\n}\n", "\tf := 0.0\n", "\tf += q_§(x)\n\tt = int(f * 2)\n", false, func(n int) int { return n }},
		{"slice-append-call", "func g_§(x int) int {\n\treturn x + 1\n}\n", "\tvar xs []int\n", "\txs = append(xs, g_§(x))\n\tt = len(xs)\n", false, func(n int) int { return n }},
		{"index-assign-op", "", "\txs := []int{0}\n", "\txs[0] += x\n\tt = xs[0]\n", false, func(n int) int { return 5 * n }},
		{"map-assign-op", "", "\tm := map[string]int{}\n", "\tm[\"k\"] += x\n\tt = m[\"k\"]\n", false, func(n int) int { return 5 * n }},
	} {
		st := st
		gen := func(n int) (string, string, string) {
			var b strings.Builder
			b.WriteString(st.decls + "\nfunc f_§(x int) int {\n\tt := 0\n" + st.pre)
			for i := 0; i < n; i++ {
				b.WriteString(st.use)
			}
			b.WriteString("\treturn t\n}\n")
			return b.String(), "f_§(5)", fmt.Sprintf("%d\n", st.want(n))
		}
		fs = append(fs, family{name: "one-statement-" + st.name + "-repeated-n-times", limit: 127, ns: manyNs, native: st.native,
			gen: gen, base: func(n int) (string, string, string) { return gen(1) }})
	}
	return fs
}
