#!/bin/bash
# Pre-fills the gc oracle cache for the quick tier of C20 (see checks/c01/setup.sh).
set -u
cd /verif
. bin/env.sh
mkdir -p .build
go build -tags verif -o .build/C20 ./checks/c20 || exit 1
exec .build/C20 prefill quick
