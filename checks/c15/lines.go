// Further spaces of C15:
//
//	lines.<fmt>   every line of up to 4 tokens over {space, text, show, assignment,
//	              var declaration, comment, 2-line comment, 2-line show, 3-line
//	              {%% %%}} as first / middle / last line of the file, LF and CRLF;
//	switch.<fmt>  every well-formed sequence over {a, space, LF, switch, case true,
//	              default, end}: clause lines, text before the first clause,
//	              bodies of clauses that are not taken;
//	mdurl.md      Markdown lines with a bare URL;
//	raw.<fmt>     raw blocks whose content ends with look-alikes of the end tag;
//	mdnest        Markdown→HTML conversions that nest (render and macros), with
//	              sequential conversions as control;
//	big           one document with 66000 text chunks.
//
// lines, switch and mdurl are judged by the relational model of main.go; raw,
// mdnest and big have an exact expected output.
package main

import (
	"bytes"
	"fmt"
	"io"
	"strings"

	"verif/kit"

	"github.com/open2b/scriggo"
)

func prefixed(prefix string, o kit.Outcome) kit.Outcome {
	o.Class = prefix + o.Class
	return o
}

// ---- lines ----

var linePositions = []string{"first-line", "middle-line", "last-line-with-newline", "last-line-at-eof"}

// lineTokens returns the token alphabet for a newline kind (0 LF, 1 CRLF).
func lineTokens(nl int) []int {
	return []int{atomSP, atomA, atomShow, atomAssign, atomVar, atomComment, atomMComment + nl, atomMShow + nl, atomMStmts + nl}
}

func linesSpace(ext string, maxTok int) kit.Space {
	names := make([]string, 9)
	for i, a := range lineTokens(0) {
		names[i] = atoms[a].name
	}
	en := kit.NewStringsUpTo(names, maxTok)
	mk := func(i uint64) []int {
		d := kit.Mixed(i, 2, uint64(len(linePositions)), en.Size())
		nl := int(d[0])
		nlAtom := atomLF
		if nl == 1 {
			nlAtom = atomCRLF
		}
		toks := lineTokens(nl)
		var line []int
		for _, t := range en.Atoms(d[2]) {
			line = append(line, toks[t])
		}
		var seq []int
		switch d[1] {
		case 0:
			seq = append(append(seq, line...), nlAtom, atomA)
		case 1:
			seq = append(append([]int{atomA, nlAtom}, line...), nlAtom, atomA)
		case 2:
			seq = append(append([]int{atomA, nlAtom}, line...), nlAtom)
		case 3:
			seq = append([]int{atomA, nlAtom}, line...)
		}
		return seq
	}
	return kit.Space{
		Name: "lines." + ext,
		Size: 2 * uint64(len(linePositions)) * en.Size(),
		Eval: func(i uint64) kit.Outcome { return prefixed("lines: ", evalSeq(ext, mk(i), false)) },
		Describe: func(i uint64) any {
			seq := mk(i)
			return map[string]any{"format": ext, "atoms": names2(seq), "template": source(seq)}
		},
	}
}

func names2(seq []int) []string { return names(seq) }

// ---- switch ----

var switchAlphabet = []int{atomA, atomSP, atomLF, atomSwitch, atomCase, atomDeflt, atomEnd}

// switchValid reports whether seq is a well-formed document: clauses only
// directly inside a switch, only white space before the first clause, at
// most one default per switch, at least one switch.
func switchValid(seq []int) bool {
	type fr struct {
		clause, deflt bool
	}
	var stack []*fr
	has := false
	for _, a := range seq {
		switch a {
		case atomSwitch:
			has = true
			if len(stack) > 0 && !stack[len(stack)-1].clause {
				return false // a statement before the first clause
			}
			stack = append(stack, &fr{})
		case atomEnd:
			if len(stack) == 0 {
				return false
			}
			stack = stack[:len(stack)-1]
		case atomCase, atomDeflt:
			if len(stack) == 0 {
				return false
			}
			f := stack[len(stack)-1]
			if a == atomDeflt {
				if f.deflt {
					return false
				}
				f.deflt = true
			}
			f.clause = true
		case atomA:
			if len(stack) > 0 && !stack[len(stack)-1].clause {
				return false // text before the first clause
			}
		}
	}
	return has && len(stack) == 0
}

func switchSpace(ext string, maxLen int) kit.Space {
	var nm []string
	for _, a := range switchAlphabet {
		nm = append(nm, atoms[a].name)
	}
	en := kit.NewStringsUpTo(nm, maxLen)
	mk := func(i uint64) []int {
		seq := en.Atoms(i)
		for k, a := range seq {
			seq[k] = switchAlphabet[a]
		}
		return seq
	}
	return kit.Space{
		Name: "switch." + ext,
		Size: en.Size(),
		Eval: func(i uint64) kit.Outcome {
			seq := mk(i)
			if !switchValid(seq) {
				return kit.Outcome{OK: true, Class: "switch: not a well-formed switch document"}
			}
			return prefixed("switch: ", evalSeq(ext, seq, false))
		},
		Describe: func(i uint64) any {
			seq := mk(i)
			return map[string]any{"format": ext, "atoms": names(seq), "template": source(seq)}
		},
	}
}

// ---- mdurl ----

var mdurlAlphabet = []int{atomA, atomSP, atomLF, atomURL, atomComment, atomIf, atomEnd, atomShow}

func mdurlSpace(maxLen int) kit.Space {
	var nm []string
	for _, a := range mdurlAlphabet {
		nm = append(nm, atoms[a].name)
	}
	en := kit.NewStringsUpTo(nm, maxLen)
	mk := func(i uint64) []int {
		seq := en.Atoms(i)
		for k, a := range seq {
			seq[k] = mdurlAlphabet[a]
		}
		return seq
	}
	return kit.Space{
		Name: "mdurl.md",
		Size: en.Size(),
		Eval: func(i uint64) kit.Outcome {
			seq := mk(i)
			has := false
			for _, a := range seq {
				has = has || a == atomURL
			}
			if !has {
				return kit.Outcome{OK: true, Class: "mdurl: no URL (such sequences belong to seq.md)"}
			}
			return prefixed("mdurl: ", evalSeq("md", seq, false))
		},
		Describe: func(i uint64) any {
			seq := mk(i)
			return map[string]any{"format": "md", "atoms": names(seq), "template": source(seq)}
		},
	}
}

// ---- raw ----

type rawForm struct{ name, open, end string }

var rawForms = []rawForm{
	{"raw…end-raw", "{% raw %}", "{% end raw %}"},
	{"raw…end", "{% raw %}", "{% end %}"},
	{"raw-m…end-raw-m", "{% raw m %}", "{% end raw m %}"},
}

var rawContents = []string{"", "a", "a\n"}

type rawTail struct {
	text       string
	markerOnly bool // a look-alike only for the form with a marker
}

var rawTails = []rawTail{
	{"", false}, {"{%", false}, {"{% ", false}, {"{%\n", false}, {"{% e", false}, {"{% end", false}, {"{% endx %}", false},
	{"{{", false}, {"{#", false}, {"{% end raw", false}, {"{% end rawx %}", false}, {"{% end raw n %}", false}, {"{%%", false}, {"{", false},
	{"{% end raw %}", true}, {"{% end %}", true},
}

var rawPosts = []string{"nothing", "text", "text-and-another-raw-block", "inside-if-closed-later"}

type rawCase struct{ form, content, tail, post int }

func (c rawCase) build() (src, want string, ok bool) {
	f, t := rawForms[c.form], rawTails[c.tail]
	if t.markerOnly && c.form != 2 {
		return "", "", false
	}
	pre, post, postOut := "p", "", ""
	switch c.post {
	case 1:
		post, postOut = "z", "z"
	case 2:
		post, postOut = "z{% raw %}b{% end raw %}y", "zby"
	case 3:
		pre, post, postOut = "{% if true %}p", "z{% end %}", "z"
	}
	src = pre + f.open + rawContents[c.content] + t.text + f.end + post
	want = "p" + rawContents[c.content] + t.text + postOut
	return src, want, true
}

func rawSpace(ext string) kit.Space {
	var cases []rawCase
	for f := range rawForms {
		for c := range rawContents {
			for t := range rawTails {
				for p := range rawPosts {
					cases = append(cases, rawCase{f, c, t, p})
				}
			}
		}
	}
	render := func(src string) (string, error) {
		t, err := scriggo.BuildTemplate(scriggo.Files{"index." + ext: []byte(src)}, "index."+ext, nil)
		if err != nil {
			return "", err
		}
		var b bytes.Buffer
		err = t.Run(&b, nil, nil)
		return b.String(), err
	}
	fails := func(c rawCase) (bool, string, string, string, error) {
		src, want, ok := c.build()
		if !ok {
			return false, "", "", "", nil
		}
		out, err := render(src)
		return err != nil || out != want, src, want, out, err
	}
	return kit.Space{
		Name: "raw." + ext,
		Size: uint64(len(cases)),
		Eval: func(i uint64) kit.Outcome {
			c := cases[i]
			if _, _, ok := c.build(); !ok {
				return kit.Outcome{OK: true, Class: "raw: not a look-alike for this form"}
			}
			bad, src, want, out, err := fails(c)
			o := kit.Outcome{OK: true, Nontrivial: true, Class: "raw: end-tag look-alike, block ends at its end tag", Ops: len(src)}
			if c.tail == 0 {
				o.Class = "raw: plain content"
			}
			if !bad {
				return o
			}
			// the smallest discriminating tuple: a component stays in the key
			// only if the neutral value of that component makes the case pass
			comp := []string{}
			if b, _, _, _, _ := fails(rawCase{c.form, c.content, 0, c.post}); !b {
				comp = append(comp, fmt.Sprintf("content-ends-with=%q", rawTails[c.tail].text))
			}
			if b, _, _, _, _ := fails(rawCase{0, c.content, c.tail, c.post}); !b && c.form != 0 {
				comp = append(comp, "form="+rawForms[c.form].name)
			}
			if b, _, _, _, _ := fails(rawCase{c.form, 1, c.tail, c.post}); !b && c.content != 1 {
				comp = append(comp, fmt.Sprintf("content=%q", rawContents[c.content]))
			}
			if b, _, _, _, _ := fails(rawCase{c.form, c.content, c.tail, 0}); !b && c.post != 0 {
				comp = append(comp, "after="+rawPosts[c.post])
			}
			o.OK = false
			o.Class += " — differs"
			sym := "output-differs"
			if err != nil {
				sym = "does-not-build-or-run"
			}
			o.Key = "raw|end-tag-look-alike|" + strings.Join(comp, "|") + "|" + sym
			o.Detail = fmt.Sprintf("format %s\ntemplate %q\nexpected %q (raw content and everything after it verbatim; the block ends at its own end tag)\nobserved %q err=%v", ext, src, want, out, err)
			return o
		},
		Describe: func(i uint64) any {
			src, want, _ := cases[i].build()
			return map[string]any{"format": ext, "template": src, "expected": want}
		},
	}
}

// ---- mdnest ----

func stubConverter(src []byte, out io.Writer) error {
	_, err := out.Write([]byte("<md>" + string(src) + "</md>"))
	return err
}

type nestCase struct {
	via     string   // render | macro | sequential
	formats []string // format of every level, level 0 is the main file
	mask    int      // bit 2i: level i has text before its call, bit 2i+1: after
}

func nestText(format string, level int, after bool) string {
	if format == "md" {
		if after {
			return fmt.Sprintf("n%dx", level)
		}
		return fmt.Sprintf("m%dx", level)
	}
	if after {
		return fmt.Sprintf("<u>k%d</u>", level)
	}
	return fmt.Sprintf("<b>h%d</b>", level)
}

// embed is what a value of format inner becomes when shown in a file (or
// macro) of format outer: Markdown in HTML goes through the converter, the
// rest is emitted as it is.
func embed(outer, inner, s string) string {
	if outer == "html" && inner == "md" {
		return "<md>" + s + "</md>"
	}
	return s
}

func (c nestCase) build() (files map[string]string, main, want string, conversions int) {
	n := len(c.formats)
	pre := func(i int) string {
		if c.mask>>(2*i)&1 == 1 {
			return nestText(c.formats[i], i, false)
		}
		return ""
	}
	post := func(i int) string {
		if c.mask>>(2*i+1)&1 == 1 {
			return nestText(c.formats[i], i, true)
		}
		return ""
	}
	files = map[string]string{}
	main = "f0." + c.formats[0]
	if c.via == "sequential" {
		// main renders f1 and f2 one after the other
		files[main] = pre(0) + fmt.Sprintf(`{{ render "f1.%s" }}`, c.formats[1]) + post(0) + fmt.Sprintf(`{{ render "f2.%s" }}`, c.formats[2]) + "e"
		files["f1."+c.formats[1]] = pre(1) + post(1)
		files["f2."+c.formats[2]] = pre(2) + post(2)
		want = pre(0) + embed(c.formats[0], c.formats[1], pre(1)+post(1)) + post(0) + embed(c.formats[0], c.formats[2], pre(2)+post(2)) + "e"
		for _, f := range c.formats[1:] {
			if c.formats[0] == "html" && f == "md" {
				conversions = 1
			}
		}
		return
	}
	// expected, from the leaf upwards
	r := pre(n-1) + post(n-1)
	for i := n - 2; i >= 0; i-- {
		r = pre(i) + embed(c.formats[i], c.formats[i+1], r) + post(i)
	}
	want = r
	// nesting depth of the conversions
	depth := 0
	for i := 1; i < n; i++ {
		if c.formats[i] == "md" && c.formats[i-1] == "html" {
			depth++
		}
	}
	conversions = depth
	typ := map[string]string{"html": "html", "md": "markdown"}
	if c.via == "render" {
		for i := 0; i < n; i++ {
			name := fmt.Sprintf("f%d.%s", i, c.formats[i])
			if i == n-1 {
				files[name] = pre(i) + post(i)
			} else {
				files[name] = pre(i) + fmt.Sprintf(`{{ render "f%d.%s" }}`, i+1, c.formats[i+1]) + post(i)
			}
		}
		return
	}
	// macros, deepest first, all in the main file
	var b strings.Builder
	for i := n - 1; i >= 1; i-- {
		body := pre(i) + post(i)
		if i < n-1 {
			body = pre(i) + fmt.Sprintf("{{ L%d() }}", i+1) + post(i)
		}
		fmt.Fprintf(&b, "{%% macro L%d %s %%}%s{%% end %%}", i, typ[c.formats[i]], body)
	}
	b.WriteString(pre(0) + "{{ L1() }}" + post(0))
	files[main] = b.String()
	return
}

func mdnestSpace(tier string) kit.Space {
	maxDepth := 3
	var cases []nestCase
	fm := []string{"html", "md"}
	for depth := 1; depth <= maxDepth; depth++ {
		n := depth + 1
		for fbits := 0; fbits < 1<<n; fbits++ {
			formats := make([]string, n)
			for i := range formats {
				formats[i] = fm[fbits>>i&1]
			}
			for _, via := range []string{"render", "macro"} {
				for mask := 0; mask < 1<<(2*n); mask++ {
					if tier != "thorough" && depth == 3 {
						// quick: at three levels every level has both of its texts or none
						both := true
						for i := 0; i < n; i++ {
							if b := mask >> (2 * i) & 3; b == 1 || b == 2 {
								both = false
							}
						}
						if !both {
							continue
						}
					}
					cases = append(cases, nestCase{via, formats, mask})
				}
			}
		}
	}
	for fbits := 0; fbits < 8; fbits++ {
		formats := []string{fm[fbits&1], fm[fbits>>1&1], fm[fbits>>2&1]}
		for mask := 0; mask < 64; mask++ {
			cases = append(cases, nestCase{"sequential", formats, mask})
		}
	}
	return kit.Space{
		Name: "mdnest",
		Size: uint64(len(cases)),
		Eval: func(i uint64) kit.Outcome {
			c := cases[i]
			files, main, want, conv := c.build()
			fsys := scriggo.Files{}
			for k, v := range files {
				fsys[k] = []byte(v)
			}
			o := kit.Outcome{OK: true, Nontrivial: conv > 0, Class: fmt.Sprintf("mdnest: %s, %d nested conversion(s)", c.via, conv)}
			key := func(sym string) string {
				return fmt.Sprintf("mdnest|markdown-to-html-conversion|via=%s|nested-conversions=%d|main=%s|%s", c.via, conv, c.formats[0], sym)
			}
			detail := func(out string, err error) string {
				var b strings.Builder
				for _, k := range sortedKeys(files) {
					fmt.Fprintf(&b, "    %-8s %q\n", k, files[k])
				}
				return fmt.Sprintf("formats %v via %s (converter: <md>…</md> around its input)\nfiles:\n%sexpected %q (the converter applied to exactly the output of each Markdown level shown in HTML)\nobserved %q err=%v", c.formats, c.via, b.String(), want, out, err)
			}
			t, err := scriggo.BuildTemplate(fsys, main, &scriggo.BuildOptions{MarkdownConverter: stubConverter})
			if err != nil {
				o.OK, o.Key, o.Detail = false, key("does-not-build"), detail("", err)
				return o
			}
			var out bytes.Buffer
			if err := t.Run(&out, nil, nil); err != nil {
				o.OK, o.Key, o.Detail = false, key("run-error"), detail(out.String(), err)
				return o
			}
			// an empty Markdown output may or may not be passed to the converter
			norm := func(s string) string {
				for strings.Contains(s, "<md></md>") {
					s = strings.ReplaceAll(s, "<md></md>", "")
				}
				return s
			}
			if norm(out.String()) != norm(want) {
				o.OK, o.Key, o.Detail = false, key("output-differs"), detail(out.String(), nil)
				o.Class += " — differs"
			}
			return o
		},
		Describe: func(i uint64) any {
			files, main, want, _ := cases[i].build()
			return map[string]any{"main": main, "files": files, "expected": want}
		},
	}
}

func sortedKeys(m map[string]string) []string {
	var ks []string
	for k := range m {
		ks = append(ks, k)
	}
	for i := range ks {
		for j := i + 1; j < len(ks); j++ {
			if ks[j] < ks[i] {
				ks[i], ks[j] = ks[j], ks[i]
			}
		}
	}
	return ks
}

// ---- big ----

const bigChunks = 66000

func bigSpace(tier string) kit.Space {
	formats := []string{"txt"}
	if tier == "thorough" {
		formats = []string{"txt", "html"}
	}
	return kit.Space{
		Name: "big",
		Size: uint64(len(formats)),
		Eval: func(i uint64) kit.Outcome {
			ext := formats[i]
			var src, want strings.Builder
			for k := 0; k < bigChunks; k++ {
				fmt.Fprintf(&src, "t%d;{{ 0 }}", k)
				fmt.Fprintf(&want, "t%d;0", k)
			}
			o := kit.Outcome{OK: true, Nontrivial: true, Class: "big: 66000 text chunks", Ops: bigChunks}
			t, err := scriggo.BuildTemplate(scriggo.Files{"index." + ext: []byte(src.String())}, "index."+ext, nil)
			if err != nil {
				// a limit reported as an error is not a breach of this property (C20 judges limits)
				o.Class = "big: build error (a limit reported as an error)"
				o.Nontrivial = false
				return o
			}
			var out bytes.Buffer
			if err := t.Run(&out, nil, nil); err != nil {
				o.OK, o.Key = false, "big|run-error|"+kit.NormMsg(err.Error())
				o.Detail = fmt.Sprintf("format %s, template = \"t<i>;{{ 0 }}\" for i = 0..%d: Run: %v", ext, bigChunks-1, err)
				return o
			}
			got, w := out.String(), want.String()
			if got == w {
				return o
			}
			// first difference
			k := 0
			for k < len(got) && k < len(w) && got[k] == w[k] {
				k++
			}
			lo, hi := k-20, k+30
			if lo < 0 {
				lo = 0
			}
			clip := func(s string) string {
				h := hi
				if h > len(s) {
					h = len(s)
				}
				if lo > h {
					return ""
				}
				return s[lo:h]
			}
			sym := "output-differs"
			if p := strings.Index(got, "t65535;0"); p >= 0 && strings.HasPrefix(got[p+len("t65535;0"):], "t0;0t1;0") {
				sym = "text-restarts-from-the-first-chunk-after-65536-chunks"
			}
			o.OK, o.Key = false, "big|more-than-65535-text-chunks-in-one-function|"+sym
			o.Detail = fmt.Sprintf("format %s, template = \"t<i>;{{ 0 }}\" for i = 0..%d\nfirst difference at output byte %d: expected …%q…, observed …%q…", ext, bigChunks-1, k, clip(w), clip(got))
			return o
		},
		Describe: func(i uint64) any {
			return map[string]any{"format": formats[i], "template": fmt.Sprintf("\"t<i>;{{ 0 }}\" repeated for i = 0..%d", bigChunks-1)}
		},
	}
}
