// C15 — template text is emitted verbatim except for the documented removals.
//
// Every well-nested sequence of atoms (text bytes, comments, block statements,
// raw blocks, shows, a render, a shebang line) up to the tier's length is built
// and run in all six formats, and the output is matched against an independent
// relational reference model of the removal rules:
//
//	(a) every non-whitespace literal byte appears, in order, unchanged,
//	    interleaved with the statement outputs;
//	(b) whitespace may disappear only on a line that holds nothing but
//	    statement/comment tokens and whitespace, or in the shebang line;
//	(c) whitespace on a line with text content or a value show is preserved;
//	(d) nothing is added;
//	(e) a line made of exactly one block statement, comment or render plus
//	    spaces/tabs and its newline is removed entirely; raw content is
//	    byte-exact.
//
// The model is a per-byte "must / optional / absent" labelling of the source
// and a small NFA match of the output against it; it shares no code with the
// parser's cutSpaces.
package main

import (
	"bytes"
	"fmt"
	"os"
	"strings"

	"verif/kit"

	"github.com/open2b/scriggo"
	"github.com/open2b/scriggo/native"
)

// ---- atoms ----

type partKind uint8

const (
	pText    partKind = iota // literal template text
	pRaw                     // literal content of a raw block
	pComment                 // {# … #}
	pBlock                   // {% if %}, {% end %}, {% raw %}, {% end raw %}
	pStmts                   // {%% %%}
	pValue                   // {{ "v" }}
	pRender                  // {{ render "p.txt" }}
	pShebang                 // #! x\n at offset 0
	pStmt                    // any other statement: an assignment, {% var %}, {% switch %}, {% case %}, {% default %}
)

type part struct {
	kind partKind
	text string // source text of the part
}

type atom struct {
	name  string
	parts []part
	open  int  // +1 opens a block (if or loop), -1 closes one
	loop  bool // the block's body is executed loopCount times
}

// loopCount is the number of iterations of every loop atom.
const loopCount = 2

const bom = "\xef\xbb\xbf"

const rawInner = "{ {{ x }} {# #}\n}"
const rawMInner = "{%end%}"

var atoms = []atom{
	{name: "a", parts: []part{{pText, "a"}}},
	{name: "SP", parts: []part{{pText, " "}}},
	{name: "TAB", parts: []part{{pText, "\t"}}},
	{name: "LF", parts: []part{{pText, "\n"}}},
	{name: "CRLF", parts: []part{{pText, "\r\n"}}},
	{name: "{", parts: []part{{pText, "{"}}},
	{name: "}", parts: []part{{pText, "}"}}},
	{name: "%", parts: []part{{pText, "%"}}},
	{name: "#", parts: []part{{pText, "#"}}},
	{name: "BOM", parts: []part{{pText, bom}}},
	{name: "<b>", parts: []part{{pText, "<b>"}}},
	{name: "*", parts: []part{{pText, "*"}}},
	{name: "comment", parts: []part{{pComment, "{# c #}"}}},
	{name: "nested-comment", parts: []part{{pComment, "{# {# n #} #}"}}},
	{name: "if", parts: []part{{pBlock, "{% if true %}"}}, open: +1},
	{name: "end", parts: []part{{pBlock, "{% end %}"}}, open: -1},
	{name: "raw", parts: []part{{pBlock, "{% raw %}"}, {pRaw, rawInner}, {pBlock, "{% end raw %}"}}},
	{name: "raw-marker", parts: []part{{pBlock, "{% raw m %}"}, {pRaw, rawMInner}, {pBlock, "{% end raw m %}"}}},
	{name: "stmts", parts: []part{{pStmts, "{%% %%}"}}},
	{name: "show", parts: []part{{pValue, `{{ "v" }}`}}},
	{name: "render", parts: []part{{pRender, `{{ render "p.txt" }}`}}},
	{name: "shebang", parts: []part{{pShebang, "#! x\n"}}},
	// loop atoms (closed by the end atom); used by the loop.* spaces only
	{name: "for3", parts: []part{{pBlock, "{% for i := 0; i < 2; i++ %}"}}, open: +1, loop: true},
	{name: "for-break", open: +1, loop: true}, // parts depend on the position, see partsOf
	{name: "for-range", parts: []part{{pBlock, "{% for _, x := range []int{1,2} %}"}}, open: +1, loop: true},
	{name: "end-for-break", open: -1}, // closes for-break only; parts depend on the opener, see partsOf
	// atoms of the lines.*, switch.* and mdurl.md spaces
	{name: "assign", parts: []part{{pStmt, "{% _ = 1 %}"}}},
	{name: "var", parts: []part{{pStmt, "{% var _ = 1 %}"}}},
	{name: "comment-2-lines", parts: []part{{pComment, "{# x\n y #}"}}},
	{name: "comment-2-lines-crlf", parts: []part{{pComment, "{# x\r\n y #}"}}},
	{name: "show-2-lines", parts: []part{{pValue, "{{ 1 +\n 2 }}"}}},
	{name: "show-2-lines-crlf", parts: []part{{pValue, "{{ 1 +\r\n 2 }}"}}},
	{name: "stmts-3-lines", parts: []part{{pStmts, "{%%\n _ = 1\n%%}"}}},
	{name: "stmts-3-lines-crlf", parts: []part{{pStmts, "{%%\r\n _ = 1\r\n%%}"}}},
	{name: "switch", parts: []part{{pStmt, "{% switch %}"}}, open: +1},
	{name: "case-true", parts: []part{{pStmt, "{% case true %}"}}},
	{name: "default", parts: []part{{pStmt, "{% default %}"}}},
	{name: "url", parts: []part{{pText, "http://a.b"}}},
}

const (
	atomA, atomSP, atomLF, atomCRLF = 0, 1, 3, 4
	atomComment, atomIf, atomEnd    = 12, 14, 15
	atomShow                        = 19
	atomAssign                      = 26
	atomVar                         = 27
	atomMComment                    = 28 // +1 for the CRLF variant
	atomMShow                       = 30
	atomMStmts                      = 32
	atomSwitch, atomCase, atomDeflt = 34, 35, 36
	atomURL                         = 37
)

var altThree = []string{"3"}

const shebangAtom = 21

const (
	nBaseAtoms      = 22 // the alphabet of the seq.* spaces
	forBreakAtom    = 23
	endForBreakAtom = 25
)

// partsOf returns the parts of the atom at position pos of seq. Only the end of
// the condition-less loop depends on the position: the body of "{% for %}" ends
// with the guard "{% nP++ %}{% if nP == 2 %}{% nP = 0 %}{% break %}{% end %}"
// where nP is a global int counter of the opener's position P (declared in
// BuildOptions.Globals, zero at every Run). So the body runs exactly twice,
// no statement stands between the text before "{% for %}" and the text of the
// body, and several such loops, nested or not, do not disturb each other.
func partsOf(seq []int, pos int) []part {
	switch seq[pos] {
	case forBreakAtom:
		return []part{{pBlock, "{% for %}"}}
	case endForBreakAtom:
		// the matching opener
		depth, q := 0, pos-1
		for ; q >= 0; q-- {
			depth += atoms[seq[q]].open
			if depth == 1 {
				break
			}
		}
		n := fmt.Sprintf("n%d", q)
		return []part{
			{pBlock, "{% " + n + "++ %}"},
			{pBlock, "{% if " + n + " == 2 %}"},
			{pBlock, "{% " + n + " = 0 %}"},
			{pBlock, "{% break %}"},
			{pBlock, "{% end %}"},
			{pBlock, "{% end %}"},
		}
	}
	return atoms[seq[pos]].parts
}

var atomNames = func() []string {
	n := make([]string, len(atoms))
	for i, a := range atoms {
		n[i] = a.name
	}
	return n
}()

var formats = []string{"html", "css", "js", "json", "md", "txt"}

// ---- the reference model ----

type mode uint8

const (
	must   mode = iota // the byte must be in the output
	opt                // the byte may or may not be in the output
	absent             // the byte must not be in the output
)

// elem is one element of the labelled source: a literal byte or a token.
type elem struct {
	tok  bool
	kind partKind
	b    byte
	ws   bool
	raw  bool
	line int
	m    mode     // for bytes
	alts []string // for tokens: the accepted outputs
	// multi marks the two halves of a token that spans lines: the first
	// half, on the line where the token starts, carries the output
	multi bool
	// dead: not executed (body of a switch clause that is not taken);
	// limbo: the white space between {% switch %} and its first clause
	dead, limbo bool
	url         bool // byte of a bare URL (Markdown)
}

func isWS(b byte) bool { return b == ' ' || b == '\t' || b == '\n' || b == '\r' }

var (
	altNone   = []string{""}
	altValue  = []string{"v", `"v"`} // the context decides quoting; C06–C08 check that
	altRender = []string{"P", `"P"`}
)

type lineInfo struct {
	from, to   int // element range
	content    bool
	ntok       int
	tokKind    partKind // kind of the last statement token of the line
	newline    bool     // ends with \n
	shebang    bool
	eligibleE  bool
	multi      partKind // kind of a multi-line token touching the line, or 0
	url        bool     // the line holds a bare URL
	hasWS      bool
	spacesOnly bool // everything other than tokens and the final newline is space/tab
}

type model struct {
	elems []elem
	lines []lineInfo
	// stream is the execution order of the elements: indexes into elems,
	// with the elements of a loop body repeated loopCount times. The labels
	// (must / optional / absent) belong to the source bytes, so every
	// iteration is held to the same per-line rules.
	stream []int
	// repeats reports whether some byte or printing token is in a loop body.
	repeats bool
}

// buildModel labels the source. seq are atom indexes.
func buildModel(seq []int) *model {
	m := &model{}
	line := 0
	first := make([]int, len(seq)+1) // first[p] = index of the first element of atom p
	for pos := range seq {
		first[pos] = len(m.elems)
		for _, p := range partsOf(seq, pos) {
			k := p.kind
			if k == pShebang && pos != 0 {
				k = pText // "#!" is special only at the very start of the source
			}
			switch k {
			case pText, pRaw, pShebang:
				for i := 0; i < len(p.text); i++ {
					b := p.text[i]
					m.elems = append(m.elems, elem{kind: k, b: b, ws: isWS(b), raw: k == pRaw, line: line, url: seq[pos] == atomURL})
					if b == '\n' {
						line++
					}
				}
			default:
				e := elem{tok: true, kind: k, line: line, alts: altNone}
				switch k {
				case pValue:
					e.alts = altValue
					if strings.HasPrefix(p.text, "{{ 1 +") {
						e.alts = altThree
					}
				case pRender:
					e.alts = altRender
				}
				if n := strings.Count(p.text, "\n"); n > 0 {
					// a token spanning lines is on its first and on its last line
					e.multi = true
					m.elems = append(m.elems, e)
					line += n
					m.elems = append(m.elems, elem{tok: true, kind: k, line: line, alts: altNone, multi: true})
				} else {
					m.elems = append(m.elems, e)
				}
			}
		}
	}
	first[len(seq)] = len(m.elems)
	m.markSwitch(seq, first)
	// execution order
	var unroll func(lo, hi int, inLoop bool)
	unroll = func(lo, hi int, inLoop bool) {
		for p := lo; p < hi; p++ {
			for k := first[p]; k < first[p+1]; k++ {
				m.stream = append(m.stream, k)
				if e := &m.elems[k]; inLoop && (!e.tok || e.kind == pValue || e.kind == pRender) {
					m.repeats = true
				}
			}
			if !atoms[seq[p]].loop {
				continue
			}
			// find the end atom that closes this loop
			depth, q := 1, p+1
			for ; q < hi; q++ {
				depth += atoms[seq[q]].open
				if depth == 0 {
					break
				}
			}
			for it := 0; it < loopCount; it++ {
				unroll(p+1, q, true)
			}
			p = q - 1 // the end atom itself is emitted by the next step
		}
	}
	unroll(0, len(seq), false)
	// lines
	for i := 0; i < len(m.elems); {
		j := i
		for j < len(m.elems) && m.elems[j].line == m.elems[i].line {
			j++
		}
		li := lineInfo{from: i, to: j, spacesOnly: true}
		for k := i; k < j; k++ {
			e := &m.elems[k]
			if e.multi && li.multi != pValue {
				li.multi = e.kind // a show, if any, names the line
			}
			li.url = li.url || e.url
			switch {
			case e.tok && e.kind == pValue:
				li.content = true
			case e.tok:
				li.ntok++
				li.tokKind = e.kind
			case e.kind == pShebang:
				li.shebang = true
			case !e.ws:
				li.content = true
			default:
				li.hasWS = true
				if e.b == '\n' {
					li.newline = true
				} else if e.b == '\r' {
					// part of the newline: the only CR of the alphabet is in CRLF
				} else if e.b != ' ' && e.b != '\t' {
					li.spacesOnly = false
				}
			}
		}
		li.eligibleE = !li.shebang && !li.content && li.ntok == 1 && li.newline && li.spacesOnly && li.multi == 0 &&
			(li.tokKind == pComment || li.tokKind == pBlock || li.tokKind == pRender)
		m.lines = append(m.lines, li)
		i = j
	}
	return m
}

// markSwitch marks the elements that are not executed: the bodies of the
// clauses of a {% switch %} that are not taken (the first {% case true %} is
// taken, {% default %} only when the switch has no {% case true %}) are dead,
// what stands between {% switch %} and its first clause is in limbo.
func (m *model) markSwitch(seq []int, first []int) {
	var stack []*swFrame
	for pos, ai := range seq {
		switch {
		case ai == atomSwitch:
			f := &swFrame{isSwitch: true, limbo: true}
			depth := 1
			for q := pos + 1; q < len(seq) && depth > 0; q++ {
				if depth == 1 && seq[q] == atomCase {
					f.hasCase = true
				}
				depth += atoms[seq[q]].open
			}
			// the switch token itself has the status of its surroundings
			m.setStatus(first[pos], first[pos+1], stackStatus(stack))
			stack = append(stack, f)
			continue
		case atoms[ai].open > 0:
			m.setStatus(first[pos], first[pos+1], stackStatus(stack))
			stack = append(stack, &swFrame{})
			continue
		case atoms[ai].open < 0:
			if len(stack) > 0 {
				stack = stack[:len(stack)-1]
			}
		case (ai == atomCase || ai == atomDeflt) && len(stack) > 0 && stack[len(stack)-1].isSwitch:
			f := stack[len(stack)-1]
			f.limbo = false
			live := !f.hasCase
			if ai == atomCase {
				live = !f.taken
			}
			if live {
				f.taken = true
			}
			f.dead = !live
			continue // the clause token is silent in any case
		}
		m.setStatus(first[pos], first[pos+1], stackStatus(stack))
	}
}

type swFrame struct {
	isSwitch       bool
	hasCase, taken bool
	dead, limbo    bool // status of what directly follows inside this frame
}

// stackStatus returns 1 (dead) if an enclosing frame is not executed, 2
// (limbo) if the innermost frame is a switch without a clause yet, else 0.
func stackStatus(stack []*swFrame) int {
	st := 0
	for i, f := range stack {
		if f.dead {
			return 1
		}
		if f.limbo && i == len(stack)-1 {
			st = 2
		}
	}
	return st
}

func (m *model) setStatus(from, to, st int) {
	for k := from; k < to; k++ {
		switch st {
		case 1:
			m.elems[k].dead = true
			if m.elems[k].tok {
				m.elems[k].alts = altNone
			}
		case 2:
			m.elems[k].limbo = true
		}
	}
}

// relaxation levels of the labelling
const (
	lvlFull    = iota // (a)–(e)
	lvlNoE            // (e) not demanded: removable whitespace is optional
	lvlOneLine        // as lvlNoE, plus all non-raw whitespace of one line optional
	lvlAnyWS          // all non-raw whitespace optional
	lvlRawWS          // all whitespace optional
)

const (
	whAll = iota
	whLeading
	whTrailing
)

// label sets the modes for a relaxation level. relaxLine/where are used by lvlOneLine.
func (m *model) label(level int, relaxLine int, where int) {
	for li := range m.lines {
		l := &m.lines[li]
		// leading / trailing whitespace runs of the line
		lead := l.from
		for lead < l.to && !m.elems[lead].tok && m.elems[lead].ws {
			lead++
		}
		trail := l.to
		for trail > l.from && !m.elems[trail-1].tok && m.elems[trail-1].ws {
			trail--
		}
		for k := l.from; k < l.to; k++ {
			e := &m.elems[k]
			if e.tok {
				continue
			}
			switch {
			case e.dead:
				e.m = absent // not executed
			case e.limbo:
				e.m = opt // between {% switch %} and its first clause: never executed, nothing documented
			case l.shebang:
				if e.ws {
					e.m = opt
				} else {
					e.m = absent
				}
			case !e.ws:
				e.m = must
			case e.raw:
				e.m = must
				if level >= lvlRawWS {
					e.m = opt
				}
			case l.content || l.ntok == 0:
				// (c), and blank lines: nothing on them is a statement
				e.m = must
				if level >= lvlAnyWS {
					e.m = opt
				} else if level == lvlOneLine && li == relaxLine {
					if where == whAll || where == whLeading && k < lead || where == whTrailing && k >= trail {
						e.m = opt
					}
				}
			case l.eligibleE && level == lvlFull:
				e.m = absent // (e)
			default:
				e.m = opt // (b)
			}
		}
	}
}

// match reports whether out can be produced by the labelled elements.
func (m *model) match(out []byte) bool {
	cur := []int{0}
	var next []int
	add := func(s []int, p int) []int {
		for _, q := range s {
			if q == p {
				return s
			}
		}
		return append(s, p)
	}
	for _, i := range m.stream {
		e := &m.elems[i]
		next = next[:0]
		if e.tok {
			for _, p := range cur {
				for _, a := range e.alts {
					if bytes.HasPrefix(out[p:], []byte(a)) {
						next = add(next, p+len(a))
					}
				}
			}
		} else {
			for _, p := range cur {
				if e.m != absent && p < len(out) && out[p] == e.b {
					next = add(next, p+1)
				}
				if e.m != must {
					next = add(next, p)
				}
			}
		}
		if len(next) == 0 {
			return false
		}
		cur, next = next, cur
	}
	for _, p := range cur {
		if p == len(out) {
			return true
		}
	}
	return false
}

// verdict compares the output with the model and returns "" or a defect key.
func (m *model) verdict(out []byte) string {
	m.label(lvlFull, -1, 0)
	if m.match(out) {
		return ""
	}
	m.label(lvlNoE, -1, 0)
	if m.match(out) {
		// which kind of token stayed on its line
		for li := range m.lines {
			l := &m.lines[li]
			if !l.eligibleE {
				continue
			}
			// does not demanding (e) on this line alone explain the output?
			m.label(lvlFull, -1, 0)
			for k := l.from; k < l.to; k++ {
				if !m.elems[k].tok {
					m.elems[k].m = opt
				}
			}
			if m.match(out) {
				return "e|line-with-one-statement-token-not-removed|token=" + kindName(l.tokKind)
			}
		}
		return "e|several-lines-with-one-statement-token-not-removed"
	}
	// shebang emitted?
	if len(m.lines) > 0 && m.lines[0].shebang {
		for k := m.lines[0].from; k < m.lines[0].to; k++ {
			if !m.elems[k].tok {
				m.elems[k].m = opt
			}
		}
		if m.match(out) {
			return "shebang|leading-shebang-line-emitted"
		}
	}
	for li := range m.lines {
		l := &m.lines[li]
		if !(l.content || l.ntok == 0) || !l.hasWS || l.shebang {
			continue
		}
		for _, where := range []int{whLeading, whTrailing, whAll} {
			m.label(lvlOneLine, li, where)
			if m.match(out) {
				kind := "text-or-value"
				if !l.content {
					kind = "blank"
				}
				// the smallest discriminating tuple: a token spanning lines or a
				// bare URL on the line names the situation by itself
				switch {
				case l.multi != 0:
					return "c|whitespace-removed-on-" + kind + "-line|line-shared-with=" + multiName(l.multi)
				case l.url:
					return "c|whitespace-removed-on-" + kind + "-line|line-has=bare-url"
				}
				return fmt.Sprintf("c|whitespace-removed-on-%s-line|where=%s|line-ends-at-eof=%v",
					kind, [...]string{"some", "leading", "trailing"}[where], !l.newline)
			}
		}
	}
	m.label(lvlAnyWS, -1, 0)
	if m.match(out) {
		for _, l := range m.lines {
			if l.multi != 0 && l.content {
				return "c|whitespace-removed-on-several-content-lines|some-shared-with=" + multiName(l.multi)
			}
		}
		for _, l := range m.lines {
			if l.url && l.content {
				return "c|whitespace-removed-on-several-content-lines|some-have=bare-url"
			}
		}
		return "c|whitespace-removed-on-several-content-lines"
	}
	m.label(lvlRawWS, -1, 0)
	if m.match(out) {
		return "raw|raw-block-content-not-byte-exact"
	}
	return "ad|output-is-not-the-literal-text-interleaved-with-statement-outputs"
}

func kindName(k partKind) string {
	switch k {
	case pComment:
		return "comment"
	case pBlock:
		return "block-statement"
	case pRender:
		return "render"
	case pStmts:
		return "statements-block"
	case pStmt:
		return "statement"
	}
	return "other"
}

// ---- sequence filters ----

func source(seq []int) string {
	var b strings.Builder
	for pos := range seq {
		for _, p := range partsOf(seq, pos) {
			b.WriteString(p.text)
		}
	}
	return b.String()
}

// wellNested reports whether every {% end %} closes an open {% if true %} or
// loop and every block is closed.
func wellNested(seq []int) bool {
	var stack []int
	for _, ai := range seq {
		switch {
		case atoms[ai].open > 0:
			stack = append(stack, ai)
		case atoms[ai].open < 0:
			if len(stack) == 0 {
				return false
			}
			// the guarded end closes the condition-less loop and nothing else;
			// a plain end would leave that loop without its break
			if (stack[len(stack)-1] == forBreakAtom) != (ai == endForBreakAtom) {
				return false
			}
			stack = stack[:len(stack)-1]
		}
	}
	return len(stack) == 0
}

// accidental reports whether two adjacent atoms join into a template
// delimiter that neither contains: "{" followed by "{", "%" or "#" opens a
// show, statement or comment; "#" followed by "}" is a lexer error. The model
// describes atoms, not such accidental tokens, so these sequences are not in
// the checked space.
func accidental(seq []int) bool {
	for i := 0; i+1 < len(seq); i++ {
		ap, bp := partsOf(seq, i), partsOf(seq, i+1)
		last := ap[len(ap)-1]
		if last.kind != pText && !(last.kind == pShebang && i != 0) {
			continue
		}
		c := last.text[len(last.text)-1]
		d := bp[0].text[0]
		if c == '{' && (d == '{' || d == '%' || d == '#') {
			return true
		}
		if c == '#' && d == '}' {
			return true
		}
	}
	return false
}

// ---- evaluation ----

// buildOptions declares the loop counters n0..n7 (int, zero at every Run).
var buildOptions = func() *scriggo.BuildOptions {
	d := native.Declarations{}
	for i := 0; i < 8; i++ {
		d[fmt.Sprintf("n%d", i)] = (*int)(nil)
	}
	return &scriggo.BuildOptions{Globals: d}
}()

func evalSeq(ext string, seq []int, loopSpace bool) kit.Outcome {
	if loopSpace {
		has := false
		for _, a := range seq {
			has = has || atoms[a].loop
		}
		if !has {
			return kit.Outcome{OK: true, Class: "no loop atom (such sequences belong to seq.*)"}
		}
	}
	if !wellNested(seq) {
		return kit.Outcome{OK: true, Class: "ill-nested"}
	}
	if accidental(seq) {
		return kit.Outcome{OK: true, Class: "accidental-delimiter"}
	}
	src := source(seq)
	name := "index." + ext
	fsys := scriggo.Files{name: []byte(src), "p.txt": []byte("P")}
	t, err := scriggo.BuildTemplate(fsys, name, buildOptions)
	if err != nil {
		return kit.Outcome{OK: true, Class: "BuildError", Ops: len(src)}
	}
	var out bytes.Buffer
	if err := t.Run(&out, nil, nil); err != nil {
		return kit.Outcome{OK: false, Class: "RunError", Nontrivial: true, Ops: len(src),
			Key:    "run-error|" + kit.NormMsg(err.Error()),
			Detail: fmt.Sprintf("format %s\ntemplate %q\nRun returned %v (no statement of the alphabet can fail)", ext, src, err)}
	}
	m := buildModel(seq)
	o := kit.Outcome{OK: true, Ops: len(src) + 1}
	syntax, cut, optws := false, false, false
	for _, e := range m.elems {
		if e.tok || e.kind == pShebang {
			syntax = true
		}
	}
	for _, l := range m.lines {
		if l.eligibleE {
			cut = true
		} else if !l.content && l.ntok > 0 && l.hasWS {
			optws = true
		}
	}
	switch {
	case !syntax:
		o.Class = "ran: text only"
	case cut:
		o.Class = "ran: has a line that must be removed (e)"
	case optws:
		o.Class = "ran: has a statement-only line, removal optional (b)"
	default:
		o.Class = "ran: syntax on content lines only"
	}
	o.Nontrivial = syntax
	if loopSpace {
		if m.repeats {
			o.Class = "loop, body with text or output x2; " + o.Class
		} else {
			o.Class = "loop, silent body; " + o.Class
			o.Nontrivial = false
		}
	}
	if key := m.verdict(out.Bytes()); key != "" {
		o.OK = false
		o.Key = key
		o.Detail = fmt.Sprintf("format %s\natoms %v\ntemplate %q (p.txt = \"P\")\noutput   %q\nmodel    %s", ext, names(seq), src, out.String(), m.describe())
	}
	return o
}

func names(seq []int) []string {
	n := make([]string, len(seq))
	for i, a := range seq {
		n[i] = atoms[a].name
	}
	return n
}

// describe renders the full-model labelling: UPPER/quoted = must, (x) = optional, [x] = must be absent, <T> token.
func (m *model) describe() string {
	m.label(lvlFull, -1, 0)
	var b strings.Builder
	for _, e := range m.elems {
		if e.tok {
			fmt.Fprintf(&b, "<%s>", kindOrValue(e.kind))
			continue
		}
		q := fmt.Sprintf("%q", string(e.b))
		q = q[1 : len(q)-1]
		switch e.m {
		case must:
			b.WriteString(q)
		case opt:
			b.WriteString("(" + q + ")?")
		case absent:
			b.WriteString("[" + q + "]-")
		}
	}
	return b.String() + "   — x = must appear, (x)? = may disappear, [x]- = must be removed, <…> = token output; the elements between a loop statement and its end occur 2 times"
}

func multiName(k partKind) string {
	if k == pValue {
		return "multi-line-show"
	}
	return "multi-line-" + kindName(k)
}

func kindOrValue(k partKind) string {
	if k == pValue {
		return "show v"
	}
	return kindName(k)
}

func spaces(tier string) []kit.Space {
	n := 4
	if tier == "thorough" {
		n = 5
	}
	en := kit.NewStringsUpTo(atomNames[:nBaseAtoms], n)
	var sps []kit.Space
	for _, ext := range formats {
		ext := ext
		sps = append(sps, kit.Space{
			Name: "seq." + ext,
			Size: en.Size(),
			Eval: func(i uint64) kit.Outcome {
				seq := en.Atoms(i)
				for p, a := range seq {
					if a == shebangAtom && p != 0 {
						// the shebang atom is in the alphabet for the first position only
						return kit.Outcome{OK: true, Class: "shebang-not-first"}
					}
				}
				return evalSeq(ext, seq, false)
			},
			Describe: func(i uint64) any {
				seq := en.Atoms(i)
				return map[string]any{"format": ext, "atoms": names(seq), "template": source(seq), "p.txt": "P"}
			},
		})
	}
	// loop spaces: a reduced alphabet, one atom longer, every sequence with at
	// least one loop
	var loopNames []string
	for _, a := range loopAlphabet {
		loopNames = append(loopNames, atoms[a].name)
	}
	len2 := kit.NewStringsUpTo(loopNames, n+1)
	loopSeq := func(i uint64) []int {
		seq := len2.Atoms(i)
		for k, a := range seq {
			seq[k] = loopAlphabet[a]
		}
		return seq
	}
	for _, ext := range formats {
		ext := ext
		sps = append(sps, kit.Space{
			Name: "loop." + ext,
			Size: len2.Size(),
			Eval: func(i uint64) kit.Outcome { return evalSeq(ext, loopSeq(i), true) },
			Describe: func(i uint64) any {
				seq := loopSeq(i)
				return map[string]any{"format": ext, "atoms": names(seq), "template": source(seq), "p.txt": "P"}
			},
		})
	}
	sps = append(sps, urlSpace(tier))
	swLen, urlLen, lineToks := 6, 5, 3
	if tier == "thorough" {
		swLen, urlLen, lineToks = 7, 6, 4
	}
	for _, ext := range []string{"html", "txt"} {
		sps = append(sps, linesSpace(ext, lineToks), switchSpace(ext, swLen), rawSpace(ext))
	}
	sps = append(sps, mdurlSpace(urlLen), mdnestSpace(tier), bigSpace(tier))
	sps = append(sps, escapesSpace())
	// developer aid: VERIF_C15_SPACES=lines,raw runs only the spaces whose name
	// starts with one of the prefixes (never set by bin/check)
	if f := os.Getenv("VERIF_C15_SPACES"); f != "" {
		var sel []kit.Space
		for _, sp := range sps {
			for _, pre := range strings.Split(f, ",") {
				if strings.HasPrefix(sp.Name, pre) {
					sel = append(sel, sp)
					break
				}
			}
		}
		return sel
	}
	return sps
}

// loopAlphabet is the alphabet of the loop.* spaces: a, space, LF, comment,
// if, end, raw-marker, show, render, the three loop atoms and the guarded
// end of the condition-less loop.
var loopAlphabet = []int{0, 1, 3, 12, 14, 15, 17, 19, 20, 22, 23, 24, 25}

func main() {
	kit.Main(&kit.Check{
		ID:    "C15",
		Level: "model_checking",
		Rule: "seq.*: every sequence of length <= 4 (quick) / <= 5 (thorough) over 22 atoms (12 text atoms: a, space, tab, LF, CRLF, {, }, %, #, BOM, <b>, *; 10 syntax atoms: two comments, if/end, two raw blocks, {%% %%}, a value show, a render, a shebang line) in each of the 6 formats; " +
			"sequences that are ill-nested, have the shebang atom after position 0, or whose adjacent atoms join into a delimiter ({{ {% {# #}) are classified and not built; a case is non-trivial when it builds, runs and contains at least one syntax atom. Indices enumerate distinct atom sequences (mixed radix). " +
			"loop.*: every sequence of length <= 5 (quick) / <= 6 (thorough) over 13 atoms (a, space, LF, comment, if, end, marked raw block, value show, render, and three loops that run their body exactly twice: a three-clause for, a for range over a two-element slice, and a condition-less {% for %} — with its own closing atom that holds the break guard, so that body text directly follows {% for %}; loops nest freely) in each of the 6 formats; sequences without a loop atom are classified and not built; " +
			"a loop case is non-trivial when it builds, runs and some literal byte or printing token is inside a loop body. " +
			"url.html: every HTML document with one URL attribute, or two joined in 4 ways (adjacent tags, text between, a show between, same tag), each attribute quoted (<a href=\"…\">) or unquoted (<img src=…>) with every content of length <= 2 (quick) / <= 3 (thorough) over 6 pieces (text /x/, ?p=, &; shows of \"v\", \"a?b\", \"a?b&\"); non-trivial when the document and its attributes alone build and run; " +
			"escapes-before-syntax: every combination of 17 contexts (JS string ' \" ` in <script>, ' \" in a .js file, CSS string ' \" in <style> and in a .css file, JS string in an event-handler attribute, quoted attribute ' \", HTML text in .html and .md, JSON string in .json and in an ld+json script, Markdown text) x 18 prefixes directly before the construct (neutral a as control; \\, \\\\, \\', \\\", \\n, backslash-newline, ', \", /, */, //, <!--, ]]>, <, </, &, %) x 3 constructs ({{ 5 }}, {% if true %}M{% end %}, {# c #}) x 2 suffixes (b, nothing), minus the single backslash in a Markdown file; exact oracle: the source with the construct replaced by 5 / M / nothing; non-trivial when the prefix is not the control",
		Assumptions: []string{
			"whitespace = space, tab, CR, LF; a line ends at LF (also inside raw content); CR occurs only as CRLF",
			"a value show may print v or \"v\" and the render P or \"P\" (the context decides the quoting, which C06-C08 check)",
			"a line whose only token is the empty statements block {%% %%} is constrained by (a)-(d) only: (e) is demanded for comments, block statements ({% if %}, {% end %}) and {{ render }} (observed: scriggo keeps the whitespace of a {%% %%} line)",
			"a statement-only last line without a newline may or may not be removed; blank lines (no token) must be preserved",
			"the shebang line's text must not be emitted; its newline may or may not be",
			"raw block contents start and end with a non-space byte, so the raw markers share their line with content",
			"url.html: what a URL attribute's content renders to is taken from the document that has that attribute alone (differential); the absolute clause is only (a): literal bytes appear in order and unchanged, where — observed, not documented in the repository — inside a URL the text right after a value containing ? loses a leading ? and may get &amp; inserted before it, so that one ? is optional and insertions are not judged",
			"escapes-before-syntax: {{ 5 }} prints 5 in every context (digits are never escaped); a template that does not build is a failure only when the same template with the neutral prefix a builds and renders as expected (text in front of a construct cannot make it invalid); in a Markdown file a single backslash directly before {{, {% or {# makes the lexer skip the brace (observed, not documented in the repository): those 12 cases are not in the space",
			"the elements of a loop body occur exactly twice, in order, each occurrence under the same per-line rules (the rules are labels of source bytes); optional whitespace may be kept in one iteration and dropped in the other; a line holding only one loop statement follows (e); the condition-less loop's guard statements (in its closing atom) make every line they are on a line with several statements, constrained by (a)-(d) only",
		},
		Spaces: spaces,
	})
}
