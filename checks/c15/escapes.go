// escapes-before-syntax: template syntax directly after a character that the
// lexer's per-context scanning treats specially (a backslash escape of a
// string literal, a quote, the start or end of a comment, of a tag, of a CDATA
// section, an entity, a percent sign), inside every lexer context.
//
//	prefix    \  \\  \'  \"  \n(two bytes)  \<LF>  '  "  /  */  //  <!--  ]]>  <  </  &  %  and the neutral a
//	construct {{ 5 }}   {% if true %}M{% end %}   {# c #}
//	suffix    b | nothing (the construct is directly followed by the rest of the context)
//	context   JS string ' " ` in <script>, JS string ' " in a .js file, CSS string ' " in
//	          <style>, CSS string ' " in a .css file, JS string in an event-handler
//	          attribute, quoted attribute ' ", HTML text, HTML text in a .md file,
//	          JSON string in a .json file and in <script type="application/ld+json">,
//	          Markdown text
//
// Oracle (exact): the output is the source with the construct replaced by what
// it produces — 5 (the same in every context: digits need no escaping), M,
// nothing. The context's tail starts with a non-space byte on the construct's
// line, so no whitespace is removable.
package main

import (
	"bytes"
	"fmt"
	"strings"

	"verif/kit"

	"github.com/open2b/scriggo"
)

type escPrefix struct{ name, text string }

var escPrefixes = []escPrefix{
	{"neutral-a", "a"},
	{"backslash", `\`},
	{"two-backslashes", `\\`},
	{"backslash-single-quote", `\'`},
	{"backslash-double-quote", `\"`},
	{"backslash-n", `\n`},
	{"backslash-newline", "\\\n"},
	{"single-quote", `'`},
	{"double-quote", `"`},
	{"slash", "/"},
	{"star-slash", "*/"},
	{"two-slashes", "//"},
	{"html-comment-start", "<!--"},
	{"cdata-end", "]]>"},
	{"less-than", "<"},
	{"less-than-slash", "</"},
	{"ampersand", "&"},
	{"percent", "%"},
}

type escConstruct struct{ name, src, out string }

var escConstructs = []escConstruct{
	{"show", "{{ 5 }}", "5"},
	{"if-statement", "{% if true %}M{% end %}", "M"},
	{"comment", "{# c #}", ""},
}

var escSuffixes = []string{"b", ""}

// lexctx is the lexer context of the construct: the key names it, so that one
// defect of a context's scanning has one key whatever the file format.
type escContext struct{ name, lexctx, ext, pre, post string }

var escContexts = []escContext{
	{"js-string-single-quoted-in-script", "js-string", "html", "<script>var s = 'a", "';</script>"},
	{"js-string-double-quoted-in-script", "js-string", "html", "<script>var s = \"a", "\";</script>"},
	{"js-template-literal-in-script", "js-template-literal", "html", "<script>var s = `a", "`;</script>"},
	{"js-string-single-quoted-in-js-file", "js-string", "js", "var s = 'a", "';"},
	{"js-string-double-quoted-in-js-file", "js-string", "js", "var s = \"a", "\";"},
	{"css-string-single-quoted-in-style", "css-string", "html", "<style>p::after { content: 'a", "' }</style>"},
	{"css-string-double-quoted-in-style", "css-string", "html", "<style>p::after { content: \"a", "\" }</style>"},
	{"css-string-single-quoted-in-css-file", "css-string", "css", "p::after { content: 'a", "' }"},
	{"css-string-double-quoted-in-css-file", "css-string", "css", "p::after { content: \"a", "\" }"},
	{"js-string-in-event-handler-attribute", "quoted-attribute", "html", "<button onclick=\"f('a", "')\">x</button>"},
	{"quoted-attribute-double", "quoted-attribute", "html", "<a title=\"a", "\">x</a>"},
	{"quoted-attribute-single", "quoted-attribute", "html", "<a title='a", "'>x</a>"},
	{"html-text", "html-text", "html", "<p>a", "</p>"},
	{"html-text-in-md-file", "markdown-text", "md", "<p>a", "</p>"},
	{"json-string-in-json-file", "json-string", "json", "{\"k\": \"a", "\"}"},
	{"json-string-in-ld-json-script", "json-string", "html", "<script type=\"application/ld+json\">{\"k\": \"a", "\"}</script>"},
	{"markdown-text", "markdown-text", "md", "a", " z"},
}

type escCase struct{ ctx, prefix, construct, suffix int }

func (c escCase) build() (ext, src, want string) {
	x, p, k, s := escContexts[c.ctx], escPrefixes[c.prefix], escConstructs[c.construct], escSuffixes[c.suffix]
	return x.ext, x.pre + p.text + k.src + s + x.post, x.pre + p.text + k.out + s + x.post
}

func escRun(c escCase) (out string, buildErr, runErr error) {
	ext, src, _ := c.build()
	t, err := scriggo.BuildTemplate(scriggo.Files{"index." + ext: []byte(src)}, "index."+ext, nil)
	if err != nil {
		return "", err, nil
	}
	var b bytes.Buffer
	err = t.Run(&b, nil, nil)
	return b.String(), nil, err
}

// escInSpace: in a Markdown file (outside <script> and <style>) the lexer
// reads a backslash as an escape of the next character of any kind, so that
// the syntax after a single backslash is not syntax there. The repository does
// not document this; these cases (2 contexts x 3 constructs x 2 suffixes) are
// not in the space, the other backslash prefixes in Markdown are.
func escInSpace(c escCase) bool {
	return !(escContexts[c.ctx].ext == "md" && escPrefixes[c.prefix].name == "backslash")
}

func escapesSpace() kit.Space {
	var cases []escCase
	for x := range escContexts {
		for p := range escPrefixes {
			for k := range escConstructs {
				for s := range escSuffixes {
					if c := (escCase{x, p, k, s}); escInSpace(c) {
						cases = append(cases, c)
					}
				}
			}
		}
	}
	mk := func(i uint64) escCase { return cases[i] }
	fails := func(c escCase) bool {
		_, _, want := c.build()
		out, be, re := escRun(c)
		return be != nil || re != nil || out != want
	}
	return kit.Space{
		Name: "escapes-before-syntax",
		Size: uint64(len(cases)),
		Eval: func(i uint64) kit.Outcome {
			c := mk(i)
			ext, src, want := c.build()
			x, p, k := escContexts[c.ctx], escPrefixes[c.prefix], escConstructs[c.construct]
			out, be, re := escRun(c)
			o := kit.Outcome{OK: true, Nontrivial: c.prefix != 0, Ops: len(src),
				Class: "esc: " + k.name + " after a lexer-special prefix, " + x.name}
			if c.prefix == 0 {
				o.Class = "esc: " + k.name + " after a neutral prefix (control), " + x.name
			}
			if be == nil && re == nil && out == want {
				return o
			}
			neutralFails := fails(escCase{c.ctx, 0, c.construct, c.suffix})
			if be != nil && neutralFails {
				// the construct is not accepted in this context whatever precedes it
				o.Class, o.Nontrivial = "esc: BuildError, also with the neutral prefix", false
				return o
			}
			// one key per lexer context and prefix: a construct that is not taken
			// as syntax shows up as its source in the output (show) or as a build
			// error of its unmatched half (comment, statement)
			sym := "output-differs"
			switch {
			case re != nil:
				sym = "run-error"
			case be != nil || strings.Contains(out, k.src) || strings.Contains(out, k.src[1:]):
				sym = "syntax-not-taken-as-syntax"
			}
			// the smallest discriminating tuple: the prefix is named only if the
			// neutral prefix passes in this context
			comp := []string{"lexer-context=" + x.lexctx}
			if c.prefix != 0 && !neutralFails {
				comp = append(comp, "directly-after="+p.name)
			}
			o.OK = false
			o.Class += " — differs"
			o.Key = "esc|template-syntax-in-lexer-context|" + strings.Join(comp, "|") + "|" + sym
			o.Detail = fmt.Sprintf("format %s\ntemplate %q\nexpected %q (the text verbatim, the construct replaced by what it produces)\nobserved %q build-err=%v run-err=%v", ext, src, want, out, be, re)
			return o
		},
		Describe: func(i uint64) any {
			c := mk(i)
			ext, src, want := c.build()
			return map[string]any{"format": ext, "template": src, "expected": want,
				"context": escContexts[c.ctx].name, "prefix": escPrefixes[c.prefix].name, "construct": escConstructs[c.construct].name}
		},
	}
}
