// url.html space of C15 — literal text inside URL attributes.
//
// Documents with one or two URL attributes (quoted <a href="…"> and unquoted
// <img src=…>, the second one possibly in the same tag as data-url) whose
// contents are every sequence of text pieces (/x/, ?p=, &) and value shows
// ({{ "v" }}, {{ "a?b" }}, {{ "a?b&" }}).
//
// Oracles:
//
//	differential  the rendering of an attribute's content does not depend on
//	              what precedes the attribute: the document renders as its
//	              literal text outside the contents plus, for each attribute,
//	              the rendering its content has when it is the only attribute
//	              of a document;
//	relational    (a) every literal byte of the document appears in the
//	              output, in order and unchanged, except the one removal
//	              described in Assumptions (the "?" that starts the text right
//	              after a value containing "?").
package main

import (
	"bytes"
	"fmt"
	"strings"

	"verif/kit"

	"github.com/open2b/scriggo"
)

type urlPiece struct {
	src   string
	text  bool
	value string // for shows
}

var urlPieces = []urlPiece{
	{src: "/x/", text: true},
	{src: "?p=", text: true},
	{src: "&", text: true},
	{src: `{{ "v" }}`, value: "v"},
	{src: `{{ "a?b" }}`, value: "a?b"},
	{src: `{{ "a?b&" }}`, value: "a?b&"},
}

var urlPieceNames = func() []string {
	n := make([]string, len(urlPieces))
	for i, p := range urlPieces {
		n[i] = p.src
	}
	return n
}()

// attribute kinds
type urlKind struct {
	name        string
	open, close string // as the only/first attribute of its tag
	sameOpen    string // as a further attribute of an open tag
	endFirst    string // what ends it when another attribute follows in the same tag
}

var urlKinds = []urlKind{
	{"quoted", `<a href="`, `">`, ` data-url="`, `"`},
	{"unquoted", `<img src=`, `>`, ` data-url=`, ``},
}

// joiners between the first and the second attribute
var urlJoiners = []string{"adjacent tags", "text between", "show between", "same tag"}

type urlAttr struct {
	kind   int
	pieces []int
}

func (a urlAttr) content() string {
	var b strings.Builder
	for _, p := range a.pieces {
		b.WriteString(urlPieces[p].src)
	}
	return b.String()
}

// urlDoc is one document: the literal text around the attribute contents.
type urlDoc struct {
	attrs []urlAttr
	lits  []string // len(attrs)+1 literal chunks: lits[0] content0 lits[1] content1 lits[2]
	// litsOut is lits as it must be rendered (the show between prints v)
	litsOut []string
}

func (d urlDoc) source() string {
	var b strings.Builder
	for i, a := range d.attrs {
		b.WriteString(d.lits[i])
		b.WriteString(a.content())
	}
	b.WriteString(d.lits[len(d.attrs)])
	return b.String()
}

func mkURLDoc(first urlAttr, joiner int, second *urlAttr) urlDoc {
	k1 := urlKinds[first.kind]
	if second == nil {
		l := []string{k1.open, k1.close}
		return urlDoc{attrs: []urlAttr{first}, lits: l, litsOut: l}
	}
	k2 := urlKinds[second.kind]
	d := urlDoc{attrs: []urlAttr{first, *second}}
	switch joiner {
	case 0:
		d.lits = []string{k1.open, k1.close + k2.open, k2.close}
		d.litsOut = d.lits
	case 1:
		d.lits = []string{k1.open, k1.close + "t" + k2.open, k2.close}
		d.litsOut = d.lits
	case 2:
		d.lits = []string{k1.open, k1.close + `{{ "v" }}` + k2.open, k2.close}
		d.litsOut = []string{k1.open, k1.close + "v" + k2.open, k2.close}
	case 3:
		d.lits = []string{k1.open, k1.endFirst + k2.sameOpen, k2.close}
		d.litsOut = d.lits
	}
	return d
}

func renderHTML(src string) (string, error) {
	t, err := scriggo.BuildTemplate(scriggo.Files{"index.html": []byte(src)}, "index.html", nil)
	if err != nil {
		return "", err
	}
	var out bytes.Buffer
	if err := t.Run(&out, nil, nil); err != nil {
		return out.String(), fmt.Errorf("run: %w", err)
	}
	return out.String(), nil
}

// literalsKept checks the relational clause: the literal bytes, in order, are
// a subsequence of out. A "?" that starts the text right after a show whose
// value contains "?" is optional.
func literalsKept(d urlDoc, out string) (bool, string) {
	type lb struct {
		b   byte
		opt bool
	}
	var want []lb
	for i := range d.lits {
		for k := 0; k < len(d.litsOut[i]); k++ {
			want = append(want, lb{d.litsOut[i][k], false})
		}
		if i == len(d.attrs) {
			break
		}
		prevQ := false // the previous piece is a show with "?" in its value
		prevText := false
		for _, pi := range d.attrs[i].pieces {
			p := urlPieces[pi]
			if !p.text {
				prevQ = strings.Contains(p.value, "?")
				prevText = false
				continue
			}
			for k := 0; k < len(p.src); k++ {
				want = append(want, lb{p.src[k], k == 0 && prevQ && !prevText && p.src[0] == '?'})
			}
			prevQ, prevText = false, true
		}
	}
	// an optional byte never constrains a subsequence test: skip it
	p := 0
	for j, w := range want {
		if w.opt {
			continue
		}
		k := strings.IndexByte(out[p:], w.b)
		if k < 0 {
			return false, fmt.Sprintf("literal byte %q (number %d of the document's literal bytes) does not appear, in order, in the output", string(w.b), j+1)
		}
		p += k + 1
	}
	return true, ""
}

func urlSpace(tier string) kit.Space {
	maxLen := 2
	if tier == "thorough" {
		maxLen = 3
	}
	en := kit.NewStringsUpTo(urlPieceNames, maxLen)
	nContents := en.Size()
	nAttrs := nContents * uint64(len(urlKinds))
	attrOf := func(i uint64) urlAttr {
		return urlAttr{kind: int(i / nContents), pieces: en.Atoms(i % nContents)}
	}
	// the rendering of every content as the only attribute of a document
	type alone struct {
		out string
		err error
	}
	table := make([]alone, nAttrs)
	for i := uint64(0); i < nAttrs; i++ {
		a := attrOf(i)
		k := urlKinds[a.kind]
		out, err := renderHTML(k.open + a.content() + k.close)
		if err == nil {
			if strings.HasPrefix(out, k.open) && strings.HasSuffix(out, k.close) && len(out) >= len(k.open)+len(k.close) {
				out = out[len(k.open) : len(out)-len(k.close)]
			} else {
				err = fmt.Errorf("the literal text around the content is not emitted as it is: %q", out)
			}
		}
		table[i] = alone{out, err}
	}
	// documents: first attribute x (no second | joiner x second attribute)
	perFirst := 1 + uint64(len(urlJoiners))*nAttrs
	mk := func(i uint64) (urlDoc, uint64, int64) {
		fi, rest := i/perFirst, i%perFirst
		first := attrOf(fi)
		if rest == 0 {
			return mkURLDoc(first, 0, nil), fi, -1
		}
		rest--
		si := rest % nAttrs
		second := attrOf(si)
		return mkURLDoc(first, int(rest/nAttrs), &second), fi, int64(si)
	}
	return kit.Space{
		Name: "url.html",
		Size: nAttrs * perFirst,
		Eval: func(i uint64) kit.Outcome {
			d, fi, si := mk(i)
			src := d.source()
			o := kit.Outcome{OK: true, Ops: len(src) + 1}
			if si >= 0 && (i%perFirst-1)/nAttrs == 3 && d.attrs[0].kind == 1 && len(d.attrs[0].pieces) == 0 {
				// <img src= data-url=…>: in HTML the value of src is then "data-url=…"
				o.Class = "url: not a case (empty unquoted value followed by an attribute)"
				return o
			}
			out, err := renderHTML(src)
			partErr := table[fi].err
			if si >= 0 && partErr == nil {
				partErr = table[si].err
			}
			if err != nil || partErr != nil {
				o.Class = "url: BuildError"
				if (err == nil) != (partErr == nil) {
					o.Class = "url: builds only alone or only combined"
				}
				return o
			}
			o.Nontrivial = true
			if si < 0 {
				o.Class = "url: one attribute"
			} else {
				o.Class = "url: two attributes, " + urlJoiners[(i%perFirst-1)/nAttrs]
			}
			detail := func(extra string) string {
				return fmt.Sprintf("template %q\noutput   %q\n%s", src, out, extra)
			}
			// differential oracle
			want := d.litsOut[0] + table[fi].out + d.litsOut[1]
			if si >= 0 {
				want += table[si].out + d.litsOut[2]
			}
			if out != want {
				o.OK = false
				firstPart := d.litsOut[0] + table[fi].out + d.litsOut[1]
				if si >= 0 && strings.HasPrefix(out, firstPart) {
					o.Key = "url|second-url-attribute-renders-differently-after-another-url-attribute"
					k := urlKinds[d.attrs[1].kind]
					o.Detail = detail(fmt.Sprintf("expected %q\nthe second attribute alone, %q, renders its content as %q", want, k.open+d.attrs[1].content()+k.close, table[si].out))
				} else {
					o.Key = "url|first-url-attribute-renders-differently-when-something-follows"
					o.Detail = detail(fmt.Sprintf("expected %q (each attribute content as it renders alone)", want))
				}
				return o
			}
			// relational oracle
			if ok, why := literalsKept(d, out); !ok {
				o.OK = false
				o.Key = "url|literal-byte-of-a-url-attribute-lost-or-changed"
				o.Detail = detail(why)
			}
			return o
		},
		Describe: func(i uint64) any {
			d, _, _ := mk(i)
			return map[string]any{"format": "html", "template": d.source()}
		},
	}
}
