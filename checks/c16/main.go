// C16 — render, import and extends compose like their documented expansions.
//
// Four differential oracles over generated multi-file template sets; no
// expected value is written down, two real executions must agree:
//
//	O1  {{ render "f" }}  ≡  {% x := render "f" %}{{ x }}   in the same position
//	O2  same format, plain text position: "a{{ render "f" }}b" = "a" + (f run on its own) + "b"
//	O3  a file that extends a layout ≡ the layout with the child's macros declared in it
//	O4  a macro imported from another file ≡ the same macro declared locally
package main

import (
	"bytes"
	"errors"
	"fmt"
	"io"
	"sort"
	"strings"

	"verif/kit"

	"github.com/open2b/scriggo"
	"github.com/open2b/scriggo/native"
)

var formats = []string{"html", "css", "js", "json", "md", "txt"}

// name of the format type usable as macro result type
var formatType = map[string]string{"html": "html", "css": "css", "js": "js", "json": "json", "md": "markdown", "txt": "string"}

// position of an expression in the main file
type position struct {
	name, format string
	pre, post    string
	kind         string // file-text | html-attribute | html-script | html-style
	native       string // the format whose values are emitted as they are in this position
}

var positions = []position{
	{"html-text", "html", "a", "b", "file-text", "html"},
	{"html-attribute", "html", `<a title="`, `">`, "html-attribute", "html"},
	{"html-script", "html", "<script>", "</script>", "html-script", "js"},
	{"html-style", "html", "<style>", "</style>", "html-style", "css"},
	{"md-text", "md", "a ", " b", "file-text", "md"},
	{"css-text", "css", "a", "b", "file-text", "css"},
	{"js-text", "js", "a", "b", "file-text", "js"},
	{"json-text", "json", "a", "b", "file-text", "json"},
	{"txt-text", "txt", "a", "b", "file-text", "txt"},
}

var pathForms = []string{"relative", "absolute", "dotdot"}

// chainNames lays out a chain of n files (0 = main … n-1 = leaf) for a path
// form and returns the file names and, for k < n-1, the path that file k uses
// to refer to file k+1.
func chainNames(form string, stems []string, exts []string) (names, refs []string) {
	n := len(stems)
	names = make([]string, n)
	refs = make([]string, n-1)
	for k := 0; k < n; k++ {
		base := stems[k] + "." + exts[k]
		switch form {
		case "relative":
			names[k] = base
		case "absolute":
			if k == 0 {
				names[k] = base
			} else {
				names[k] = "dir/" + base
			}
		case "dotdot":
			dir := ""
			for d := 1; d <= n-1-k; d++ {
				dir += fmt.Sprintf("s%d/", d)
			}
			names[k] = dir + base
		}
	}
	for k := 0; k+1 < n; k++ {
		base := stems[k+1] + "." + exts[k+1]
		switch form {
		case "relative":
			refs[k] = base
		case "absolute":
			refs[k] = "/dir/" + base
		case "dotdot":
			refs[k] = "../" + base
		}
	}
	return
}

const globalG = `<g>&"'*`

func mdConverter(src []byte, out io.Writer) error {
	_, err := out.Write([]byte("<md>" + string(src) + "</md>"))
	return err
}

type result struct {
	out      string
	buildErr error
	runErr   error
}

func (r result) String() string {
	switch {
	case r.buildErr != nil:
		return "BUILD ERROR: " + r.buildErr.Error()
	case r.runErr != nil:
		return fmt.Sprintf("output %q then RUN ERROR: %v", r.out, r.runErr)
	}
	return fmt.Sprintf("%q", r.out)
}

func run(files map[string]string, main string) result {
	fsys := scriggo.Files{}
	for k, v := range files {
		fsys[k] = []byte(v)
	}
	g := globalG
	opts := &scriggo.BuildOptions{
		Globals:           native.Declarations{"g": &g},
		MarkdownConverter: mdConverter,
	}
	t, err := scriggo.BuildTemplate(fsys, main, opts)
	if err != nil {
		var be *scriggo.BuildError
		if !errors.As(err, &be) {
			err = fmt.Errorf("(%T) %w", err, err)
		}
		return result{buildErr: err}
	}
	var b bytes.Buffer
	err = t.Run(&b, nil, nil)
	return result{out: b.String(), runErr: err}
}

func showFiles(files map[string]string) string {
	names := make([]string, 0, len(files))
	for k := range files {
		names = append(names, k)
	}
	sort.Strings(names)
	var b strings.Builder
	for _, n := range names {
		fmt.Fprintf(&b, "    %-22s %q\n", n, files[n])
	}
	return b.String()
}

func copyFiles(m map[string]string) map[string]string {
	c := make(map[string]string, len(m))
	for k, v := range m {
		c[k] = v
	}
	return c
}

// compare is the shared differential verdict. okOnlyOne tells whether "one
// side builds, the other does not" is tolerated (reported as a class only).
func compare(tag string, a, b result, aName, bName string, tolerateOneBuild bool, key func(a, b result) string, detail func() string, keyPrefix ...string) kit.Outcome {
	o := kit.Outcome{OK: true}
	prefix := tag
	if len(keyPrefix) > 0 {
		prefix = keyPrefix[0]
	}
	switch {
	case a.buildErr != nil && b.buildErr != nil:
		o.Class = tag + ": both forms fail to build"
		return o
	case a.buildErr != nil || b.buildErr != nil:
		which := aName
		if a.buildErr != nil {
			which = bName
		}
		o.Class = tag + ": only the " + which + " form builds"
		if tolerateOneBuild {
			return o
		}
		o.OK = false
		o.Nontrivial = true
		o.Key = prefix + "|builds-only-as-" + which
		o.Detail = detail()
		return o
	}
	o.Nontrivial = true
	if a.runErr != nil || b.runErr != nil {
		as, bs := fmt.Sprint(a.runErr), fmt.Sprint(b.runErr)
		if as == bs && a.out == b.out {
			o.Class = tag + ": both forms fail at run time alike"
			return o
		}
		o.OK = false
		o.Class = tag + ": run errors differ"
		o.Key = prefix + "|run-error-differs|" + kit.NormMsg(as) + "|" + kit.NormMsg(bs)
		o.Detail = detail()
		return o
	}
	if a.out == b.out {
		o.Class = tag + ": outputs equal"
		return o
	}
	o.OK = false
	o.Class = tag + ": outputs differ"
	o.Key = key(a, b)
	o.Detail = detail()
	return o
}

// ---- leaf bodies of rendered files ----

type body struct{ name, src string }

var bodies = []body{
	{"text", `T<>&"'*`},
	{"text+show", `x{{ g }}y`},
	{"macro-call", `{% macro M(s string) %}[{{ s }}]{% end %}m{{ M("<m>&") }}n`},
}

// renderChain builds the partial files p1 … p(n-1); every intermediate file
// renders the next one between two letters; the leaf has the body.
func renderChain(form string, mainExt string, partExts []string, b body) (files map[string]string, names, refs []string) {
	stems := []string{"index"}
	exts := []string{mainExt}
	for k := range partExts {
		stems = append(stems, fmt.Sprintf("p%d", k+1))
		exts = append(exts, partExts[k])
	}
	names, refs = chainNames(form, stems, exts)
	files = map[string]string{}
	for k := 1; k < len(names); k++ {
		if k == len(names)-1 {
			files[names[k]] = b.src
		} else {
			files[names[k]] = fmt.Sprintf(`u{{ render "%s" }}w`, refs[k])
		}
	}
	return
}

// chains enumerates the partial-format chains of length 1..maxLen.
func chains(maxLen int) [][]string {
	var out [][]string
	// shortest first
	for l := 1; l <= maxLen; l++ {
		var lv func(cur []string)
		lv = func(cur []string) {
			if len(cur) == l {
				out = append(out, append([]string{}, cur...))
				return
			}
			for _, f := range formats {
				lv(append(cur, f))
			}
		}
		lv(nil)
	}
	return out
}

// ---- O1 ----

type o1case struct {
	pos   position
	form  string
	chain []string
	body  body
}

func (c o1case) build() (show, assigned map[string]string, main string, standalone string) {
	files, names, refs := renderChain(c.form, c.pos.format, c.chain, c.body)
	show = copyFiles(files)
	assigned = copyFiles(files)
	show[names[0]] = fmt.Sprintf(`%s{{ render "%s" }}%s`, c.pos.pre, refs[0], c.pos.post)
	assigned[names[0]] = fmt.Sprintf(`%s{%% x := render "%s" %%}{{ x }}%s`, c.pos.pre, refs[0], c.pos.post)
	return show, assigned, names[0], names[1]
}

func o1Space(maxChain int) kit.Space {
	var cases []o1case
	for _, ch := range chains(maxChain) {
		for _, pos := range positions {
			for _, form := range pathForms {
				for _, b := range bodies {
					cases = append(cases, o1case{pos, form, ch, b})
				}
			}
		}
	}
	return kit.Space{
		Name: "O1.render-show-vs-assigned",
		Size: uint64(len(cases)),
		Eval: func(i uint64) kit.Outcome {
			c := cases[i]
			show, assigned, main, part := c.build()
			a, b := run(show, main), run(assigned, main)
			rel := "same-as-position"
			if c.chain[0] != c.pos.native {
				rel = "differs-from-position"
			}
			return compare("O1", a, b, "show", "assigned", true,
				func(a, b result) string {
					how := "other"
					if alone := run(show, part); alone.buildErr == nil && alone.runErr == nil && a.out == c.pos.pre+alone.out+c.pos.post {
						how = "show-form-emits-the-partial-output-as-is,assigned-form-converts-it"
					}
					return fmt.Sprintf("O1|render-show-differs-from-assigned-render|position=%s|partial-format=%s|%s", c.pos.kind, rel, how)
				},
				func() string {
					return fmt.Sprintf("position %s, partial formats %v, path form %s, body %s\nshow form   %s:\n%s  => %s\nassigned form %s:\n%s  => %s",
						c.pos.name, c.chain, c.form, c.body.name, main, showFiles(show), a, main, showFiles(assigned), b)
				})
		},
		Describe: func(i uint64) any {
			c := cases[i]
			show, assigned, main, _ := c.build()
			return map[string]any{"main": main, "show_form_files": show, "assigned_form_main": assigned[main]}
		},
	}
}

// ---- O2 ----

type o2case struct {
	format string
	form   string
	chain  []string // chain[0] == format
	body   body
}

func o2Space(maxChain int) kit.Space {
	var cases []o2case
	for _, ch := range chains(maxChain) {
		for _, form := range pathForms {
			for _, b := range bodies {
				cases = append(cases, o2case{ch[0], form, ch, b})
			}
		}
	}
	pre := map[string]string{"md": "a "}
	post := map[string]string{"md": " b"}
	build := func(c o2case) (files map[string]string, main, part, p, q string) {
		files, names, refs := renderChain(c.form, c.format, c.chain, c.body)
		p, q = "a", "b"
		if s, ok := pre[c.format]; ok {
			p, q = s, post[c.format]
		}
		files[names[0]] = fmt.Sprintf(`%s{{ render "%s" }}%s`, p, refs[0], q)
		return files, names[0], names[1], p, q
	}
	return kit.Space{
		Name: "O2.render-vs-standalone",
		Size: uint64(len(cases)),
		Eval: func(i uint64) kit.Outcome {
			c := cases[i]
			files, main, part, p, q := build(c)
			a := run(files, main)
			b := run(files, part)
			if b.buildErr == nil && b.runErr == nil {
				b.out = p + b.out + q
			}
			return compare("O2", a, b, "rendering", "standalone", false,
				func(a, b result) string {
					return "O2|render-in-same-format-text-differs-from-the-file-run-on-its-own"
				},
				func() string {
					return fmt.Sprintf("format %s, partial formats %v, path form %s, body %s\nfiles:\n%srun of %s => %s\n%q + run of %s + %q => %s",
						c.format, c.chain, c.form, c.body.name, showFiles(files), main, a, p, part, q, b)
				})
		},
		Describe: func(i uint64) any {
			c := cases[i]
			files, main, part, _, _ := build(c)
			return map[string]any{"main": main, "partial": part, "files": files}
		},
	}
}

// ---- O3 ----

type macroDecl struct {
	head string // e.g. "Body(s string)"
	body string
}

type o3case struct {
	name         string
	childFmt     string
	layoutFmt    string
	form         string
	layout       string      // layout source
	inlineLayout string      // layout source of the inlined form (default expressions resolved)
	prelude      string      // statements other than macros in the child (var declarations)
	macros       []macroDecl // macros of the child (and of intermediate layouts)
	midMacros    []macroDecl // depth 2: macros of the intermediate layout
	imported     *macroDecl  // macro of a file imported by the child
}

func (c o3case) build() (ext, inl map[string]string, main string) {
	stems := []string{"index"}
	exts := []string{c.childFmt}
	if c.midMacros != nil {
		stems = append(stems, "mid")
		exts = append(exts, c.layoutFmt)
	}
	stems = append(stems, "layout")
	exts = append(exts, c.layoutFmt)
	names, refs := chainNames(c.form, stems, exts)
	ext = map[string]string{}
	var child strings.Builder
	fmt.Fprintf(&child, "{%% extends \"%s\" %%}\n", refs[0])
	var inlined strings.Builder
	resType := ""
	if c.childFmt != c.layoutFmt {
		resType = " " + formatType[c.childFmt]
	}
	if c.imported != nil {
		// the imported file sits next to the child, referred to by an absolute path
		dir := ""
		if k := strings.LastIndex(names[0], "/"); k >= 0 {
			dir = names[0][:k+1]
		}
		impName := dir + "imp." + c.childFmt
		ext[impName] = fmt.Sprintf("{%% macro %s %%}%s{%% end %%}", c.imported.head, c.imported.body)
		fmt.Fprintf(&child, "{%% import \"/%s\" %%}\n", impName)
		fmt.Fprintf(&inlined, "{%% macro %s%s %%}%s{%% end %%}", c.imported.head, resType, c.imported.body)
	}
	if c.prelude != "" {
		child.WriteString(c.prelude + "\n")
		inlined.WriteString(c.prelude)
	}
	for _, m := range c.macros {
		fmt.Fprintf(&child, "{%% macro %s %%}%s{%% end %%}\n", m.head, m.body)
		fmt.Fprintf(&inlined, "{%% macro %s%s %%}%s{%% end %%}", m.head, resType, m.body)
	}
	ext[names[0]] = child.String()
	if c.midMacros != nil {
		var mid strings.Builder
		fmt.Fprintf(&mid, "{%% extends \"%s\" %%}\n", refs[1])
		for _, m := range c.midMacros {
			fmt.Fprintf(&mid, "{%% macro %s %%}%s{%% end %%}\n", m.head, m.body)
			fmt.Fprintf(&inlined, "{%% macro %s %%}%s{%% end %%}", m.head, m.body)
		}
		ext[names[1]] = mid.String()
	}
	ext[names[len(names)-1]] = c.layout
	inlined.WriteString(c.inlineLayout)
	inlName := "inlined." + c.layoutFmt
	inl = map[string]string{inlName: inlined.String()}
	return ext, inl, names[0]
}

func o3Cases() []o3case {
	var cases []o3case
	type combo struct{ child, layout string }
	var combos []combo
	for _, f := range formats {
		combos = append(combos, combo{f, f})
	}
	combos = append(combos, combo{"md", "html"})
	title := macroDecl{"Title", `T<&`}
	for _, cb := range combos {
		// layouts: the Body call in every position available in the layout's format
		type lay struct{ name, pre, post string }
		lays := []lay{{"text", "T:{{ Title() }} B:", " end"}}
		if cb.layout == "html" {
			lays = append(lays,
				lay{"attribute", `<a title="`, `">{{ Title() }}</a>`},
				lay{"script", `<script>`, `</script>{{ Title() }}`},
				lay{"style", `<style>`, `</style>{{ Title() }}`},
			)
		}
		for _, form := range pathForms {
			for _, l := range lays {
				mk := func(name, call string, c o3case) {
					c.name = cb.child + " extends " + cb.layout + "/" + l.name + "/" + name
					c.childFmt, c.layoutFmt, c.form = cb.child, cb.layout, form
					if c.layout == "" {
						c.layout = l.pre + "{{ " + call + " }}" + l.post
						c.inlineLayout = c.layout
					}
					cases = append(cases, c)
				}
				mk("text-macro", "Body()", o3case{macros: []macroDecl{title, {"Body", `B<>&"'*`}}})
				mk("macro-shows-global", "Body()", o3case{macros: []macroDecl{title, {"Body", `B{{ g }}`}}})
				mk("macro-with-parameter", `Body("<x>&")`, o3case{macros: []macroDecl{title, {"Body(s string)", `[{{ s }}]`}}})
				mk("macro-calls-imported-macro", "Body()", o3case{macros: []macroDecl{title, {"Body", `b{{ M("q<") }}d`}}, imported: &macroDecl{"M(s string)", `<{{ s }}>`}})
				mk("macro-uses-child-variable", "Body()", o3case{prelude: `{% var X = "<v>&" %}`, macros: []macroDecl{title, {"Body", `b{{ X }}d`}}})
				mk("macro-calls-sibling-macro", "Body()", o3case{macros: []macroDecl{title, {"Body", `b{{ Title() }}d`}}})
				if cb.child == cb.layout {
					mk("macro-with-explicit-string-result", "Body()", o3case{macros: []macroDecl{title, {"Body string", `B<&`}}})
					mk("two-levels", "Body()", o3case{
						macros:    []macroDecl{{"Inner", `I<&`}},
						midMacros: []macroDecl{title, {"Body", `[{{ Inner() }}]`}},
					})
				}
				// default: declared and not declared
				lyDecl := l.pre + `{{ Body() default "D<&" }}` + l.post
				mk("default-declared", "", o3case{macros: []macroDecl{title, {"Body", `B<&`}},
					layout: lyDecl, inlineLayout: l.pre + `{{ Body() }}` + l.post})
				mk("default-not-declared", "", o3case{macros: []macroDecl{title},
					layout: lyDecl, inlineLayout: l.pre + `{{ "D<&" }}` + l.post})
			}
		}
	}
	return cases
}

func o3Space() kit.Space {
	cases := o3Cases()
	return kit.Space{
		Name: "O3.extends-vs-inlined",
		Size: uint64(len(cases)),
		Eval: func(i uint64) kit.Outcome {
			c := cases[i]
			ext, inl, main := c.build()
			var inlMain string
			for k := range inl {
				inlMain = k
			}
			a, b := run(ext, main), run(inl, inlMain)
			return compare("O3", a, b, "extends", "inlined", false,
				func(a, b result) string {
					v := c.name[strings.LastIndex(c.name, "/")+1:]
					return "O3|extending-file-differs-from-layout-with-macros-inlined|variant=" + v
				},
				func() string {
					return fmt.Sprintf("case %s, path form %s\nextends form, run of %s:\n%s  => %s\ninlined form:\n%s  => %s",
						c.name, c.form, main, showFiles(ext), a, showFiles(inl), b)
				})
		},
		Describe: func(i uint64) any {
			c := cases[i]
			ext, inl, main := c.build()
			return map[string]any{"case": c.name, "main": main, "extends_form": ext, "inlined_form": inl}
		},
	}
}

// ---- O4 ----

type o4case struct {
	pos      position
	impFmt   string
	form     string
	impForm  string // plain | named | for
	variant  string
	macro    macroDecl
	call     string
	chainMac *macroDecl // macro in a second file imported by the imported file
}

func (c o4case) build() (imp, loc map[string]string, main string) {
	stems := []string{"index", "m"}
	exts := []string{c.pos.format, c.impFmt}
	if c.chainMac != nil {
		stems = append(stems, "n")
		exts = append(exts, c.impFmt)
	}
	names, refs := chainNames(c.form, stems, exts)
	imp = map[string]string{}
	call := c.call
	var stmt string
	switch c.impForm {
	case "plain":
		stmt = fmt.Sprintf(`{%% import "%s" %%}`, refs[0])
	case "named":
		stmt = fmt.Sprintf(`{%% import pk "%s" %%}`, refs[0])
		call = "pk." + call
	case "for":
		stmt = fmt.Sprintf(`{%% import "%s" for M %%}`, refs[0])
	}
	imp[names[0]] = stmt + c.pos.pre + "{{ " + call + " }}" + c.pos.post
	resType := ""
	if c.impFmt != c.pos.format && !strings.HasSuffix(c.macro.head, " string") {
		resType = " " + formatType[c.impFmt]
	}
	var local strings.Builder
	if c.chainMac != nil {
		imp[names[2]] = fmt.Sprintf("{%% macro %s %%}%s{%% end %%}", c.chainMac.head, c.chainMac.body)
		imp[names[1]] = fmt.Sprintf("{%% import \"%s\" %%}\n{%% macro %s %%}%s{%% end %%}", refs[1], c.macro.head, c.macro.body)
		fmt.Fprintf(&local, "{%% macro %s%s %%}%s{%% end %%}", c.chainMac.head, resType, c.chainMac.body)
	} else {
		imp[names[1]] = fmt.Sprintf("{%% macro %s %%}%s{%% end %%}", c.macro.head, c.macro.body)
	}
	fmt.Fprintf(&local, "{%% macro %s%s %%}%s{%% end %%}", c.macro.head, resType, c.macro.body)
	local.WriteString(c.pos.pre + "{{ " + c.call + " }}" + c.pos.post)
	loc = map[string]string{"local." + c.pos.format: local.String()}
	return imp, loc, names[0]
}

func o4Cases() []o4case {
	var cases []o4case
	for _, pos := range positions {
		for _, impFmt := range formats {
			for _, form := range pathForms {
				for _, impForm := range []string{"plain", "named", "for"} {
					add := func(variant string, m macroDecl, call string, chain *macroDecl) {
						cases = append(cases, o4case{pos, impFmt, form, impForm, variant, m, call, chain})
					}
					add("text-macro", macroDecl{"M", `B<>&"'*`}, "M()", nil)
					add("macro-shows-global", macroDecl{"M", `x{{ g }}y`}, "M()", nil)
					add("macro-with-parameter", macroDecl{"M(s string)", `[{{ s }}]`}, `M("<a>&")`, nil)
					add("macro-with-explicit-result", macroDecl{"M string", `S<&`}, "M()", nil)
					add("macro-calls-macro-of-a-third-file", macroDecl{"M", `b{{ N("q<") }}d`}, "M()", &macroDecl{"N(s string)", `<{{ s }}>`})
				}
			}
		}
	}
	return cases
}

func o4Space() kit.Space {
	cases := o4Cases()
	return kit.Space{
		Name: "O4.imported-macro-vs-local",
		Size: uint64(len(cases)),
		Eval: func(i uint64) kit.Outcome {
			c := cases[i]
			imp, loc, main := c.build()
			var locMain string
			for k := range loc {
				locMain = k
			}
			a, b := run(imp, main), run(loc, locMain)
			return compare("O4", a, b, "imported", "local", false,
				func(a, b result) string {
					return "O4|imported-macro-differs-from-local-macro|variant=" + c.variant + "|position=" + c.pos.kind
				},
				func() string {
					return fmt.Sprintf("position %s, imported format %s, path form %s, import form %s, variant %s\nimport form, run of %s:\n%s  => %s\nlocal form:\n%s  => %s",
						c.pos.name, c.impFmt, c.form, c.impForm, c.variant, main, showFiles(imp), a, showFiles(loc), b)
				})
		},
		Describe: func(i uint64) any {
			c := cases[i]
			imp, loc, main := c.build()
			return map[string]any{"main": main, "import_form": imp, "local_form": loc}
		},
	}
}

func spaces(tier string) []kit.Space {
	maxChain := 2 // main + 2 partial files = depth 3
	if tier == "thorough" {
		maxChain = 3
	}
	return []kit.Space{o1Space(maxChain), o2Space(maxChain), o3Space(), o4Space(), nSpace(), pSpace(), mSpace(), iSpace(), rSpace(), fSpace()}
}

func main() {
	kit.Main(&kit.Check{
		ID:    "C16",
		Level: "model_checking",
		Rule: "O1: 9 positions (text of each of the 6 formats, HTML attribute, <script>, <style>) x every chain of partial formats of length 1..2 (quick) / 1..3 (thorough) x 3 path forms (relative, absolute, ../ from a subdirectory) x 3 leaf bodies (text with <>&\"'*, text + show of a global, macro call); intermediate files render the next file. " +
			"O2: the same chains whose first partial has the main file's format, in plain text position. O3: 7 child/layout format pairs x 3 path forms x every layout position x 10 child variants (parameters, globals, imported macro, child variable, sibling call, explicit result type, two extends levels, default declared / not declared). " +
			"O4: 9 positions x 6 imported formats x 3 path forms x 3 import forms x 5 macro variants. Every case builds and runs two real templates; non-trivial = both forms build (and their outputs or run errors are compared)",
		Assumptions: []string{
			"N, P and M (see more.go) are all-HTML file sets in plain text position, where O1 holds on the unchanged tree; N: main form (show, assigned) x output before the calls (none, some) x nested render of a third file (none, show, :=, var =) x value of an imported macro (none, before, after the nested render) x 7 bodies of the third file (among them macro values and renders of a fourth file in assigned forms) x 3 path forms, judged by O1 against the all-show forms and by O2 at two levels; P: a/x.html and b/x.html each referring to \"t.html\" (render show / assigned, import + show / var) reached from one index in both orders, forms and spellings, and one file rendered twice under every pair of spellings from the root and from a subdirectory, judged by O2; M: a body macro capturing nothing / a local variable / a global, calling an imported macro that reads (or updates) its own package-level variable and/or rendering a file with its own variable, called twice in show or assigned form, judged against the hand-expanded single file (O4 + O2)",
			"I, R and F (see more2.go): I: 6 scenarios x 15 positions of the first import site x 3 x 3 import forms, judged by two accepted models of lib.html's six variables (int, string, float, slice, macro-call value, dependent expression; Inc() adds 1 to V) — initialised once and shared, or freshly initialised for every execution of a rendered file — and, when nothing ran before it, by O2 against b.html run alone; R: own macro / variable named as an imported one x 4 import forms (plain, for Other, for <clashing name>, Other, alias) x 4 hosts (main, extended layout, imported, extending file) x 2 positions x one reference under test per case (direct, sibling macro, function literal, in if, in for, macro argument, from the extended layout, references to the imported name before / after the block, qualified) against the twin with the imported names renamed (a plain import clashing in one scope may be rejected as a redeclaration, as Go's dot imports are); F: 11 name shapes x 5 constructs x 4 path forms against the twin with a boring name",
			"a Markdown converter that wraps its input in <md>…</md> is installed, so that Markdown values can be shown in HTML",
			"O1: when only one of the two forms builds the case is counted in its own class and is not a failure (the statement compares outputs)",
			"O3/O4: the hand-written equivalent declares the macros with an explicit result type when the declaring file's format differs from the file they are inlined into",
		},
		Spaces: spaces,
	})
}
