// Further file-set generators of C16, judged with the same differential
// oracles as main.go:
//
//	N  nested value-producing calls: a partial rendered in the assigned form
//	   that itself, after having produced output, assigns the render of a third
//	   file and/or the value of an imported macro (O1 against the all-show
//	   forms, O2 against standalone runs);
//	P  one relative path resolving to different files from different
//	   directories, and one file rendered under several spellings (O2);
//	M  a macro declared in the template body that captures a local variable or
//	   uses a global and calls an imported macro / renders a file that reads its
//	   own package-level variable (O4 + O2: equal to the hand-expanded file).
package main

import (
	"fmt"
	"strings"

	"verif/kit"
)

func dirOf(name string) string {
	if k := strings.LastIndex(name, "/"); k >= 0 {
		return name[:k+1]
	}
	return ""
}

// renderStmt returns the source that shows the rendering of path in the given
// form; v is the variable name used by the assigned forms.
func renderStmt(form, path, v string) string {
	switch form {
	case "show":
		return fmt.Sprintf(`{{ render "%s" }}`, path)
	case "assigned":
		return fmt.Sprintf(`{%% %s := render "%s" %%}{{ %s }}`, v, path, v)
	case "var-assigned":
		return fmt.Sprintf(`{%% var %s = render "%s" %%}{{ %s }}`, v, path, v)
	}
	panic("form " + form)
}

func macroValueStmt(form, call, v string) string {
	switch form {
	case "show":
		return "{{ " + call + " }}"
	case "var-assigned":
		return fmt.Sprintf(`{%% var %s = %s %%}{{ %s }}`, v, call, v)
	}
	panic("form " + form)
}

// ---- N: nested value-producing calls ----

type nCase struct {
	mainForm string // show | assigned
	lead     string // output of f before its calls
	nested   string // none | show | assigned | var-assigned
	macro    string // none | before | after   (value of an imported macro, var-assigned)
	gBody    int
	form     string // path form
}

var nGBodies = []string{
	`G<>&"'*`,
	`x{{ g }}y`,
	`{% macro M(s string) %}[{{ s }}]{% end %}m{{ M("<m>&") }}n`,
	`{% macro GM %}gm<{% end %}G1{% var k = GM() %}{{ k }}G2`,
	`{% import "/m.html" %}G1{% var k = IM("g<") %}{{ k }}G2`,
	`G1{{ render "/h.html" }}G2`,
	`G1{% z := render "/h.html" %}{{ z }}G2{% var k2 = render "/h.html" %}{{ k2 }}`,
}

// files builds the file set; allShow replaces every assigned form by the show form.
func (c nCase) files(allShow bool) (files map[string]string, main, f, g string) {
	names, refs := chainNames(c.form, []string{"index", "f", "g"}, []string{"html", "html", "html"})
	pick := func(form string) string {
		if allShow {
			return "show"
		}
		return form
	}
	files = map[string]string{
		"m.html": `{% macro IM(s string) %}[{{ s }}]{% end %}`,
		"h.html": `H<&`,
	}
	gb := nGBodies[c.gBody]
	if allShow {
		gb = strings.NewReplacer(
			`{% var k = GM() %}{{ k }}`, `{{ GM() }}`,
			`{% var k = IM("g<") %}{{ k }}`, `{{ IM("g<") }}`,
			`{% z := render "/h.html" %}{{ z }}`, `{{ render "/h.html" }}`,
			`{% var k2 = render "/h.html" %}{{ k2 }}`, `{{ render "/h.html" }}`,
		).Replace(gb)
	}
	files[names[2]] = gb
	var fb strings.Builder
	if c.macro != "none" {
		fb.WriteString(`{% import "/m.html" %}`)
	}
	fb.WriteString(c.lead)
	mv := macroValueStmt(pick("var-assigned"), `IM("<q>")`, "l")
	if c.macro == "before" {
		fb.WriteString(mv)
	}
	if c.nested != "none" {
		fb.WriteString(renderStmt(pick(c.nested), refs[1], "y"))
	}
	if c.macro == "after" {
		fb.WriteString(mv)
	}
	fb.WriteString("F2")
	files[names[1]] = fb.String()
	files[names[0]] = "a" + renderStmt(pick(c.mainForm), refs[0], "x") + "b"
	return files, names[0], names[1], names[2]
}

func nSpace() kit.Space {
	var cases []nCase
	for _, mf := range []string{"show", "assigned"} {
		for _, lead := range []string{"", "F1"} {
			for _, nested := range []string{"none", "show", "assigned", "var-assigned"} {
				for _, macro := range []string{"none", "before", "after"} {
					for gb := range nGBodies {
						if nested == "none" && gb > 0 {
							continue // g is not used
						}
						for _, form := range pathForms {
							cases = append(cases, nCase{mf, lead, nested, macro, gb, form})
						}
					}
				}
			}
		}
	}
	return kit.Space{
		Name: "N.nested-value-calls",
		Size: uint64(len(cases)),
		Eval: func(i uint64) kit.Outcome {
			c := cases[i]
			files, main, f, g := c.files(false)
			base, _, _, _ := c.files(true)
			a := run(files, main)
			desc := func(what string, b result) func() string {
				return func() string {
					return fmt.Sprintf("main form %s, f: lead %q nested %s macro value %s, g body %d, path form %s\nfiles:\n%srun of %s => %s\n%s => %s",
						c.mainForm, c.lead, c.nested, c.macro, c.gBody, c.form, showFiles(files), main, a, what, b)
				}
			}
			// O1: every assigned form replaced by the show form
			b := run(base, main)
			o := compare("N/O1", a, b, "generated", "all-show", false,
				func(a, b result) string { return "N/O1|nested-value-calls-differ-from-the-show-forms" },
				desc("the same files with every assigned render / macro value replaced by its show form:\n"+showFiles(base), b))
			if !o.OK || a.buildErr != nil {
				return o
			}
			// O2: main = a + (f on its own) + b
			sf := run(files, f)
			if sf.buildErr == nil && sf.runErr == nil {
				sf.out = "a" + sf.out + "b"
			}
			o = compare("N/O2", a, sf, "rendering", "standalone", false,
				func(a, b result) string { return "N/O2|nested-value-calls-differ-from-the-file-run-on-its-own" },
				desc(`"a" + run of `+f+` + "b"`, sf))
			if !o.OK {
				return o
			}
			// O2 one level down: f = lead + (g on its own) + "F2"
			if c.nested != "none" && c.macro == "none" {
				sg := run(files, g)
				sf2 := run(files, f)
				if sg.buildErr == nil && sg.runErr == nil {
					sg.out = c.lead + sg.out + "F2"
				}
				o = compare("N/O2", sf2, sg, "rendering", "standalone", false,
					func(a, b result) string { return "N/O2|nested-value-calls-differ-from-the-file-run-on-its-own" },
					func() string {
						return fmt.Sprintf("files:\n%srun of %s => %s\n%q + run of %s + \"F2\" => %s", showFiles(files), f, sf2, c.lead, g, sg)
					})
			}
			return o
		},
		Describe: func(i uint64) any {
			files, main, _, _ := cases[i].files(false)
			return map[string]any{"main": main, "files": files}
		},
	}
}

// ---- P: one path, different files; one file, several spellings ----

type pCase struct {
	kind string // "dirs" | "spellings"
	// dirs
	form1, form2 string
	aFirst       bool
	inner        string // render-show | render-assigned | import-show | import-var
	abs          bool   // index refers to /a/x.html instead of a/x.html
	// spellings
	sub      bool
	sp1, sp2 string
	body     int
}

func (c pCase) build() (files map[string]string, main string, parts []string, pre, mid, post string) {
	files = map[string]string{}
	if c.kind == "dirs" {
		for _, d := range []string{"a", "b"} {
			mark := "T" + strings.ToUpper(d) + "<&"
			var inner string
			switch c.inner {
			case "render-show":
				inner = renderStmt("show", "t.html", "y")
				files[d+"/t.html"] = mark
			case "render-assigned":
				inner = renderStmt("assigned", "t.html", "y")
				files[d+"/t.html"] = mark
			case "import-show":
				inner = `{{ T() }}`
				files[d+"/t.html"] = "{% macro T %}" + mark + "{% end %}"
			case "import-var":
				inner = `{% var l = T() %}{{ l }}`
				files[d+"/t.html"] = "{% macro T %}" + mark + "{% end %}"
			}
			imp := ""
			if strings.HasPrefix(c.inner, "import") {
				imp = `{% import "t.html" %}`
			}
			files[d+"/x.html"] = imp + "x" + d + "(" + inner + ")"
		}
		order := []string{"a", "b"}
		if !c.aFirst {
			order = []string{"b", "a"}
		}
		prefix := ""
		if c.abs {
			prefix = "/"
		}
		files["index.html"] = "i[" + renderStmt(c.form1, prefix+order[0]+"/x.html", "v1") + "|" + renderStmt(c.form2, prefix+order[1]+"/x.html", "v2") + "]"
		return files, "index.html", []string{order[0] + "/x.html", order[1] + "/x.html"}, "i[", "|", "]"
	}
	main, p := "index.html", "p.html"
	if c.sub {
		main, p = "sub/index.html", "sub/p.html"
	}
	files[p] = bodies[c.body].src
	files[main] = "s[" + renderStmt(c.form1, c.sp1, "v1") + "|" + renderStmt(c.form2, c.sp2, "v2") + "]"
	return files, main, []string{p, p}, "s[", "|", "]"
}

func pSpace() kit.Space {
	var cases []pCase
	forms := []string{"show", "assigned"}
	for _, f1 := range forms {
		for _, f2 := range forms {
			for _, aFirst := range []bool{true, false} {
				for _, inner := range []string{"render-show", "render-assigned", "import-show", "import-var"} {
					for _, abs := range []bool{false, true} {
						cases = append(cases, pCase{kind: "dirs", form1: f1, form2: f2, aFirst: aFirst, inner: inner, abs: abs})
					}
				}
			}
		}
	}
	for _, sub := range []bool{false, true} {
		sp := []string{"p.html", "/p.html"}
		if sub {
			sp = []string{"p.html", "/sub/p.html", "../sub/p.html"}
		}
		for _, s1 := range sp {
			for _, s2 := range sp {
				for _, f1 := range forms {
					for _, f2 := range forms {
						for b := range bodies {
							cases = append(cases, pCase{kind: "spellings", sub: sub, sp1: s1, sp2: s2, form1: f1, form2: f2, body: b})
						}
					}
				}
			}
		}
	}
	return kit.Space{
		Name: "P.same-path-different-files-and-same-file-different-paths",
		Size: uint64(len(cases)),
		Eval: func(i uint64) kit.Outcome {
			c := cases[i]
			files, main, parts, pre, mid, post := c.build()
			a := run(files, main)
			s1, s2 := run(files, parts[0]), run(files, parts[1])
			exp := s1
			if s1.buildErr == nil && s1.runErr == nil {
				exp = s2
				if s2.buildErr == nil && s2.runErr == nil {
					exp = result{out: pre + s1.out + mid + s2.out + post}
				}
			}
			tag := "P/O2." + c.kind
			o := compare(tag, a, exp, "rendering", "standalone", false,
				func(a, b result) string {
					return "P/O2|" + map[string]string{"dirs": "one-relative-path-used-from-two-directories", "spellings": "one-file-rendered-under-two-spellings"}[c.kind] + "|differs-from-the-resolved-files-run-on-their-own"
				},
				func() string {
					return fmt.Sprintf("files:\n%srun of %s => %s\n%q + run of %s + %q + run of %s + %q => %s", showFiles(files), main, a, pre, parts[0], mid, parts[1], post, exp)
				})
			if !o.OK || c.kind != "dirs" || s1.buildErr != nil || s2.buildErr != nil {
				return o
			}
			// each x.html must have used the t.html of its own directory
			for k, s := range []result{s1, s2} {
				d := strings.ToUpper(parts[k][:1])
				other := map[string]string{"A": "B", "B": "A"}[d]
				if !strings.Contains(s.out, "T"+d) || strings.Contains(s.out, "T"+other) {
					o.OK = false
					o.Key = "P/O2|relative-path-resolved-against-another-directory"
					o.Detail = fmt.Sprintf("files:\n%srun of %s => %s: it must use %st.html", showFiles(files), parts[k], s, dirOf(parts[k]))
					return o
				}
			}
			return o
		},
		Describe: func(i uint64) any {
			files, main, _, _, _, _ := cases[i].build()
			return map[string]any{"main": main, "files": files}
		},
	}
}

// ---- M: body macro capturing a variable calls into other files ----

type mCase struct {
	capture  string // none | local | global
	callee   string // macro-show | macro-var | render-show | render-assigned | both
	impWrite bool   // the imported macro also updates its package-level variable
	callForm string // show | assigned
	form     string // path form
}

func (c mCase) build() (realFiles, expanded map[string]string, main string, rendered string) {
	names, refs := chainNames(c.form, []string{"index", "other"}, []string{"html", "html"})
	dir := dirOf(names[1])
	impName, rName := dir+"imp.html", dir+"r.html"
	impRef := strings.Replace(refs[0], "other.html", "imp.html", 1)
	rRef := strings.Replace(refs[0], "other.html", "r.html", 1)
	pvDecl := `{% var pv = "PV<" %}`
	imBody := `[{{ pv }}]`
	if c.impWrite {
		imBody = `{% pv = pv + "!" %}[{{ pv }}]`
	}
	imDecl := `{% macro IM %}` + imBody + `{% end %}`
	useImp := c.callee == "macro-show" || c.callee == "macro-var" || c.callee == "both"
	useRender := strings.HasPrefix(c.callee, "render") || c.callee == "both"
	capDecl, capUse := "", ""
	switch c.capture {
	case "local":
		capDecl, capUse = `{% var w = "world<" %}`, `{{ w }}`
	case "global":
		capUse = `{{ g }}`
	}
	callee := func(renderText string) string {
		r := func(form string) string {
			if renderText != "" {
				return renderText
			}
			return renderStmt(form, rRef, "y")
		}
		switch c.callee {
		case "macro-show":
			return `{{ IM() }}`
		case "macro-var":
			return `{% var l = IM() %}{{ l }}`
		case "render-show":
			return r("show")
		case "render-assigned":
			return r("assigned")
		}
		return `{% var l = IM() %}{{ l }}` + r("assigned") + `{{ IM() }}`
	}
	calls := `s{{ Local() }}m{{ Local() }}e`
	if c.callForm == "assigned" {
		calls = `s{% v1 := Local() %}{{ v1 }}m{% var v2 = Local() %}{{ v2 }}e`
	}
	local := func(calleeSrc string) string {
		return capDecl + `{% macro Local %}hello ` + capUse + ` ` + calleeSrc + `{% end %}` + calls
	}
	realFiles = map[string]string{}
	imp := ""
	if useImp {
		imp = fmt.Sprintf(`{%% import "%s" %%}`, impRef)
		realFiles[impName] = pvDecl + imDecl
	}
	if useRender {
		realFiles[rName] = `{% var rv = "RV<" %}({{ rv }})`
		rendered = rName
	}
	realFiles[names[0]] = imp + local(callee(""))
	main = names[0]
	return realFiles, nil, main, rendered
}

// expandedMain builds the hand-expanded single file: the imported
// declarations are made local and the render is replaced by the text the
// rendered file produces on its own.
func (c mCase) expandedMain(renderText string) map[string]string {
	pvDecl := `{% var pv = "PV<" %}`
	imBody := `[{{ pv }}]`
	if c.impWrite {
		imBody = `{% pv = pv + "!" %}[{{ pv }}]`
	}
	useImp := c.callee == "macro-show" || c.callee == "macro-var" || c.callee == "both"
	capDecl, capUse := "", ""
	switch c.capture {
	case "local":
		capDecl, capUse = `{% var w = "world<" %}`, `{{ w }}`
	case "global":
		capUse = `{{ g }}`
	}
	var callee string
	switch c.callee {
	case "macro-show":
		callee = `{{ IM() }}`
	case "macro-var":
		callee = `{% var l = IM() %}{{ l }}`
	case "render-show", "render-assigned":
		callee = renderText
	default:
		callee = `{% var l = IM() %}{{ l }}` + renderText + `{{ IM() }}`
	}
	calls := `s{{ Local() }}m{{ Local() }}e`
	if c.callForm == "assigned" {
		calls = `s{% v1 := Local() %}{{ v1 }}m{% var v2 = Local() %}{{ v2 }}e`
	}
	decl := ""
	if useImp {
		decl = pvDecl + `{% macro IM %}` + imBody + `{% end %}`
	}
	return map[string]string{"expanded.html": decl + capDecl + `{% macro Local %}hello ` + capUse + ` ` + callee + `{% end %}` + calls}
}

func mSpace() kit.Space {
	var cases []mCase
	for _, capt := range []string{"none", "local", "global"} {
		for _, callee := range []string{"macro-show", "macro-var", "render-show", "render-assigned", "both"} {
			for _, w := range []bool{false, true} {
				if w && strings.HasPrefix(callee, "render") {
					continue // no imported macro
				}
				for _, cf := range []string{"show", "assigned"} {
					for _, form := range pathForms {
						cases = append(cases, mCase{capt, callee, w, cf, form})
					}
				}
			}
		}
	}
	return kit.Space{
		Name: "M.capturing-macro-calls-other-files",
		Size: uint64(len(cases)),
		Eval: func(i uint64) kit.Outcome {
			c := cases[i]
			files, _, main, rendered := c.build()
			a := run(files, main)
			renderText := ""
			if rendered != "" {
				sr := run(files, rendered)
				if sr.buildErr != nil || sr.runErr != nil {
					return compare("M/O4+O2", a, sr, "generated", "rendered-file-alone", false,
						func(a, b result) string { return "M/O4+O2|rendered-file-does-not-run-alone" },
						func() string { return fmt.Sprintf("files:\n%srun of %s => %s", showFiles(files), rendered, sr) })
				}
				renderText = sr.out
			}
			exp := c.expandedMain(renderText)
			b := run(exp, "expanded.html")
			return compare("M/O4+O2", a, b, "generated", "expanded", false,
				func(a, b result) string {
					return "M/O4+O2|body-macro-calling-other-files-differs-from-its-expansion|callee=" + c.callee
				},
				func() string {
					return fmt.Sprintf("capture %s, callee %s, imported macro writes its variable %v, call form %s, path form %s\nfiles:\n%srun of %s => %s\nexpanded (imported declarations made local, render replaced by the rendered file's own output):\n%s  => %s",
						c.capture, c.callee, c.impWrite, c.callForm, c.form, showFiles(files), main, a, showFiles(exp), b)
				})
		},
		Describe: func(i uint64) any {
			files, _, main, _ := cases[i].build()
			return map[string]any{"main": main, "files": files}
		},
	}
}
