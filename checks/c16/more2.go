// Further situation classes of C16:
//
//	I  package-level variables of an imported file: whatever the position of
//	   the statically first import site (dead code, zero-iteration loop, after
//	   break/continue, not-taken branch, macro never called, loop executed
//	   twice, extended layout vs extending file, diamond imports, selective and
//	   aliased imports), the variables are initialised exactly once before
//	   their first use and keep the changes made through the file's macros;
//	   a rendered file behaves as the same file run alone (O2);
//	R  name resolution across files: a file declaring its own macro/variable
//	   with the name of one exported by an imported file resolves every
//	   reference as its twin in which the imported names are renamed (no
//	   clash) and every reference names its lexically visible declaration;
//	F  file names of unusual but valid shape in render / render default /
//	   extends / import paths behave as the twin tree with a boring name.
package main

import (
	"fmt"
	"strings"

	"verif/kit"
)

// ---- I: initialisation of imported package-level variables ----

const iLib = `{% var V = 5 %}{% var S = "s" %}{% var F = 1.5 %}{% var G = []int{7} %}{% macro One %}1{% end %}{% var C = One() %}{% var H = G[0] + V %}{% macro Inc %}{% V++ %}{% end %}`

var iImportForms = []string{"plain", "alias", "for"}

// iImport returns the import statement and a function qualifying a name.
func iImport(form, path string) (stmt string, q func(string) string) {
	switch form {
	case "plain":
		return fmt.Sprintf(`{%% import "%s" %%}`, path), func(n string) string { return n }
	case "alias":
		return fmt.Sprintf(`{%% import lib "%s" %%}`, path), func(n string) string { return "lib." + n }
	}
	return fmt.Sprintf(`{%% import "%s" for V, S, F, G, C, H, Inc %%}`, path), func(n string) string { return n }
}

func iBodyA(q func(string) string) string {
	return "a{{ " + q("V") + " }}{{ " + q("S") + " }}{{ " + q("Inc") + "() }};"
}

func iBodyB(q func(string) string) string {
	return "b{{ " + q("V") + " }}{{ " + q("S") + " }}{{ " + q("F") + " }}{{ len(" + q("G") + ") }}{{ " + q("C") + " }}{{ " + q("H") + " }};"
}

// iState is the model: one instance of the library's variables.
//
// Two consistent models are accepted: "once" — the variables are initialised
// once and every file works on that instance — and "fresh" — every execution
// of a rendered file works on freshly initialised variables, while the code
// that is not rendered (index, layout, extending file, imported macro files)
// shares one instance.
type iState struct {
	v     int
	fresh bool
}

// a and b are executions of the rendered files a.html and b.html; am is the
// body of a.html run as an imported macro (never fresh).
func (s *iState) a() string {
	if s.fresh {
		return "a5s;"
	}
	return s.am()
}
func (s *iState) am() string { o := fmt.Sprintf("a%ds;", s.v); s.v++; return o }
func (s *iState) b() string {
	if s.fresh {
		return "b5s1.51112;"
	}
	return fmt.Sprintf("b%ds1.51112;", s.v)
}
func (s *iState) bm() string { return fmt.Sprintf("b%ds1.51112;", s.v) }

// iContext wraps the first site. x(false) is the statement showing its
// output, x(true) the statement that evaluates it and drops the value.
type iContext struct {
	name     string
	category string // not-executed | executed-once | executed-twice | value-discarded
	count    int
	discard  bool
	wrap     func(x string) string
}

var iContexts = []iContext{
	{"plain", "executed-once", 1, false, func(x string) string { return x }},
	{"if-false", "not-executed", 0, false, func(x string) string { return "{% if false %}" + x + "{% end %}" }},
	{"if-true", "executed-once", 1, false, func(x string) string { return "{% if true %}" + x + "{% end %}" }},
	{"else-not-taken", "not-executed", 0, false, func(x string) string { return "{% if true %}{% else %}" + x + "{% end %}" }},
	{"else-taken", "executed-once", 1, false, func(x string) string { return "{% if false %}{% else %}" + x + "{% end %}" }},
	{"for-zero-iterations", "not-executed", 0, false, func(x string) string { return "{% for i := 0; i < 0; i++ %}" + x + "{% end %}" }},
	{"for-two-iterations", "executed-twice", 2, false, func(x string) string { return "{% for i := 0; i < 2; i++ %}" + x + "{% end %}" }},
	{"after-break", "not-executed", 0, false, func(x string) string { return "{% for i := 0; i < 2; i++ %}{% break %}" + x + "{% end %}" }},
	{"after-continue", "not-executed", 0, false, func(x string) string { return "{% for i := 0; i < 2; i++ %}{% continue %}" + x + "{% end %}" }},
	{"after-conditional-continue", "executed-once", 1, false, func(x string) string {
		return "{% for i := 0; i < 2; i++ %}{% if i == 0 %}{% continue %}{% end %}" + x + "{% end %}"
	}},
	{"switch-case-not-taken", "not-executed", 0, false, func(x string) string { return "{% switch %}{% case false %}" + x + "{% default %}{% end %}" }},
	{"switch-case-taken", "executed-once", 1, false, func(x string) string { return "{% switch %}{% case true %}" + x + "{% end %}" }},
	{"macro-never-called", "not-executed", 0, false, func(x string) string { return "{% macro N %}" + x + "{% end %}" }},
	{"macro-called-twice", "executed-twice", 2, false, func(x string) string { return "{% macro N %}" + x + "{% end %}{{ N() }}{{ N() }}" }},
	{"value-assigned-not-shown", "value-discarded", 1, true, func(x string) string { return x }},
}

var iScenarios = []string{
	"index-renders-a-then-b",
	"index-imports-lib-and-renders-a-then-b",
	"index-calls-macros-of-two-files-importing-lib",
	"layout-renders-a-then-child-macro-then-b",
	"layout-calls-child-macro-then-renders-b",
	"layout-calls-child-macro-rendering-a-then-renders-b",
}

type iCase struct {
	scen         int
	ctx          int
	formA, formB string
}

func (c iCase) build() (files map[string]string, once, fresh string) {
	files, once = c.buildModel(false)
	_, fresh = c.buildModel(true)
	return
}

func (c iCase) buildModel(freshModel bool) (files map[string]string, expected string) {
	ctx := iContexts[c.ctx]
	impA, qA := iImport(c.formA, "lib.html")
	impB, qB := iImport(c.formB, "lib.html")
	files = map[string]string{"lib.html": iLib}
	st := &iState{v: 5, fresh: freshModel}
	var exp strings.Builder
	firstSite := func(kind string) {
		for k := 0; k < ctx.count; k++ {
			var o string
			switch kind {
			case "a":
				o = st.a()
			case "am":
				o = st.am()
			case "m":
				o = fmt.Sprintf("m%ds;", st.v)
				st.v++
			}
			if !ctx.discard {
				exp.WriteString(o)
			}
		}
	}
	site := func(call, discardStmt string) string {
		if ctx.discard {
			return ctx.wrap(discardStmt)
		}
		return ctx.wrap(call)
	}
	renderA := site(`{{ render "a.html" }}`, `{% x := render "a.html" %}`)
	renderB := `{{ render "b.html" }}`
	switch c.scen {
	case 0:
		files["a.html"] = impA + iBodyA(qA)
		files["b.html"] = impB + iBodyB(qB)
		files["index.html"] = renderA + renderB
		firstSite("a")
		exp.WriteString(st.b())
	case 1:
		files["a.html"] = impA + iBodyA(qA)
		files["b.html"] = impB + iBodyB(qB)
		files["index.html"] = impA + "i{{ " + qA("V") + " }};" + renderA + renderB
		exp.WriteString(fmt.Sprintf("i%d;", st.v))
		firstSite("a")
		exp.WriteString(st.b())
	case 2:
		files["am.html"] = impA + "{% macro A %}" + iBodyA(qA) + "{% end %}"
		files["bm.html"] = impB + "{% macro B %}" + iBodyB(qB) + "{% end %}"
		files["index.html"] = `{% import "am.html" %}{% import "bm.html" %}` + site(`{{ A() }}`, `{% x := A() %}`) + `{{ B() }}`
		firstSite("am")
		exp.WriteString(st.bm())
	case 3:
		files["a.html"] = impA + iBodyA(qA)
		files["b.html"] = impB + iBodyB(qB)
		files["index.html"] = `{% extends "layout.html" %}` + impB + "{% macro Body %}m{{ " + qB("V") + " }};{% end %}"
		files["layout.html"] = renderA + `{{ Body() }}` + renderB
		firstSite("a")
		exp.WriteString(fmt.Sprintf("m%d;", st.v))
		exp.WriteString(st.b())
	case 4:
		files["b.html"] = impB + iBodyB(qB)
		files["index.html"] = `{% extends "layout.html" %}` + impA + "{% macro Body %}m{{ " + qA("V") + " }}{{ " + qA("S") + " }}{{ " + qA("Inc") + "() }};{% end %}"
		files["layout.html"] = site(`{{ Body() }}`, `{% x := Body() %}`) + renderB
		firstSite("m")
		exp.WriteString(st.b())
	case 5:
		files["a.html"] = impA + iBodyA(qA)
		files["b.html"] = impB + iBodyB(qB)
		files["index.html"] = `{% extends "layout.html" %}{% macro Body %}{{ render "a.html" }}{% end %}`
		files["layout.html"] = site(`{{ Body() }}`, `{% x := Body() %}`) + renderB
		firstSite("a")
		exp.WriteString(st.b())
	}
	return files, exp.String()
}

func iSpace() kit.Space {
	var cases []iCase
	for s := range iScenarios {
		for x := range iContexts {
			for _, fa := range iImportForms {
				for _, fb := range iImportForms {
					cases = append(cases, iCase{s, x, fa, fb})
				}
			}
		}
	}
	return kit.Space{
		Name: "I.imported-variables-initialisation",
		Size: uint64(len(cases)),
		Eval: func(i uint64) kit.Outcome {
			c := cases[i]
			ctx := iContexts[c.ctx]
			files, expected, fresh := c.build()
			a := run(files, "index.html")
			o := kit.Outcome{OK: true, Nontrivial: true, Class: "I: first site " + ctx.category}
			detail := func(extra string) string {
				return fmt.Sprintf("scenario %s, first site %s (%s), import forms %s/%s\nfiles:\n%srun of index.html => %s\nexpected %q (variables of lib.html initialised once before their first use; Inc() adds 1 to V)\n      or %q (every rendered file runs on freshly initialised variables)%s",
					iScenarios[c.scen], ctx.name, ctx.category, c.formA, c.formB, showFiles(files), a, expected, fresh, extra)
			}
			key := func(symptom string) string {
				return fmt.Sprintf("I|imported-file-variables|scenario=%s|first-import-site=%s|%s", iScenarios[c.scen], ctx.category, symptom)
			}
			if a.buildErr != nil {
				o.OK, o.Key, o.Detail = false, key("does-not-build"), detail("")
				return o
			}
			if a.runErr != nil {
				o.OK, o.Key, o.Detail = false, key("run-error"), detail("")
				return o
			}
			if a.out != expected && a.out != fresh {
				symptom := "output-matches-neither-initialise-once-nor-fresh-per-render"
				if strings.Contains(a.out, "b0") || strings.Contains(a.out, "m0") || strings.Contains(a.out, "i0") || strings.Contains(a.out, "a0") {
					symptom = "variables-have-their-zero-values"
				}
				o.OK, o.Key, o.Detail = false, key(symptom), detail("")
				o.Class += " — differs"
				return o
			}
			// O2 for the rendered file b.html when nothing ran before it
			if c.scen == 0 && ctx.count == 0 {
				sb := run(files, "b.html")
				if sb.buildErr != nil || sb.runErr != nil || sb.out != a.out {
					o.OK, o.Key = false, key("differs-from-b.html-run-alone")
					o.Detail = detail(fmt.Sprintf("\nrun of b.html alone => %s", sb))
				}
			}
			return o
		},
		Describe: func(i uint64) any {
			files, expected, fresh := cases[i].build()
			return map[string]any{"main": "index.html", "files": files, "expected_initialised_once": expected, "expected_fresh_per_render": fresh}
		},
	}
}

// ---- R: name resolution across files ----

type rCase struct {
	kind string // macro | var
	form string // plain | for-other | for-clash-and-other | alias
	host string // main | layout | imported | extending
	pos  string // top | inner-block
	site string
}

var rSites = []string{
	"direct", "sibling-macro", "func-literal", "in-if-block", "in-for-block", "macro-argument",
	"from-extended-layout", "outer-reference-before-block", "outer-reference-after-block", "qualified-reference",
}

// applicable reports whether the combination exists.
func (c rCase) applicable() bool {
	impVisible := c.form != "for-other"
	switch c.site {
	case "from-extended-layout":
		return c.host == "extending" && c.pos == "top" && c.kind == "macro"
	case "outer-reference-before-block", "outer-reference-after-block":
		return c.pos == "inner-block" && impVisible
	case "qualified-reference":
		return c.form == "alias" && c.pos == "top"
	}
	return true
}

// build returns the real file set and its twin. Every case has exactly one
// reference under test: its output is "in:<value>" for a reference that must
// name the file's own declaration and "out:<value>" for one that must name the
// imported declaration.
func (c rCase) build() (real, twin map[string]string, clashExpected bool) {
	gen := func(twinForm bool) map[string]string {
		libM, libW := "M", "W"
		if twinForm {
			libM, libW = "LM", "LW"
		}
		lib := "{% macro " + libM + " %}libM{% end %}{% var " + libW + ` = "libW" %}{% macro Other %}libO{% end %}`
		clashName := libM
		if c.kind == "var" {
			clashName = libW
		}
		var imp, qual string
		switch c.form {
		case "plain":
			imp = `{% import "lib2.html" %}`
		case "for-other":
			imp = `{% import "lib2.html" for Other %}`
		case "for-clash-and-other":
			imp = `{% import "lib2.html" for ` + clashName + `, Other %}`
		case "alias":
			imp, qual = `{% import l "lib2.html" %}`, "l."
		}
		var own, e, eImp, typ string
		if c.kind == "macro" {
			own, e, eImp, typ = `{% macro M %}ownM{% end %}`, `M()`, qual+libM+"()", "html"
		} else {
			own, e, eImp, typ = `{% var W = "ownW" %}`, `W`, qual+libW, "string"
		}
		// the reference under test: declarations it needs and its use
		var decl, use string
		switch c.site {
		case "direct":
			use = "in:{{ " + e + " }}"
		case "sibling-macro":
			decl, use = "{% macro Cap %}{{ "+e+" }}{% end %}", "in:{{ Cap() }}"
		case "func-literal":
			decl, use = "{% var f = func() "+typ+" { return "+e+" } %}", "in:{{ f() }}"
		case "in-if-block":
			use = "{% if true %}in:{{ " + e + " }}{% end %}"
		case "in-for-block":
			use = "{% for i := 0; i < 1; i++ %}in:{{ " + e + " }}{% end %}"
		case "macro-argument":
			decl, use = "{% macro Wrap(s "+typ+") %}<{{ s }}>{% end %}", "in:{{ Wrap("+e+") }}"
		case "from-extended-layout":
			// the use is in the layout
		case "outer-reference-before-block", "outer-reference-after-block":
			// the own declaration is only used inside its block, silently
			use = "{% _ = " + e + " %}"
		case "qualified-reference":
			use = "{% _ = " + e + " %}out:{{ " + eImp + " }}"
		}
		files := map[string]string{"lib2.html": lib}
		other := "|o:{{ " + qual + "Other() }}"
		var scope string // for hosts whose declarations are in the body
		var pkgDecls, runBody string
		if c.pos == "top" {
			scope = own + decl + use
			pkgDecls, runBody = own+decl, use
		} else {
			before, after := "", ""
			if c.site == "outer-reference-before-block" {
				before = "out:{{ " + eImp + " }}"
			}
			if c.site == "outer-reference-after-block" {
				after = "out:{{ " + eImp + " }}"
			}
			scope = before + "{% if true %}" + own + decl + use + "{% end %}" + after
			pkgDecls, runBody = "", scope
		}
		switch c.host {
		case "main":
			files["index.html"] = imp + scope + other
		case "layout":
			files["layout.html"] = imp + "L[" + scope + other + "]"
			files["index.html"] = `{% extends "layout.html" %}`
		case "imported":
			files["x.html"] = imp + pkgDecls + "{% macro Run %}" + runBody + other + "{% end %}"
			files["index.html"] = `{% import "x.html" %}{{ Run() }}`
		case "extending":
			if c.site == "from-extended-layout" {
				files["index.html"] = `{% extends "layout.html" %}` + imp + own + "{% macro Run %}" + other + "{% end %}"
				files["layout.html"] = `L[in:{{ M() }}{{ Run() }}]`
			} else {
				files["index.html"] = `{% extends "layout.html" %}` + imp + pkgDecls + "{% macro Run %}" + runBody + other + "{% end %}"
				files["layout.html"] = `L[{{ Run() }}]`
			}
		}
		return files
	}
	// a plain import, or a "for" list with the name, puts the imported name
	// in the file's own scope: declaring the same name there is a
	// redeclaration, as with Go's dot imports
	clash := (c.form == "plain" || c.form == "for-clash-and-other") && c.pos == "top"
	return gen(false), gen(true), clash
}

func rSpace() kit.Space {
	var cases []rCase
	for _, kind := range []string{"macro", "var"} {
		for _, form := range []string{"plain", "for-other", "for-clash-and-other", "alias"} {
			for _, host := range []string{"main", "layout", "imported", "extending"} {
				for _, pos := range []string{"top", "inner-block"} {
					for _, site := range rSites {
						if c := (rCase{kind, form, host, pos, site}); c.applicable() {
							cases = append(cases, c)
						}
					}
				}
			}
		}
	}
	return kit.Space{
		Name: "R.name-resolution-across-files",
		Size: uint64(len(cases)),
		Eval: func(i uint64) kit.Outcome {
			c := cases[i]
			real, twin, clash := c.build()
			a, b := run(real, "index.html"), run(twin, "index.html")
			key := fmt.Sprintf("R|name-resolution|own-%s-named-as-imported|import=%s|declared-in=%s-file|position=%s|call-site=%s", c.kind, c.form, c.host, c.pos, c.site)
			if clash && a.buildErr != nil && b.buildErr == nil && strings.Contains(a.buildErr.Error(), "redeclared") {
				return kit.Outcome{OK: true, Nontrivial: true, Class: "R: clash in one scope rejected as a redeclaration"}
			}
			if b.buildErr != nil || b.runErr != nil {
				// the twin has no clash at all: it must work, or the generator is wrong
				return kit.Outcome{OK: false, Nontrivial: true, Class: "R: twin does not run", Key: key + "|renamed-twin-does-not-run",
					Detail: fmt.Sprintf("twin:\n%s  => %s", showFiles(twin), b)}
			}
			return compare("R", a, b, "clashing", "renamed-twin", false,
				func(a, b result) string { return key },
				func() string {
					return fmt.Sprintf("own %s, import %s, declared in the %s file at %s, reference under test: %s\nfiles:\n%s  => %s\ntwin (imported names renamed, every reference names its lexically visible declaration):\n%s  => %s",
						c.kind, c.form, c.host, c.pos, c.site, showFiles(real), a, showFiles(twin), b)
				}, key)
		},
		Describe: func(i uint64) any {
			real, twin, _ := cases[i].build()
			return map[string]any{"main": "index.html", "files": real, "twin": twin}
		},
	}
}

// ---- F: file names of unusual shape ----

type fShape struct {
	shape, name, boring string
}

var fShapes = []fShape{
	{"two-dots-inside-an-element", "notes..html", "plain.html"},
	{"directory-with-two-dots-inside", "v1..2/x.html", "vdir/x.html"},
	{"directory-ending-with-two-dots", "a../x.html", "vdir/x.html"},
	{"element-starting-with-one-dot", ".hidden.html", "plain.html"},
	{"first-element-starting-with-two-dots", "..hidden.html", "plain.html"},
	{"first-element-starting-with-two-dots", "..a/p.html", "vdir/p.html"},
	{"space", "my file.html", "plain.html"},
	{"percent", "100%.html", "plain.html"},
	{"percent-escape-like", "a%20b.html", "plain.html"},
	{"unicode", "ünï/日本 é.html", "vdir/x.html"},
	{"very-long-element", strings.Repeat("a", 200) + ".html", "plain.html"},
}

var fConstructs = []string{"render", "render-default-file-exists", "render-default-file-missing", "extends", "import"}

// path forms: where index is and how it names the file
var fForms = []string{"relative-from-root", "rooted", "dotdot-to-root", "relative-from-subdirectory"}

type fCase struct {
	shape     int
	construct string
	form      string
}

func (c fCase) build(name string) (files map[string]string, main string) {
	main = "index.html"
	file, ref := name, name
	switch c.form {
	case "rooted":
		ref = "/" + name
	case "dotdot-to-root":
		main, ref = "sub/index.html", "../"+name
	case "relative-from-subdirectory":
		main, file = "sub/index.html", "sub/"+name
	}
	files = map[string]string{}
	switch c.construct {
	case "render":
		files[file] = `R<&`
		files[main] = fmt.Sprintf(`a{{ render "%s" }}b`, ref)
	case "render-default-file-exists":
		files[file] = `R<&`
		files[main] = fmt.Sprintf(`a{{ render "%s" default "x" }}b`, ref)
	case "render-default-file-missing":
		files[main] = fmt.Sprintf(`a{{ render "%s" default "x" }}b`, ref)
	case "extends":
		files[file] = `L[{{ Body() }}]`
		files[main] = fmt.Sprintf(`{%% extends "%s" %%}{%% macro Body %%}B{%% end %%}`, ref)
	case "import":
		files[file] = `{% macro M %}m<{% end %}`
		files[main] = fmt.Sprintf(`{%% import "%s" %%}a{{ M() }}b`, ref)
	}
	return files, main
}

func fSpace() kit.Space {
	var cases []fCase
	for s := range fShapes {
		for _, k := range fConstructs {
			for _, f := range fForms {
				cases = append(cases, fCase{s, k, f})
			}
		}
	}
	return kit.Space{
		Name: "F.file-names-of-unusual-shape",
		Size: uint64(len(cases)),
		Eval: func(i uint64) kit.Outcome {
			c := cases[i]
			sh := fShapes[c.shape]
			real, main := c.build(sh.name)
			twin, _ := c.build(sh.boring)
			a, b := run(real, main), run(twin, main)
			key := fmt.Sprintf("F|file-name|shape=%s|construct=%s|path=%s", sh.shape, c.construct, c.form)
			return compare("F", a, b, "unusual-name", "boring-name-twin", false,
				func(a, b result) string { return key },
				func() string {
					return fmt.Sprintf("name shape %s, construct %s, path form %s\nfiles:\n%srun of %s => %s\ntwin with a boring name:\n%srun of %s => %s",
						sh.shape, c.construct, c.form, showFiles(real), main, a, showFiles(twin), main, b)
				}, key)
		},
		Describe: func(i uint64) any {
			c := cases[i]
			real, main := c.build(fShapes[c.shape].name)
			return map[string]any{"main": main, "files": real}
		},
	}
}
