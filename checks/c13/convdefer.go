package main

// Space "converting-macro-with-defer": a Markdown macro (or partial, or
// using-body) used from HTML has its output converted when it RETURNS, and the
// conversion writes to the real writer. The way a macro returns depends on
// whether it has deferred calls (plain return instruction vs. the VM's
// deferred-call machinery), on whether a panic was recovered on the way, and
// on whether the macro itself runs as a deferred call. The family is the full
// product  macro shape × calling form  and, for each member, every failing
// write k = 1..W × the 3 failure shapes. The oracle is the one of
// write-faults: Run returns the writer's error E, the calls up to the failing
// one are those of the clean run, the writer is not called again (except, for
// the forms where the converting macro is a deferred call of the body, by that
// deferred call, which Go semantics run while the body is panicking).

import (
	"fmt"
	"os"
	"sort"

	"verif/kit"
)

type cdShape struct{ name, body string }

var cdShapes = []cdShape{
	{"no defer", "# t{{ s }}"},
	{"defer no-op", "{%% defer func() {}() %%}# t{{ s }}"},
	{"two defers", "{%% defer func() {}() %%}{%% defer func() { _ = 1 }() %%}# t{{ s }}"},
	{"defer recovers a panic of the body", "{%% defer func() { recover() }() %%}# t{{ s }}{%% panic(\"own\") %%}x"},
	{"defer recovers nothing", "{%% defer func() { recover() }() %%}# t{{ s }}"},
}

type cdForm struct {
	name  string
	entry string
	scope string
	files func(body string) map[string]string
}

func idx(src string) func(string) map[string]string {
	return func(body string) map[string]string {
		return map[string]string{"index.html": fmt.Sprintf(src, body)}
	}
}

var cdForms = []cdForm{
	{name: "direct call, twice", files: idx("{%% macro M markdown %%}%s{%% end %%}A{{ M() }}B{{ M() }}Z")},
	{name: "indirect call", files: idx("{%% macro M markdown %%}%s{%% end %%}{%% var g = M %%}A{{ g() }}Z")},
	{name: "imported from a Markdown file", files: func(b string) map[string]string {
		return map[string]string{"index.html": "{% import \"m.md\" %}A{{ M() }}Z", "m.md": "{% macro M %}" + b + "{% end %}"}
	}},
	{name: "rendered Markdown partial", files: func(b string) map[string]string {
		return map[string]string{"index.html": "A{{ render \"p.md\" }}Z", "p.md": b}
	}},
	{name: "show-using body", files: idx("A{%% show itea; using markdown %%}%s{%% end using %%}Z")},
	{name: "Markdown file extending an HTML layout", entry: "index.md", files: func(b string) map[string]string {
		return map[string]string{"index.md": "{% extends \"layout.html\" %}{% macro Body %}" + b + "{% end %}", "layout.html": "<html>{{ Body() }}</html>"}
	}},
	{name: "nested in a Markdown macro without defer", files: idx("{%% macro I markdown %%}%s{%% end %%}{%% macro O markdown %%}o1 {{ I() }} o2{%% end %%}A{{ O() }}Z")},
	{name: "nested in a Markdown macro with a defer", files: idx("{%% macro I markdown %%}%s{%% end %%}{%% macro O markdown %%}{%%%% defer func() {}() %%%%}o1 {{ I() }} o2{%% end %%}A{{ O() }}Z")},
	{name: "nested in an HTML macro without defer", files: idx("{%% macro I markdown %%}%s{%% end %%}{%% macro O %%}<o>{{ I() }}</o>{%% end %%}A{{ O() }}Z")},
	{name: "nested in an HTML macro with a defer", files: idx("{%% macro I markdown %%}%s{%% end %%}{%% macro O %%}{%%%% defer func() {}() %%%%}<o>{{ I() }}</o>{%% end %%}A{{ O() }}Z")},
	{name: "called in a loop", files: idx("{%% macro M markdown %%}%s{%% end %%}A{%% for i := 0; i < 2; i++ %%}[{{ M() }}]{%% end %%}Z")},
	{name: "caller body has a defer", files: idx("{%% macro M markdown %%}%s{%% end %%}{%%%% defer func() {}() %%%%}A{{ M() }}Z")},
	{name: "show-using body assigned to a variable", files: idx("{%% var x = itea; using markdown %%}%s{%% end using %%}A{{ x }}Z")},
	{name: "called from a deferred HTML macro of the body", scope: "deferred-tail", files: idx("{%% macro M markdown %%}%s{%% end %%}{%% macro D %%}<d>{{ M() }}</d>{%% end %%}{%%%% defer D() %%%%}A{{ n }}Z")},
	{name: "called from a deferred HTML macro of the body, no other output", scope: "deferred-tail", files: idx("{%% macro M markdown %%}%s{%% end %%}{%% macro D %%}<d>{{ M() }}</d>{%% end %%}{%%%% defer D() %%%%}")},
	{name: "called from a deferred HTML macro that has a defer itself", scope: "deferred-tail", files: idx("{%% macro M markdown %%}%s{%% end %%}{%% macro D %%}{%%%% defer func() {}() %%%%}<d>{{ M() }}</d>{%% end %%}{%%%% defer D() %%%%}A{{ n }}Z")},
}

func convDeferSpace() []kit.Space {
	var bs []*built
	var offs []uint64
	var broken []*built
	tot := uint64(0)
	for _, f := range cdForms {
		for _, s := range cdShapes {
			entry := f.entry
			if entry == "" {
				entry = "index.html"
			}
			tc := tcase{name: "conv-defer: " + f.name + " / " + s.name, entry: entry, files: f.files(s.body), scope: f.scope}
			b := prepare(tc)
			if os.Getenv("C13_DEBUG") != "" {
				fmt.Fprintf(os.Stderr, "%s: W=%d lo=%d err=%q %s\n", tc.name, len(b.clean), b.lo, b.err, join(b.clean))
			}
			if b.err != "" {
				broken = append(broken, b)
				continue
			}
			bs = append(bs, b)
			offs = append(offs, tot)
			tot += uint64(len(b.clean)) * 3
		}
	}
	locate := func(i uint64) (*built, int, int) {
		j := sort.Search(len(offs), func(j int) bool { return offs[j] > i }) - 1
		r := i - offs[j]
		return bs[j], int(r/3) + 1, int(r % 3)
	}
	sps := []kit.Space{{
		Name: "converting-macro-with-defer",
		Size: tot,
		Eval: func(i uint64) kit.Outcome {
			b, k, shape := locate(i)
			o := evalFault(b, k, shape)
			if !o.OK && o.Key != "" {
				o.Key += "|in=converting-macro-with-defer"
			}
			return o
		},
		Describe: func(i uint64) any {
			b, k, shape := locate(i)
			return map[string]any{"template": b.tc.name, "files": b.tc.files, "entry": b.tc.entry, "failing_write": k, "writes_in_clean_run": len(b.clean), "shape": shape}
		},
	}}
	if len(broken) > 0 {
		sps = append(sps, kit.Space{
			Name: "unusable-templates-converting-macro-with-defer",
			Size: uint64(len(broken)),
			Eval: func(i uint64) kit.Outcome {
				b := broken[i]
				return kit.Outcome{Key: "harness|template of the converting-macro-with-defer family is not usable|" + b.tc.name, Detail: b.err + "\n" + fmt.Sprint(b.tc.files), Class: "fail", Nontrivial: true}
			},
			Describe: func(i uint64) any { return broken[i].tc.name },
		})
	}
	return sps
}
