// C13 — A failing output writer aborts rendering with the writer's error.
//
// For every template of a fixed list (text, a show in every context, URL
// states, macros of the same / another format, macros returning strings,
// render, Markdown→HTML conversion, []byte paths, long texts, loops, templates
// that recover) a clean run with a counting writer gives W, the number of
// Write calls. Then for EVERY k in 1..W and each of 3 failure shapes the
// template is run with a writer that fails on its k-th call with error E.
// Oracle (doc comment of Template.Run): Run returns E, the writer is never
// called again, the host does not panic; when the template itself recovers
// the panic, execution continues after the recovering function as in Go.
package main

import (
	"bytes"
	"errors"
	"fmt"
	"io"
	"os"
	"runtime/debug"
	"sort"
	"strings"
	"time"

	"verif/kit"

	"github.com/open2b/scriggo"
	"github.com/open2b/scriggo/native"
)

type tcase struct {
	name  string
	entry string
	files map[string]string
	// recover scope: "" none; "macro": a write failure between the writes
	// "[[" and "]]" (inclusive) is recovered by the macro and rendering
	// continues after the macro call; "top": a failure at or after the write
	// "[[" is recovered by the template body, which then returns.
	scope string
	// optional: a grid combination; it is skipped when the value's type cannot
	// be shown in the context (a legitimate build error).
	optional bool
}

type S struct {
	A int
	B string `json:"b"`
	C []string
}

var longText = strings.Repeat("0123456789abcdef<>&\n", 400) // 8 KB
var longValue = strings.Repeat("0123456789abcdef<>&\n", 20)

// converter is a Markdown converter that writes to out in three calls and
// reports the first write error.
func converter(src []byte, out io.Writer) error {
	if _, err := io.WriteString(out, "<md>"); err != nil {
		return err
	}
	if _, err := out.Write(bytes.ReplaceAll(src, []byte("#"), []byte("H"))); err != nil {
		return err
	}
	_, err := io.WriteString(out, "</md>")
	return err
}

func globals() native.Declarations {
	s := "a<b&\"c'd e?f=g\\h\n"
	q := "x?y=1"
	e := ""
	n := 42
	f := 1.5
	b := []byte{1, 2, 3, 250, 60}
	var nb []byte
	// a byte slice much longer than any encoder chunk or buffer (Base64 streaming)
	lb := make([]byte, 5000)
	for i := range lb {
		lb[i] = byte(i*7 + i/13)
	}
	m := map[string]any{"k": 1, "j": []int{1, 2}, "s": S{A: 1, B: "x", C: []string{"<", ">"}}}
	sl := []any{1, "two", 3.5, nil, []byte("xy")}
	st := S{A: 7, B: "bee", C: []string{"c1", "c2"}}
	h := native.HTML("<b>bold</b>")
	md := native.Markdown("# title *x*")
	long := longValue
	var err error = errors.New("an <error>")
	tm := time.Date(2020, 2, 3, 4, 5, 6, 7000000, time.UTC)
	tms := []time.Time{tm, tm.Add(time.Hour)}
	u8, big, neg, cx := uint8(200), int64(1)<<62, -17.25, complex(1, -2)
	nested := map[string]any{"a": []any{1, map[string]any{"b": []int{1, 2}, "c": S{A: 1, B: "<", C: []string{"x"}}}, nil, "s\"<"}, "t": tm, "z": map[int]string{2: "b", 1: "a"}}
	esc := "<&>\"'\\/\n\u2028 é?=#%+"
	return native.Declarations{
		"tm": &tm, "tms": &tms, "u8": &u8, "big": &big, "neg": &neg, "cx": &cx, "nested": &nested, "esc": &esc,
		"s": &s, "q": &q, "e": &e, "n": &n, "f": &f, "b": &b, "nb": &nb, "lb": &lb, "m": &m, "sl": &sl, "st": &st, "h": &h, "md": &md, "long": &long, "err": &err,
	}
}

func one(name, ext, src string) tcase {
	return tcase{name: name, entry: "index." + ext, files: map[string]string{"index." + ext: src}}
}

func templates(tier string) []tcase {
	ts := []tcase{
		one("text", "html", "hello world"),
		one("text-comments", "html", "aaa{# c #}bbb{# c #}ccc{% if true %}ddd{% end %}eee"),
		one("html-show", "html", "<p>{{ s }}</p><p>{{ n }}{{ f }}{{ h }}{{ err }}</p>"),
		one("tag", "html", "<div {{ s }}>x</div>"),
		one("attr-quoted", "html", "<a title=\"{{ s }}\" class='{{ h }}'>x</a>"),
		one("attr-unquoted", "html", "<a title={{ s }} data-x={{ n }}>x</a>"),
		one("url-path", "html", "<a href=\"/p/{{ s }}/{{ n }}\">x</a>"),
		one("url-query", "html", "<a href=\"/p?x={{ s }}&y={{ s }}&amp;z={{ n }}#{{ s }}\">x</a>"),
		one("url-adjacent", "html", "<a href=\"{{ q }}{{ s }}\">x</a><a href=\"{{ q }}&{{ s }}\">y</a><a href={{ q }}{{ s }}>z</a>"),
		one("url-srcset", "html", "<img srcset=\"{{ s }} 1x, {{ q }}{{ s }} 2x\">"),
		one("css", "html", "<style>a { color: {{ s }}; width: {{ n }}px; x: {{ b }} }</style>"),
		one("css-string", "html", "<style>a { font: \"{{ s }}\"; b: '{{ b }}' }</style>"),
		one("css-attr", "html", "<p style=\"color: {{ s }}; font: '{{ s }}'\">x</p>"),
		one("js", "html", "<script>var a = {{ s }}; var b = {{ n }}; var c = {{ m }}; var d = {{ sl }}; var e = {{ st }};</script>"),
		one("js-string", "html", "<script>var a = \"{{ s }}\"; var b = '{{ n }}';</script>"),
		one("js-attr", "html", "<p onclick=\"f({{ s }}, '{{ s }}')\">x</p>"),
		one("js-bytes", "html", "<script>var x = {{ b }}; var y = {{ nb }};</script><p>{{ b }}{{ nb }}</p>"),
		one("long-bytes", "html", "<script>var x = {{ lb }};</script><style>a { b: '{{ lb }}' }</style><p>{{ lb }}</p>"),
		one("long-bytes-json", "json", "{\"d\": {{ lb }}}"),
		one("json", "html", "<script type=\"application/ld+json\">{\"a\": {{ s }}, \"b\": {{ m }}, \"c\": {{ st }}, \"d\": {{ b }}, \"e\": \"{{ s }}\"}</script>"),
		one("file-js", "js", "var a = {{ s }}; var b = \"{{ s }}\"; var c = {{ sl }};"),
		one("file-json", "json", "{\"a\": {{ s }}, \"b\": \"{{ s }}\", \"c\": {{ m }}}"),
		one("file-css", "css", "a { color: {{ s }}; font: \"{{ s }}\" }"),
		one("file-txt", "txt", "plain {{ s }} {{ n }} {{ err }}"),
		one("file-md", "md", "# T {{ s }}\n\ntext {{ h }} {{ n }}\n\n    code {{ s }}\n\n\tcode {{ s }}\n"),
		one("loop", "html", "{% for i := 0; i < 4; i++ %}{{ i }},{% end %}{% for _, x := range sl %}<{{ x }}>{% end %}"),
		one("macro-same-format", "html", "{% macro M(x string) %}[{{ x }}]{% end %}A{{ M(s) }}B{{ M(\"k\") }}Z"),
		one("macro-other-format", "html", "{% macro M css %}a{color:{{ s }}}{% end %}{% macro J js %}var x = {{ s }};{% end %}A<style>{{ M() }}</style><script>{{ J() }}</script>Z"),
		one("macro-string", "html", "{% macro M(x string) string %}[{{ x }}]{% end %}{% var v = M(s) %}A{{ v }}B{{ len(v) }}Z"),
		one("macro-indirect", "html", "{% macro M(x string) %}[{{ x }}]{% end %}{% var g = M %}A{{ g(s) }}Z"),
		{name: "render", entry: "index.html", files: map[string]string{"index.html": "A{{ render \"p.html\" }}B{{ render \"p.txt\" }}Z", "p.html": "<i>{{ s }}</i>", "p.txt": "t<{{ s }}>"}},
		{name: "extends-import", entry: "index.html", files: map[string]string{
			"index.html":  "{% extends \"layout.html\" %}{% import \"imp.html\" %}{% macro Body %}b:{{ s }}{{ I(n) }}{% end %}",
			"layout.html": "<html>{{ Body() }}</html>{{ s }}",
			"imp.html":    "{% macro I(x int) %}i{{ x }}{% end %}"}},
		one("md-macro", "html", "A{% macro M markdown %}# Hi {{ s }}{% end %}{{ M() }}Z"),
		one("md-macro-indirect", "html", "A{% macro M markdown %}# Hi {{ s }}{% end %}{% var g = M %}{{ g() }}Z"),
		{name: "md-render", entry: "index.html", files: map[string]string{"index.html": "A{{ render \"p.md\" }}Z", "p.md": "# Title {{ s }}\n\npar\n"}},
		one("md-value", "html", "A{{ md }}B<p title=\"{{ n }}\">{{ md }}</p>Z"),
		one("md-conversion", "html", "A{{ html(md) }}B{% var x = html(md) %}{{ x }}Z"),
		{name: "md-extends", entry: "index.md", files: map[string]string{"index.md": "{% extends \"layout.html\" %}{% macro Body %}# B {{ s }}{% end %}", "layout.html": "<html>{{ Body() }}</html>"}},
		// errors that pass through a converter (more shapes)
		one("md-value-in-loop", "html", "A{% for i := 0; i < 2; i++ %}[{{ md }}]{% end %}Z"),
		one("md-macro-args", "html", "{% macro M(x string) markdown %}# {{ x }}\n\ntext {{ n }}{% end %}A{{ M(s) }}B{{ M(\"k\") }}Z"),
		{name: "md-render-nested", entry: "index.html", files: map[string]string{"index.html": "A{{ render \"p.md\" }}B{{ render \"q.html\" }}Z", "p.md": "# T {{ s }}\n\n{{ render \"r.md\" }}\n", "r.md": "inner *{{ n }}*\n", "q.html": "<q>{{ render \"r.md\" }}</q>"}},
		{name: "md-imported-macro", entry: "index.html", files: map[string]string{"index.html": "{% import \"m.md\" %}A{{ Doc(s) }}Z", "m.md": "{% macro Doc(x string) %}## {{ x }}{% end %}"}},
		// value shapes that go through other writer paths
		one("time-js-json", "html", "<script>var t = {{ tm }}; var u = {{ tms }};</script><script type=\"application/ld+json\">{\"t\": {{ tm }}, \"u\": {{ tms }}}</script>Z"),
		one("numbers", "html", "<p>{{ n }}{{ f }}{{ u8 }}{{ big }}{{ neg }}{{ cx }}</p><script>x = [{{ n }}, {{ f }}, {{ big }}, {{ neg }}];</script><style>a { width: {{ n }}px; height: {{ f }}em }</style>Z"),
		one("nested-js-json", "html", "<script>var a = {{ nested }};</script><script type=\"application/ld+json\">{{ nested }}</script>Z"),
		one("show-statements", "html", "A{%% show s; show n %%}B{% show h %}C{%% show \"lit\", f %%}Z"),
		one("url-long-query", "html", "<a href=\"/p?{{ q }}&a={{ long }}&b={{ s }}#{{ long }}\">x</a><img srcset=\"{{ long }} 1x, /i?{{ s }} 2x\">Z"),
		{name: "render-partials-nested", entry: "index.html", files: map[string]string{"index.html": "A{{ render \"a.html\" }}B{{ render \"c.js\" }}Z", "a.html": "<a>{{ s }}{{ render \"b.html\" }}</a>", "b.html": "<b>{{ n }}</b>", "c.js": "var c = {{ m }};"}},
		one("escapes-every-context", "html", "<p>{{ esc }}</p><a title=\"{{ esc }}\" data-x={{ esc }} href=\"/{{ esc }}?{{ esc }}\">x</a><script>a = {{ esc }}; b = \"{{ esc }}\";</script><style>a { b: \"{{ esc }}\" }</style>Z"),
		one("long-text", "html", longText+"{{ n }}"+longText),
		one("long-show", "html", "A{{ long }}B<a href=\"{{ long }}\">x</a><script>var x = {{ long }};</script>Z"),
		// templates that recover
		{name: "recover-macro", entry: "index.html", scope: "macro", files: map[string]string{"index.html": "{% macro M %}{%% defer func() { recover() }() %%}[[a{{ s }}b{{ n }}]]{% end %}A{{ M() }}Z{{ n }}"}},
		{name: "recover-macro-md", entry: "index.html", scope: "macro", files: map[string]string{"index.html": "{% macro M %}{%% defer func() { recover() }() %%}[[a{{ md }}b]]{% end %}A{{ M() }}Z{{ n }}"}},
		{name: "recover-top", entry: "index.html", scope: "top", files: map[string]string{"index.html": "A{{ n }}{%% defer func() { recover() }() %%}[[{{ s }}b<a href=\"?{{ s }}\">c</a>"}},
		// (a function literal with a defer cannot be used here: on the unchanged
		// tree any template calling one panics in the host even with a healthy
		// writer; that is C05's finding, not a writer fault)
	}
	if tier == "thorough" {
		ctxs := []struct{ name, ext, pre, post string }{
			{"html", "html", "<p>", "</p>"}, {"tag", "html", "<div ", ">"}, {"qattr", "html", "<a title=\"", "\">"}, {"uattr", "html", "<a title=", ">"},
			{"url", "html", "<a href=\"/p/", "\">"}, {"urlq", "html", "<a href=\"/p?a=", "&b\">"}, {"srcset", "html", "<img srcset=\"", " 2x\">"},
			{"css", "html", "<style>a{b:", "}</style>"}, {"cssstr", "html", "<style>a{b:\"", "\"}</style>"},
			{"js", "html", "<script>x=", ";</script>"}, {"jsstr", "html", "<script>x=\"", "\";</script>"},
			{"json", "json", "{\"a\":", "}"}, {"jsonstr", "json", "{\"a\":\"", "\"}"}, {"md", "md", "# ", "\n"}, {"code", "md", "    ", "\n"}, {"text", "txt", "<", ">"},
		}
		vals := []string{"s", "q", "e", "n", "f", "b", "nb", "m", "sl", "st", "h", "md", "err", "long"}
		for _, c := range ctxs {
			for _, v := range vals {
				tc := one("grid-"+c.name+"-"+v, c.ext, c.pre+"{{ "+v+" }}"+c.post)
				tc.optional = true
				ts = append(ts, tc)
			}
		}
	}
	return ts
}

// recorder is the output writer: it records every call and fails on the k-th.
type recorder struct {
	k     int // 1-based call that fails; 0 never
	shape int
	err   error
	calls [][]byte
	after int // calls received after the failing one
}

func (r *recorder) Write(p []byte) (int, error) {
	n := len(r.calls) + 1
	r.calls = append(r.calls, append([]byte{}, p...))
	if r.k > 0 && n > r.k {
		r.after++
	}
	if n == r.k {
		switch r.shape {
		case 0:
			return 0, r.err
		case 1:
			return len(p) / 2, r.err
		default:
			return len(p), r.err
		}
	}
	return len(p), nil
}

type built struct {
	tc     tcase
	t      *scriggo.Template
	clean  [][]byte
	err    string // set when the template is not usable
	lo, hi int    // 1-based indexes of the "[[" and "]]" writes (recover scopes)
}

func prepare(tc tcase) *built {
	b := &built{tc: tc}
	files := scriggo.Files{}
	for n, s := range tc.files {
		files[n] = []byte(s)
	}
	t, err := scriggo.BuildTemplate(files, tc.entry, &scriggo.BuildOptions{Globals: globals(), MarkdownConverter: converter})
	if err != nil {
		b.err = "build: " + err.Error()
		return b
	}
	b.t = t
	rec := &recorder{}
	func() {
		defer func() {
			if r := recover(); r != nil {
				b.err = fmt.Sprintf("clean run panics: %v", r)
			}
		}()
		if err := t.Run(rec, nil, nil); err != nil {
			b.err = "clean run: " + err.Error()
		}
	}()
	b.clean = rec.calls
	for i, c := range rec.calls {
		if bytes.Contains(c, []byte("[[")) && b.lo == 0 {
			b.lo = i + 1
		}
		if bytes.Contains(c, []byte("]]")) {
			b.hi = i + 1
		}
	}
	if tc.scope == "deferred-tail" {
		// the deferred macro is the last thing that writes: its first write
		// is the last "<d>" of the clean run
		b.lo, b.hi = 0, 0
		for i, c := range rec.calls {
			if string(c) == "<d>" {
				b.lo = i + 1
			}
		}
	}
	if tc.scope != "" && (b.lo == 0 || (tc.scope == "macro" && b.hi == 0)) && b.err == "" {
		b.err = "recover scope markers not found in the clean run"
	}
	return b
}

func join(calls [][]byte) string {
	var parts []string
	for _, c := range calls {
		s := string(c)
		if len(s) > 40 {
			s = s[:40] + "…"
		}
		parts = append(parts, fmt.Sprintf("%q", s))
	}
	return "[" + strings.Join(parts, " ") + "]"
}

func evalFault(b *built, k, shape int) kit.Outcome {
	E := errors.New("injected write error")
	rec := &recorder{k: k, shape: shape, err: E}
	var runErr error
	var hostPanic any
	var stack string
	func() {
		defer func() {
			if r := recover(); r != nil {
				hostPanic = r
				stack = string(debug.Stack())
			}
		}()
		runErr = b.t.Run(rec, nil, nil)
	}()
	detail := func(what string) string {
		var fs []string
		for n := range b.tc.files {
			fs = append(fs, n)
		}
		sort.Strings(fs)
		var sb strings.Builder
		for _, n := range fs {
			src := b.tc.files[n]
			if len(src) > 600 {
				src = src[:300] + "…(long)…" + src[len(src)-100:]
			}
			fmt.Fprintf(&sb, "--- %s\n%s\n", n, src)
		}
		return fmt.Sprintf("template %s, writer fails on call %d of %d returning %s\n%s%s\nwrites seen: %s\nRun returned: %v", b.tc.name, k, len(b.clean),
			[]string{"(0, E)", "(len(p)/2, E)", "(len(p), E)"}[shape], sb.String(), what, join(rec.calls), runErr)
	}
	o := kit.Outcome{OK: true, Nontrivial: true, Ops: len(rec.calls), Class: "aborted with E"}
	if hostPanic != nil {
		msg := fmt.Sprint(hostPanic)
		if err, ok := hostPanic.(error); ok && errors.Is(err, E) {
			msg = "the injected write error E"
		}
		return kit.Outcome{Key: "hostpanic|" + kit.FirstRepoFrame(stack) + "|" + kit.NormMsg(msg), Class: "host-panic", Nontrivial: true,
			Detail: detail(fmt.Sprintf("Run panicked in the host with (%T) %v", hostPanic, hostPanic))}
	}
	// expected continuation
	recovered := false
	var wantAfter [][]byte
	switch b.tc.scope {
	case "macro":
		if k >= b.lo && k <= b.hi {
			recovered = true
			wantAfter = b.clean[b.hi:]
		}
	case "top":
		if k >= b.lo {
			recovered = true
		}
	case "deferred-tail":
		// a failure before the deferred call starts: the deferred call runs
		// while the body is panicking (Go semantics) and its writes succeed;
		// the run still ends with E.
		if k < b.lo && len(rec.calls) >= k {
			want := b.clean[b.lo-1:]
			got := rec.calls[k:]
			same := len(got) == len(want)
			for i := 0; same && i < len(got); i++ {
				same = bytes.Equal(got[i], want[i])
			}
			if !same {
				return kit.Outcome{Key: "deferred-call|writes-after-failure-differ", Detail: detail(fmt.Sprintf("after the failure the writer should receive only the output of the deferred macro call: %s", join(want))), Class: "fail", Nontrivial: true}
			}
			rec.after = 0
			o.Class = "aborted with E, deferred macro call ran"
		}
	}
	// the calls up to the failing one must be those of the clean run
	n := k
	if len(rec.calls) < n {
		return kit.Outcome{Key: "fewer-writes-than-clean-run", Detail: detail("the writer received fewer calls than the clean run before the failure point"), Class: "fail", Nontrivial: true}
	}
	for i := 0; i < n; i++ {
		if !bytes.Equal(rec.calls[i], b.clean[i]) {
			return kit.Outcome{Key: "writes-before-failure-differ-from-clean-run", Detail: detail(fmt.Sprintf("call %d differs from the clean run", i+1)), Class: "fail", Nontrivial: true}
		}
	}
	if !recovered {
		if rec.after > 0 {
			return kit.Outcome{Key: "write-after-failure", Detail: detail(fmt.Sprintf("%d Write calls after the failing one", rec.after)), Class: "fail", Nontrivial: true}
		}
		switch {
		case runErr == nil:
			return kit.Outcome{Key: "run-returned-nil", Detail: detail("Run returned nil although out.Write failed and the template does not recover"), Class: "fail", Nontrivial: true}
		case !errors.Is(runErr, E):
			return kit.Outcome{Key: "run-returned-other-error|" + fmt.Sprintf("%T", runErr), Detail: detail("Run did not return the writer's error"), Class: "fail", Nontrivial: true}
		case runErr != E:
			o.Class = "aborted with an error wrapping E"
		}
		return o
	}
	// recovered by the template: rendering continues after the recovering function
	o.Class = "recovered by the template"
	got := rec.calls[k:]
	if len(got) != len(wantAfter) {
		return kit.Outcome{Key: "recovered|continuation-differs", Detail: detail(fmt.Sprintf("after the recovered failure the writer should receive %s", join(wantAfter))), Class: "fail", Nontrivial: true}
	}
	for i := range got {
		if !bytes.Equal(got[i], wantAfter[i]) {
			return kit.Outcome{Key: "recovered|continuation-differs", Detail: detail(fmt.Sprintf("after the recovered failure the writer should receive %s", join(wantAfter))), Class: "fail", Nontrivial: true}
		}
	}
	if runErr != nil {
		return kit.Outcome{Key: "recovered|run-returned-error", Detail: detail("the template recovered the panic and every later write succeeded, Run should return nil"), Class: "fail", Nontrivial: true}
	}
	return o
}

var skipped, used int

func spaces(tier string) []kit.Space {
	skipped, used = 0, 0
	var bs []*built
	var offs []uint64
	tot := uint64(0)
	var broken []*built
	for _, tc := range templates(tier) {
		b := prepare(tc)
		if b.err != "" {
			if tc.optional && strings.Contains(b.err, "cannot show") {
				skipped++
				continue
			}
			broken = append(broken, b)
			continue
		}
		if os.Getenv("C13_DEBUG") != "" {
			fmt.Fprintf(os.Stderr, "%s: W=%d\n", tc.name, len(b.clean))
		}
		used++
		bs = append(bs, b)
		offs = append(offs, tot)
		tot += uint64(len(b.clean)) * 3
	}
	locate := func(i uint64) (*built, int, int) {
		j := sort.Search(len(offs), func(j int) bool { return offs[j] > i }) - 1
		r := i - offs[j]
		return bs[j], int(r/3) + 1, int(r % 3)
	}
	sps := []kit.Space{{
		Name: "write-faults",
		Size: tot,
		Eval: func(i uint64) kit.Outcome {
			b, k, shape := locate(i)
			return evalFault(b, k, shape)
		},
		Describe: func(i uint64) any {
			b, k, shape := locate(i)
			return map[string]any{"template": b.tc.name, "files": b.tc.files, "entry": b.tc.entry, "failing_write": k, "writes_in_clean_run": len(b.clean), "shape": shape}
		},
	}}
	sps = append(sps, structureSpace())
	// cancellation racing with the failure: the templates that do not recover, every k
	var cbs []*built
	var coffs []uint64
	ctot := uint64(0)
	for _, b := range bs {
		if b.tc.scope != "" || len(b.clean) > 150 {
			continue
		}
		cbs = append(cbs, b)
		coffs = append(coffs, ctot)
		ctot += uint64(len(b.clean)) * 2
	}
	clocate := func(i uint64) (*built, int, int) {
		j := sort.Search(len(coffs), func(j int) bool { return coffs[j] > i }) - 1
		r := i - coffs[j]
		return cbs[j], int(r/2) + 1, int(r % 2)
	}
	sps = append(sps, kit.Space{Name: "cancel-race", Size: ctot,
		Eval: func(i uint64) kit.Outcome { b, k, mode := clocate(i); return evalCancel(b, k, mode) },
		Describe: func(i uint64) any {
			b, k, mode := clocate(i)
			return map[string]any{"template": b.tc.name, "files": b.tc.files, "failing_write": k, "mode": cancelModes[mode]}
		}})
	if len(broken) > 0 {
		sps = append(sps, kit.Space{
			Name: "unusable-templates",
			Size: uint64(len(broken)),
			Eval: func(i uint64) kit.Outcome {
				b := broken[i]
				return kit.Outcome{Key: "harness|template of the list is not usable|" + b.tc.name, Detail: b.err + "\n" + fmt.Sprint(b.tc.files), Class: "fail", Nontrivial: true}
			},
			Describe: func(i uint64) any { return broken[i].tc.name },
		})
	}
	return append(sps, convDeferSpace()...)
}

func main() {
	kit.Main(&kit.Check{
		ID:    "C13",
		Level: "fault_enumeration",
		Rule:  "write-faults: for every template of the list, every failing Write index k = 1..W (W = Write calls of a clean run) × 3 failure shapes {(0,E), (len/2,E), (len,E)}; panic-structure: 3 placements of the core (body, macro, imported macro) × 7 deferred kinds of the core × 4 deferred kinds of the body (incl. deferred macros that write, one of them recovering) × {no own panic, own panic before / after the second text} × every failure set {k} and {k, k2} over the 8 possible write calls; cancel-race: every template that does not recover × every k × {context cancelled by the writer at the failing write, at the write before}; converting-macro-with-defer: 17 ways of using a Markdown macro / partial / using-body from HTML (direct, indirect, imported, rendered partial, show-using, using assigned to a variable, extends, nested in a Markdown or HTML macro with and without a defer, in a loop, caller with a defer, called from a deferred HTML macro of the body) × 5 macro shapes (no defer, defer no-op, two defers, defer recovering a panic of the macro body, defer recovering nothing) × every k × 3 failure shapes. Complete in k. A case is non-trivial when a write really fails",
		Assumptions: []string{
			"the template list is fixed (56 templates in quick, plus a 16 contexts × 14 values grid in thorough); faults are single (one failing call, later calls succeed)",
			"the Markdown converter is a host function that writes in three calls and returns the first write error",
			"panic-structure: the expected Write calls and the end of the run come from a mirror of the template written with Go's own defer/panic/recover, a failed write being a panic raised by the write as documented; Run must return an error with errors.Is(err, E) when that panic is what ends the run (identity == E is reported as an outcome class, not demanded), nil when it was recovered, a *PanicError with the template's own value when a later panic ends it",
			"cancel-race: the writer sleeps 2 ms after cancel() so that the interpreter's watcher has seen the cancellation when Write returns (deterministic ordering); if the failing write was reached the property demands the writer's error, otherwise the context's error is the documented result",
			"a macro deferred INSIDE a macro is not part of the family: on the current tree its output is dropped and its recover() has no effect even with a healthy writer (reported separately)",
			"converting-macro-with-defer: when the converting macro is reached from a deferred macro call of the body and the failing write precedes it, the deferred call runs while the body is panicking (Go semantics) and its writes are expected; Run must still return E. Calling a macro from a deferred function LITERAL, or deferring a macro inside a macro, is not in the family: on the current tree the output of such calls is dropped and nothing is converted",
			"for templates that recover: Go semantics — execution continues after the function that deferred the recovering call",
		},
		Spaces: spaces,
		Extra: func(string) map[string]any {
			return map[string]any{"templates_used": used, "grid_combinations_skipped_because_type_not_showable_in_context": skipped}
		},
	})
}
