package main

// Class "write failure × panic/recover structure": a family of templates
// whose body and macros have deferred functions of several kinds and may
// panic by themselves; the writer fails on call k (and optionally again on a
// later call k2). Every k is enumerated. The expected behaviour is computed
// by MIRRORING the template with real Go code: a failed write is a panic
// raised by the write (that is what the Run documentation says), deferred
// functions, recover and panic are Go's own. From the mirror: the sequence of
// Write calls the writer must see and how the run ends (nil, the writer's
// error E, or a *PanicError carrying the template's own value).

import (
	"context"
	"errors"
	"fmt"
	"runtime/debug"
	"strings"
	"time"

	"verif/kit"

	"github.com/open2b/scriggo"
)

// deferred kinds of the core frame
const (
	dNone = iota
	dMarker
	dRecover
	dRepanicSame
	dPanicNewAfterRecover
	dPanicNew
	dNestedSecondPanic
	numD
)

var dNames = []string{"none", "marker", "recover", "recover-then-repanic-the-recovered-value", "recover-then-panic-a-new-value", "panic-without-recovering", "nested-function-recovers-a-second-panic"}

var dCode = []string{
	"",
	"{%% defer func() { _ = 1 }() %%}",
	"{%% defer func() { recover() }() %%}",
	"{%% defer func() {\n\tif r := recover(); r != nil {\n\t\tpanic(r)\n\t}\n}() %%}",
	"{%% defer func() {\n\tif r := recover(); r != nil {\n\t\tpanic(\"new\")\n\t}\n}() %%}",
	"{%% defer func() { panic(\"new2\") }() %%}",
	"{%% defer func() {\n\tfunc() {\n\t\tdefer func() { recover() }()\n\t\tpanic(\"second\")\n\t}()\n}() %%}",
}

// deferred kinds of the template body
const (
	b0None = iota
	b0Recover
	b0FallbackMacro // a deferred macro that recovers and WRITES a fallback
	b0WritingMacro  // a deferred macro that writes without recovering
	numB0
)

var b0Names = []string{"none", "recover", "deferred-macro-recovers-and-writes-a-fallback", "deferred-macro-writes"}

var placements = []string{"body", "macro", "imported-macro"}
var ownPanics = []string{"no own panic", "own panic before the second text", "own panic after the second text"}

type pshape struct {
	placement, d, b0, own int
}

func (s pshape) String() string {
	return fmt.Sprintf("core in %s; its deferred function: %s; deferred in the body: %s; %s", placements[s.placement], dNames[s.d], b0Names[s.b0], ownPanics[s.own])
}

// op is one element of a frame: both the template source and the mirror are
// derived from the same list, adjacent texts merged as the parser merges them.
type op struct {
	kind string // "text", "show", "panic", "call", "defer-core", "defer-body"
	text string
}

func merge(ops []op) []op {
	var out []op
	for _, o := range ops {
		if o.kind == "text" && len(out) > 0 && out[len(out)-1].kind == "text" {
			out[len(out)-1].text += o.text
			continue
		}
		out = append(out, o)
	}
	return out
}

func (s pshape) coreOps() []op {
	var ops []op
	if s.d != dNone {
		ops = append(ops, op{kind: "defer-core"})
	}
	ops = append(ops, op{"text", "c1"}, op{"show", "v"})
	if s.own == 1 {
		ops = append(ops, op{"panic", "own"})
	}
	ops = append(ops, op{"text", "c2"})
	if s.own == 2 {
		ops = append(ops, op{"panic", "own"})
	}
	return append(ops, op{"text", "c3"})
}

func (s pshape) bodyOps() []op {
	var ops []op
	if s.b0 != b0None {
		ops = append(ops, op{kind: "defer-body"})
	}
	ops = append(ops, op{"text", "A"})
	if s.placement == 0 {
		ops = append(ops, s.coreOps()...)
	} else {
		ops = append(ops, op{kind: "call"})
	}
	return merge(append(ops, op{"text", "Z"}))
}

func (s pshape) source(ops []op) string {
	var b strings.Builder
	for _, o := range ops {
		switch o.kind {
		case "text":
			b.WriteString(o.text)
		case "show":
			b.WriteString("{{ " + o.text + " }}")
		case "panic":
			b.WriteString("{%% panic(\"" + o.text + "\") %%}")
		case "call":
			b.WriteString("{{ M() }}")
		case "defer-core":
			b.WriteString(dCode[s.d])
		case "defer-body":
			switch s.b0 {
			case b0Recover:
				b.WriteString("{%% defer func() { recover() }() %%}")
			case b0FallbackMacro:
				b.WriteString("{%% defer Fb() %%}")
			case b0WritingMacro:
				b.WriteString("{%% defer Dm() %%}")
			}
		}
	}
	return b.String()
}

func (s pshape) files() map[string]string {
	files := map[string]string{}
	var b strings.Builder
	if s.placement == 2 {
		files["imp.html"] = "{% macro M %}" + s.source(merge(s.coreOps())) + "{% end %}"
		b.WriteString("{% import \"imp.html\" %}")
	}
	switch s.b0 {
	case b0FallbackMacro:
		b.WriteString("{% macro Fb %}{%% recover() %%}[fb]{% end %}")
	case b0WritingMacro:
		b.WriteString("{% macro Dm %}[dm]{% end %}")
	}
	if s.placement == 1 {
		b.WriteString("{% macro M %}" + s.source(merge(s.coreOps())) + "{% end %}")
	}
	b.WriteString(s.source(s.bodyOps()))
	files["index.html"] = b.String()
	return files
}

// ---- the mirror ----

type writeErrPanic struct{}

type mirror struct {
	fail   map[int]bool
	n      int
	writes []string // every attempted write, "!"-prefixed when it fails
}

func (m *mirror) write(s string) {
	m.n++
	if m.fail[m.n] {
		m.writes = append(m.writes, "!"+s)
		panic(writeErrPanic{})
	}
	m.writes = append(m.writes, s)
}

func (m *mirror) coreDeferred(d int) {
	switch d {
	case dRecover:
		recover()
	case dRepanicSame:
		if r := recover(); r != nil {
			panic(r)
		}
	case dPanicNewAfterRecover:
		if r := recover(); r != nil {
			panic("new")
		}
	case dPanicNew:
		panic("new2")
	case dNestedSecondPanic:
		func() {
			defer func() { recover() }()
			panic("second")
		}()
	}
}

func (m *mirror) fallback() {
	recover()
	m.write("[fb]")
}

// frame runs the ops of a frame with Go's own defer, panic and recover.
func (m *mirror) frame(s pshape, ops []op) {
	for _, o := range ops {
		switch o.kind {
		case "text", "show":
			m.write(o.text)
		case "panic":
			panic(o.text)
		case "call":
			m.frame(s, merge(s.coreOps()))
		case "defer-core":
			defer m.coreDeferred(s.d)
		case "defer-body":
			switch s.b0 {
			case b0Recover:
				defer func() { recover() }()
			case b0FallbackMacro:
				defer m.fallback()
			case b0WritingMacro:
				defer m.write("[dm]")
			}
		}
	}
}

func (m *mirror) body(s pshape) { m.frame(s, s.bodyOps()) }

// run returns how the run must end: nil, writeErrPanic{} or the own value.
func (m *mirror) run(s pshape) (end any) {
	defer func() { end = recover() }()
	m.body(s)
	return nil
}

// ---- the real thing ----

type structWriter struct {
	fail   map[int]bool
	err    error
	n      int
	writes []string
}

func (w *structWriter) Write(p []byte) (int, error) {
	w.n++
	if w.fail[w.n] {
		w.writes = append(w.writes, "!"+string(p))
		return 0, w.err
	}
	w.writes = append(w.writes, string(p))
	return len(p), nil
}

const maxWritesOfTheFamily = 8 // A c1 v c2 c3 Z + one deferred macro write + 1: k beyond it never fails

func structureSpace() kit.Space {
	// failure sets: {k} and {k, k2} with k < k2 <= max
	type fs struct{ k, k2 int }
	var sets []fs
	for k := 1; k <= maxWritesOfTheFamily; k++ {
		sets = append(sets, fs{k, 0})
		for k2 := k + 1; k2 <= maxWritesOfTheFamily; k2++ {
			sets = append(sets, fs{k, k2})
		}
	}
	radices := []uint64{uint64(len(sets)), uint64(len(ownPanics)), numB0, numD, uint64(len(placements))}
	at := func(i uint64) (pshape, fs) {
		d := kit.Mixed(i, radices...)
		return pshape{placement: int(d[4]), d: int(d[3]), b0: int(d[2]), own: int(d[1])}, sets[d[0]]
	}
	v := "v"
	g := globals()
	g["v"] = &v
	cache := map[pshape]*scriggo.Template{}
	return kit.Space{Name: "panic-structure", Size: kit.Product(radices...),
		Eval: func(i uint64) kit.Outcome {
			s, f := at(i)
			if s.placement == 0 && s.d != dNone && s.b0 != b0None {
				// two deferred functions in one frame: the order is the source order, kept
			}
			files := scriggo.Files{}
			for n, src := range s.files() {
				files[n] = []byte(src)
			}
			t, err := scriggo.BuildTemplate(files, "index.html", &scriggo.BuildOptions{Globals: g})
			_ = cache
			if err != nil {
				return kit.Outcome{Key: "harness|panic-structure template does not build", Detail: s.String() + "\n" + fmt.Sprint(s.files()) + "\n" + err.Error(), Class: "fail", Nontrivial: true}
			}
			fail := map[int]bool{f.k: true}
			if f.k2 > 0 {
				fail[f.k2] = true
			}
			m := &mirror{fail: fail}
			end := m.run(s)
			E := errors.New("injected write error")
			w := &structWriter{fail: fail, err: E}
			var runErr error
			var hostPanic any
			var stack string
			func() {
				defer func() {
					if r := recover(); r != nil {
						hostPanic, stack = r, string(debug.Stack())
					}
				}()
				runErr = t.Run(w, nil, nil)
			}()
			var wantEnd string
			switch e := end.(type) {
			case nil:
				wantEnd = "nil"
			case writeErrPanic:
				wantEnd = "the writer's error E"
			default:
				wantEnd = fmt.Sprintf("*PanicError(%v)", e)
			}
			gotEnd := "nil"
			if pe, ok := runErr.(*scriggo.PanicError); ok {
				gotEnd = "*PanicError(" + pe.String() + ")"
			} else if runErr != nil && errors.Is(runErr, E) {
				gotEnd = "the writer's error E"
			} else if runErr != nil {
				gotEnd = fmt.Sprintf("other error (%T) %v", runErr, runErr)
			}
			var fl []string
			for n, src := range s.files() {
				fl = append(fl, "--- "+n+"\n"+src)
			}
			detail := fmt.Sprintf("%s\nthe writer fails with (0, E) on call %d", s, f.k)
			if f.k2 > 0 {
				detail += fmt.Sprintf(" and on call %d", f.k2)
			}
			detail += "\n" + strings.Join(fl, "\n") + fmt.Sprintf("\nexpected (Go mirror): Write calls %q, Run ends with %s\nobserved:             Write calls %q, Run returned %s", m.writes, wantEnd, w.writes, gotEnd)
			ctx := "|deferred=" + dNames[s.d] + "|body-deferred=" + b0Names[s.b0]
			anyFailed := false
			for _, x := range m.writes {
				if strings.HasPrefix(x, "!") {
					anyFailed = true
				}
			}
			if hostPanic != nil {
				return kit.Outcome{Key: "hostpanic|" + kit.FirstRepoFrame(stack) + "|" + kit.NormMsg(fmt.Sprint(hostPanic)) + "|in=panic-structure", Detail: detail + fmt.Sprintf("\nRun panicked in the host: %v", hostPanic), Class: "host-panic", Nontrivial: true}
			}
			if gotEnd != wantEnd {
				key := "panic-structure|want " + strings.SplitN(wantEnd, "(", 2)[0] + ", got " + strings.SplitN(gotEnd, "(", 2)[0]
				if gotEnd == "nil" && wantEnd == "the writer's error E" {
					key = "panic-structure|Run returned nil after a failed write that was not recovered"
				}
				return kit.Outcome{Key: key + ctx, Detail: detail, Class: "fail", Nontrivial: true}
			}
			if fmt.Sprint(m.writes) != fmt.Sprint(w.writes) {
				key := "panic-structure|Write calls differ from the mirror"
				if len(w.writes) > len(m.writes) {
					key = "panic-structure|the writer is called when the mirror says rendering is over or unwinding"
				}
				return kit.Outcome{Key: key + ctx, Detail: detail, Class: "fail", Nontrivial: true}
			}
			cl := "ends with " + strings.SplitN(wantEnd, "(", 2)[0]
			if !anyFailed {
				cl += " (no write failed: k beyond the last write)"
			}
			if runErr != nil && errors.Is(runErr, E) && runErr != E {
				cl += " (wrapped)"
			}
			return kit.Outcome{OK: true, Class: cl, Nontrivial: anyFailed, Ops: len(w.writes)}
		},
		Describe: func(i uint64) any {
			s, f := at(i)
			return map[string]any{"shape": s.String(), "files": s.files(), "failing_writes": []int{f.k, f.k2}}
		}}
}

// ---- cancellation racing with the failure ----

// cancelWriter cancels the run's context at the failing write (mode 0) or at
// the write before it (mode 1), waits until the interpreter's watcher has
// seen the cancellation, and fails on call k.
type cancelWriter struct {
	k, mode int
	err     error
	cancel  func()
	n       int
	failed  bool
	after   int
}

func (w *cancelWriter) Write(p []byte) (int, error) {
	w.n++
	if w.failed {
		w.after++
	}
	if (w.mode == 0 && w.n == w.k) || (w.mode == 1 && w.n == w.k-1) {
		w.cancel()
		time.Sleep(2 * time.Millisecond) // the watcher goroutine sets the done flag
	}
	if w.n == w.k {
		w.failed = true
		return 0, w.err
	}
	return len(p), nil
}

var cancelModes = []string{"the writer cancels the context at the failing write", "the writer cancels the context at the write before the failing one"}

func evalCancel(b *built, k, mode int) kit.Outcome {
	if mode == 1 && k == 1 {
		return kit.Outcome{OK: true, Class: "n/a: no write before the first one"}
	}
	E := errors.New("injected write error")
	ctx, cancel := context.WithCancel(context.Background())
	defer cancel()
	w := &cancelWriter{k: k, mode: mode, err: E, cancel: cancel}
	var runErr error
	var hostPanic any
	var stack string
	func() {
		defer func() {
			if r := recover(); r != nil {
				hostPanic, stack = r, string(debug.Stack())
			}
		}()
		runErr = b.t.Run(w, nil, &scriggo.RunOptions{Context: ctx})
	}()
	var fl []string
	for n, src := range b.tc.files {
		if len(src) > 400 {
			src = src[:200] + "…" + src[len(src)-100:]
		}
		fl = append(fl, "--- "+n+"\n"+src)
	}
	detail := fmt.Sprintf("template %s; %s; the writer fails with (0, E) on call %d of %d\n%s\nwrite calls received: %d (failing write reached: %v, calls after it: %d)\nRun returned: (%T) %v",
		b.tc.name, cancelModes[mode], k, len(b.clean), strings.Join(fl, "\n"), w.n, w.failed, w.after, runErr, runErr)
	if hostPanic != nil {
		return kit.Outcome{Key: "hostpanic|" + kit.FirstRepoFrame(stack) + "|" + kit.NormMsg(fmt.Sprint(hostPanic)) + "|in=cancel-race", Detail: detail + fmt.Sprintf("\nhost panic: %v", hostPanic), Class: "host-panic", Nontrivial: true}
	}
	if w.after > 0 {
		return kit.Outcome{Key: "cancel-race|write after the failing write", Detail: detail, Class: "fail", Nontrivial: true}
	}
	if w.failed {
		// the property: a failing writer aborts rendering with the writer's error
		switch {
		case runErr == nil:
			return kit.Outcome{Key: "cancel-race|Run returned nil after a failed write", Detail: detail, Class: "fail", Nontrivial: true}
		case errors.Is(runErr, E):
			return kit.Outcome{OK: true, Class: "cancelled and failed: the writer's error wins", Nontrivial: true}
		case errors.Is(runErr, context.Canceled):
			return kit.Outcome{Key: "cancel-race|Run returned the context's error although out.Write had failed|" + []string{"cancelled at the failing write", "cancelled one write earlier"}[mode], Detail: detail, Class: "fail", Nontrivial: true}
		}
		return kit.Outcome{Key: "cancel-race|Run returned another error|" + fmt.Sprintf("%T", runErr), Detail: detail, Class: "fail", Nontrivial: true}
	}
	// the run stopped before the failing write: the context's error is the documented result
	if !errors.Is(runErr, context.Canceled) {
		return kit.Outcome{Key: "cancel-race|cancelled before the failing write but Run did not return the context's error", Detail: detail, Class: "fail", Nontrivial: true}
	}
	return kit.Outcome{OK: true, Class: "cancelled before the failing write: context error", Nontrivial: true}
}
