package main

// Round 2 spaces of C26:
//
//   layouts     documents made of line kinds (paragraph, blank, indented code,
//               list item, quote, heading, statement-only lines, fences, lines
//               holding an {% if %}) followed by a hole line with one of several
//               prefixes, as such and as the body of a macro: goldmark says
//               whether the hole is code or text, a few probe values must then
//               stay inert; the lexer's context of the show is read from the tree
//   twins       a macro with string result / a macro imported from a .txt file /
//               a rendered .txt file called in Markdown positions must be written
//               exactly like a plain {{ s }} in the same document
//   writers     the same shows through writers without WriteString that read
//               their argument late, 8 goroutines at a time
//   url-render  a file rendered first inside a URL and then in a paragraph
//   md-macro    a Markdown macro called from an HTML file through a converter
//   html-typed  values of type native.HTML in Markdown

import (
	"bytes"
	"fmt"
	"io"
	"runtime"
	"strings"
	"sync"

	"verif/kit"
	"verif/oracle/asteq"

	"github.com/open2b/scriggo"
	"github.com/open2b/scriggo/ast"
	"github.com/open2b/scriggo/native"
	"github.com/yuin/goldmark"
	"github.com/yuin/goldmark/renderer/html"
)

type named struct{ name, text string }

var lineAtoms = []named{
	{"paragraph", "para\n"},
	{"blank", "\n"},
	{"4sp-code", "    code\n"},
	{"tab-code", "\tcode\n"},
	{"list-item", "- item\n"},
	{"quote", "> q\n"},
	{"quote-blank", ">\n"},
	{"heading", "# T\n"},
	{"if-line", "{% if true %}\n"},
	{"end-line", "{% end %}\n"},
	{"fence", "```\n"},
	{"paragraph+if", "para {% if true %}x\n"},
	{"4sp-code+if", "    code {% if true %}x\n"},
}

var holePrefixes = []named{
	{"line-start", ""},
	{"after-text", "x "},
	{"4sp", "    "},
	{"tab", "\t"},
	{"space-tab", " \t"},
	{"2sp", "  "},
	{"quote-5sp", ">     "},
	{"unterminated-tag", "if a <b then "},
	{"url", "see http://a.com/"},
	{"after-br", "<br>x "},
	{"text-end", "y {% end %}"},
	{"4sp-text-end", "    y {% end %}"},
}

// Probe values: each must stay inert wherever goldmark says the hole is.
var probes = []string{"*b*", "<i>c</i>", "`c`", "[l](u)", "a\nb", "# h"}

const holePost = " y\n"

type layout struct {
	lines  []int
	prefix int
	macro  bool
}

func (l layout) source() string {
	var b strings.Builder
	if l.macro {
		b.WriteString("{% macro M(s string) %}\n")
	}
	for _, a := range l.lines {
		b.WriteString(lineAtoms[a].text)
	}
	b.WriteString(holePrefixes[l.prefix].text)
	b.WriteString("{{ s }}")
	b.WriteString(holePost)
	if l.macro {
		b.WriteString("{% end macro %}{{ M(s) }}")
	}
	return b.String()
}

func (l layout) describe() string {
	var ns []string
	for _, a := range l.lines {
		ns = append(ns, lineAtoms[a].name)
	}
	return fmt.Sprintf("lines=[%s] hole=%s", strings.Join(ns, ","), holePrefixes[l.prefix].name)
}

type layoutResult struct {
	built    bool
	lexerCtx string
	class    string // "code" or "text": what goldmark makes of the hole
	effect   string // "" = holds
	detail   string
}

var layoutMemo sync.Map // source → layoutResult: minimisation meets the same layouts again and again

func evalLayout(l layout) layoutResult {
	src := l.source()
	if r, ok := layoutMemo.Load(src); ok {
		return r.(layoutResult)
	}
	r := evalLayout1(src)
	layoutMemo.Store(src, r)
	return r
}

func evalLayout1(src string) layoutResult {
	var showCtx string
	t, err := scriggo.BuildTemplate(scriggo.Files{"index.md": []byte(src)}, "index.md", &scriggo.BuildOptions{
		Globals: native.Declarations{"s": (*string)(nil)},
		UnexpandedTransformer: func(tree *ast.Tree) error {
			for _, r := range asteq.Reachable(tree, false) {
				if sh, ok := r.Node.(*ast.Show); ok && len(sh.Expressions) == 1 {
					if id, ok := sh.Expressions[0].(*ast.Identifier); ok && id.Name == "s" {
						showCtx = sh.Context.String()
					}
				}
			}
			return nil
		},
	})
	if err != nil {
		return layoutResult{}
	}
	run := func(v string) (string, error) {
		var b bytes.Buffer
		err := t.Run(&b, map[string]any{"s": &v}, nil)
		return b.String(), err
	}
	res := layoutResult{built: true, lexerCtx: showCtx}
	out, err := run("zz")
	if err != nil || strings.Count(out, "zz") != 1 {
		res.built = false
		return res
	}
	ben := commonmark.convert([]byte(out))
	res.class = "text"
	if strings.Contains(ben.code, "zz") {
		res.class = "code"
	}
	for _, v := range probes {
		out, err := run(v)
		if err != nil {
			res.effect = "run-error"
			res.detail = fmt.Sprintf("s = %q: %v", v, err)
			return res
		}
		got := commonmark.convert([]byte(out))
		fail := func(effect, d string) layoutResult {
			res.effect = effect
			res.detail = fmt.Sprintf("template %q\ns = %q\nrendered Markdown %q\nthe lexer put the show in context %q; for goldmark the hole is %s (with s=\"zz\": %q)\n%s\nhtml %q", src, v, out, showCtx, res.class, ben.html, d, got.html)
			return res
		}
		if !equalStrings(got.tags, ben.tags) {
			return fail("elements"+tagDiff(ben.tags, got.tags), fmt.Sprintf("expected elements %v\nobserved elements %v", ben.tags, got.tags))
		}
		if res.class == "code" {
			// the statement only says that the value never leaves the code block
			if g, w := normPara(got.outside), normPara(ben.outside); g != w {
				return fail("text-outside-code", fmt.Sprintf("expected text outside code %q\nobserved %q", w, g))
			}
			continue
		}
		if g, w := normPara(got.text), normPara(strings.Replace(ben.text, "zz", v, 1)); g != w {
			return fail("text-content", fmt.Sprintf("expected text %q\nobserved text %q", w, g))
		}
	}
	return res
}

var prefixKind = map[string]string{"4sp": "indented", "tab": "indented", "4sp-text-end": "indented, after an inline {% end %}", "text-end": "text, after an inline {% end %}"}

func layoutSpace(tier string) kit.Space {
	n := 2
	if tier == "thorough" {
		n = 3
	}
	names := make([]string, len(lineAtoms))
	for i := range lineAtoms {
		names[i] = string(rune('A' + i))
	}
	en := kit.NewStringsUpTo(names, n)
	np := uint64(len(holePrefixes))
	decode := func(i uint64) layout {
		li := i / (2 * np)
		l := layout{prefix: int(i % np), macro: (i/np)%2 == 1}
		l.lines = en.Atoms(li)
		return l
	}
	return kit.Space{
		Name: "layouts",
		Size: en.Size() * np * 2,
		Describe: func(i uint64) any {
			l := decode(i)
			return map[string]any{"template": l.source(), "layout": l.describe(), "macro-body": l.macro, "probes": probes}
		},
		Eval: func(i uint64) kit.Outcome {
			l := decode(i)
			r := evalLayout(l)
			if !r.built {
				return kit.Outcome{OK: true, Class: "layout:template-rejected", Ops: 1}
			}
			o := kit.Outcome{OK: true, Nontrivial: true, Ops: len(probes) + 1}
			agree := (r.class == "code") == strings.Contains(r.lexerCtx, "code block")
			o.Class = fmt.Sprintf("layout:hole-is-%s lexer-agrees=%v", r.class, agree)
			if r.effect == "" {
				return o
			}
			// minimise: drop lines while it still fails; a macro body that fails
			// as a plain document too is that document's finding
			cur, cr := l, r
			without := func(l layout, drop ...int) layout {
				t := l
				t.lines = nil
				for k, a := range l.lines {
					if k != drop[0] && (len(drop) < 2 || k != drop[1]) {
						t.lines = append(t.lines, a)
					}
				}
				return t
			}
			// the statements of the layout may be beside the point: the same
			// layout without them (an inline {% if %}…{% end %} removed, the
			// statement-only {% if %} lines dropped) is tried first
			destmt := func(l layout) (layout, bool) {
				t := l
				t.lines = nil
				changed := false
				for _, a := range l.lines {
					switch lineAtoms[a].name {
					case "if-line":
						changed = true
						continue
					case "paragraph+if":
						a, changed = 0, true
					case "4sp-code+if":
						a, changed = 2, true
					}
					t.lines = append(t.lines, a)
				}
				switch holePrefixes[l.prefix].name {
				case "4sp-text-end":
					t.prefix, changed = 2, true
				case "text-end":
					t.prefix, changed = 1, true
				default:
					// an {% if %} whose {% end %} is a line of its own: drop that too
					var u []int
					for _, a := range t.lines {
						if lineAtoms[a].name != "end-line" {
							u = append(u, a)
						}
					}
					if changed {
						t.lines = u
					}
				}
				return t, changed
			}
			if t, ok := destmt(cur); ok {
				if tr := evalLayout(t); tr.built && tr.effect != "" && tr.class == cr.class {
					cur, cr = t, tr
				}
			}
			for changed := true; changed; {
				changed = false
				var cands []layout
				for k := range cur.lines {
					cands = append(cands, without(cur, k))
				}
				for k := range cur.lines { // an {% if %} goes with its {% end %}
					for j := k + 1; j < len(cur.lines); j++ {
						cands = append(cands, without(cur, k, j))
					}
				}
				for _, t := range cands {
					if tr := evalLayout(t); tr.built && tr.effect != "" && tr.class == cr.class {
						cur, cr, changed = t, tr, true
						break
					}
				}
			}
			if cur.macro {
				t := cur
				t.macro = false
				if tr := evalLayout(t); tr.built && tr.effect != "" && tr.class == cr.class {
					cur, cr = t, tr
				}
			}
			where := "document"
			if cur.macro {
				where = "macro-body"
			}
			o.OK = false
			o.Class = "layout:fails"
			pk := holePrefixes[cur.prefix].name
			if k, ok := prefixKind[pk]; ok {
				pk = k
			}
			after := "start of the " + where
			if len(cur.lines) > 0 {
				after = lineAtoms[cur.lines[len(cur.lines)-1]].name
			}
			switch after {
			case "heading", "quote-blank", "fence":
				after = "a block that is not a paragraph, no blank line"
			case "if-line", "end-line", "start of the macro-body":
				after = "a statement-only line"
			}
			for _, a := range cur.lines {
				if n := lineAtoms[a].name; n == "if-line" || n == "end-line" {
					after = "a statement-only line"
				}
			}
			lc := cr.lexerCtx
			if strings.Contains(lc, "code block") {
				lc = "code block"
			}
			o.Key = fmt.Sprintf("layout hole=[%s] after=[%s] in=%s lexer-context=%q commonmark=%s", pk, after, where, lc, cr.class)
			if after == "a statement-only line" {
				o.Key = fmt.Sprintf("layout hole=[indented] after=[a statement-only line, which is cut from the output] lexer-context=%q commonmark=%s", lc, cr.class)
			} else if cur.macro && strings.Contains(pk, "inline {% end %}") {
				// inside a macro the lexer saves the context at {% if %} and restores
				// it at {% end %}, whatever line the {% end %} stands on
				o.Key = fmt.Sprintf("layout in=macro-body hole follows an inline {%% end %%} whose {%% if %%} stands on another kind of line lexer-context=%q commonmark=%s", lc, cr.class)
			}
			o.Detail = fmt.Sprintf("minimal layout (effect %s):\n%s\n\nthis case: template %q (effect %s)", cr.effect, cr.detail, l.source(), r.effect)
			return o
		},
	}
}

// ---- twins ----

type twinPosition struct{ name, pre, post string }

var twinPositions = []twinPosition{
	{"paragraph", "x ", " y\n"},
	{"line-start", "", "\n"},
	{"tab-code", "\t", "\n"},
	{"4sp-code", "    ", "\n"},
	{"fenced-code", "```\n", "\n```\n"},
	{"list-item", "- ", "\n"},
	{"blockquote", "> ", "\n"},
	{"tab-code-glued", "\tx", "y\n"},
	{"4sp-code-glued", "    x", "y\n"},
}

// positionClass merges positions the same code handles.
var positionClass = map[string]string{
	"paragraph": "inside a line of text", "list-item": "inside a line of text", "blockquote": "inside a line of text",
	"line-start": "alone on its line", "tab-code": "alone on its line", "4sp-code": "alone on its line",
	"fenced-code": "alone on a line of a fenced block", "tab-code-glued": "inside an indented code line", "4sp-code-glued": "inside an indented code line",
}

type twinVariant struct {
	name   string
	prolog string
	hole   string
	files  map[string]string
}

var twinVariants = []twinVariant{
	{"macro-with-string-result", "{% macro M(s string) string %}{{ s }}{% end %}\n\n", "{{ M(s) }}", nil},
	{"macro-imported-from-txt", "{% import \"m.txt\" %}\n\n", "{{ M(s) }}", map[string]string{"m.txt": "{% macro M(s string) %}{{ s }}{% end %}"}},
	{"render-txt", "{% import \"m.txt\" %}\n\n", "{{ render \"p.txt\" }}", map[string]string{"m.txt": "{% macro M(s string) %}{{ s }}{% end %}", "p.txt": "{{ s }}"}},
	{"string-conversion-of-macro-result", "{% macro M(s string) string %}{{ s }}{% end %}\n\n", "{{ string(M(s)) }}", nil},
}

func buildMD(src string, files map[string]string, globals native.Declarations) (*scriggo.Template, error) {
	fsys := scriggo.Files{"index.md": []byte(src)}
	for n, f := range files {
		fsys[n] = []byte(f)
	}
	if globals == nil {
		globals = native.Declarations{"s": (*string)(nil)}
	}
	return scriggo.BuildTemplate(fsys, "index.md", &scriggo.BuildOptions{Globals: globals})
}

func runS(t *scriggo.Template, v string) (string, error) {
	var b bytes.Buffer
	err := t.Run(&b, map[string]any{"s": &v}, nil)
	return b.String(), err
}

func minimise(v string, same func(string) bool) string {
	rs := []rune(v)
	for changed := true; changed; {
		changed = false
		for i := range rs {
			w := string(append(append([]rune{}, rs[:i]...), rs[i+1:]...))
			if same(w) {
				rs = []rune(w)
				changed = true
				break
			}
		}
	}
	for i := range rs {
		if rs[i] == 'a' {
			continue
		}
		old := rs[i]
		rs[i] = 'a'
		if !same(string(rs)) {
			rs[i] = old
		}
	}
	return string(rs)
}

func twinSpaces(tier string) []kit.Space {
	n := 2
	if tier == "thorough" {
		n = 3
	}
	var sps []kit.Space
	for _, pos := range twinPositions {
		for _, va := range twinVariants {
			pos, va := pos, va
			variant, err1 := buildMD(va.prolog+pos.pre+va.hole+pos.post, va.files, nil)
			plain, err2 := buildMD(va.prolog+pos.pre+"{{ s }}"+pos.post, va.files, nil)
			if err1 != nil || err2 != nil {
				panic(fmt.Sprintf("harness: twin %s/%s does not build: %v %v", pos.name, va.name, err1, err2))
			}
			plainBen, _ := runS(plain, "zz")
			benOut, _ := runS(variant, "zz")
			ben := commonmark.convert([]byte(benOut))
			plainB := commonmark.convert([]byte(plainBen))
			class := func(c conv) string {
				if strings.Contains(c.code, "zz") {
					return "code"
				}
				return "text"
			}
			// semantic says whether the value stayed inert in a document whose
			// conversion with the benign value is ref
			semantic := func(out, v string, ref conv) string {
				if isBlank(v) {
					return ""
				}
				got := commonmark.convert([]byte(out))
				if !equalStrings(got.tags, ref.tags) {
					return "elements" + tagDiff(ref.tags, got.tags)
				}
				if class(ref) == "code" {
					if normPara(got.outside) != normPara(ref.outside) {
						return "text-outside-code"
					}
					return ""
				}
				if normPara(got.text) != normPara(strings.Replace(ref.text, "zz", v, 1)) {
					return "text-content"
				}
				return ""
			}
			isRender := strings.Contains(va.hole, "render")
			en := kit.NewStringsUpTo(paraCore, n)
			name := "twin " + pos.name + " " + va.name
			sps = append(sps, kit.Space{
				Name: name,
				Size: en.Size(),
				Describe: func(i uint64) any {
					return map[string]any{"template": va.prolog + pos.pre + va.hole + pos.post, "files": va.files, "s": en.At(i)}
				},
				Eval: func(i uint64) kit.Outcome {
					v := en.At(i)
					o := kit.Outcome{OK: true, Ops: 2, Class: "twin:same-as-plain-show", Nontrivial: true}
					a, err := runS(variant, v)
					b, _ := runS(plain, v)
					tmpl := va.prolog + pos.pre + va.hole + pos.post
					switch {
					case err != nil:
						o.OK = false
						o.Key = fmt.Sprintf("twin via=%s position=[%s] run-error", va.name, positionClass[pos.name])
						o.Detail = fmt.Sprintf("template %q files %v s = %q: %v", tmpl, va.files, v, err)
					case !isRender && a != b:
						// a rendered file alone on its line is cut like a statement, a
						// show is not: only macro calls are compared byte by byte
						how := "escaped-differently"
						if a == strings.Replace(plainBen, "zz", v, 1) {
							how = "not-escaped"
						}
						o.OK = false
						o.Key = fmt.Sprintf("twin via=%s position=[%s] written-differently-from-a-plain-show(%s)", va.name, positionClass[pos.name], how)
						o.Detail = fmt.Sprintf("template %q files %v\ns = %q\nwritten %q\nplain {{ s }} in the same document writes %q", tmpl, va.files, v, a, b)
					default:
						ea := semantic(a, v, ben)
						if ea != "" && (a != b || isRender) && semantic(b, v, plainB) == "" {
							o.OK = false
							o.Key = fmt.Sprintf("twin via=%s position=[%s] value-not-neutralised(commonmark: the hole is %s)", va.name, positionClass[pos.name], class(ben))
							o.Detail = fmt.Sprintf("template %q files %v\ns = %q\nwritten %q (effect %s; with s=\"zz\": %q)\nplain {{ s }} in the same document writes %q, which stays inert", tmpl, va.files, v, a, ea, benOut, b)
						}
					}
					if !o.OK {
						o.Class = "twin:fails"
					}
					return o
				},
			})
		}
	}
	return sps
}

// ---- writers ----

// lateWriter has no WriteString and copies its argument only after yielding
// the processor a few times.
type lateWriter struct{ buf []byte }

func (w *lateWriter) Write(p []byte) (int, error) {
	for k := 0; k < 3; k++ {
		runtime.Gosched()
	}
	w.buf = append(w.buf, p...)
	return len(p), nil
}

// runThroughPipe writes through an io.Pipe whose reader takes one byte at a
// time, so every Write returns long after it was called.
func runThroughPipe(t *scriggo.Template, v string) (string, error) {
	pr, pw := io.Pipe()
	var got []byte
	done := make(chan struct{})
	go func() {
		defer close(done)
		b := make([]byte, 1)
		for {
			n, err := pr.Read(b)
			got = append(got, b[:n]...)
			runtime.Gosched()
			if err != nil {
				return
			}
		}
	}()
	err := t.Run(struct{ io.Writer }{pw}, map[string]any{"s": &v}, nil)
	pw.Close()
	<-done
	return string(got), err
}

func writerSpace(tier string) kit.Space {
	n := 2
	if tier == "thorough" {
		n = 3
	}
	srcs := []string{"x {{ s }} y\n\n\t{{ s }}\n", "- {{ s }}\n\n    q{{ s }}\n\nsee http://a.com/{{ s }}\n"}
	var ts []*scriggo.Template
	for _, src := range srcs {
		t, err := buildMD(src, nil, nil)
		if err != nil {
			panic("harness: " + err.Error())
		}
		ts = append(ts, t)
	}
	en := kit.NewStringsUpTo(paraCore, n)
	const workers = 8
	return kit.Space{
		Name: "writers-without-WriteString-concurrently",
		Size: en.Size(),
		Describe: func(i uint64) any {
			var vs []string
			for g := uint64(0); g < workers; g++ {
				vs = append(vs, en.At((i+g*53)%en.Size()))
			}
			return map[string]any{"templates": srcs, "values of the 8 goroutines": vs}
		},
		Eval: func(i uint64) kit.Outcome {
			o := kit.Outcome{OK: true, Ops: workers, Nontrivial: true, Class: "writers:same-as-bytes.Buffer"}
			type res struct {
				v, want, got, how string
				err               error
			}
			out := make([]res, workers)
			var wg sync.WaitGroup
			for g := 0; g < workers; g++ {
				v := en.At((i + uint64(g)*53) % en.Size())
				t := ts[g%2]
				want, err := runS(t, v)
				out[g] = res{v: v, want: want, err: err}
				if err != nil {
					continue
				}
				wg.Add(1)
				go func(g int) {
					defer wg.Done()
					if g%4 < 2 {
						w := &lateWriter{}
						out[g].err = t.Run(w, map[string]any{"s": &v}, nil)
						out[g].got, out[g].how = string(w.buf), "a writer without WriteString that copies late"
					} else {
						out[g].got, out[g].err = runThroughPipe(t, v)
						out[g].how = "a pipe with a slow reader"
					}
				}(g)
			}
			wg.Wait()
			for g, r := range out {
				if r.err != nil || r.got != r.want {
					o.OK = false
					o.Class = "writers:differs"
					o.Key = "output-differs-through-a-writer-without-WriteString"
					o.Detail = fmt.Sprintf("template %q s = %q, goroutine %d of %d running concurrently, through %s\nto a bytes.Buffer %q\nobserved          %q (error %v)", srcs[g%2], r.v, g, workers, r.how, r.want, r.got, r.err)
					return o
				}
			}
			return o
		},
	}
}

// ---- a file rendered in a URL and then in a paragraph ----

func urlRenderSpace(tier string) kit.Space {
	n := 2
	if tier == "thorough" {
		n = 3
	}
	const mark = "\n\n@@@@\n\n"
	files := map[string]string{"p.md": "{{ s }}"}
	orders := []string{
		"u http://a.com/{{ render \"p.md\" }} v" + mark + "x {{ render \"p.md\" }} y\n",
		"[t](http://a.com/{{ render \"p.md\" }})" + mark + "x {{ render \"p.md\" }} y\n",
	}
	var ts []*scriggo.Template
	for _, src := range orders {
		t, err := buildMD(src, files, nil)
		if err != nil {
			panic("harness: " + err.Error())
		}
		ts = append(ts, t)
	}
	plain, err := buildMD("x {{ s }} y\n", nil, nil)
	if err != nil {
		panic("harness: " + err.Error())
	}
	en := kit.NewStringsUpTo(paraCore, n)
	return kit.Space{
		Name: "render-in-URL-then-in-paragraph",
		Size: en.Size() * uint64(len(ts)),
		Describe: func(i uint64) any {
			return map[string]any{"template": orders[i%uint64(len(ts))], "files": files, "s": en.At(i / uint64(len(ts)))}
		},
		Eval: func(i uint64) kit.Outcome {
			k := i % uint64(len(ts))
			v := en.At(i / uint64(len(ts)))
			o := kit.Outcome{OK: true, Ops: 2, Nontrivial: true, Class: "url-render:same-as-plain-show"}
			got, err := runS(ts[k], v)
			want, _ := runS(plain, v)
			j := strings.LastIndex(got, mark)
			if err != nil || j < 0 || got[j+len(mark):] != want {
				o.OK = false
				o.Class = "url-render:differs"
				o.Key = "file-rendered-in-a-URL-is-then-written-differently-in-a-paragraph"
				o.Detail = fmt.Sprintf("template %q files %v s = %q\nwritten %q (error %v)\nthe paragraph after the mark must be %q", orders[k], files, v, got, err, want)
			}
			return o
		},
	}
}

// ---- a Markdown macro called from an HTML file through a converter ----

func mdMacroSpace(tier string) kit.Space {
	n := 2
	if tier == "thorough" {
		n = 3
	}
	md := goldmark.New(goldmark.WithRendererOptions(html.WithUnsafe()))
	convFn := func(src []byte, out io.Writer) error { return md.Convert(src, out) }
	bodies := []named{
		{"text-only", "x {{ s }} y"},
		{"after-an-inline-element", "<i>x</i> {{ s }} y"},
		{"after-two-tags", "x<br>y<br>{{ s }} y"},
	}
	type sitee struct {
		src string
		t   *scriggo.Template
		ben conv
	}
	var sites []sitee
	for _, b := range bodies {
		src := "{% macro M(s string) markdown %}" + b.text + "{% end %}{{ M(s) }}"
		t, err := scriggo.BuildTemplate(scriggo.Files{"index.html": []byte(src)}, "index.html", &scriggo.BuildOptions{
			Globals:           native.Declarations{"s": (*string)(nil)},
			MarkdownConverter: convFn,
		})
		if err != nil {
			panic("harness: " + err.Error())
		}
		out, err := runS(t, "zz")
		if err != nil {
			panic("harness: " + err.Error())
		}
		sites = append(sites, sitee{src, t, htmlConv([]byte(out))})
	}
	en := kit.NewStringsUpTo(paraCore, n)
	ns := uint64(len(sites))
	return kit.Space{
		Name: "markdown-macro-in-HTML-file-with-converter",
		Size: en.Size() * ns,
		Describe: func(i uint64) any {
			return map[string]any{"template index.html": sites[i%ns].src, "converter": "goldmark", "s": en.At(i / ns)}
		},
		Eval: func(i uint64) kit.Outcome {
			st := sites[i%ns]
			v := en.At(i / ns)
			o := kit.Outcome{OK: true, Ops: 1, Nontrivial: true, Class: "md-macro:inert"}
			eff := func(v string) (string, string) {
				out, err := runS(st.t, v)
				if err != nil {
					return "run-error", err.Error()
				}
				got := htmlConv([]byte(out))
				if isBlank(v) {
					return "", out
				}
				if !equalStrings(got.tags, st.ben.tags) {
					return "elements" + tagDiff(st.ben.tags, got.tags), out
				}
				if g, w := normPara(got.text), normPara(strings.Replace(st.ben.text, "zz", v, 1)); g != w {
					return "text-content", out
				}
				return "", out
			}
			if hasBlankLine(v) {
				o.Class = "md-macro:blank-line(see the string spaces)"
				return o
			}
			e, out := eff(v)
			if e != "" {
				core := minimise(v, func(w string) bool { x, _ := eff(w); return x == e && !hasBlankLine(w) })
				o.OK = false
				o.Class = "md-macro:" + e
				o.Key = fmt.Sprintf("ctx=markdown-macro-in-html(show %s) value-not-neutralised", bodies[i%ns].name)
				o.Detail = fmt.Sprintf("template index.html %q with a goldmark MarkdownConverter\ns = %q (minimal %q)\noutput %q\nwith s=\"zz\" %q", st.src, v, core, out, st.ben.html)
			}
			return o
		},
	}
}

// ---- values of type native.HTML ----

var htmlTypedAlphabet = []string{"&", "*", "_", " ", "\t", "\n", "a", ";", "\\"}

func htmlTypedSpaces(tier string) []kit.Space {
	n := 3
	if tier == "thorough" {
		n = 4
	}
	var sps []kit.Space
	for _, p := range []placement{{name: "h1-html-typed-midline", pre: "x ", post: " y\n"}, {name: "h2-html-typed-linestart", pre: "", post: "\n"}} {
		p := p
		t, err := buildMD(p.pre+"{{ s }}"+p.post, nil, native.Declarations{"s": (*native.HTML)(nil)})
		if err != nil {
			panic("harness: " + err.Error())
		}
		run := func(v string) (string, error) {
			var b bytes.Buffer
			h := native.HTML(v)
			err := t.Run(&b, map[string]any{"s": &h}, nil)
			return b.String(), err
		}
		benOut, _ := run("zz")
		ben := commonmark.convert([]byte(benOut))
		empty := commonmark.convert([]byte(p.pre + p.post))
		en := kit.NewStringsUpTo(htmlTypedAlphabet, n)
		sps = append(sps, kit.Space{
			Name: p.name,
			Size: en.Size(),
			Describe: func(i uint64) any {
				return map[string]any{"template": p.pre + "{{ s }}" + p.post, "s (native.HTML)": en.At(i)}
			},
			Eval: func(i uint64) kit.Outcome {
				v := en.At(i)
				o := kit.Outcome{OK: true, Ops: 1, Nontrivial: strings.ContainsAny(v, "&*_\\"), Class: "html-typed:inert"}
				eff := func(v string) (string, string) {
					out, err := run(v)
					if err != nil {
						return "run-error", err.Error()
					}
					got := commonmark.convert([]byte(out))
					ref := ben
					if isBlank(v) && !equalStrings(got.tags, ref.tags) {
						ref = empty
					}
					if !equalStrings(got.tags, ref.tags) {
						return "elements" + tagDiff(ref.tags, got.tags), out
					}
					// the alphabet cannot spell a character reference: the text is the value
					if g, w := normPara(got.text), normPara(p.pre+v+p.post); g != w {
						return "text-content", fmt.Sprintf("%s\nexpected text %q\nobserved text %q", out, w, g)
					}
					return "", out
				}
				if hasBlankLine(v) {
					o.Class = "html-typed:blank-line(see the string spaces)"
					return o
				}
				e, out := eff(v)
				if e != "" {
					core := minimise(v, func(w string) bool { x, _ := eff(w); return x == e })
					o.OK = false
					o.Class = "html-typed:" + e
					o.Key = fmt.Sprintf("ctx=paragraph(native.HTML value) effect=%s trigger-chars=%s", e, className(strings.ReplaceAll(core, "\t", " ")))
					o.Detail = fmt.Sprintf("placement %s, template %q, s is a native.HTML\ns = %q (minimal trigger %q)\nrendered Markdown %q", p.name, p.pre+"{{ s }}"+p.post, v, core, out)
				}
				return o
			},
		})
	}
	return sps
}

// hasBlankLine reports whether a line of s other than the first and the last is blank.
func hasBlankLine(s string) bool {
	ls := strings.Split(s, "\n")
	for i := 1; i+1 < len(ls); i++ {
		if isBlank(ls[i]) {
			return true
		}
	}
	return false
}

func round2Spaces(tier string) []kit.Space {
	sps := []kit.Space{layoutSpace(tier)}
	sps = append(sps, twinSpaces(tier)...)
	sps = append(sps, writerSpace(tier), urlRenderSpace(tier), mdMacroSpace(tier))
	sps = append(sps, htmlTypedSpaces(tier)...)
	return sps
}
