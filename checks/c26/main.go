// C26 — Markdown escaping neutralises Markdown syntax.
//
// A string global is shown in a `.md` template at several placements (line
// start, mid-line, right after "1", after a blank line, inside tab- and
// 4-space-indented code blocks). The rendered Markdown is converted by goldmark
// (CommonMark defaults, raw HTML passed through so that it is visible) and the
// conversion is compared with the conversion of the same template showing the
// benign value "zz": same element structure, same AST shape, and the text
// content must be the template text with the ORIGINAL string in place of the
// show statement, after Markdown's own whitespace normalisation.
package main

import (
	"bytes"
	"fmt"
	"sort"
	"strings"
	"sync"

	"verif/kit"

	"github.com/open2b/scriggo"
	"github.com/open2b/scriggo/native"
	"github.com/yuin/goldmark"
	gast "github.com/yuin/goldmark/ast"
	"github.com/yuin/goldmark/extension"
	"github.com/yuin/goldmark/renderer/html"
	"github.com/yuin/goldmark/text"
	xhtml "golang.org/x/net/html"
)

// Markdown syntax characters (every arm of markdownEscape's switch is
// represented, plus characters it leaves alone) and three plain characters.
var paraAlphabet = []string{
	"*", "_", "`", "#", "-", "+", "=", ">", "<", "[", "]", "(", ")", "!", "\\", "&", "|", "~", ".", ":", "/", "\"", "'", ";",
	"\t", " ", "\n",
	"a", "1", "h",
}

// Inside code blocks the escaper only looks at '\n'. (It also has a case for
// a '\r' that FOLLOWS a '\n'; CR is not enumerated because goldmark, unlike the
// CommonMark specification, does not treat a lone CR as a line ending, so it
// cannot referee it.)
var codeAlphabet = paraAlphabet

// reduced alphabets for one more symbol of depth
var paraCore = []string{"*", "`", "#", "-", ">", "<", "[", "]", "\\", "&", "\t", " ", "\n", "a"}
var codeCore = []string{"`", "<", "\\", "\t", " ", "\n", "a"}

// placement is a template "pre{{ s }}post". For code placements pre is
// [par] indent lead and post is trail "\n".
type placement struct {
	name  string
	pre   string
	post  string
	code  bool
	par   string // paragraph text before the code block ("" or "p")
	lead  string // code text before the show on its line
	trail string // code text after the show on its line
	ctx   string // context named in keys; "" means paragraph (or codeblock if code)
	// marker is the container syntax at the start of pre (list bullet, quote
	// mark, heading mark): it is not text
	marker string
}

var placements = []placement{
	{name: "p1-after-blank-line", pre: "p\n\n", post: "\n"},
	{name: "p2-linestart", pre: "", post: "\n"},
	{name: "p3-linestart+text", pre: "", post: " y\n"},
	{name: "p4-midline", pre: "x ", post: " y\n"},
	{name: "p5-midline-glued", pre: "x", post: "y\n"},
	{name: "p6-after-1", pre: "1", post: "\n"},
	{name: "q1-code-tab", pre: "\t", post: "\n", code: true},
	{name: "q2-code-4sp", pre: "    ", post: "\n", code: true},
	{name: "q3-code-tab-after-par", pre: "p\n\n\t", post: "\n", code: true, par: "p"},
	{name: "q4-code-4sp-after-par", pre: "p\n\n    ", post: "\n", code: true, par: "p"},
	{name: "q5-code-tab-glued", pre: "\tx", post: "y\n", code: true, lead: "x", trail: "y"},
	{name: "q6-code-4sp-glued", pre: "    x", post: "y\n", code: true, lead: "x", trail: "y"},
}

// Paragraph positions inside containers, and a heading. They are enumerated
// over the reduced alphabet and over the letters-digits-white-space alphabet.
var containerPlacements = []placement{
	{name: "s1-list-item", pre: "- ", post: "\n", marker: "- ", ctx: "listitem"},
	{name: "s2-list-item-midline", pre: "- x ", post: " y\n", marker: "- ", ctx: "listitem"},
	{name: "s3-ordered-item", pre: "1. ", post: "\n", marker: "1. ", ctx: "listitem"},
	{name: "s4-blockquote", pre: "> ", post: "\n", marker: "> ", ctx: "blockquote"},
	{name: "s5-blockquote-midline", pre: "> x ", post: " y\n", marker: "> ", ctx: "blockquote"},
	{name: "s6-list-item-2nd-paragraph", pre: "- item\n\n  ", post: "\n", marker: "- ", ctx: "listitem"},
	{name: "s7-paragraph-2nd-line", pre: "x\n", post: "\n"},
	{name: "s8-heading", pre: "# ", post: "\n", marker: "# ", ctx: "heading"},
	{name: "s9-heading-midline", pre: "# x ", post: " y\n", marker: "# ", ctx: "heading"},
}

// Values made only of letters, digits and white space are not harmless:
// indentation, trailing spaces, tabs and line breaks are Markdown syntax too.
var wsAlphabet = []string{"a", "1", " ", "\t", "\n"}

// Placements after inline HTML in a document that begins with an indented code
// block (and, as control, the same with the code block not at the start of
// the file): the show must still be lexed in Markdown context. They are
// enumerated over the reduced alphabet.
var htmlPlacements = func() []placement {
	var ps []placement
	starts := []struct{ name, text string }{
		{"file-starts-with-tab-code", "\tcode\n\n"},
		{"file-starts-with-4sp-code", "    code\n\n"},
		{"tab-code-after-paragraph", "p\n\n\tcode\n\n"},
	}
	holes := []struct{ name, pre, post string }{
		{"0-tags", "Status:", "\n"},
		{"after-br", "Status:<br>", "\n"},
		{"after-2-br", "Status:<br>zz<br>", "\n"},
		{"after-b-element", "Status:<b>zz</b>", "\n"},
		{"after-img", "Status:<img src=\"x\">", " y\n"},
		{"after-br-and-img", "S:<br>zz<img src=\"x\">", "\n"},
	}
	for i, st := range starts {
		for j, h := range holes {
			ps = append(ps, placement{name: fmt.Sprintf("r%d%d-%s-%s", i+1, j+1, st.name, h.name), pre: st.text + h.pre, post: h.post})
		}
	}
	return ps
}()

var stripHTML = strings.NewReplacer("<br>", "", "<b>", "", "</b>", "", "<img src=\"x\">", "")

type converter struct {
	name string
	md   goldmark.Markdown
}

var commonmark = converter{"commonmark", goldmark.New(goldmark.WithRendererOptions(html.WithUnsafe()))}
var gfm = converter{"gfm", goldmark.New(goldmark.WithExtensions(extension.GFM), goldmark.WithRendererOptions(html.WithUnsafe()))}

// conv is the observable result of a conversion.
type conv struct {
	tags    []string // element structure of the HTML
	text    string   // text content of the HTML (entities resolved)
	code    string   // text inside <code> elements
	outside string   // text outside <code> elements
	ast     string   // AST shape
	html    string
}

func (c converter) convert(src []byte) conv {
	doc := c.md.Parser().Parse(text.NewReader(src))
	var h bytes.Buffer
	if err := c.md.Renderer().Render(&h, src, doc); err != nil {
		panic("goldmark render: " + err.Error())
	}
	r := htmlConv(h.Bytes())
	r.ast = astShape(doc)
	return r
}

// htmlConv reads the element structure and the text of an HTML fragment.
func htmlConv(h []byte) conv {
	r := conv{html: string(h)}
	z := xhtml.NewTokenizer(bytes.NewReader(h))
	var txt, code, outside strings.Builder
	inCode := 0
	for {
		tt := z.Next()
		if tt == xhtml.ErrorToken {
			break
		}
		tok := z.Token()
		switch tt {
		case xhtml.StartTagToken:
			s := tok.Data
			for _, a := range tok.Attr {
				s += " " + a.Key
			}
			r.tags = append(r.tags, s)
			if tok.Data == "code" {
				inCode++
			}
		case xhtml.EndTagToken:
			r.tags = append(r.tags, "/"+tok.Data)
			if tok.Data == "code" {
				inCode--
			}
		case xhtml.SelfClosingTagToken:
			r.tags = append(r.tags, tok.Data+"/")
		case xhtml.CommentToken:
			r.tags = append(r.tags, "!comment")
		case xhtml.DoctypeToken:
			r.tags = append(r.tags, "!doctype")
		case xhtml.TextToken:
			txt.WriteString(tok.Data)
			if inCode > 0 {
				code.WriteString(tok.Data)
			} else {
				outside.WriteString(tok.Data)
			}
		}
	}
	r.text = txt.String()
	r.code = code.String()
	r.outside = outside.String()
	return r
}

// astShape returns the nesting of node kinds, with runs of text nodes merged.
func astShape(n gast.Node) string {
	var b strings.Builder
	var walk func(n gast.Node)
	walk = func(n gast.Node) {
		b.WriteString(n.Kind().String())
		if n.FirstChild() == nil {
			return
		}
		b.WriteByte('(')
		lastText := false
		for c := n.FirstChild(); c != nil; c = c.NextSibling() {
			if t, ok := c.(*gast.Text); ok {
				if t.HardLineBreak() {
					b.WriteString("HardBreak ")
					lastText = false
					continue
				}
				if !lastText {
					b.WriteString("Text ")
				}
				lastText = true
				continue
			}
			if _, ok := c.(*gast.String); ok {
				if !lastText {
					b.WriteString("Text ")
				}
				lastText = true
				continue
			}
			lastText = false
			walk(c)
			b.WriteByte(' ')
		}
		b.WriteByte(')')
	}
	walk(n)
	return b.String()
}

func isBlank(s string) bool { return strings.Trim(s, " \t\r\n\u00a0") == "" }

// normPara is Markdown's whitespace normalisation of paragraph text: tabs and
// no-break spaces count as spaces, leading and trailing whitespace of every
// line is dropped, line breaks are soft, blank lines carry no text.
func normPara(s string) string {
	s = strings.NewReplacer("\u00a0", " ", "\t", " ").Replace(s)
	var out []string
	for _, ln := range strings.Split(s, "\n") {
		ln = strings.Trim(ln, " ")
		if ln != "" {
			out = append(out, ln)
		}
	}
	return strings.Join(out, "\n")
}

// normCode drops the blank lines before and after a code block's content.
func normCode(s string) string {
	lines := strings.Split(s, "\n")
	for len(lines) > 0 && isBlank(lines[0]) {
		lines = lines[1:]
	}
	for len(lines) > 0 && isBlank(lines[len(lines)-1]) {
		lines = lines[:len(lines)-1]
	}
	return strings.Join(lines, "\n")
}

// Template.Run costs far more than the escaping it drives (a new VM with its
// register stacks per call), so cases are also rendered batchSize at a time:
// one template repeats the placement batchSize times, each with its own global,
// separated by a line that no value can produce; the rendered text is split
// on the separator before it goes to the converter. buildSite verifies that a
// batch renders exactly what the single-placement template renders.
const batchSize = 64
const batchSep = "\n@@@@@@\n\n"

type site struct {
	p      placement
	tmpl   *scriggo.Template
	batch  *scriggo.Template
	benign map[string]conv // conversion with the benign value "zz", by converter name
	empty  map[string]conv // conversion of the template text alone (show removed)

	mu      sync.Mutex
	effects map[string]string // effect of values already evaluated alone
}

func buildSite(p placement) *site {
	src := p.pre + "{{ s }}" + p.post
	t, err := scriggo.BuildTemplate(scriggo.Files{"index.md": []byte(src)}, "index.md", &scriggo.BuildOptions{
		Globals: native.Declarations{"s": (*string)(nil)},
	})
	if err != nil {
		panic("harness: cannot build placement " + p.name + ": " + err.Error())
	}
	var bsrc strings.Builder
	globals := native.Declarations{}
	for k := 0; k < batchSize; k++ {
		if k > 0 {
			bsrc.WriteString(batchSep)
		}
		fmt.Fprintf(&bsrc, "%s{{ s%d }}%s", p.pre, k, p.post)
		globals[fmt.Sprintf("s%d", k)] = (*string)(nil)
	}
	bt, err := scriggo.BuildTemplate(scriggo.Files{"index.md": []byte(bsrc.String())}, "index.md", &scriggo.BuildOptions{Globals: globals})
	if err != nil {
		panic("harness: cannot build the batch template of " + p.name + ": " + err.Error())
	}
	st := &site{p: p, tmpl: t, batch: bt, benign: map[string]conv{}, empty: map[string]conv{}, effects: map[string]string{}}
	out, err := st.render("zz")
	if err != nil {
		panic("harness: benign run: " + err.Error())
	}
	if out != p.pre+"zz"+p.post {
		panic(fmt.Sprintf("harness: benign value rendered as %q", out))
	}
	for _, c := range []converter{commonmark, gfm} {
		st.benign[c.name] = c.convert([]byte(out))
		st.empty[c.name] = c.convert([]byte(p.pre + p.post))
	}
	if strings.HasPrefix(p.name, "r") {
		return st // never batched, see renderAt
	}
	// self-check of the batch rendering against the single rendering
	var probe []string
	for _, a := range paraAlphabet {
		probe = append(probe, a, a+"\n"+a, "\n\n\t"+a, " "+a+" ")
	}
	for len(probe)%batchSize != 0 {
		probe = append(probe, "zz")
	}
	for i := 0; i < len(probe); i += batchSize {
		outs, err := st.renderBatch(probe[i : i+batchSize])
		if err != nil {
			panic("harness: batch run: " + err.Error())
		}
		for k, v := range probe[i : i+batchSize] {
			single, _ := st.render(v)
			if outs[k] != single {
				panic(fmt.Sprintf("harness: placement %s value %q: batch renders %q, single renders %q", p.name, v, outs[k], single))
			}
		}
	}
	return st
}

// renderBatch renders batchSize values with one Run.
func (st *site) renderBatch(vs []string) ([]string, error) {
	vars := make(map[string]any, batchSize)
	vals := make([]string, batchSize)
	copy(vals, vs)
	for k := range vals {
		vars[fmt.Sprintf("s%d", k)] = &vals[k]
	}
	var b bytes.Buffer
	if err := st.batch.Run(&b, vars, nil); err != nil {
		return nil, err
	}
	outs := strings.Split(b.String(), batchSep)
	if len(outs) != batchSize {
		return nil, fmt.Errorf("batch rendered %d parts", len(outs))
	}
	return outs, nil
}

func (st *site) render(v string) (string, error) {
	var b bytes.Buffer
	err := st.tmpl.Run(&b, map[string]any{"s": &v}, nil)
	return b.String(), err
}

// verdict compares the conversion of the rendered document with the
// expectation. It returns "" when the property holds, otherwise a short effect
// description.
func (st *site) verdict(c converter, v, rendered string) (effect, detail string) {
	got := c.convert([]byte(rendered))
	// A string of white space only contributes no text: the reference is the
	// template text alone. Otherwise it is the template with a benign value.
	// (A white-space string may also legitimately survive as no-break spaces,
	// which is the benign shape.)
	ref := st.benign[c.name]
	if isBlank(v) && !(equalStrings(got.tags, ref.tags) && got.ast == ref.ast) {
		ref = st.empty[c.name]
	}
	if !equalStrings(got.tags, ref.tags) {
		return "elements" + tagDiff(ref.tags, got.tags), fmt.Sprintf("expected elements %v\nobserved elements %v\nhtml %q", ref.tags, got.tags, got.html)
	}
	if got.ast != ref.ast {
		return "ast-shape", fmt.Sprintf("expected AST %s\nobserved AST %s\nhtml %q", ref.ast, got.ast, got.html)
	}
	if st.p.code {
		// everything on the code lines, with the value, must be the code content
		want := normCode(st.p.lead + v + st.p.trail)
		if g := normCode(got.code); g != want {
			return "code-content", fmt.Sprintf("expected code content %q\nobserved code content %q\nhtml %q", want, g, got.html)
		}
		if g := normPara(got.outside); g != st.p.par {
			return "text-outside-code", fmt.Sprintf("expected text outside the code block %q\nobserved %q\nhtml %q", st.p.par, g, got.html)
		}
		return "", ""
	}
	if g, w := normPara(got.text), normPara(stripHTML.Replace(strings.Replace(st.p.pre, st.p.marker, "", 1))+v+stripHTML.Replace(st.p.post)); g != w {
		return "text-content", fmt.Sprintf("expected text %q\nobserved text %q\nhtml %q", w, g, got.html)
	}
	return "", ""
}

func equalStrings(a, b []string) bool {
	if len(a) != len(b) {
		return false
	}
	for i := range a {
		if a[i] != b[i] {
			return false
		}
	}
	return true
}

// tagDiff lists the start tags gained (and, when nothing is gained, lost), e.g. "+code+pre".
func tagDiff(want, got []string) string {
	cnt := map[string]int{}
	for _, t := range got {
		if !strings.HasPrefix(t, "/") {
			cnt[t]++
		}
	}
	for _, t := range want {
		if !strings.HasPrefix(t, "/") {
			cnt[t]--
		}
	}
	var keys []string
	for k := range cnt {
		keys = append(keys, k)
	}
	sort.Strings(keys)
	var b strings.Builder
	for _, k := range keys {
		if cnt[k] > 0 {
			b.WriteString("+" + k)
		}
	}
	if b.Len() == 0 {
		for _, k := range keys {
			if cnt[k] < 0 {
				b.WriteString("-" + k)
			}
		}
	}
	if b.Len() == 0 {
		return ":reordered"
	}
	if strings.Contains(b.String(), "+pre") {
		return "+code+pre" // a code block appeared; whether the paragraph was split too is secondary
	}
	return b.String()
}

// effectOf runs value v at the site and returns the effect under converter c.
func (st *site) effectOf(c converter, v string) (effect, detail, rendered string) {
	rendered, err := st.render(v)
	if err != nil {
		return "run-error", "Run: " + err.Error(), ""
	}
	effect, detail = st.verdict(c, v, rendered)
	return effect, detail, rendered
}

// minimalCore shrinks a failing value while the effect stays the same: first
// by deleting characters, then by replacing characters with 'a'. The result
// names the class of input that triggers the defect.
func (st *site) minimalCore(c converter, v, effect string) string {
	// the same few sub-values come back for every failing case: remember them
	same := func(w string) bool {
		k := c.name + "\x00" + w
		st.mu.Lock()
		e, ok := st.effects[k]
		st.mu.Unlock()
		if !ok {
			e, _, _ = st.effectOf(c, w)
			st.mu.Lock()
			st.effects[k] = e
			st.mu.Unlock()
		}
		return e == effect
	}
	rs := []rune(v)
	for changed := true; changed; {
		changed = false
		for i := 0; i < len(rs); i++ {
			w := append(append([]rune{}, rs[:i]...), rs[i+1:]...)
			if same(string(w)) {
				rs = w
				changed = true
				break
			}
		}
	}
	for i := range rs {
		if rs[i] == 'a' {
			continue
		}
		old := rs[i]
		rs[i] = 'a'
		if !same(string(rs)) {
			rs[i] = old
		}
	}
	return string(rs)
}

var charNames = map[rune]string{'*': "star", '_': "underscore", '`': "backquote", '#': "hash", '-': "minus", '+': "plus", '=': "equal",
	'>': "gt", '<': "lt", '[': "lbracket", ']': "rbracket", '(': "lparen", ')': "rparen", '!': "bang", '\\': "backslash", '&': "amp",
	'|': "pipe", '~': "tilde", '.': "dot", ':': "colon", '/': "slash", '"': "dquote", '\'': "squote", ';': "semicolon",
	'\t': "TAB", ' ': "SPACE", '\n': "NEWLINE", '\r': "CR", 'a': "letter", '1': "digit", 'h': "h"}

// className names the set of special characters of a minimal trigger (plain
// letters and digits are context, not cause).
func className(core string) string {
	seen := map[string]bool{}
	var parts []string
	for _, r := range core {
		if r == 'a' || r == '1' || r == 'h' {
			continue
		}
		n, ok := charNames[r]
		if !ok {
			n = fmt.Sprintf("U+%04X", r)
		}
		if !seen[n] {
			seen[n] = true
			parts = append(parts, n)
		}
	}
	if len(parts) == 0 {
		return "plain-text"
	}
	sort.Strings(parts)
	return strings.Join(parts, "+")
}

var gfmMu sync.Mutex
var gfmOnly = map[string]int{}

func spaces(tier string) []kit.Space {
	nPara, nCode := 3, 3
	coreN := 4
	if tier == "thorough" {
		nPara, nCode = 4, 4
		coreN = 5
	}
	_ = nCode
	var sps []kit.Space
	add := func(p placement, alpha []string, n int, tag string) {
		st := buildSite(p)
		en := kit.NewStringsUpTo(alpha, n)
		var mu sync.Mutex
		type batchRes struct {
			outs []string
			err  error
		}
		cache := map[uint64]*batchRes{}
		renderAt := func(i uint64) (string, error) {
			if strings.HasPrefix(p.name, "r") {
				// where the document starts is the point of these placements:
				// rendered one by one with the placement's own template
				return st.render(en.At(i))
			}
			b := i / batchSize
			mu.Lock()
			r := cache[b]
			mu.Unlock()
			if r == nil {
				vs := make([]string, 0, batchSize)
				for k := b * batchSize; k < (b+1)*batchSize; k++ {
					if k < en.Size() {
						vs = append(vs, en.At(k))
					} else {
						vs = append(vs, "zz")
					}
				}
				r = &batchRes{}
				r.outs, r.err = st.renderBatch(vs)
				mu.Lock()
				cache[b] = r
				mu.Unlock()
			}
			if i%batchSize == batchSize-1 {
				mu.Lock()
				delete(cache, b)
				mu.Unlock()
			}
			if r.err != nil {
				return "", r.err
			}
			return r.outs[i%batchSize], nil
		}
		sps = append(sps, kit.Space{
			Name: p.name + tag,
			Size: en.Size(),
			Describe: func(i uint64) any {
				return map[string]any{"template": p.pre + "{{ s }}" + p.post, "s": en.At(i)}
			},
			Eval: func(i uint64) kit.Outcome {
				v := en.At(i)
				o := kit.Outcome{OK: true, Ops: len(v) + 1}
				rendered, err := renderAt(i)
				if err != nil {
					return kit.Outcome{Key: "run-error place=" + p.name + " " + kit.NormMsg(err.Error()), Detail: fmt.Sprintf("template %q s=%q: %v", p.pre+"{{ s }}"+p.post, v, err), Class: "run-error", Nontrivial: true}
				}
				o.Nontrivial = rendered != p.pre+v+p.post || strings.ContainsAny(v, " \t\n\r")
				switch {
				case rendered != p.pre+v+p.post:
					o.Class = "escaped"
				case strings.ContainsAny(v, " \t\n\r"):
					o.Class = "whitespace-unescaped"
				default:
					o.Class = "plain"
				}
				if p.code {
					o.Class = "code:" + o.Class
				}
				effect, detail := st.verdict(commonmark, v, rendered)
				if effect != "" {
					core := st.minimalCore(commonmark, v, effect)
					ctx := "paragraph"
					if p.code {
						ctx = "codeblock"
					}
					if p.ctx != "" {
						ctx = p.ctx
					}
					o.OK = false
					o.Class = "fail:" + effect
					trig := className(core)
					if p.marker != "" && strings.HasPrefix(effect, "elements") && strings.Trim(core, " \t\na1h") == "" && strings.Contains(core, "\n") {
						// a line break (with or without indentation) ends or splits the
						// container: one defect, whatever the resulting element list
						effect, trig = "line-break-changes-the-block-structure", "NEWLINE"
					}
					o.Key = fmt.Sprintf("ctx=%s effect=%s trigger-chars=%s", ctx, effect, trig)
					o.Detail = fmt.Sprintf("placement %s, template %q\ns = %q (minimal trigger %q)\nrendered Markdown %q\nconverter goldmark CommonMark\n%s", p.name, p.pre+"{{ s }}"+p.post, v, core, rendered, detail)
					return o
				}
				// informational: GFM (what cmd/scriggo converts with); not part of the
				// statement; evaluated on the full-alphabet spaces only
				if tag != "" {
					return o
				}
				if e, _ := st.verdict(gfm, v, rendered); e != "" {
					core := st.minimalCore(gfm, v, e)
					gfmMu.Lock()
					gfmOnly["place="+p.name+" effect="+e+" trigger-chars="+className(core)]++
					gfmMu.Unlock()
					o.Class += "+gfm-only-deviation"
				}
				return o
			},
		})
	}
	for _, p := range placements {
		if p.code {
			add(p, codeAlphabet, nCode, "")
		} else {
			add(p, paraAlphabet, nPara, "")
		}
	}
	for _, p := range htmlPlacements {
		add(p, paraCore, coreN-1, ".core")
	}
	for _, p := range containerPlacements {
		add(p, paraCore, coreN-1, ".core")
	}
	for _, p := range append(append([]placement{}, placements[:6]...), containerPlacements...) {
		wsN := coreN + 1 // quick 5: four leading spaces and a letter, "a  \nb"; thorough 6
		add(p, wsAlphabet, wsN, ".ws")
	}
	for _, p := range placements {
		if p.code {
			add(p, codeCore, coreN+1, ".core")
		} else {
			add(p, paraCore, coreN, ".core")
		}
	}
	return append(sps, round2Spaces(tier)...)
}

func main() {
	kit.Main(&kit.Check{
		ID:    "C26",
		Level: "model_checking",
		Rule: "every string up to the tier's length over 30 characters (all arms of markdownEscape's switch + unescaped punctuation + tab/space/newline + a,1,h) shown at 6 paragraph placements and 6 indented-code placements, and (reduced alphabet, one symbol less) at 18 placements after 0-2 inline HTML tags in documents that begin with an indented code block or have it after a paragraph, plus one/two more symbols of depth over reduced alphabets (\".core\" spaces); " +
			"Round 2: the reduced alphabet and a letters-digits-white-space alphabet (to length 5/6) at 9 positions inside list items, block quotes, a second paragraph line and headings; 'layouts' = every sequence of up to 2/3 of 13 line kinds followed by a hole line with one of 12 prefixes, as a document and as a macro body, 6 probe values each, goldmark deciding whether the hole is code or text and the lexer's context read from the tree; 'twin' spaces = macros with string result, macros imported from a .txt file, a rendered .txt file and string(M(s)) at 9 positions against a plain {{ s }} in the same document; the same shows through writers without WriteString (a late-copying writer and a pipe with a slow reader), 8 goroutines at a time; a file rendered in a URL and then in a paragraph; a Markdown macro called from an HTML file through a converter; values of type native.HTML. " +
			"non-trivial = the escaper changed the string or the string holds whitespace (the cases where Markdown's block structure is at stake); every index is a distinct (placement, string)",
		Assumptions: []string{
			"reference converter: goldmark v1.7.16, CommonMark defaults, html.WithUnsafe so raw HTML is visible; its HTML is tokenised with x/net/html",
			"whitespace normalisation applied to both sides: tab and U+00A0 count as space, per-line trim, soft line breaks, blank lines carry no text",
			"code blocks: blank lines before/after the block are not content (CommonMark 4.4)",
			"GFM (what cmd/scriggo uses) is evaluated too (full-alphabet spaces) but only reported in coverage.gfm_only_deviations, the statement names CommonMark",
			"cases are rendered 64 at a time by a template that repeats the placement 64 times between separator lines (a self-check at start-up compares it with the single-placement template on ~120 values per placement); failing cases are re-rendered alone for minimisation",
			"strings longer than the bound, tables, and Markdown typed values are not explored",
		},
		Spaces: spaces,
		Extra: func(string) map[string]any {
			gfmMu.Lock()
			defer gfmMu.Unlock()
			return map[string]any{"gfm_only_deviations": gfmOnly}
		},
	})
}
