// C27 — Printing a parsed syntax tree gives source that parses back to the same tree.
//
// Sources (an expression grammar, statements in Go and template form, the
// template corpus) are parsed through the public API (BuildTemplate with an
// UnexpandedTransformer that stops the build). For every node of the tree
// whose type declares its own String method, String() is parsed again —
// expressions inside "{{ }}", statements alone inside "{% %}" — and the new tree must equal the original one, ignoring positions
// and parenthesis counts.
package main

import (
	"fmt"
	goast "go/ast"
	goparser "go/parser"
	gotoken "go/token"
	"reflect"
	"strings"

	"verif/gen/astgen"
	"verif/kit"
	"verif/oracle/asteq"

	"github.com/open2b/scriggo/ast"
)

var cmpOpt = asteq.Options{Positions: false, Parenthesis: false}

// ownString is the set of ast types that declare a String method themselves
// (every node also gets Position.String promoted, which is not a source form).
var ownString = func() map[string]bool {
	fset := gotoken.NewFileSet()
	f, err := goparser.ParseFile(fset, "/repo/ast/ast.go", nil, 0)
	if err != nil {
		panic("harness: cannot parse /repo/ast/ast.go: " + err.Error())
	}
	m := map[string]bool{}
	for _, d := range f.Decls {
		fd, ok := d.(*goast.FuncDecl)
		if !ok || fd.Recv == nil || fd.Name.Name != "String" || len(fd.Recv.List) != 1 {
			continue
		}
		t := fd.Recv.List[0].Type
		if s, ok := t.(*goast.StarExpr); ok {
			t = s.X
		}
		if id, ok := t.(*goast.Ident); ok {
			m[id.Name] = true
		}
	}
	if !m["BinaryOperator"] || !m["Var"] {
		panic("harness: String methods not found in ast.go")
	}
	return m
}()

type stringer interface{ String() string }

func safeString(n any) (s string, panicked string) {
	defer func() {
		if e := recover(); e != nil {
			panicked = fmt.Sprint(e)
		}
	}()
	return n.(stringer).String(), ""
}

// ---- descriptors for keys ----

func isAtom(e any) bool {
	switch e.(type) {
	case *ast.Identifier, *ast.BasicLiteral:
		return true
	}
	return false
}

func childKind(n any) string { return nodeKind(n) }

// nodeKind is the coarse description of a node in a key.
func nodeKind(n any) string {
	switch c := n.(type) {
	case *ast.ChanType:
		return "ChanType(" + c.Direction.String() + ")"
	case *ast.Func:
		return funcKind(c)
	case *ast.FuncType:
		k := "func"
		if c.Macro {
			k = "macro"
		}
		if len(c.Result) == 0 {
			return "FuncType(" + k + ", no result)"
		}
		return "FuncType(" + k + ", with result)"
	case *ast.CompositeLiteral:
		if c.Type == nil {
			return "CompositeLiteral(elided type)"
		}
		return "CompositeLiteral"
	}
	return asteq.Kind(n)
}

func funcKind(f *ast.Func) string {
	switch {
	case f.Type != nil && f.Type.Macro:
		return "Func(macro declaration)"
	case f.Ident == nil:
		return "Func(literal)"
	}
	return "Func(declaration)"
}

// operandCategory is the class of a child of an expression that is not a type.
func operandCategory(n any) string {
	switch n.(type) {
	case *ast.UnaryOperator, *ast.BinaryOperator:
		// a default expression at the right edge of an operator expression
		// extends to the right as far as possible when printed without parentheses
		for e := n; ; {
			switch x := e.(type) {
			case *ast.UnaryOperator:
				e = x.Expr
				continue
			case *ast.BinaryOperator:
				e = x.Expr2
				continue
			case *ast.Default:
				return "operator-ending-in-Default"
			}
			break
		}
		return "operator"
	case *ast.SliceType, *ast.MapType, *ast.ArrayType, *ast.ChanType, *ast.FuncType, *ast.StructType, *ast.Interface:
		return "type-expression"
	}
	return childKind(n)
}

func isTypeNode(n any) bool {
	switch n.(type) {
	case *ast.SliceType, *ast.MapType, *ast.ArrayType, *ast.ChanType, *ast.FuncType, *ast.StructType:
		return true
	}
	return false
}

// describe names a failing node: its kind, its operator where that is the
// point, and its non-atomic direct children.
func describe(n ast.Node) string {
	var kids []string
	childKind := childKind
	if u, ok := n.(*ast.UnaryOperator); !isTypeNode(n) && !(ok && u.Op == ast.OperatorReceive) {
		childKind = operandCategory
	}
	v := reflect.ValueOf(n).Elem()
	t := v.Type()
	for i := 0; i < t.NumField(); i++ {
		f := t.Field(i)
		if !f.IsExported() || f.Name == "Position" || f.Name == "IR" {
			continue
		}
		fv := v.Field(i)
		switch fv.Kind() {
		case reflect.Interface, reflect.Ptr:
			if fv.IsNil() || !fv.CanInterface() {
				continue
			}
			if _, ok := fv.Interface().(ast.Node); ok && !isAtom(fv.Interface()) {
				if _, isPos := fv.Interface().(*ast.Position); !isPos {
					kids = append(kids, f.Name+"="+childKind(fv.Interface()))
				}
			}
		case reflect.Slice:
			seen := map[string]bool{}
			for k := 0; k < fv.Len(); k++ {
				el := fv.Index(k)
				if (el.Kind() == reflect.Interface || el.Kind() == reflect.Ptr) && !el.IsNil() && el.CanInterface() {
					if _, ok := el.Interface().(ast.Node); ok && !isAtom(el.Interface()) {
						d := f.Name + "[]=" + childKind(el.Interface())
						if !seen[d] {
							seen[d] = true
							kids = append(kids, d)
						}
					}
				}
			}
		}
	}
	head := asteq.Kind(n)
	switch x := n.(type) {
	case *ast.Selector:
		if _, ok := x.Expr.(*ast.BasicLiteral); ok {
			kids = append(kids, "Expr=literal")
		}
	case *ast.Call:
		if n := len(x.Args); x.IsVariadic && n > 0 {
			if _, ok := x.Args[n-1].(*ast.BasicLiteral); ok {
				kids = append(kids, "Args[]=literal followed by ...")
			}
		}
	case *ast.UnaryOperator:
		head += "(" + strings.TrimSpace(x.Op.String()) + ")"
	case *ast.BinaryOperator:
		if len(kids) == 0 {
			head += "(" + x.Op.String() + ")"
		}
	case *ast.Assignment:
		switch {
		case x.Type <= ast.AssignmentDeclaration:
			head += "(= :=)"
		case x.Type <= ast.AssignmentModulo:
			head += "(+= -= *= /= %=)"
		case x.Type <= ast.AssignmentRightShift:
			head += "(&= |= ^= &^= <<= >>=)"
		default:
			head += "(++ --)"
		}
		if len(x.Lhs) > 1 || len(x.Rhs) > 1 {
			head += "(multiple)"
		}
	case *ast.Var:
		if len(x.Lhs) > 1 {
			head += "(multiple names)"
		}
	case *ast.ChanType, *ast.Func, *ast.FuncType:
		head = nodeKind(n)
	case *ast.CompositeLiteral:
		head = nodeKind(n)
		if len(x.KeyValues) > 0 {
			head += "(with elements)"
		}
	case *ast.Import:
		if x.For != nil {
			head += "(for)"
		}
	case *ast.TypeAssertion:
		if x.Type == nil {
			head += "(.(type))"
		}
		if _, ok := x.Expr.(*ast.BasicLiteral); ok {
			kids = append(kids, "Expr=literal")
		}
	}
	if _, isExpr := n.(ast.Expression); isExpr && len(kids) > 0 {
		if _, isFunc := n.(*ast.Func); !isFunc {
			head += " " + strings.Join(kids, " ")
		}
	}
	return head
}

// ---- the round trip ----

type verdict struct {
	effect string // "" = round trip holds
	detail string
}

// exprRoundTrip prints e and parses the result inside {{ }}.
func exprRoundTrip(e ast.Expression) verdict {
	s, p := safeString(e)
	if p != "" {
		return verdict{"String-panics", "String() panicked: " + p}
	}
	c := astgen.ExprCase(s)
	t2, err := astgen.ParseUnexpanded(c)
	if err != nil {
		return verdict{"reparse-syntax-error", fmt.Sprintf("String() = %q\nparsing {{ %s }}: %v", s, s, err)}
	}
	var e2 ast.Expression
	if len(t2.Nodes) == 1 {
		if sh, ok := t2.Nodes[0].(*ast.Show); ok && len(sh.Expressions) == 1 {
			e2 = sh.Expressions[0]
		}
	}
	if e2 == nil {
		return verdict{"reparsed-as-other-nodes", fmt.Sprintf("String() = %q\n{{ %s }} does not parse to one show of one expression", s, s)}
	}
	a, b := asteq.Dump(e, cmpOpt), asteq.Dump(e2, cmpOpt)
	if la, lb, differ := asteq.Diff(a, b); differ {
		return verdict{diffEffect(e, e2, la, lb), fmt.Sprintf("String() = %q\nfirst difference: original %s | reparsed %s", s, la, lb)}
	}
	return verdict{}
}

// mergedEffect folds the ways of not parsing back to the same expression into one.
func mergedEffect(e string) string {
	if e == "reparse-syntax-error" || e == "reparsed-as-other-nodes" || strings.HasPrefix(e, "reparsed-tree-differs(as ") {
		return "not-reparsed-as-the-same-expression"
	}
	return e
}

// simplified returns a copy of e whose non-atomic children that do not
// matter for the failure are replaced by the identifier "a", so that the key
// names only what causes the failure.
func simplified(e ast.Expression, effect string) ast.Expression {
	v := reflect.ValueOf(e)
	if v.Kind() != reflect.Ptr || v.IsNil() {
		return e
	}
	cp := reflect.New(v.Elem().Type())
	cp.Elem().Set(v.Elem())
	cur := cp.Interface().(ast.Expression)
	atom := func() reflect.Value {
		return reflect.ValueOf(ast.NewIdentifier(&ast.Position{Line: 1, Column: 1}, "a"))
	}
	same := func() bool { return mergedEffect(exprRoundTrip(cur).effect) == mergedEffect(effect) }
	t := cp.Elem().Type()
	exprType := reflect.TypeOf((*ast.Expression)(nil)).Elem()
	for i := 0; i < t.NumField(); i++ {
		f := t.Field(i)
		if !f.IsExported() || f.Name == "IR" {
			continue
		}
		fv := cp.Elem().Field(i)
		switch {
		case f.Type == exprType:
			if fv.IsNil() || isAtom(fv.Interface()) {
				continue
			}
			old := reflect.ValueOf(fv.Interface())
			fv.Set(atom())
			if !same() {
				fv.Set(old)
			}
		case f.Type.Kind() == reflect.Slice && f.Type.Elem() == exprType:
			ns := reflect.MakeSlice(f.Type, fv.Len(), fv.Len())
			reflect.Copy(ns, fv)
			fv.Set(ns)
			for k := 0; k < ns.Len(); k++ {
				if ns.Index(k).IsNil() || isAtom(ns.Index(k).Interface()) {
					continue
				}
				old := reflect.ValueOf(ns.Index(k).Interface())
				ns.Index(k).Set(atom())
				if !same() {
					ns.Index(k).Set(old)
				}
			}
		}
	}
	return cur
}

// checkTree round-trips every node of tree that has its own String method and
// returns the failures of the minimal failing nodes (a node with a failing
// descendant is not blamed).
func checkTree(c astgen.Case, tree *ast.Tree) (fs []astgen.Finding, checked int) {
	src := c.Files[c.Entry]
	refs := asteq.Reachable(tree, false)
	tainted := map[ast.Node]bool{}
	// reverse pre-order: descendants before ancestors
	for i := len(refs) - 1; i >= 0; i-- {
		r := refs[i]
		n := r.Node
		taint := func() {
			if r.Parent != nil {
				tainted[r.Parent] = true
			}
		}
		if tainted[n] {
			taint()
			continue
		}
		if !ownString[asteq.Kind(n)] {
			continue
		}
		var v verdict
		var desc string
		switch x := n.(type) {
		case *ast.Text:
			continue // String is the text itself
		case *ast.Identifier:
			if r.Owner == "Import.Ident" {
				continue // the name of an import ("." and "_" included) is not an expression
			}
			v = exprRoundTrip(x)
		case *ast.Assignment:
			if r.Owner == "ForRange.Assignment" {
				continue // a range clause is not a statement: String drops "range"
			}
			if containsTypeGuard(n) {
				continue
			}
			v = stmtRoundTrip(c, n)
		case *ast.TypeAssertion:
			if x.Type == nil {
				continue // x.(type) exists only inside a type switch guard
			}
			v = exprRoundTrip(x)
		case *ast.Func:
			if x.Ident != nil || (x.Type != nil && x.Type.Macro) {
				v = standaloneStmt(x, "{% ", " %}")
			} else {
				v = exprRoundTrip(x)
			}
		case *ast.Block:
			v = standaloneStmt(x, "{%% ", " %%}")
		case ast.Expression:
			v = exprRoundTrip(x)
		default:
			if containsTypeGuard(n) {
				continue
			}
			v = stmtRoundTrip(c, n)
		}
		checked++
		if v.effect == "" {
			continue
		}
		if _, isExpr := n.(ast.Expression); !isExpr || r.Owner == "Func.Body" {
			if v.effect == "reparse-syntax-error" || v.effect == "reparsed-as-other-nodes" || strings.HasPrefix(v.effect, "reparsed-tree-differs(as ") {
				v.effect = "not-reparsed-as-the-same-statement"
			}
		}
		if e, ok := n.(ast.Expression); ok && v.effect != "String-panics" {
			if _, isFunc := n.(*ast.Func); !isFunc {
				desc = describe(simplified(e, v.effect))
			}
			if v.effect == "reparse-syntax-error" || v.effect == "reparsed-as-other-nodes" || strings.HasPrefix(v.effect, "reparsed-tree-differs(as ") {
				v.effect = "not-reparsed-as-the-same-expression"
			}
		}
		if desc == "" {
			desc = describe(n)
		}
		fs = append(fs, astgen.Finding{
			Key:    v.effect + " node=" + desc,
			Detail: fmt.Sprintf("template %s: %q\nnode %s at %s (%s)\n%s", c.Entry, clip(src), asteq.Kind(n), posString(n), r.Owner, v.detail),
		})
		taint()
	}
	return astgen.Distinct(fs), checked
}

func clip(s string) string {
	if len(s) > 300 {
		return s[:300] + "…"
	}
	return s
}

func posString(n ast.Node) string {
	if asteq.IsNilNode(n) || n.Pos() == nil {
		return "?"
	}
	return n.Pos().String()
}

func containsTypeGuard(n ast.Node) bool {
	for _, r := range asteq.Reachable(n, false) {
		if ta, ok := r.Node.(*ast.TypeAssertion); ok && ta.Type == nil {
			return true
		}
	}
	return false
}

// standaloneStmt parses String() as the only statement of a template; used for
// nodes whose String is a description (Func, Block).
func standaloneStmt(n ast.Node, open, close string) verdict {
	s, p := safeString(n)
	if p != "" {
		return verdict{"String-panics", "String() panicked: " + p}
	}
	c := astgen.Case{Entry: "index.html", Files: map[string]string{"index.html": open + s + close}}
	t2, err := astgen.ParseUnexpanded(c)
	if err != nil {
		return verdict{"reparse-syntax-error", fmt.Sprintf("String() = %q\nparsing %s%s%s: %v", s, open, s, close, err)}
	}
	var got ast.Node
	if len(t2.Nodes) == 1 {
		got = t2.Nodes[0]
		if st, ok := got.(*ast.Statements); ok && len(st.Nodes) == 1 {
			got = st.Nodes[0]
		}
	}
	if got == nil {
		return verdict{"reparsed-as-other-nodes", fmt.Sprintf("String() = %q", s)}
	}
	if la, lb, differ := asteq.Diff(asteq.Dump(n, cmpOpt), asteq.Dump(got, cmpOpt)); differ {
		return verdict{diffEffect(n, got, la, lb), fmt.Sprintf("String() = %q\nfirst difference: original %s | reparsed %s", s, la, lb)}
	}
	return verdict{}
}

// stmtRoundTrip parses String() of statement n as the only statement of a
// template of the same format ("goto" needs a function body around it) and
// compares the statement parsed with n. A Show's context is decided by where
// it stands, not by its source form, so it is not compared.
func stmtRoundTrip(c astgen.Case, n ast.Node) verdict {
	s, p := safeString(n)
	if p != "" {
		return verdict{"String-panics", "String() panicked: " + p}
	}
	src2 := "{% " + s + " %}"
	if _, ok := n.(*ast.Goto); ok {
		src2 = "{%% _ = func() { " + s + " } %%}"
	}
	t2, err := astgen.ParseUnexpanded(astgen.Case{Entry: c.Entry, Files: map[string]string{c.Entry: src2}})
	if err != nil {
		return verdict{"reparse-syntax-error", fmt.Sprintf("String() = %q\nparsing %s: %v", s, src2, err)}
	}
	var got ast.Node
	if len(t2.Nodes) == 1 {
		got = t2.Nodes[0]
		if _, ok := n.(*ast.Goto); ok {
			got = nil
			if st, ok := t2.Nodes[0].(*ast.Statements); ok && len(st.Nodes) == 1 {
				if as, ok := st.Nodes[0].(*ast.Assignment); ok && len(as.Rhs) == 1 {
					if f, ok := as.Rhs[0].(*ast.Func); ok && f.Body != nil && len(f.Body.Nodes) == 1 {
						got = f.Body.Nodes[0]
					}
				}
			}
		}
	}
	if got == nil {
		return verdict{"reparsed-as-other-nodes", fmt.Sprintf("String() = %q\n%s does not parse to one statement", s, src2)}
	}
	a, b := asteq.Dump(n, cmpOpt), asteq.Dump(got, cmpOpt)
	if _, ok := n.(*ast.Show); ok {
		a, b = dropPath(a, ".Context"), dropPath(b, ".Context")
	}
	if la, lb, differ := asteq.Diff(a, b); differ {
		return verdict{diffEffect(n, got, la, lb), fmt.Sprintf("String() = %q\nfirst difference: original %s | reparsed %s", s, la, lb)}
	}
	return verdict{}
}

func dropPath(ls []asteq.Line, path string) []asteq.Line {
	var out []asteq.Line
	for _, l := range ls {
		if l.Path != path {
			out = append(out, l)
		}
	}
	return out
}

// diffEffect names a tree difference by where it is: the kind of the new root
// when the root changed, otherwise the field that holds the first difference.
func diffEffect(orig, got any, la, lb asteq.Line) string {
	if k1, k2 := asteq.Kind(orig), asteq.Kind(got); k1 != k2 {
		return "reparsed-tree-differs(as " + k2 + ")"
	}
	owner := la.Owner
	if owner == "" {
		owner = lb.Owner
	}
	return "reparsed-tree-differs(at " + owner + ")"
}

const slots = 6

func caseSpace(name string, cases []astgen.Case, nslots int) kit.Space {
	return astgen.SlotSpace(name, len(cases), nslots,
		func(i int) any {
			c := cases[i]
			return map[string]any{"name": c.Name, "entry": c.Entry, "source": c.Files[c.Entry]}
		},
		func(i int) astgen.Result {
			c := cases[i]
			tree, err := astgen.ParseUnexpanded(c)
			if err != nil {
				if strings.Contains(err.Error(), "BuildTemplate panicked") {
					return astgen.Result{Class: "source-makes-parser-panic(not this property)"}
				}
				return astgen.Result{Class: "source-rejected"}
			}
			fs, checked := checkTree(c, tree)
			r := astgen.Result{Findings: fs, Ops: checked, Nontrivial: checked > 0, Class: "round-trip-holds"}
			if len(fs) > 0 {
				r.Class = "round-trip-fails"
			}
			return r
		})
}

func spaces(tier string) []kit.Space {
	exprs := astgen.Expressions(tier)
	ecs := make([]astgen.Case, len(exprs))
	for i, e := range exprs {
		ecs[i] = astgen.ExprCase(e)
	}
	return []kit.Space{
		caseSpace("1-expressions", ecs, 2),
		caseSpace("2-statements", astgen.Statements(tier), slots),
		caseSpace("3-corpus", astgen.Corpus(), slots),
	}
}

func main() {
	kit.Main(&kit.Check{
		ID:    "C27",
		Level: "model_checking",
		Rule: "expression grammar (all unary/binary operators incl. and/or/not/contains, calls, index, slicing, selectors, assertions, conversions, composite and function literals, default, render, every type form) complete to depth 1 over 2 leaves, depth 2 one hole at a time + all operator pairs, depth 3 chains of one-hole contexts (thorough: full depth-2 cross product of two-hole productions); statements in Go form ({%% %%}, top level and inside a function literal) and template form, each hole filled with 15 expression / 9 type shapes; every template of /repo/test/compare/testdata. " +
			"Every node whose type declares String is round-tripped; a case is non-trivial when at least one node was round-tripped; index = (source, finding slot): slot k reports the k-th distinct failing key of the source so that one defect cannot hide another",
		Assumptions: []string{
			"trees come from BuildTemplate(UnexpandedTransformer), so program files (package/func declarations) are not covered; Go-form statements are covered through {%% %%} blocks",
			"equality = deterministic reflection dump ignoring *ast.Position and parenthesis counts; nil and empty slices are equal",
			"expressions are re-parsed alone inside {{ }}; statements are re-parsed alone as {% String() %} in a template of the same format (goto inside a function literal); a Show's Context is not compared; x.(type) and statements containing it are skipped (valid only in a type-switch guard); Text is skipped (String is the text)",
			"a node with a failing descendant is not blamed; the key describes the minimal failing node after replacing irrelevant children by an identifier",
		},
		Spaces: spaces,
	})
}
