package main

// URL attributes rendered as a SEQUENCE of shows and literal texts. The
// renderer keeps state between the parts of one URL (in the query, remove the
// next question mark, add an ampersand): after ANY prefix of parts the next
// shown value must decode back and the literal parts must still be there.
//
// The part a value or literal contributed is found without a model of the
// renderer: the template is also rendered cut after each part, and the
// rendering of k+1 parts must extend the rendering of k parts.

import (
	"bytes"
	"fmt"
	"html"
	"net/url"
	"strings"
	"sync"

	"verif/kit"
	"verif/oracle/htmltok"

	"github.com/open2b/scriggo"
	"github.com/open2b/scriggo/native"
	xhtml "golang.org/x/net/html"
)

type urlAttr struct {
	name      string
	key       string // attribute name
	pre, post string
	tokens    int // tokens of pre+post
	unquoted  bool
}

var urlAttrs = []urlAttr{
	{"href, double quoted", "href", `<a href="`, `">x</a>`, 3, false},
	{"href, unquoted", "href", `<a href=`, `>x</a>`, 3, true},
	{"src, single quoted", "src", `<img src='`, `'>`, 1, false},
	{"action, double quoted", "action", `<form action="`, `"></form>`, 2, false},
}

var srcsetAttr = urlAttr{"srcset, double quoted", "srcset", `<img srcset="`, `">`, 1, false}

type urlValue struct{ s, class string }

var urlValues = []urlValue{
	{"plain", "plain"}, {"p?q", "contains ?"}, {"p?", "ends with ?"}, {"R&D", "contains &"}, {"a+b", "contains +"}, {"50%", "contains %"},
	{"%41", "is a percent-escape"}, {"k=v", "contains ="}, {"a#b", "contains #"}, {"a b", "contains a space"}, {"?s", "starts with ?"}, {"&t", "starts with &"}, {"R&D+x", "contains & and +"},
}

// a literal is written src in the template and is txt once the attribute value is decoded
type urlLiteral struct{ src, txt string }

var urlLiterals = []urlLiteral{{"?", "?"}, {"&amp;", "&"}, {"?x=", "?x="}, {"&amp;x=", "&x="}, {"/", "/"}, {"#", "#"}, {"x", "x"}}

// part of a URL: a show (val >= 0) or a literal
type urlPart struct {
	val int
	lit urlLiteral
}

type seqTmpl struct {
	once sync.Once
	t    *scriggo.Template
	err  error
}

var seqTmpls sync.Map

// seqTemplate builds attr with the given parts; the k-th show is {{ vk }}.
func seqTemplate(a urlAttr, parts []urlPart) (*scriggo.Template, string) {
	var b strings.Builder
	b.WriteString(a.pre)
	n := 0
	for _, p := range parts {
		if p.val >= 0 {
			fmt.Fprintf(&b, "{{ v%d }}", n)
			n++
		} else {
			b.WriteString(p.lit.src)
		}
	}
	b.WriteString(a.post)
	src := b.String()
	e, _ := seqTmpls.LoadOrStore(src, &seqTmpl{})
	st := e.(*seqTmpl)
	st.once.Do(func() {
		st.t, st.err = scriggo.BuildTemplate(scriggo.Files{"index.html": []byte(src)}, "index.html", &scriggo.BuildOptions{Globals: native.Declarations{
			"v0": (*string)(nil), "v1": (*string)(nil), "v2": (*string)(nil), "v3": (*string)(nil), "v4": (*string)(nil)}})
	})
	if st.err != nil {
		panic("C07 url sequences: " + src + ": " + st.err.Error())
	}
	return st.t, src
}

// renderSeq returns the content of the attribute (between pre and post).
func renderSeq(a urlAttr, parts []urlPart, value func(int) string) (content string, out []byte, src string, err error) {
	t, src := seqTemplate(a, parts)
	vars := map[string]any{}
	n := 0
	for _, p := range parts {
		if p.val >= 0 {
			vars[fmt.Sprintf("v%d", n)] = value(p.val)
			n++
		}
	}
	var b bytes.Buffer
	if err := t.Run(&b, vars, nil); err != nil {
		return "", b.Bytes(), src, err
	}
	out = b.Bytes()
	if !bytes.HasPrefix(out, []byte(a.pre)) || !bytes.HasSuffix(out, []byte(a.post)) || len(out) < len(a.pre)+len(a.post) {
		return "", out, src, fmt.Errorf("the static text around the URL changed")
	}
	return string(out[len(a.pre) : len(out)-len(a.post)]), out, src, nil
}

// mergeLiterals joins adjacent literals: they are one text of the template.
func mergeLiterals(parts []urlPart) []urlPart {
	var out []urlPart
	for _, p := range parts {
		if n := len(out); p.val < 0 && n > 0 && out[n-1].val < 0 {
			out[n-1].lit = urlLiteral{out[n-1].lit.src + p.lit.src, out[n-1].lit.txt + p.lit.txt}
			continue
		}
		out = append(out, p)
	}
	return out
}

type prefixRes struct {
	content, src string
	out          []byte
	err          error
}

var prefixMemo sync.Map

// renderPrefix is renderSeq, remembered for proper prefixes: consecutive
// cases share them.
func renderPrefix(a urlAttr, parts []urlPart, value func(int) string, memo bool) (string, []byte, string, error) {
	if !memo {
		return renderSeq(a, parts, value)
	}
	var kb strings.Builder
	kb.WriteString(a.pre)
	for _, p := range parts {
		if p.val >= 0 {
			kb.WriteString("\x00" + value(p.val) + "\x00")
		} else {
			kb.WriteString(p.lit.src)
		}
	}
	key := kb.String()
	if r, ok := prefixMemo.Load(key); ok {
		pr := r.(*prefixRes)
		return pr.content, pr.out, pr.src, pr.err
	}
	pr := &prefixRes{}
	pr.content, pr.out, pr.src, pr.err = renderSeq(a, parts, value)
	prefixMemo.Store(key, pr)
	return pr.content, pr.out, pr.src, pr.err
}

func position(urlSoFar string) string {
	switch {
	case strings.Contains(urlSoFar, "#"):
		return "fragment"
	case strings.Contains(urlSoFar, "?"):
		return "query"
	}
	return "path"
}

// judgeSeq walks the parts. set is true for srcset (a comma in a literal
// starts the next URL).
func judgeSeq(a urlAttr, parts []urlPart, values []urlValue, set bool) kit.Outcome {
	parts = mergeLiterals(parts)
	value := func(i int) string { return values[i].s }
	fail := func(key, detail string, out []byte, src string) kit.Outcome {
		var vs []string
		for _, p := range parts {
			if p.val >= 0 {
				vs = append(vs, fmt.Sprintf("%q", values[p.val].s))
			}
		}
		return kit.Outcome{Key: key, Class: "fail", Nontrivial: true,
			Detail: fmt.Sprintf("file index.html = %q with the shown strings %s\nrendered %q\n%s", src, strings.Join(vs, ", "), out, detail)}
	}
	prev, urlSoFar := "", ""
	shows, excluded := 0, false
	var lastOut []byte
	lastSrc := ""
	var segs []string // decoded segment of every part
	for k := range parts {
		content, out, src, err := renderPrefix(a, parts[:k+1], value, k+1 < len(parts))
		if err != nil {
			return fail("url-seq|run-error:"+kit.NormMsg(err.Error()), "Run: "+err.Error(), out, src)
		}
		if !strings.HasPrefix(content, prev) {
			return fail("url-seq|a later part changes what was rendered before it", fmt.Sprintf("with %d parts the URL is %q, with one part less %q", k+1, content, prev), out, src)
		}
		seg := html.UnescapeString(content[len(prev):])
		prev = content
		lastOut, lastSrc = out, src
		p := parts[k]
		state := position(urlSoFar)
		after := state != "path" && k > 0 && parts[k-1].val >= 0
		if after {
			state = "query or fragment, directly after a shown value"
		}
		if p.val < 0 {
			L := p.lit.txt
			inQ := position(urlSoFar) != "path"
			sepEnded := strings.HasSuffix(urlSoFar, "?") || strings.HasSuffix(urlSoFar, "&")
			ok := seg == L
			lost := false
			if !ok && inQ {
				if strings.HasPrefix(L, "?") {
					rest := L[1:]
					switch {
					case seg == "&"+rest:
						ok = true // the documented rewriting of ? to &
					case seg == rest && (sepEnded || strings.HasPrefix(rest, "&")):
						ok = true // a separator is already there
					case seg == rest:
						lost = true
					}
				} else if !strings.HasPrefix(L, "&") && seg == "&"+L {
					ok = true // an ampersand is inserted after a shown value that has a query
				}
			}
			if lost {
				return fail("url-seq|the literal ? is dropped and nothing separates what follows",
					fmt.Sprintf("part %d, the literal %q, is rendered as %q after %q", k+1, L, seg, urlSoFar), out, src)
			}
			if !ok {
				return fail("url-seq|a literal part is not there any more|"+state,
					fmt.Sprintf("part %d, the literal %q, is rendered as %q after %q", k+1, L, seg, urlSoFar), out, src)
			}
		} else {
			shows++
			v := values[p.val]
			var dec string
			var derr error
			strict := ""
			passThrough := (position(urlSoFar) == "path" || position(urlSoFar) == "fragment" && !after) && preEncoded.MatchString(v.s)
			if position(urlSoFar) != "query" {
				if passThrough {
					excluded = true // path and fragment are only percent-decoded: an existing %HH is passed through by design
				} else {
					dec, derr = url.PathUnescape(seg)
				}
			} else {
				dec, derr = url.QueryUnescape(seg)
				if position(urlSoFar) == "query" && strings.ContainsAny(seg, "&#") {
					strict = fmt.Sprintf("the rendered value %q has a raw & or # that ends the query component", seg)
				}
			}
			if !passThrough {
				if derr != nil || dec != v.s || strict != "" {
					d := fmt.Sprintf("part %d, the value %q shown in the %s after %q, is rendered %q which decodes to %q", k+1, v.s, state, urlSoFar, seg, dec)
					if derr != nil {
						d += " (" + derr.Error() + ")"
					}
					if strict != "" {
						d += "; " + strict
					}
					key := "url-seq|a shown value does not decode back|in the " + state
					if !after { // directly after a shown value the renderer path-escapes whatever the value: one decision, one key
						key += "|value " + v.class
					}
					return fail(key, d, out, src)
				}
			}
		}
		segs = append(segs, seg)
		urlSoFar += seg
		if set && p.val < 0 && strings.Contains(p.lit.txt, ",") {
			urlSoFar = strings.TrimLeft(p.lit.txt[strings.LastIndex(p.lit.txt, ",")+1:], " ")
		}
	}
	// the attribute as an HTML parser sees it
	out, src := lastOut, lastSrc
	toks := htmltok.Tokenize(string(out))
	if len(toks) != a.tokens || (toks[0].Type != xhtml.StartTagToken && toks[0].Type != xhtml.SelfClosingTagToken) || len(toks[0].Attrs) != 1 ||
		toks[0].Attrs[0].Key != a.key || toks[0].Attrs[0].Val != html.UnescapeString(prev) {
		return fail("url-seq|the HTML tokenizer does not see one "+a.key+" attribute with the rendered URL", "tokens: "+tokensString(toks), out, src)
	}
	if set {
		if k, d := judgeSrcset(toks[0].Attrs[0].Val, parts, segs, values); k != "" {
			return fail(k, d, out, src)
		}
	}
	o := kit.Outcome{OK: true, Ops: len(parts)}
	switch {
	case shows == 0:
		o.Class = "url-seq: only literals"
	case excluded:
		o.Class, o.Nontrivial = "url-seq: decodes back (a pre-encoded %HH in path position is passed through by design)", true
	default:
		o.Class, o.Nontrivial = "url-seq: every shown value decodes back, every literal is there", true
	}
	return o
}

// ---- srcset ----

type srcCandidate struct{ url, desc string }

// parseSrcset is "parse a srcset attribute" of the HTML standard, as far as
// splitting into image candidate strings goes.
func parseSrcset(s string) []srcCandidate {
	isWS := func(c byte) bool { return c == ' ' || c == '\t' || c == '\n' || c == '\f' || c == '\r' }
	var out []srcCandidate
	i := 0
	for {
		for i < len(s) && (isWS(s[i]) || s[i] == ',') {
			i++
		}
		if i >= len(s) {
			return out
		}
		st := i
		for i < len(s) && !isWS(s[i]) {
			i++
		}
		u := s[st:i]
		if strings.HasSuffix(u, ",") {
			out = append(out, srcCandidate{strings.TrimRight(u, ","), ""})
			continue
		}
		st = i
		depth := 0
		for i < len(s) && !(s[i] == ',' && depth == 0) {
			if s[i] == '(' {
				depth++
			} else if s[i] == ')' && depth > 0 {
				depth--
			}
			i++
		}
		out = append(out, srcCandidate{u, strings.TrimSpace(s[st:i])})
	}
}

// judgeSrcset compares the candidates the standard parser finds with the ones
// the template wrote: the URL of a candidate is what its parts rendered.
func judgeSrcset(attr string, parts []urlPart, segs []string, values []urlValue) (key, detail string) {
	var want []srcCandidate
	cur := srcCandidate{}
	worst := ""
	flush := func() {
		if cur.url != "" || cur.desc != "" {
			want = append(want, cur)
		}
		cur = srcCandidate{}
	}
	for k, p := range parts {
		if p.val >= 0 {
			cur.url += segs[k]
			if strings.ContainsAny(values[p.val].s, ", ") {
				worst = "with a comma or a space"
			}
			continue
		}
		t := segs[k] // as rendered (a ? may have become &, an & may have been inserted); judgeSeq has checked it against the literal
		for {
			i := strings.Index(t, ",")
			head := t
			if i >= 0 {
				head = t[:i]
			}
			if j := strings.Index(head, " "); j >= 0 { // a descriptor follows the URL
				cur.url += head[:j]
				cur.desc = strings.TrimSpace(head[j:])
			} else {
				cur.url += head
			}
			if i < 0 {
				break
			}
			flush()
			t = strings.TrimLeft(t[i+1:], " ")
		}
	}
	flush()
	got := parseSrcset(attr)
	if fmt.Sprint(got) != fmt.Sprint(want) {
		if worst == "" {
			worst = "without a comma or a space"
		}
		return "srcset|the srcset parser of the HTML standard does not find the candidates the template wrote|shown value " + worst,
			fmt.Sprintf("srcset value %q\nparsed candidates %q\nwritten candidates %q", attr, got, want)
	}
	return "", ""
}

var srcsetValues = []urlValue{
	{"a.png", "plain"}, {"p?q=1", "contains ?"}, {"a,b", "contains a comma"}, {"a, b", "contains a comma and a space"}, {"a b", "contains a space"},
	{"R&D+x", "contains & and +"}, {",a", "starts with a comma"}, {"a,", "ends with a comma"}, {"50%", "contains %"}, {"a?b,c", "contains ? and a comma"},
}

var srcsetLiterals = []urlLiteral{{"/i.png", "/i.png"}, {"?w=", "?w="}, {"?", "?"}, {"&amp;x=", "&x="}}

// ---- spaces ----

// decodeSeq decodes index i into a sequence of n symbols over nv values and
// the literals.
func decodeSeq(i uint64, n int, vals []int, lits []urlLiteral) []urlPart {
	k := uint64(len(vals) + len(lits))
	parts := make([]urlPart, n)
	for p := n - 1; p >= 0; p-- {
		d := int(i % k)
		i /= k
		if d < len(vals) {
			parts[p] = urlPart{val: vals[d]}
		} else {
			parts[p] = urlPart{val: -1, lit: lits[d-len(vals)]}
		}
	}
	return parts
}

func pow(b, n int) uint64 {
	r := uint64(1)
	for ; n > 0; n-- {
		r *= uint64(b)
	}
	return r
}

func describeSeq(a urlAttr, parts []urlPart, values []urlValue) any {
	_, src := seqTemplate(a, parts)
	var vs []string
	for _, p := range parts {
		if p.val >= 0 {
			vs = append(vs, values[p.val].s)
		}
	}
	return map[string]any{"file": "index.html", "template": src, "shown strings v0, v1, …": vs}
}

func urlSeqSpaces(tier string) []kit.Space {
	var sps []kit.Space
	all := make([]int, len(urlValues))
	for i := range all {
		all[i] = i
	}
	reducedVals := []int{0, 1, 12, 10}
	reducedLits := []urlLiteral{urlLiterals[0], urlLiterals[3], urlLiterals[6]}
	for _, a := range urlAttrs {
		a := a
		lits := urlLiterals
		for _, n := range []int{2, 3} {
			n := n
			sps = append(sps, kit.Space{
				Name:     fmt.Sprintf("URL sequences/%s/%d parts over 13 values and 7 literals", a.name, n),
				Size:     pow(len(all)+len(lits), n),
				Eval:     func(i uint64) kit.Outcome { return judgeSeq(a, decodeSeq(i, n, all, lits), urlValues, false) },
				Describe: func(i uint64) any { return describeSeq(a, decodeSeq(i, n, all, lits), urlValues) },
			})
		}
		vals4, lits4, what := reducedVals, reducedLits, "4 values and 3 literals"
		if tier == "thorough" {
			vals4, lits4, what = all, lits, "13 values and 7 literals"
		}
		sps = append(sps, kit.Space{
			Name:     fmt.Sprintf("URL sequences/%s/4 parts over %s", a.name, what),
			Size:     pow(len(vals4)+len(lits4), 4),
			Eval:     func(i uint64) kit.Outcome { return judgeSeq(a, decodeSeq(i, 4, vals4, lits4), urlValues, false) },
			Describe: func(i uint64) any { return describeSeq(a, decodeSeq(i, 4, vals4, lits4), urlValues) },
		})
	}
	// srcset: one candidate made of 1-3 parts with a descriptor, alone, before and after a literal candidate
	sv := make([]int, len(srcsetValues))
	for i := range sv {
		sv[i] = i
	}
	descs := []string{"", " 2x", " 100w"}
	arrangements := []struct {
		name        string
		before, aft string
	}{{"alone", "", ""}, {"first", "", ", /b.png?z=1 1x"}, {"second", "/b.png?z=1 1x, ", ""}, {"between", "/a.png 1x, ", ", /c.png?y=2 3x"}}
	for n := 1; n <= 3; n++ {
		n := n
		descs, arrangements := descs, arrangements
		what := "3 descriptors x {alone, first, second, between}"
		if n == 3 && tier != "thorough" {
			descs = []string{descs[0], descs[1]}
			arrangements = append(arrangements[:0:0], arrangements[0], arrangements[2])
			what = "2 descriptors x {alone, second}"
		}
		per := pow(len(sv)+len(srcsetLiterals), n)
		build := func(i uint64) []urlPart {
			d := kit.Mixed(i, per, uint64(len(descs)), uint64(len(arrangements)))
			parts := decodeSeq(d[0], n, sv, srcsetLiterals)
			ar := arrangements[d[2]]
			if ar.before != "" {
				parts = append([]urlPart{{val: -1, lit: urlLiteral{ar.before, ar.before}}}, parts...)
			}
			if tail := descs[d[1]] + ar.aft; tail != "" {
				parts = append(parts, urlPart{val: -1, lit: urlLiteral{tail, tail}})
			}
			return parts
		}
		sps = append(sps, kit.Space{
			Name:     fmt.Sprintf("srcset/candidate of %d parts over 10 values and 4 literals x %s", n, what),
			Size:     per * uint64(len(descs)*len(arrangements)),
			Eval:     func(i uint64) kit.Outcome { return judgeSeq(srcsetAttr, build(i), srcsetValues, true) },
			Describe: func(i uint64) any { return describeSeq(srcsetAttr, build(i), srcsetValues) },
		})
	}
	return sps
}
