// C07 — escaped values decode back to the exact original text.
//
// A string global is shown in every string-bearing context (HTML text, quoted
// and unquoted attribute, JS string, JSON string, CSS string, URL path and URL
// query value); the rendered output is decoded with that context's STANDARD
// decoder (x/net/html tokenizer, node, encoding/json, a CSS Syntax Level 3
// string-token consumer, net/url) and must give back the input.
package main

import (
	"bytes"
	"encoding/json"
	"fmt"
	"net/url"
	"regexp"
	"strconv"
	"strings"
	"unicode/utf16"
	"unicode/utf8"

	"verif/gen/blocks"
	"verif/kit"
	"verif/oracle/htmltok"
	"verif/oracle/nodejs"

	"github.com/open2b/scriggo"
	"github.com/open2b/scriggo/native"
	"golang.org/x/net/html"
)

// ---- alphabet ----

// specials are the escape-relevant characters (each is also paired with every
// byte 0..255 as successor and predecessor).
var specials = []string{
	"\x00", "\"", "'", "<", ">", "&", "\\", "/", "\n", "\r", "\t", "\f", " ", "=", "`", "%", "+", "?", "#", ";",
	"\u2028", "\u2029", "\u00e9", "\ufffd", "\xff",
}

// plain are hex-digit-like and ordinary characters: CSS hex escapes need a
// separator only before a hex digit or white space; "%" + two hex digits is a
// pre-encoded URL escape.
var plain = []string{"a", "c", "f", "0", "g"}

func alphabet(reduced bool) []string {
	if reduced {
		// length-4 layer of the thorough tier: one representative per escaper decision
		return []string{"\x00", "\"", "'", "<", "&", "\\", "/", "\n", "\r", " ", "%", "+", "?", "\u2028", "\u00e9", "\xff", "a", "c", "f", "0", "g"}
	}
	return append(append([]string{}, specials...), plain...)
}

// ---- contexts ----

type family struct {
	name string
	// expected maps the input to what the standard decoder can give back at
	// best (the documented exceptions).
	expected func(s string) string
}

// goUTF8 is Go's decoding (range over a string, encoding/json): every invalid
// byte becomes one U+FFFD.
func goUTF8(s string) []rune { return []rune(s) }

func replInvalid(s string, nul bool) string { return repl(nodejs.DecodeUTF8(s), nul) }

func repl(rs []rune, nul bool) string {
	var b strings.Builder
	for _, r := range rs {
		if nul && r == 0 {
			r = utf8.RuneError
		}
		b.WriteRune(r)
	}
	return b.String()
}

func htmlNewlinesFor(f *family, s string) string {
	if f == famHTMLText || f == famAttrQ {
		return htmlNewlines.Replace(s)
	}
	return s
}

// htmlNewlines is the newline normalisation of the HTML input stream (WHATWG
// "preprocessing the input stream"): a raw CR LF or CR reaches the tokenizer
// as LF. It happens before, and is not part of, character-reference decoding.
var htmlNewlines = strings.NewReplacer("\r\n", "\n", "\r", "\n")

var (
	famHTMLText = &family{"html-text", func(s string) string { return replInvalid(htmlNewlines.Replace(s), true) }}
	famAttrQ    = &family{"attr-quoted", func(s string) string { return replInvalid(htmlNewlines.Replace(s), true) }}
	famAttrU    = &family{"attr-unquoted", func(s string) string { return replInvalid(s, true) }}
	famJS       = &family{"js-string", func(s string) string { return replInvalid(s, false) }}
	famJSON     = &family{"json-string", func(s string) string { return repl(goUTF8(s), false) }} // decoded by encoding/json
	famCSS      = &family{"css-string", func(s string) string { return replInvalid(s, true) }}
	famPath     = &family{"url-path", func(s string) string { return s }}
	famQuery    = &family{"url-query", func(s string) string { return s }}
)

type context struct {
	name      string
	fam       *family
	file      string
	pre, post string
	// decode returns the value a standard consumer of the output sees.
	decode func(c *context, out []byte) (string, error)
	// decodeMany, when set, decodes a batch in one round trip to the oracle.
	decodeMany func(c *context, outs [][]byte) []decoded
	tmpl       *scriggo.Template // pre {{ s }} post
	loop       *scriggo.Template // {% for s in ss %} pre {{ s }} post SEP {% end %}
}

// sep separates the renderings of the loop template. It is static template
// text placed after post, where every context is back at its top level.
const sep = "\n@@SEP@@\n"

func (c *context) loopSource() string {
	return "{% for s in ss %}" + c.pre + "{{ s }}" + c.post + sep + "{% end %}"
}

type decoded struct {
	val string
	err error
}

func (c *context) source() string { return c.pre + "{{ s }}" + c.post }

// htmlNorm applies the input-stream facts of HTML that are the documented
// exceptions: bytes that are not UTF-8 decode as U+FFFD; NUL is not
// representable (tokenizer gives U+FFFD or the tree builder drops it).
func htmlNorm(s string) string { return replInvalid(s, true) }

func tokensString(toks []htmltok.Tok) string {
	var b strings.Builder
	for _, t := range toks {
		fmt.Fprintf(&b, "[%v %q", t.Type, t.Data)
		for _, a := range t.Attrs {
			fmt.Fprintf(&b, " %s=%q", a.Key, a.Val)
		}
		b.WriteString("]")
	}
	return b.String()
}

// element checks that out is exactly <tag attrs>TEXT?</tag> and returns the
// start tag and the text.
func element(out []byte, tag string) (htmltok.Tok, string, error) {
	toks := htmltok.Tokenize(string(out))
	bad := func() (htmltok.Tok, string, error) {
		return htmltok.Tok{}, "", fmt.Errorf("HTML structure changed: tokens %s", tokensString(toks))
	}
	if len(toks) < 2 || len(toks) > 3 {
		return bad()
	}
	st, en := toks[0], toks[len(toks)-1]
	if (st.Type != html.StartTagToken && st.Type != html.SelfClosingTagToken) || st.Data != tag || en.Type != html.EndTagToken || en.Data != tag {
		return bad()
	}
	text := ""
	if len(toks) == 3 {
		if toks[1].Type != html.TextToken {
			return bad()
		}
		text = toks[1].Data
	}
	return st, text, nil
}

func decodeHTMLText(c *context, out []byte) (string, error) {
	st, text, err := element(out, "p")
	if err != nil {
		return "", err
	}
	if len(st.Attrs) != 0 {
		return "", fmt.Errorf("HTML structure changed: attributes %q", st.Attrs)
	}
	return htmlNorm(text), nil
}

// attrValue returns the value of the only attribute of <a …>x</a>.
func attrValue(out []byte, key string) (string, error) {
	st, text, err := element(out, "a")
	if err != nil {
		return "", err
	}
	if len(st.Attrs) != 1 || st.Attrs[0].Key != key || text != "x" {
		return "", fmt.Errorf("HTML structure changed: attributes %q text %q", st.Attrs, text)
	}
	return st.Attrs[0].Val, nil
}

func decodeAttr(c *context, out []byte) (string, error) {
	v, err := attrValue(out, "title")
	return htmlNorm(v), err
}

func decodeURL(prefix string, query bool) func(c *context, out []byte) (string, error) {
	return func(c *context, out []byte) (string, error) {
		v, err := attrValue(out, "href")
		if err != nil {
			return "", err
		}
		if !strings.HasPrefix(v, prefix) {
			return "", fmt.Errorf("URL prefix %q changed: attribute value %q", prefix, v)
		}
		v = v[len(prefix):]
		if query {
			// the value of the query parameter q ends at the first separator
			if i := strings.IndexAny(v, "&#;"); i >= 0 {
				return "", fmt.Errorf("query value is cut by %q: attribute value %q", v[i], v)
			}
			return url.QueryUnescape(v)
		}
		return url.PathUnescape(v)
	}
}

// rawText returns the content of the raw-text element tag when out is an HTML
// document, or out itself for a CSS/JS/JSON file.
func rawText(c *context, out []byte, tag string) ([]byte, error) {
	if c.file != "index.html" {
		return out, nil
	}
	_, text, err := element(out, tag)
	return []byte(text), err
}

func decodeJS(c *context, out []byte) (string, error) {
	d := decodeManyJS(c, [][]byte{out})[0]
	return d.val, d.err
}

// decodeManyJS evaluates the literals with node, one round trip for all.
func decodeManyJS(c *context, outs [][]byte) []decoded {
	res := make([]decoded, len(outs))
	var srcs [][]byte
	var idx []int
	for i, out := range outs {
		src, err := rawText(c, out, "script")
		if err != nil {
			res[i].err = err
			continue
		}
		srcs = append(srcs, src)
		idx = append(idx, i)
	}
	for k, r := range nodejs.EvalStrings(srcs) {
		res[idx[k]] = jsString(r)
	}
	return res
}

func jsString(r nodejs.StringResult) decoded {
	if r.Err != nil {
		return decoded{err: fmt.Errorf("node: %s", r.Err.Error())}
	}
	units := r.Units
	for i := 0; i < len(units); i++ {
		u := units[i]
		if 0xD800 <= u && u < 0xDC00 && i+1 < len(units) && 0xDC00 <= units[i+1] && units[i+1] < 0xE000 {
			i++
		} else if 0xD800 <= u && u < 0xE000 {
			return decoded{err: fmt.Errorf("node: string has a lone surrogate %04x", u)}
		}
	}
	return decoded{val: string(utf16.Decode(units))}
}

func decodeJSON(c *context, out []byte) (string, error) {
	src, err := rawText(c, out, "script")
	if err != nil {
		return "", err
	}
	if !json.Valid(src) {
		return "", fmt.Errorf("encoding/json: not valid JSON")
	}
	var s string
	if err := json.Unmarshal(src, &s); err != nil {
		return "", fmt.Errorf("encoding/json: %v", err)
	}
	return s, nil
}

func decodeCSS(c *context, out []byte) (string, error) {
	src, err := rawText(c, out, "style")
	if err != nil {
		return "", err
	}
	in := cssPreprocess(src)
	const head = "a{content:"
	if len(in) < len(head)+1 || string(in[:len(head)]) != head {
		return "", fmt.Errorf("CSS prefix changed")
	}
	val, next, perr := cssConsumeString(in, len(head))
	if perr != "" {
		return "", fmt.Errorf("css-syntax-3 string token: %s", perr)
	}
	if string(in[next:]) != "}" {
		return "", fmt.Errorf("css-syntax-3: the string token ends early, rest %q", string(in[next:]))
	}
	return string(val), nil
}

// cssPreprocess is CSS Syntax Level 3 §3.2–3.3: decode as UTF-8 (invalid bytes
// → U+FFFD), CR LF / CR / FF → LF, NUL and surrogates → U+FFFD.
func cssPreprocess(b []byte) []rune {
	var out []rune
	rs := nodejs.DecodeUTF8(string(b))
	for i := 0; i < len(rs); i++ {
		r := rs[i]
		switch r {
		case '\r':
			if i+1 < len(rs) && rs[i+1] == '\n' {
				i++
			}
			r = '\n'
		case '\f':
			r = '\n'
		case 0:
			r = utf8.RuneError
		}
		out = append(out, r)
	}
	return out
}

func cssHex(r rune) bool {
	return '0' <= r && r <= '9' || 'a' <= r && r <= 'f' || 'A' <= r && r <= 'F'
}

// cssConsumeString is §4.3.5 "consume a string token" with §4.3.7 "consume an
// escaped code point". in[pos] is the opening quote.
func cssConsumeString(in []rune, pos int) (val []rune, next int, perr string) {
	ending := in[pos]
	if ending != '"' && ending != '\'' {
		return nil, pos, "no string token at the expected position"
	}
	pos++
	for {
		if pos >= len(in) {
			return nil, pos, "EOF inside the string (parse error)"
		}
		c := in[pos]
		pos++
		switch {
		case c == ending:
			return val, pos, ""
		case c == '\n':
			return nil, pos, "newline inside the string (bad-string token)"
		case c == '\\':
			if pos >= len(in) {
				continue
			}
			if in[pos] == '\n' {
				pos++
				continue
			}
			e := in[pos]
			pos++
			if !cssHex(e) {
				val = append(val, e)
				continue
			}
			n, _ := strconv.ParseUint(string(e), 16, 32)
			for k := 0; k < 5 && pos < len(in) && cssHex(in[pos]); k++ {
				d, _ := strconv.ParseUint(string(in[pos]), 16, 32)
				n = n*16 + d
				pos++
			}
			if pos < len(in) && (in[pos] == '\n' || in[pos] == '\t' || in[pos] == ' ') {
				pos++
			}
			if n == 0 || 0xD800 <= n && n <= 0xDFFF || n > 0x10FFFF {
				n = utf8.RuneError
			}
			val = append(val, rune(n))
		default:
			val = append(val, c)
		}
	}
}

func contexts() []*context {
	attrPost := ">x</a>"
	cs := []*context{
		{name: "html-text", fam: famHTMLText, file: "index.html", pre: "<p>", post: "</p>", decode: decodeHTMLText},
		{name: "attr-dq", fam: famAttrQ, file: "index.html", pre: `<a title="`, post: `"` + attrPost, decode: decodeAttr},
		{name: "attr-sq", fam: famAttrQ, file: "index.html", pre: `<a title='`, post: `'` + attrPost, decode: decodeAttr},
		{name: "attr-unquoted", fam: famAttrU, file: "index.html", pre: `<a title=`, post: attrPost, decode: decodeAttr},
		{name: "js-dq@script", fam: famJS, file: "index.html", pre: `<script>"`, post: `"</script>`, decode: decodeJS, decodeMany: decodeManyJS},
		{name: "js-sq@script", fam: famJS, file: "index.html", pre: `<script>'`, post: `'</script>`, decode: decodeJS, decodeMany: decodeManyJS},
		{name: "js-dq@.js", fam: famJS, file: "index.js", pre: `"`, post: `"`, decode: decodeJS, decodeMany: decodeManyJS},
		{name: "js-sq@.js", fam: famJS, file: "index.js", pre: `'`, post: `'`, decode: decodeJS, decodeMany: decodeManyJS},
		{name: "json@.json", fam: famJSON, file: "index.json", pre: `"`, post: `"`, decode: decodeJSON},
		{name: "json@ld+json-script", fam: famJSON, file: "index.html", pre: `<script type="application/ld+json">"`, post: `"</script>`, decode: decodeJSON},
		{name: "css-dq@style", fam: famCSS, file: "index.html", pre: `<style>a{content:"`, post: `"}</style>`, decode: decodeCSS},
		{name: "css-sq@style", fam: famCSS, file: "index.html", pre: `<style>a{content:'`, post: `'}</style>`, decode: decodeCSS},
		{name: "css-dq@.css", fam: famCSS, file: "index.css", pre: `a{content:"`, post: `"}`, decode: decodeCSS},
		{name: "css-sq@.css", fam: famCSS, file: "index.css", pre: `a{content:'`, post: `'}`, decode: decodeCSS},
		{name: "url-path-dq", fam: famPath, file: "index.html", pre: `<a href="/p/`, post: `"` + attrPost, decode: decodeURL("/p/", false)},
		{name: "url-path-unquoted", fam: famPath, file: "index.html", pre: `<a href=/p/`, post: attrPost, decode: decodeURL("/p/", false)},
		{name: "url-query-dq", fam: famQuery, file: "index.html", pre: `<a href="/p?q=`, post: `"` + attrPost, decode: decodeURL("/p?q=", true)},
		{name: "url-query-sq", fam: famQuery, file: "index.html", pre: `<a href='/p?q=`, post: `'` + attrPost, decode: decodeURL("/p?q=", true)},
		{name: "url-query-unquoted", fam: famQuery, file: "index.html", pre: `<a href=/p?q=`, post: attrPost, decode: decodeURL("/p?q=", true)},
	}
	for _, c := range cs {
		t, err := scriggo.BuildTemplate(scriggo.Files{c.file: []byte(c.source())}, c.file,
			&scriggo.BuildOptions{Globals: native.Declarations{"s": (*string)(nil)}})
		if err != nil {
			panic(fmt.Sprintf("C07: context %s does not build: %v", c.name, err))
		}
		c.tmpl = t
		c.loop, err = scriggo.BuildTemplate(scriggo.Files{c.file: []byte(c.loopSource())}, c.file,
			&scriggo.BuildOptions{Globals: native.Declarations{"ss": (*[]string)(nil)}})
		if err != nil {
			panic(fmt.Sprintf("C07: loop template of context %s does not build: %v", c.name, err))
		}
	}
	return cs
}

// ---- evaluation ----

var preEncoded = regexp.MustCompile(`%[0-9a-fA-F]{2}`)

// render runs the context's template with s. A host panic propagates.
func (c *context) render(s string) ([]byte, error) {
	var b bytes.Buffer
	err := c.tmpl.Run(&b, map[string]any{"s": s}, nil)
	return b.Bytes(), err
}

// try returns "" when s round-trips, else a short problem class and a detail.
func (c *context) try(s string) (problem, detail string, out []byte) {
	out, err := c.render(s)
	if err != nil {
		problem, detail = c.judge(s, err, decoded{})
		return problem, detail, out
	}
	got, derr := c.decode(c, out)
	problem, detail = c.judge(s, nil, decoded{got, derr})
	return problem, detail, out
}

// judge compares what the standard decoder gave with the input.
func (c *context) judge(s string, runErr error, d decoded) (problem, detail string) {
	if runErr != nil {
		return "run-error:" + kit.NormMsg(runErr.Error()), "Run returned " + runErr.Error()
	}
	want := c.fam.expected(s)
	if d.err != nil {
		msg := d.err.Error()
		if i := strings.Index(msg, ":"); i > 0 {
			msg = msg[:i] // which decoder stage failed; the rest is input dependent
		}
		if strings.HasPrefix(d.err.Error(), "node: parse") {
			msg = "node: not one string literal"
		}
		return "undecodable(" + msg + ")", "decoder: " + d.err.Error()
	}
	if d.val != want {
		// The documented exception "a byte that is not UTF-8 becomes U+FFFD" does
		// not say how many U+FFFD an invalid sequence of several bytes becomes:
		// one per byte (Go, encoding/json, and the renderer when it replaces the
		// bytes itself) or one per maximal subpart (a WHATWG decoder reading raw
		// bytes). Both are the exception; everything else must be exact.
		if !utf8.ValidString(s) && c.fam != famPath && c.fam != famQuery && d.val == repl(goUTF8(htmlNewlinesFor(c.fam, s)), c.fam != famJS && c.fam != famJSON) {
			return "", ""
		}
		return "decoded-differs", fmt.Sprintf("decoded  %+q\nexpected %+q", d.val, want)
	}
	return "", ""
}

// pieces splits s into its runes / invalid bytes.
func pieces(s string) []string {
	var ps []string
	for len(s) > 0 {
		_, n := utf8.DecodeRuneInString(s)
		ps = append(ps, s[:n])
		s = s[n:]
	}
	return ps
}

var charNames = map[string]string{
	"\x00": "NUL", "\t": "TAB", "\n": "LF", "\f": "FF", "\r": "CR", " ": "SPACE", "\"": "DQUOTE", "'": "SQUOTE",
	"<": "LT", ">": "GT", "&": "AMP", "\\": "BACKSLASH", "/": "SLASH", "=": "EQ", "`": "BACKQUOTE", "%": "PERCENT",
	"+": "PLUS", "?": "QMARK", "#": "HASH", ";": "SEMICOLON", "\u2028": "U+2028", "\u2029": "U+2029", "\ufffd": "U+FFFD",
}

// charClass names a character coarsely, so that one defect gets one key.
func charClass(p string) string {
	if n, ok := charNames[p]; ok {
		return n
	}
	if len(p) == 1 {
		b := p[0]
		switch {
		case b >= 0x80:
			return "invalid-utf8-byte"
		case b < 0x20 || b == 0x7f:
			return "control"
		case '0' <= b && b <= '9':
			return "digit"
		case 'a' <= b && b <= 'f' || 'A' <= b && b <= 'F':
			return "hex-letter"
		case 'a' <= b && b <= 'z' || 'A' <= b && b <= 'Z':
			return "letter"
		}
		return "punct(" + p + ")"
	}
	return "non-ascii"
}

// form describes how the context renders the single character p.
func (c *context) form(p string) string {
	out, err := c.render(p)
	if err != nil || len(out) < len(c.pre)+len(c.post) {
		return "unrenderable"
	}
	v := string(out[len(c.pre) : len(out)-len(c.post)])
	switch {
	case v == p:
		return "raw"
	case strings.HasPrefix(v, "&") && strings.HasSuffix(v, ";"):
		return "entity"
	case strings.HasPrefix(v, `\u`):
		return "unicode-escape"
	case strings.HasPrefix(v, `\`) && len(v) >= 2 && cssHex(rune(v[1])) && c.fam == famCSS:
		return "hex-escape"
	case strings.HasPrefix(v, `\`):
		return "backslash-escape"
	case strings.HasPrefix(v, "%"):
		return "percent-escape"
	}
	return "other"
}

// keyFor shrinks the failing input to its smallest failing run of characters
// and names the defect after it.
func (c *context) keyFor(s string) (key, minimal string) {
	ps := pieces(s)
	for l := 1; l <= len(ps); l++ {
		for st := 0; st+l <= len(ps); st++ {
			sub := strings.Join(ps[st:st+l], "")
			problem, _, _ := c.try(sub)
			if problem == "" {
				continue
			}
			first := ps[st]
			f := c.form(first)
			key = c.fam.name + "|" + problem
			switch {
			case l == 1:
				key += "|char=" + charClass(first) + " form=" + f + " alone"
			case f == "raw":
				key += "|char=" + charClass(first) + " form=raw next=" + charClass(ps[st+1])
			default:
				key += "|form=" + f + " next=" + charClass(ps[st+1])
			}
			if l > 2 {
				key += fmt.Sprintf(" (needs %d characters)", l)
			}
			return key, sub
		}
	}
	return c.fam.name + "|unshrinkable", s
}

// entry is one pre-evaluated case of a block.
type entry struct {
	s        string
	out      []byte
	runErr   error
	panicked bool
	looped   bool // rendered by the loop template
	dec      decoded
}

func (c *context) safeRender(s string) (out []byte, err error, panicked bool) {
	defer func() {
		if recover() != nil {
			panicked = true
		}
	}()
	out, err = c.render(s)
	return
}

func (c *context) excluded(s string) bool {
	// pathEscape passes "%" + two hex digits through as an existing escape
	return c.fam == famPath && preEncoded.MatchString(s)
}

// renderLoop renders all strings with ONE run of the loop template (creating
// a VM per string dominates the cost otherwise). ok is false when the run
// failed, panicked or the output does not split into len(ss) parts; the
// caller then renders each string with the single-show template.
func (c *context) renderLoop(ss []string) (outs [][]byte, ok bool) {
	defer func() {
		if recover() != nil {
			outs, ok = nil, false
		}
	}()
	var b bytes.Buffer
	if err := c.loop.Run(&b, map[string]any{"ss": ss}, nil); err != nil {
		return nil, false
	}
	parts := bytes.Split(b.Bytes(), []byte(sep))
	if len(parts) != len(ss)+1 || len(parts[len(ss)]) != 0 {
		return nil, false
	}
	return parts[:len(ss)], true
}

// evalBlock renders every string of a block and decodes the outputs, batching
// the rendering (unless single) and the round trips to the oracle process.
func (c *context) evalBlock(ss []string, single bool) []entry {
	es := make([]entry, len(ss))
	var outs [][]byte
	var idx []int
	var looped [][]byte
	if !single {
		looped, _ = c.renderLoop(ss)
	}
	for i, s := range ss {
		e := &es[i]
		e.s = s
		if looped != nil {
			e.out, e.looped = looped[i], true
		} else {
			e.out, e.runErr, e.panicked = c.safeRender(s)
		}
		if e.panicked || e.runErr != nil || c.excluded(s) {
			continue
		}
		if c.decodeMany != nil {
			outs = append(outs, e.out)
			idx = append(idx, i)
			continue
		}
		e.dec.val, e.dec.err = c.decode(c, e.out)
	}
	if len(outs) > 0 {
		for k, d := range c.decodeMany(c, outs) {
			es[idx[k]].dec = d
		}
	}
	return es
}

func (c *context) outcome(e *entry) kit.Outcome {
	s := e.s
	if e.panicked {
		c.render(s) // panics again, now on the stack the kit inspects
	}
	problem, detail := "", ""
	if e.runErr != nil || !c.excluded(s) {
		problem, detail = c.judge(s, e.runErr, e.dec)
	} else {
		return kit.Outcome{OK: true, Class: "excluded: pre-encoded %HH in a URL path", Ops: len(e.out)}
	}
	out := e.out
	if problem != "" && e.looped {
		// confirm with the single-show template: the report and the key always
		// come from a template with exactly one show
		p1, d1, o1 := c.try(s)
		if p1 == "" {
			return kit.Outcome{
				Key:        c.fam.name + "|a show renders differently inside a for loop than alone|" + problem,
				Class:      "fail",
				Nontrivial: true,
				Detail: fmt.Sprintf("context %s, input s = %+q\nfile %s = %q renders %+q which round-trips\nfile %s = %q with ss = the %d strings of the block renders it as %+q\n%s",
					c.name, s, c.file, c.source(), string(o1), c.file, c.loopSource(), blocks.Size, string(out), detail),
			}
		}
		problem, detail, out = p1, d1, o1
	}
	if problem != "" {
		key, minimal := c.keyFor(s)
		return kit.Outcome{
			Key:        key,
			Class:      "fail",
			Nontrivial: true,
			Ops:        len(out),
			Detail: fmt.Sprintf("context %s: file %s = %q\ninput s = %+q\nrendered  %+q\n%s\nsmallest failing part of the input: %+q",
				c.name, c.file, c.source(), s, string(out), detail, minimal),
		}
	}
	o := kit.Outcome{OK: true, Ops: len(out)}
	v := string(out[len(c.pre) : len(out)-len(c.post)])
	switch {
	case c.fam.expected(s) != s:
		o.Class, o.Nontrivial = "round-trip with documented replacement (NUL / invalid UTF-8 → U+FFFD)", true
		if (c.fam == famHTMLText || c.fam == famAttrQ) && strings.Contains(s, "\r") {
			o.Class = "round-trip modulo HTML input-stream newline normalisation (raw CR → LF)"
		}
	case v != s:
		o.Class, o.Nontrivial = "round-trip, escaped", true
	default:
		o.Class = "round-trip, verbatim"
	}
	return o
}

// lookAlikes are plain strings that look like character references (or like
// escapes of the other contexts): the value must decode back to ITSELF, not to
// what it would mean if it were markup.
func lookAlikes() []string {
	core := []string{"AT&amp;T", "&lt;", "&gt;", "&#65;", "&#x41;", "&#X41;", "&copy 2024", "&copy;", "&amp;amp;", "&", "&;", "&#;", "&#x;", "&amp", "&#38;", "&#x26;#x26;",
		"&lt;script&gt;", "&quot;", "&apos;", "&#34;", "&#39;", "&#0;", "&#xD800;", "&#1114112;", "&nbsp;", "&NotAnEntity;", "&amp;lt;", "%26amp;", "%26", "%3C", "&#37;41",
		"\\u003c", "\\x3c", "\\3c ", "\\\\", "\\n", "\\'", "\\\"", "&#43;", "&#32;", "a&#43;b"}
	var out []string
	for _, c := range core {
		for _, pre := range []string{"", "a", "&", ";"} {
			for _, post := range []string{"", "b", ";", "&"} {
				out = append(out, pre+c+post)
			}
		}
	}
	return out
}

func spaces(tier string) []kit.Space {
	var sps []kit.Space
	full := alphabet(false)
	n := 3
	if tier == "thorough" {
		n = 3 // the length-4 layer uses the reduced alphabet, see below
	}
	en := kit.NewStringsUpTo(full, n)
	en2 := kit.NewStringsUpTo(full, 2)
	red := alphabet(true)
	nr := uint64(len(red))
	add := func(c *context, name string, size uint64, at func(i uint64) string) {
		bs := &blocks.Cache[entry]{}
		single := strings.HasPrefix(name, "single-show")
		sps = append(sps, kit.Space{
			Name: c.name + "/" + name,
			Size: size,
			Eval: func(i uint64) kit.Outcome {
				e := bs.Get(i, size, func(from, to uint64) []entry {
					ss := make([]string, 0, to-from)
					for j := from; j < to; j++ {
						ss = append(ss, at(j))
					}
					return c.evalBlock(ss, single)
				})
				return c.outcome(&e)
			},
			Describe: func(i uint64) any {
				d := map[string]string{"file": c.file, "template": c.source(), "s (Go syntax)": strconv.QuoteToASCII(at(i))}
				if !single {
					d["rendered by"] = "one run of " + c.loopSource() + " per block of 512 strings; failures are confirmed with the template above"
				}
				return d
			},
		})
	}
	ns := uint64(len(specials))
	look := lookAlikes()
	for _, c := range contexts() {
		add(c, "single-show/character-reference look-alikes", uint64(len(look)), func(i uint64) string { return look[i] })
		add(c, "single-show/len<=2", en2.Size(), en2.At)
		add(c, fmt.Sprintf("len<=%d", n), en.Size(), en.At)
		add(c, "special+byte", ns*256, func(i uint64) string { return specials[i/256] + string([]byte{byte(i % 256)}) })
		add(c, "byte+special", ns*256, func(i uint64) string { return string([]byte{byte(i % 256)}) + specials[i/256] })
		if tier == "thorough" {
			add(c, "len=4(reduced alphabet)", nr*nr*nr*nr, func(i uint64) string {
				d := kit.Mixed(i, nr, nr, nr, nr)
				return red[d[3]] + red[d[2]] + red[d[1]] + red[d[0]]
			})
			add(c, "all byte pairs", 65536, func(i uint64) string { return string([]byte{byte(i >> 8), byte(i)}) })
		}
	}
	sps = append(sps, urlSeqSpaces(tier)...)
	return sps
}

func main() {
	kit.Main(&kit.Check{
		ID:    "C07",
		Level: "model_checking",
		Rule:  "every string of length <= 3 over a 30-character alphabet (25 escape-relevant characters incl. NUL, both quotes, < > & \\ / LF CR TAB FF space = ` % + ? # ; U+2028 U+2029 é U+FFFD and the invalid byte 0xFF, plus a c f 0 g), every special character followed by and preceded by every byte 0..255, and in the thorough tier every string of length 4 over a 21-character reduced alphabet and all 65536 byte pairs — each in 19 contexts (HTML text; \"/'/unquoted attribute; JS string \"/' in <script> and .js; JSON string in .json and <script type=application/ld+json>; CSS string \"/' in <style> and .css; URL path \"/unquoted; URL query \"/'/unquoted). The template of a context is built once, the string is a global variable. Round 2: (a) 656 plain strings that look like character references or like the escapes of another context (AT&amp;T, &lt;, &#65;, &#x41;, &copy 2024, &amp;amp;, &, &;, &#;, %26amp;, backslash-u003c, … each alone and between a/&/; and b/;/&) in all 19 contexts; (b) URL attributes rendered as a sequence of parts: every sequence of 2 and 3 parts (quick: 4 parts over 4 values and 3 literals; thorough: 4 parts over everything) over 13 shown values (plain, contains ?, ends with ?, contains &, +, %, is a percent-escape, =, #, space, starts with ?, starts with &, R&D+x) and 7 literals (?, &, ?x=, &x=, /, #, x) in href (quoted, unquoted), src and action; (c) srcset: a candidate of 1-3 parts over 10 values (plain, with ?, comma, comma+space, space, & and +, leading and trailing comma, %, ? and comma) and 4 literals (/i.png, ?w=, ?, &x=), with and without a 2x / 100w descriptor, alone, first, second and between literal candidates whose URL has a query. Non-trivial = the escaper changed the text or a documented replacement applies (sequences: at least one shown value). Indices enumerate distinct (context, string) pairs within a space",
		Assumptions: []string{
			"a raw CR (or CR LF) in HTML text and quoted attribute values reaches the tokenizer as LF (WHATWG input-stream preprocessing, which is not character-reference decoding): the expected value is newline-normalised there; unquoted attributes, where CR is escaped as &#13;, must give back CR exactly",
			"documented exceptions only: NUL → U+FFFD in HTML (text, attributes) and CSS (css-syntax-3 §3.3, §4.3.7); a byte that is not UTF-8 → U+FFFD in HTML, CSS, JS and JSON (the consumer decodes the resource as UTF-8); URL query/path values must give back the exact bytes",
			"URL path context is not in the property statement's list; it is checked with the exclusion that an input containing % + two hex digits is skipped (pathEscape passes existing percent-escapes through by design)",
			"decoders: golang.org/x/net/html tokenizer (text, attribute values, raw text of script/style, incl. CR→LF input-stream normalisation), /usr/bin/node v20 evaluating the literal as exactly one expression, encoding/json, net/url PathUnescape/QueryUnescape, and this file's css-syntax-3 §4.3.5/§4.3.7 string-token consumer",
			"URL sequences: the part of the URL that each show or literal contributed is found by rendering the template cut after every part (the rendering of k+1 parts must extend the rendering of k parts; adjacent literals are one text). A value shown before the first ? or in the fragment must give itself back by percent-decoding (an existing %HH is passed through by design and not judged), a value shown after the first ? by query-decoding (+ is a space) and must not contain a raw & or #; a literal must be there unchanged, or, after a ?, with its leading ? turned into & (or dropped when a ? or & is already there), or with an & inserted before it after a shown value that has a query; the HTML tokenizer must see one attribute whose value is the rendered URL. srcset: the standard's 'parse a srcset attribute' must find exactly the candidates the template wrote, each URL being what its parts rendered",
			"a show directly after a shown value that has a query is path-escaped by the renderer (the value is taken as a further piece of URL): under the rule above a value with & + # or %HH there does not decode back; reported under one key for the coordinator to judge",
			"reported by a reviewer and NOT duplicated here: {% raw %} inside a typed macro changes the lexer context (HTML escaping in a JS string) is C06's key; a raw CR in HTML text is the documented newline normalisation above",
			"<script type=application/json> is not a JSON context for the lexer (only application/ld+json); not explored",
			"strings longer than the bound are not explored",
		},
		Spaces: spaces,
	})
}
