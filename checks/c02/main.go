// C02 — compile-time constant arithmetic is exact and matches the Go
// specification.
//
// Every constant expression tree up to a bounded depth over a boundary-rich
// literal set is type-checked twice: by go/types (+go/constant), the reference,
// and by scriggo.Build. Acceptance must agree; for an accepted expression the
// representability of the constant by each of the 17 basic types must agree and,
// where representable, the value computed by Scriggo (captured through
// RunOptions.Print, compared at compile time against the exact literal and once
// more after materialisation in a variable) must be the one of go/constant.
package main

import (
	"errors"
	"fmt"
	"go/ast"
	"go/constant"
	"go/parser"
	"go/token"
	"go/types"
	"math"
	"math/big"
	"regexp"
	"runtime/debug"
	"strconv"
	"strings"
	"sync"
	"time"

	"verif/kit"

	"github.com/open2b/scriggo"
	"github.com/open2b/scriggo/native"
)

// ---- alphabet ----

func pow2(k uint, d int64) string {
	n := new(big.Int).Lsh(big.NewInt(1), k)
	return n.Add(n, big.NewInt(d)).String()
}

// literals is the full literal set. The decision points come from
// constant.go: the int64 fast path (2^63), the widths of every integer type,
// the 512-bit limit (shift count 512, BitLen 512), the float64 fast path
// (MinPrec < 53: 0.5, 2.0), the rational path (0.1, 1e-320, 1e308, 1e1000), the
// float32/float64 overflow limits and complex constants with a zero or a
// non-zero imaginary part.
var literals = func() []string {
	ls := []string{"0", "1", "-1", "2", "7"}
	for _, k := range []uint{7, 8, 15, 16, 31, 32, 63, 64} {
		ls = append(ls, pow2(k, -1), pow2(k, 0), pow2(k, 1))
	}
	ls = append(ls, pow2(100, 0), "511", "512", pow2(511, 0))
	ls = append(ls, "0.5", "2.0", "0.1", "3.5e38", "1e308", "1e-320", "1e1000")
	ls = append(ls, "'a'", `"s"`, `""`, "true", "false")
	ls = append(ls, "0i", "1i", "0.5i", "1e400i")
	return ls
}()

// shiftCounts is the right operand set of the typed shift space.
var shiftCounts = []string{"0", "1", "-1", "7", "8", "31", "32", "63", "64", "127", "255", "256", "511", "512", pow2(64, 0), "2.0", "0.5", "'a'", `"s"`, "true", "0i", "1i"}

var deep8 = []string{"-1", "1", "7", pow2(63, -1), pow2(100, 0), "0.5", "0.1", "1i"}
var deep16 = append(append([]string{}, deep8...), "true", "1e308", "0", "'a'", `"s"`, "1e1000", pow2(64, 0), "512")

// coreLiterals is the subset used by the typed spaces of the quick tier: one
// value on each side of every width boundary reachable with few literals.
var coreLiterals = []string{"0", "1", "-1", "7", "127", "128", "255", pow2(31, 0), pow2(32, 0),
	pow2(63, -1), pow2(63, 0), pow2(64, -1), pow2(64, 0), pow2(100, 0), "0.5", "0.1", "1e308", `"s"`, "true", "1i"}
var coreShiftCounts = []string{"0", "1", "-1", "8", "63", "64", "511", "512", pow2(64, 0), "2.0", "0.5"}

var basicTypes = []string{"int", "int8", "int16", "int32", "int64", "uint", "uint8", "uint16", "uint32", "uint64", "uintptr", "float32", "float64", "complex64", "complex128", "string", "bool"}

var binOps = []string{"+", "-", "*", "/", "%", "&", "|", "^", "&^", "<<", ">>", "==", "!=", "<", "<=", ">", ">=", "&&", "||"}
var unOps = []string{"+", "-", "^", "!"}

func paren(s string) string {
	if s[0] == '-' || strings.ContainsAny(s, " ") {
		return "(" + s + ")"
	}
	return s
}

// leaf i of the "all leaves" set: the literals followed by T(literal) for every T.
func leafCount() uint64 { return uint64(len(literals) * (1 + len(basicTypes))) }
func leaf(i uint64) string {
	n := uint64(len(literals))
	if i < n {
		return literals[i]
	}
	i -= n
	return basicTypes[i/n] + "(" + literals[i%n] + ")"
}

func bin(a, op, b string) string { return paren(a) + " " + op + " " + paren(b) }
func un(op, a string) string     { return op + paren(a) }

// ---- reference: go/types ----

type goVerdict struct {
	accepted bool
	errMsg   string
	typ      types.Type // type of c
	val      constant.Value
	conv     [17]constant.Value // nil: T(c) is not a valid constant conversion
	convErr  [17]string
	defOK    bool // var d = c is valid
	defType  types.Type
	op       string
	operands []string                  // classes of the operands of the outermost operator
	quirk    string                    // non-empty: the reference cannot judge this expression
	subs     []string                  // source of the operands that are not plain literals
	named    map[string]constant.Value // values of the prelude's constants
}

// prelude is a list of named constants declared before c (empty for the
// single-expression spaces).
type prelude struct {
	decls string   // "const a = ...\nconst b = ...\n"
	names []string // a, b
	key   string   // if not empty, replaces the operator and operand classes in failure keys
}

func goSource(pre prelude, e string) string {
	var b strings.Builder
	b.WriteString("package main\n")
	b.WriteString(pre.decls)
	b.WriteString("const c = ")
	b.WriteString(e)
	b.WriteString("\n")
	for i, t := range basicTypes {
		fmt.Fprintf(&b, "const c%d = %s(c)\n", i, t)
	}
	b.WriteString("var d = c\nfunc main() {}\n")
	return b.String()
}

// className coarsens a type to the class used in failure keys: the untyped
// kinds, intN, uintN, floatN, complexN, string, bool.
func className(t types.Type) string {
	if n, isNamed := t.(*types.Named); isNamed {
		if _, basic := n.Underlying().(*types.Basic); basic {
			return className(n.Underlying()) // a defined type over a basic type
		}
	}
	b, ok := t.(*types.Basic)
	if !ok {
		return strings.ReplaceAll(t.String(), " ", "-")
	}
	switch {
	case b.Info()&types.IsUntyped != 0:
		return strings.ReplaceAll(b.Name(), " ", "-")
	case b.Info()&types.IsUnsigned != 0:
		return "uintN"
	case b.Info()&types.IsInteger != 0:
		return "intN"
	case b.Info()&types.IsFloat != 0:
		return "floatN"
	case b.Info()&types.IsComplex != 0:
		return "complexN"
	}
	return b.Name()
}

func classOfName(name string) string { return className(types.Universe.Lookup(name).Type()) }

func typeClass(info *types.Info, e ast.Expr) string {
	tv, ok := info.Types[e]
	if !ok || tv.Type == nil || tv.Type == types.Typ[types.Invalid] {
		return "invalid"
	}
	if tv.Value == nil {
		return "nonconst-" + className(tv.Type)
	}
	return className(tv.Type)
}

var minInt64 = constant.MakeInt64(-1 << 63)
var minusOne = constant.MakeInt64(-1)

// referenceQuirk reports whether the verdict of go/types on the expression
// cannot be used as the reference, and why:
//
//   - go/constant computes MinInt64 / -1 on its int64 fast path and returns
//     MinInt64 (gc prints the same wrong value): not Go's exact arithmetic;
//   - go/types (and gc) accept a typed constant of non-integer type as a shift
//     count (uint8(0) >> float32(0)) although the specification requires an
//     integer type or an untyped constant; see go.dev/issue/47410.
func referenceQuirk(info *types.Info, root ast.Expr) string {
	quirk := ""
	ast.Inspect(root, func(n ast.Node) bool {
		b, ok := n.(*ast.BinaryExpr)
		if !ok {
			return true
		}
		x, y := info.Types[b.X], info.Types[b.Y]
		switch b.Op {
		case token.QUO:
			if x.Value != nil && y.Value != nil && x.Value.Kind() == constant.Int && y.Value.Kind() == constant.Int &&
				constant.Compare(x.Value, token.EQL, minInt64) && constant.Compare(y.Value, token.EQL, minusOne) {
				quirk = "go/constant: MinInt64 / -1 wraps"
			}
		case token.SHL, token.SHR:
			if yb, ok := y.Type.(*types.Basic); ok && y.Value != nil && yb.Info()&(types.IsUntyped|types.IsInteger) == 0 {
				quirk = "go/types: typed non-integer constant accepted as shift count"
			}
		}
		return true
	})
	return quirk
}

// cDecl returns the declaration of the constant c.
func cDecl(f *ast.File) ast.Decl {
	for _, d := range f.Decls {
		if g, ok := d.(*ast.GenDecl); ok && g.Tok == token.CONST && len(g.Specs) == 1 {
			if vs := g.Specs[0].(*ast.ValueSpec); len(vs.Names) == 1 && vs.Names[0].Name == "c" {
				return d
			}
		}
	}
	panic("harness: no declaration of c")
}

// The native package m: untyped numeric constants declared with
// native.UntypedNumericConst and typed constants, described to go/types by a
// source twin generated from the same table.
type nativeConst struct{ name, spelling, goExpr string }

var nativeConsts = []nativeConst{
	{"Big", "1267650600228229401496703205376", "1267650600228229401496703205376"},
	{"Small", "7", "7"}, {"Neg", "-5", "-5"}, {"Zero", "0", "0"}, {"Max64", "9223372036854775807", "9223372036854775807"}, {"Over64", "9223372036854775808", "9223372036854775808"},
	{"Hex", "0x10", "0x10"}, {"Bin", "0b11", "0b11"}, {"Oct", "0o17", "0o17"}, {"Under", "1_000", "1_000"},
	{"Half", "0.5", "0.5"}, {"Tenth", "0.1", "0.1"}, {"NegF", "-1.5", "-1.5"}, {"LeadDot", ".5", ".5"}, {"TrailDot", "2.", "2."}, {"IntF", "4.0", "4.0"},
	{"Exp", "1.5e3", "1.5e3"}, {"BigExp", "1.0e100", "1.0e100"}, {"Huge", "1.0e1000", "1.0e1000"}, {"Tiny", "1.0e-320", "1.0e-320"}, {"HexF", "0x1.8p1", "0x1.8p1"},
	{"Ratio", "1/3", "1.0 / 3"}, {"RatioInt", "6/3", "6.0 / 3"},
	{"Imag", "2i", "2i"}, {"Cplx", "1+2i", "1 + 2i"}, {"CplxNeg", "1.5-0.5i", "1.5 - 0.5i"}, {"CplxReal", "3+0i", "3 + 0i"},
	{"Rune", "'a'", "'a'"}, {"RuneEsc", "'\\n'", "'\\n'"},
}

// exponent forms without a radix point are spelled as Go spells them
var nativeConstsExp = []nativeConst{{"ExpInt", "1e+100", "1e+100"}, {"ExpInt2", "1e3", "1e3"}, {"ExpIntBig", "1E20", "1E20"}, {"HexExp", "0x1p10", "0x1p10"}}

var nativeM, nativeTwin = func() (native.Packages, string) {
	decls := native.Declarations{"T8": int8(5), "TU": uint64(1 << 63), "TF": float32(0.1), "TS": "s", "TB": true, "TC": complex64(1 + 2i),
		"UB": native.UntypedBooleanConst(true), "US": native.UntypedStringConst("u")}
	var b strings.Builder
	b.WriteString("package m\n\nconst T8 int8 = 5\nconst TU uint64 = 1 << 63\nconst TF float32 = 0.1\nconst TS string = \"s\"\nconst TB bool = true\nconst TC complex64 = 1 + 2i\nconst UB = true\nconst US = \"u\"\n")
	for _, c := range nativeConsts {
		decls[c.name] = native.UntypedNumericConst(c.spelling)
		b.WriteString("const " + c.name + " = " + c.goExpr + "\n")
	}
	pkgs := native.Packages{"m": native.Package{Name: "m", Declarations: decls}}
	// one package per exponent form: an unusable constant makes its whole package unusable
	for _, c := range nativeConstsExp {
		pkgs[c.name] = native.Package{Name: c.name, Declarations: native.Declarations{"N": native.UntypedNumericConst(c.spelling)}}
	}
	return pkgs, b.String()
}()

type twinImporter struct{ fset *token.FileSet }

func (ti twinImporter) Import(path string) (*types.Package, error) {
	src := nativeTwin
	for _, c := range nativeConstsExp {
		if path == c.name {
			src = "package " + c.name + "\n\nconst N = " + c.goExpr + "\n"
		}
	}
	if path != "m" && src == nativeTwin {
		return nil, fmt.Errorf("cannot find package %q", path)
	}
	f, err := parser.ParseFile(ti.fset, path+"/twin.go", src, parser.SkipObjectResolution)
	if err != nil {
		panic("harness: twin of package m: " + err.Error())
	}
	conf := types.Config{GoVersion: "go1.25", Error: func(e error) { panic("harness: twin of package m: " + e.Error()) }}
	return conf.Check(path, ti.fset, []*ast.File{f}, nil)
}

func goJudge(pre prelude, e string) (*goVerdict, error) {
	fset := token.NewFileSet()
	src := goSource(pre, e)
	cLine := 2 + strings.Count(pre.decls, "\n")
	f, err := parser.ParseFile(fset, "main.go", src, parser.SkipObjectResolution)
	if err != nil {
		return nil, err
	}
	byLine := map[int]string{}
	conf := types.Config{GoVersion: "go1.25", Importer: twinImporter{fset}, Error: func(e error) {
		te := e.(types.Error)
		if fset.Position(te.Pos).Filename != "main.go" {
			return
		}
		ln := fset.Position(te.Pos).Line
		if _, ok := byLine[ln]; !ok {
			byLine[ln] = te.Msg
		}
	}}
	info := &types.Info{Types: map[ast.Expr]types.TypeAndValue{}}
	pkg, _ := conf.Check("main", fset, []*ast.File{f}, info)
	v := &goVerdict{}
	// operand classes
	root := ast.Unparen(cDecl(f).(*ast.GenDecl).Specs[0].(*ast.ValueSpec).Values[0])
	var operands []ast.Expr
	switch n := root.(type) {
	case *ast.BinaryExpr:
		v.op = n.Op.String()
		operands = []ast.Expr{n.X, n.Y}
	case *ast.UnaryExpr:
		v.op = "unary" + n.Op.String()
		operands = []ast.Expr{n.X}
	case *ast.CallExpr:
		v.op = "call-" + types.ExprString(n.Fun)
		if tv, isType := info.Types[n.Fun]; isType && tv.IsType() {
			v.op = "conv-" + className(tv.Type)
		}
		operands = []ast.Expr{n.Args[0]}
	default:
		v.op = "literal"
	}
	for _, x := range operands {
		v.operands = append(v.operands, typeClass(info, x))
		x = ast.Unparen(x)
		switch x.(type) {
		case *ast.Ident:
		default: // literals too: a literal that is mishandled on its own explains the expressions that contain it
			v.subs = append(v.subs, src[fset.Position(x.Pos()).Offset:fset.Position(x.End()).Offset])
		}
	}
	v.quirk = referenceQuirk(info, root)
	for ln := 2; ln <= cLine; ln++ {
		if msg, bad := byLine[ln]; bad {
			v.errMsg = msg
			return v, nil
		}
	}
	v.named = map[string]constant.Value{}
	for _, n := range pre.names {
		if k, _ := pkg.Scope().Lookup(n).(*types.Const); k != nil && k.Val() != nil {
			v.named[n] = k.Val()
		}
	}
	c, _ := pkg.Scope().Lookup("c").(*types.Const)
	if c == nil || c.Val() == nil || c.Val().Kind() == constant.Unknown {
		return nil, fmt.Errorf("go/types accepted %q but recorded no constant value", e)
	}
	v.accepted = true
	v.typ = c.Type()
	v.val = c.Val()
	for i := range basicTypes {
		if msg, bad := byLine[cLine+1+i]; bad {
			v.convErr[i] = msg
			continue
		}
		ci := pkg.Scope().Lookup("c" + strconv.Itoa(i)).(*types.Const)
		v.conv[i] = ci.Val()
	}
	if _, bad := byLine[cLine+1+len(basicTypes)]; !bad {
		v.defOK = true
		v.defType = pkg.Scope().Lookup("d").Type()
	}
	return v, nil
}

// goValue converts the constant value val of basic type name to the Go value
// Scriggo's print is expected to receive, and to an exact literal.
func goValue(val constant.Value, name string) (any, string) {
	// + 0: a value that underflows to -0 is the constant 0 (constant.MakeFloat64 does the same)
	f64 := func(v constant.Value) float64 { f, _ := constant.Float64Val(v); return f + 0 }
	f32 := func(v constant.Value) float32 { f, _ := constant.Float32Val(v); return f + 0 }
	i64 := func() int64 { n, _ := constant.Int64Val(constant.ToInt(val)); return n }
	u64 := func() uint64 { n, _ := constant.Uint64Val(constant.ToInt(val)); return n }
	hex64 := func(f float64) string { return exactDecimal(new(big.Float).SetFloat64(f)) }
	hex32 := func(f float32) string { return exactDecimal(new(big.Float).SetFloat64(float64(f))) }
	exactInt := func() string { return constant.ToInt(val).ExactString() }
	switch name {
	case "int":
		return int(i64()), exactInt()
	case "int8":
		return int8(i64()), exactInt()
	case "int16":
		return int16(i64()), exactInt()
	case "int32":
		return int32(i64()), exactInt()
	case "int64":
		return int64(i64()), exactInt()
	case "uint":
		return uint(u64()), exactInt()
	case "uint8":
		return uint8(u64()), exactInt()
	case "uint16":
		return uint16(u64()), exactInt()
	case "uint32":
		return uint32(u64()), exactInt()
	case "uint64":
		return uint64(u64()), exactInt()
	case "uintptr":
		return uintptr(u64()), exactInt()
	case "float32":
		f := f32(constant.ToFloat(val))
		return f, hex32(f)
	case "float64":
		f := f64(constant.ToFloat(val))
		return f, hex64(f)
	case "complex64":
		z := constant.ToComplex(val)
		re, im := f32(constant.Real(z)), f32(constant.Imag(z))
		return complex(re, im), "complex(" + hex32(re) + ", " + hex32(im) + ")"
	case "complex128":
		z := constant.ToComplex(val)
		re, im := f64(constant.Real(z)), f64(constant.Imag(z))
		return complex(re, im), "complex(" + hex64(re) + ", " + hex64(im) + ")"
	case "string":
		s := constant.StringVal(val)
		return s, strconv.QuoteToASCII(s)
	case "bool":
		b := constant.BoolVal(val)
		return b, strconv.FormatBool(b)
	}
	panic("unknown basic type " + name)
}

// ---- Scriggo side ----

type scriggoResult struct {
	ok     bool
	msg    string
	badErr string // non-empty when the error is not a *BuildError
}

func scriggoBuild(src string) (*scriggo.Program, scriggoResult) {
	p, err := scriggo.Build(scriggo.Files{"main.go": []byte(src)}, &scriggo.BuildOptions{Packages: nativeM})
	if err == nil {
		return p, scriggoResult{ok: true}
	}
	var be *scriggo.BuildError
	if errors.As(err, &be) {
		return nil, scriggoResult{msg: be.Message()}
	}
	return nil, scriggoResult{msg: err.Error(), badErr: fmt.Sprintf("%T", err)}
}

var reQuoted = regexp.MustCompile(`"(?:[^"\\]|\\.)*"|'(?:[^'\\]|\\.)*'`)
var reNumber = regexp.MustCompile(`[-+]?(?:0x)?[0-9][0-9a-fA-F_.]*(?:[eEpP][-+]?[0-9]+)?i?`)

var phrases = []string{"shift count too large", "invalid shift count", "negative shift count", "shift count", "shift of type", "shifted operand",
	"division by zero", "truncated", "overflow", "mismatched types", "not defined", "cannot convert", "cannot use", "too large", "malformed"}

// why reduces an error message to a class that does not contain the operands.
func why(msg string) string {
	for _, p := range phrases {
		if strings.Contains(msg, p) {
			return strings.ReplaceAll(p, " ", "-")
		}
	}
	m := reQuoted.ReplaceAllString(msg, "S")
	m = reNumber.ReplaceAllString(m, "N")
	return kit.NormMsg(m)
}

// dedup coarsens the operand classes of a shift to typed/untyped.
func dedup(cs []string) []string {
	out := []string{}
	for _, c := range cs {
		if strings.HasPrefix(c, "untyped") {
			c = "untyped"
		} else if c != "invalid" {
			c = "typed"
		}
		if len(out) == 0 || out[len(out)-1] != c {
			out = append(out, c)
		}
	}
	return out
}

func fail(key, detail string) kit.Outcome {
	return kit.Outcome{OK: false, Key: key, Detail: detail, Class: "fail", Nontrivial: true}
}

// subCache memoises the verdict on sub-expressions (pure function of the text).
var subCache sync.Map // string -> kit.Outcome

func checkCached(e string) kit.Outcome {
	if o, ok := subCache.Load(e); ok {
		return o.(kit.Outcome)
	}
	o := checkExpr(e)
	subCache.Store(e, o)
	return o
}

// probe is one observation of the value program.
type probe struct {
	what string // expression printed
	want any
	key  string // failure key
}

// checkExpr is the oracle for one expression.
func checkExpr(e string) kit.Outcome { return checkBlock(prelude{}, e) }

// checkBlock is the oracle for `const c = e` preceded by the named constants of pre.
func checkBlock(pre prelude, e string) kit.Outcome {
	gv, err := goJudge(pre, e)
	if err != nil {
		panic(fmt.Sprintf("harness: generated expression %q does not parse: %v", e, err))
	}
	if gv.quirk != "" {
		return kit.Outcome{OK: true, Class: "skipped:reference-quirk(" + gv.quirk + ")"}
	}
	// A compound expression whose operand already breaks the property on its
	// own is a witness of the operand's defect: report it under that key.
	for _, sub := range gv.subs {
		if o := checkCached(sub); !o.OK {
			o.Detail = "const c = " + e + "\nits operand " + sub + " already fails:\n" + o.Detail
			return o
		} else if strings.HasPrefix(o.Class, "skipped:") {
			return o
		}
	}
	operandsValid := true
	for _, c := range gv.operands {
		if c == "invalid" {
			operandsValid = false
		}
	}
	opKey := "op=" + gv.op
	names := []string{"lhs", "rhs"}
	if len(gv.operands) == 1 {
		names = []string{"x"}
	}
	if gv.op == "<<" || gv.op == ">>" {
		// the defects seen on shifts do not depend on the operand kinds
		opKey += " x=" + strings.Join(dedup(gv.operands), "/")
	} else if len(gv.operands) == 2 && gv.operands[0] == gv.operands[1] {
		opKey += " both=" + gv.operands[0]
	} else {
		for i, c := range gv.operands {
			opKey += " " + names[i] + "=" + c
		}
	}
	if pre.key != "" {
		opKey = pre.key
	} else if len(pre.names) > 0 {
		opKey = "named-constants " + opKey
		e = e + "   // after: " + strings.ReplaceAll(strings.TrimSpace(pre.decls), "\n", "; ")
	}
	base := "package main\n" + pre.decls + "const c = " + e + "\n"
	_, sr := scriggoBuild(base + "func main() { }\n")
	if sr.badErr != "" {
		return fail("error-type|"+sr.badErr, fmt.Sprintf("const c = %s\nBuild returned %s: %s (want *scriggo.BuildError)", e, sr.badErr, sr.msg))
	}
	if !gv.accepted {
		if sr.ok {
			return fail(opKey+" gotypes=reject("+why(gv.errMsg)+") scriggo=accept",
				fmt.Sprintf("const c = %s\ngo/types: %s\nscriggo.Build: accepted", e, gv.errMsg))
		}
		o := kit.Outcome{OK: true, Nontrivial: operandsValid, Class: "both-reject:" + why(gv.errMsg), Ops: 2}
		if !operandsValid {
			o.Class = "both-reject:operand-invalid"
		}
		return o
	}
	if !sr.ok {
		return fail(opKey+" gotypes=accept scriggo=reject("+why(sr.msg)+")",
			fmt.Sprintf("const c = %s\ngo/types: accepted, c = %s (%s)\nscriggo.Build: %s", e, gv.val.ExactString(), gv.typ, sr.msg))
	}
	cClass := className(gv.typ)
	if !fitsMantissa512(gv.val) {
		// go/constant keeps exact rationals of any size; an implementation with a
		// 512-bit mantissa (the specification asks for 256) may round differently
		opKey += " [the exact value needs more than a 512-bit mantissa]"
	}
	ops := 2
	head := fmt.Sprintf("const c = %s\ngo/types: c = %s (%s)\n", e, gv.val.ExactString(), gv.typ)

	// 1. the value of c itself: exact comparison and default-type print
	var probes []probe
	if lit := exactCompare(gv.val); lit != "" {
		probes = append(probes, probe{lit, true, opKey + " value-differs(exact)"})
	}
	// the named constants must still hold their values after c has been computed
	for _, n := range pre.names {
		if lit := exactCompareOf(n, gv.named[n]); lit != "" {
			probes = append(probes, probe{lit, true, opKey + " operand-constant-changed"})
		}
	}
	if gv.defOK {
		name := gv.defType.Underlying().(*types.Basic).Name()
		if name == "rune" {
			name = "int32"
		}
		want, _ := goValue(gv.val, name)
		probes = append(probes, probe{"c", want, opKey + " value-differs(default-type)"})
	}
	// The value of c comes first: a wrong c explains every wrong conversion.
	if o, bad := runProbes(base, head, opKey, probes); bad {
		return o
	}
	ops += 1 + len(probes)
	probes = nil
	// 2. representability by every basic type and the converted values
	var accepted []int
	for i, t := range basicTypes {
		if gv.conv[i] == nil {
			src := base + "const d = " + t + "(c)\nfunc main() { }\n"
			_, r := scriggoBuild(src)
			ops++
			if r.badErr != "" {
				return fail("error-type|"+r.badErr, fmt.Sprintf("%s\nBuild returned %s: %s", src, r.badErr, r.msg))
			}
			if r.ok {
				tag := ""
				if rounded512IsInt(gv.val) && strings.HasSuffix(classOfName(t), "intN") {
					// go/constant keeps exact rationals of any size; the specification
					// only requires 256 bits of mantissa. Scriggo keeps 512.
					tag = " [c is an integer once rounded to a 512-bit mantissa]"
				}
				return fail("convert "+classOfName(t)+"(c) c="+cClass+" gotypes=reject("+why(gv.convErr[i])+") scriggo=accept"+tag,
					fmt.Sprintf("%sconst d = %s(c)\ngo/types: %s\nscriggo.Build: accepted", head, t, gv.convErr[i]))
			}
			continue
		}
		accepted = append(accepted, i)
		want, lit := goValue(gv.conv[i], t)
		k := "convert " + classOfName(t) + "(c) c=" + cClass + " value-differs"
		if exactCompare(gv.val) == "" {
			k = opKey + " value-differs as=" + classOfName(t) // c itself could not be checked exactly
		}
		probes = append(probes,
			probe{t + "(c)", want, k + " form=print"},
			probe{t + "(c) == " + lit, true, k + " form=const=="},
			probe{"func() bool { v := " + t + "(c); return v == " + lit + " }()", true, k + " form=var=="})
	}
	if o, bad := runProbes(base, head, opKey, probes); bad {
		if strings.Contains(o.Key, "value-program-rejected") {
			// isolate the conversion that Scriggo rejects
			for _, i := range accepted {
				t := basicTypes[i]
				src := base + "const d = " + t + "(c)\nfunc main() { }\n"
				if _, r1 := scriggoBuild(src); !r1.ok {
					return fail("convert "+classOfName(t)+"(c) c="+cClass+" gotypes=accept scriggo=reject("+why(r1.msg)+")",
						fmt.Sprintf("%sconst d = %s(c)\ngo/types: accepted, d = %s\nscriggo.Build: %s", head, t, gv.conv[i].ExactString(), r1.msg))
				}
			}
		}
		return o
	}
	ops++
	return kit.Outcome{OK: true, Nontrivial: operandsValid, Class: "both-accept:" + cClass, Ops: ops + len(probes)}
}

// runProbes builds and runs a program that prints the probes and compares the
// values received by RunOptions.Print with the expected ones.
func runProbes(base, head, opKey string, probes []probe) (kit.Outcome, bool) {
	if len(probes) == 0 {
		return kit.Outcome{}, false
	}
	var prog strings.Builder
	prog.WriteString(base)
	prog.WriteString("func main() {\n")
	for _, pr := range probes {
		prog.WriteString("\tprint(" + pr.what + ")\n")
	}
	prog.WriteString("}\n")
	p, r := scriggoBuild(prog.String())
	if r.badErr != "" {
		return fail("error-type|"+r.badErr, fmt.Sprintf("%s\nBuild returned %s: %s", prog.String(), r.badErr, r.msg)), true
	}
	if !r.ok {
		// isolate the probe
		for _, pr := range probes {
			src := base + "func main() {\n\tprint(" + pr.what + ")\n}\n"
			if _, r1 := scriggoBuild(src); !r1.ok && !strings.Contains(pr.what, "(c)") {
				return fail(pr.key+" probe-rejected("+why(r1.msg)+")", fmt.Sprintf("%s\ngo/types accepts it; scriggo.Build: %s", src, r1.msg)), true
			}
		}
		return fail(opKey+" value-program-rejected("+why(r.msg)+")",
			fmt.Sprintf("%s\ngo/types accepts every line; scriggo.Build: %s", prog.String(), r.msg)), true
	}
	var got []any
	if err := p.Run(&scriggo.RunOptions{Print: func(v any) { got = append(got, v) }}); err != nil {
		return fail(opKey+" run-error|"+kit.NormMsg(err.Error()), fmt.Sprintf("%s\nRun: %v", prog.String(), err)), true
	}
	if len(got) != len(probes) {
		return fail(opKey+" print-count", fmt.Sprintf("%s\nprinted %d values, want %d", prog.String(), len(got), len(probes))), true
	}
	for i, pr := range probes {
		if !sameValue(got[i], pr.want) {
			if got[i] == pr.want {
				// equal for ==: they differ by the sign of a zero
				return fail(fmt.Sprintf("negative zero in a %T value (Go constants have no -0)", pr.want),
					fmt.Sprintf("%sprint(%s)\nexpected %T %v\nobserved %T %v", head, pr.what, pr.want, pr.want, got[i], got[i])), true
			}
			return fail(pr.key, fmt.Sprintf("%sprint(%s)\nexpected %T %v\nobserved %T %v", head, pr.what, pr.want, pr.want, got[i], got[i])), true
		}
	}
	return kit.Outcome{}, false
}

// sameValue is == on the printed values, except that it tells -0 from +0 (Go
// constants have no negative zero) and takes NaN as equal to NaN.
func sameValue(got, want any) bool {
	f := func(a, b float64) bool {
		return a == b && math.Signbit(a) == math.Signbit(b) || a != a && b != b
	}
	switch w := want.(type) {
	case float64:
		g, ok := got.(float64)
		return ok && f(g, w)
	case float32:
		g, ok := got.(float32)
		return ok && f(float64(g), float64(w))
	case complex128:
		g, ok := got.(complex128)
		return ok && f(real(g), real(w)) && f(imag(g), imag(w))
	case complex64:
		g, ok := got.(complex64)
		return ok && f(float64(real(g)), float64(real(w))) && f(float64(imag(g)), float64(imag(w)))
	}
	return got == want
}

// fitsMantissa512 reports whether val (or both its parts) is exactly
// representable with a mantissa of 512 bits.
func fitsMantissa512(val constant.Value) bool {
	switch val.Kind() {
	case constant.Complex:
		return fitsMantissa512(constant.Real(val)) && fitsMantissa512(constant.Imag(val))
	case constant.Float:
		f := new(big.Float).SetPrec(512)
		switch x := constant.Val(val).(type) {
		case *big.Rat:
			f.SetRat(x)
			if !x.IsInt() && new(big.Int).And(x.Denom(), new(big.Int).Sub(x.Denom(), big.NewInt(1))).Sign() != 0 {
				return true // not a dyadic rational: no binary mantissa holds it, the comparison is after rounding anyway
			}
		case *big.Float:
			f.Set(x)
		}
		return f.Acc() == big.Exact
	}
	return true
}

// rounded512IsInt reports whether the non-integer floating-point constant val
// becomes an integer when rounded to a mantissa of 512 bits.
func rounded512IsInt(val constant.Value) bool {
	if val.Kind() == constant.Complex && constant.Sign(constant.Imag(val)) == 0 {
		val = constant.Real(val)
	}
	if val.Kind() != constant.Float || constant.ToInt(val).Kind() == constant.Int {
		return false
	}
	f := new(big.Float).SetPrec(512)
	switch x := constant.Val(val).(type) {
	case *big.Rat:
		f.SetRat(x)
	case *big.Float:
		f.Set(x)
	default:
		return false
	}
	return f.IsInt()
}

// exactCompare returns a boolean constant expression that is true exactly
// when c has the value val, or "" if val has no exact literal.
func exactCompare(val constant.Value) string { return exactCompareOf("c", val) }

func exactCompareOf(c string, val constant.Value) string {
	if val == nil {
		return ""
	}
	if val.Kind() == constant.Complex {
		re, im := exactLiteral(constant.Real(val)), exactLiteral(constant.Imag(val))
		if re == "" || im == "" {
			return ""
		}
		return "real(" + c + ") == " + re + " && imag(" + c + ") == " + im
	}
	if lit := exactLiteral(val); lit != "" {
		return c + " == " + lit
	}
	return ""
}

// exactLiteral returns a literal that denotes val exactly both for Go and for
// any implementation with at least 256 bits of mantissa, or "" if there is none
// (non-dyadic rationals, values beyond 512 bits).
func exactLiteral(val constant.Value) string {
	switch val.Kind() {
	case constant.Bool:
		return strconv.FormatBool(constant.BoolVal(val))
	case constant.String:
		return strconv.QuoteToASCII(constant.StringVal(val))
	case constant.Int:
		return val.ExactString()
	case constant.Float:
		if iv := constant.ToInt(val); iv.Kind() == constant.Int {
			if constant.BitLen(iv) > 512 {
				return ""
			}
			return iv.ExactString() + ".0"
		}
		num, den := constant.Num(val), constant.Denom(val)
		if num.Kind() != constant.Int || den.Kind() != constant.Int {
			return ""
		}
		d, _ := new(big.Int).SetString(den.ExactString(), 10)
		n, _ := new(big.Int).SetString(num.ExactString(), 10)
		k := d.BitLen() - 1
		if d.TrailingZeroBits() != uint(k) || k > 200 || n.BitLen() > 200 {
			return ""
		}
		r := new(big.Rat).SetFrac(n, d)
		return exactDecimal(new(big.Float).SetPrec(512).SetRat(r))
	}
	return ""
}

// exactDecimal returns the exact decimal expansion of the binary
// floating-point number f as a Go floating-point literal. (Hexadecimal
// floating-point literals are avoided: Scriggo's lexer rejects the valid
// literal 0x1.fep+07, which is outside this property.)
func exactDecimal(f *big.Float) string {
	if f.Sign() == 0 {
		return "0.0"
	}
	s := f.Text('e', 1100) // more digits than any float64 or 200-bit dyadic needs
	i := strings.IndexByte(s, 'e')
	mant, exp := strings.TrimRight(s[:i], "0"), s[i:]
	if strings.HasSuffix(mant, ".") {
		mant += "0"
	}
	return mant + exp
}

// ---- spaces ----

func exprSpace(name string, size uint64, at func(i uint64) string) kit.Space {
	return kit.Space{
		Name:     name,
		Size:     size,
		Eval:     func(i uint64) kit.Outcome { return checkExpr(at(i)) },
		Describe: func(i uint64) any { return "const c = " + at(i) },
	}
}

func deepSpaces(tag string, lits []string, typed bool) []kit.Space {
	nl, nb := uint64(len(lits)), uint64(len(binOps))
	nt := uint64(1)
	if typed {
		nt = uint64(len(basicTypes))
	}
	lf := func(t, l uint64) string {
		if typed {
			return basicTypes[t] + "(" + lits[l] + ")"
		}
		return lits[l]
	}
	size := kit.Product(nl, nb, nl, nb, nl, nt)
	return []kit.Space{
		exprSpace(tag+".(a.b).c", size, func(i uint64) string {
			m := kit.Mixed(i, nl, nb, nl, nb, nl, nt)
			return bin(bin(lf(m[5], m[4]), binOps[m[3]], lf(m[5], m[2])), binOps[m[1]], lf(m[5], m[0]))
		}),
		exprSpace(tag+".a.(b.c)", size, func(i uint64) string {
			m := kit.Mixed(i, nl, nb, nl, nb, nl, nt)
			return bin(lf(m[5], m[4]), binOps[m[3]], bin(lf(m[5], m[2]), binOps[m[1]], lf(m[5], m[0])))
		}),
	}
}

// int64Boundary: the operands around the int64 fast path of integer
// constants. MinInt64 in the small (int64) representation is only reachable
// through arithmetic such as (-9223372036854775807 - 1): the literal
// -9223372036854775808 is parsed as a big integer.
var int64Boundary = []string{pow2(63, -1), "-" + pow2(63, -1), pow2(63, -2), "1", "-1", "2", "0", pow2(31, -1), pow2(62, 0)}
var arithOps = []string{"+", "-", "*", "/", "%"}

func boundarySpaces() []kit.Space {
	nl, nb := uint64(len(int64Boundary)), uint64(len(arithOps))
	size := kit.Product(nl, nb, nl, nb, nl)
	l := func(i uint64) string { return int64Boundary[i] }
	return []kit.Space{
		exprSpace("13.int64-boundary.(a.b).c", size, func(i uint64) string {
			m := kit.Mixed(i, nl, nb, nl, nb, nl)
			return bin(bin(l(m[4]), arithOps[m[3]], l(m[2])), arithOps[m[1]], l(m[0]))
		}),
		exprSpace("13.int64-boundary.a.(b.c)", size, func(i uint64) string {
			m := kit.Mixed(i, nl, nb, nl, nb, nl)
			return bin(l(m[4]), arithOps[m[3]], bin(l(m[2]), arithOps[m[1]], l(m[0])))
		}),
	}
}

// named constants: const a = L; const b = <op on a>; const c = <op on a and b>.
// The constant of a declared name is shared by all its uses, so an operation
// that modifies an operand in place corrupts a (and every later use of it).
var namedLiterals = append(append([]string{}, literals...), "1<<40", "1<<64", "1<<70", "-1<<63", "1<<63 - 1", "0.5 + 0.1", "1 + 1i")
var namedB = []string{"-a", "+a", "^a", "a + 1", "a - 1", "a * 2", "a / 2", "a << 1", "a >> 1", "a * a", "a - a", "a"}
var namedC = []string{"a + b", "a - b", "b - a", "a * b", "a / b", "a % b", "a & b", "a | b", "a ^ b", "a &^ b", "a == b", "a < b", "a > 0", "b > 0", "a == a", "-a", "-b", "a"}

var reName = regexp.MustCompile(`\b[ab]\b`)

func namedSpace() kit.Space {
	nl, nbb, nc := uint64(len(namedLiterals)), uint64(len(namedB)), uint64(len(namedC))
	at := func(i uint64) (pre prelude, c string, inlineB, inlineC string) {
		m := kit.Mixed(i, nc, nbb, nl)
		lit, b, c := namedLiterals[m[2]], namedB[m[1]], namedC[m[0]]
		pre = prelude{decls: "const a = " + lit + "\nconst b = " + b + "\n", names: []string{"a", "b"}}
		inlineB = reName.ReplaceAllString(b, "("+lit+")")
		inlineC = reName.ReplaceAllStringFunc(c, func(n string) string {
			if n == "a" {
				return "(" + lit + ")"
			}
			return "(" + inlineB + ")"
		})
		return pre, c, inlineB, inlineC
	}
	return kit.Space{
		Name: "14.named-constants",
		Size: kit.Product(nc, nbb, nl),
		Eval: func(i uint64) kit.Outcome {
			pre, c, inlineB, inlineC := at(i)
			// a defect of the expressions themselves is reported under its own key
			for _, e := range []string{inlineB, inlineC} {
				if o := checkCached(e); !o.OK {
					o.Detail = pre.decls + "const c = " + c + "\nthe same expression without named constants already fails:\n" + o.Detail
					return o
				} else if strings.HasPrefix(o.Class, "skipped:") {
					return o
				}
			}
			return checkBlock(pre, c)
		},
		Describe: func(i uint64) any {
			pre, c, _, _ := at(i)
			return pre.decls + "const c = " + c
		},
	}
}

func spaces(tier string) []kit.Space {
	thorough := tier == "thorough"
	nb, nu, nt := uint64(len(binOps)), uint64(len(unOps)), uint64(len(basicTypes))
	// untyped spaces always use the full literal set; the typed spaces use it
	// in the thorough tier and the core subset in the quick tier
	tl, sc := coreLiterals, coreShiftCounts
	uops, uops2 := []string{"-"}, []string{"-"}
	if thorough {
		tl, sc = literals, shiftCounts
		uops, uops2 = unOps, unOps
	}
	nl, ntl, ns, nuo, nuo2 := uint64(len(literals)), uint64(len(tl)), uint64(len(sc)), uint64(len(uops)), uint64(len(uops2))
	lit := func(i uint64) string { return literals[i] }
	tlit := func(i uint64) string { return tl[i] }
	typed := func(t, l uint64) string { return basicTypes[t] + "(" + tl[l] + ")" }
	shifts := []string{"<<", ">>"}
	sps := []kit.Space{
		exprSpace("01.leaf", leafCount(), leaf),
		exprSpace("02.unary", nu*leafCount(), func(i uint64) string {
			m := kit.Mixed(i, leafCount(), nu)
			return un(unOps[m[1]], leaf(m[0]))
		}),
		exprSpace("03.binary.untyped", kit.Product(nl, nb, nl), func(i uint64) string {
			m := kit.Mixed(i, nl, nb, nl)
			return bin(lit(m[2]), binOps[m[1]], lit(m[0]))
		}),
		exprSpace("04.unary-of-binary", kit.Product(nl, nb, nl, nuo), func(i uint64) string {
			m := kit.Mixed(i, nl, nb, nl, nuo)
			return un(uops[m[3]], bin(lit(m[2]), binOps[m[1]], lit(m[0])))
		}),
		exprSpace("05.binary-of-unary", kit.Product(nl, nb, nl, nuo2, 2), func(i uint64) string {
			m := kit.Mixed(i, nl, nb, nl, nuo2, 2)
			a, b := lit(m[2]), lit(m[0])
			if m[4] == 0 {
				a = "(" + un(uops2[m[3]], a) + ")"
			} else {
				b = "(" + un(uops2[m[3]], b) + ")"
			}
			return bin(a, binOps[m[1]], b)
		}),
		exprSpace("06.binary.typed", kit.Product(ntl, nb, ntl, nt), func(i uint64) string {
			m := kit.Mixed(i, ntl, nb, ntl, nt)
			return bin(typed(m[3], m[2]), binOps[m[1]], typed(m[3], m[0]))
		}),
		exprSpace("07.binary.typed-untyped", kit.Product(ntl, nb, ntl, nt), func(i uint64) string {
			m := kit.Mixed(i, ntl, nb, ntl, nt)
			return bin(typed(m[3], m[2]), binOps[m[1]], tlit(m[0]))
		}),
		exprSpace("08.binary.untyped-typed", kit.Product(ntl, nb, ntl, nt), func(i uint64) string {
			m := kit.Mixed(i, ntl, nb, ntl, nt)
			return bin(tlit(m[2]), binOps[m[1]], typed(m[3], m[0]))
		}),
		exprSpace("09.shift.untyped-typed", kit.Product(ns, nt, 2, nl), func(i uint64) string {
			m := kit.Mixed(i, ns, nt, 2, nl)
			return bin(lit(m[3]), shifts[m[2]], basicTypes[m[1]]+"("+sc[m[0]]+")")
		}),
		exprSpace("10.shift.typed-typed", kit.Product(ns, nt, 2, ntl, nt), func(i uint64) string {
			m := kit.Mixed(i, ns, nt, 2, ntl, nt)
			return bin(typed(m[4], m[3]), shifts[m[2]], basicTypes[m[1]]+"("+sc[m[0]]+")")
		}),
	}
	sps = append(sps, boundarySpaces()...)
	sps = append(sps, namedSpace(), typedBoundarySpace())
	sps = append(sps, extendedSpaces()...)
	sps = append(sps, typedDeclSpace(), constGroupSpace())
	sps = append(sps, nativeConstSpaces()...)
	sps = append(sps, implicitSpace())
	if thorough {
		sps = append(sps, deepSpaces("11.depth2.untyped16", deep16, false)...)
		sps = append(sps, deepSpaces("12.depth2.typed8", deep8, true)...)
	} else {
		sps = append(sps, deepSpaces("11.depth2.untyped7", deep8[1:], false)...)
	}
	return sps
}

func main() {
	// The cases allocate many short-lived small objects; with the default
	// heap target the collector runs almost continuously (measured: 2x slower).
	debug.SetGCPercent(400)
	kit.Main(&kit.Check{
		ID:    "C02",
		Level: "model_checking",
		Rule:  fmt.Sprintf("every constant expression of the listed shapes over %d literals (0, ±1, 2^k-1/2^k/2^k+1 for k in 7,8,15,16,31,32,63,64, 2^100, 511, 512, 2^511, floats on and off the float64 fast path, beyond float32/float64, rune, strings, bools, imaginary), %d binary and %d unary operators and conversions to the %d basic types: leaf, unary, binary (untyped, T op T, T op untyped, untyped op T), shifts with independently typed operands, unary-of-binary, binary-of-unary, both depth-2 shapes with the operators + - * / %% over 9 operands around the int64 fast path (MaxInt64, -MaxInt64, MaxInt64-1, 1, -1, 2, 0, MaxInt32, 2^62), blocks of named constants (const a = L; const b = one of 12 operations on a; const c = one of 18 operations on a and b, over the literal set plus shift and sum expressions; a and b are re-read after c), typed integer operands at the edges of their type (11 integer types and 5 defined types x 8 operands: both ends of the range, their neighbours, -1, 0, 1, 2 x 11 operators, as T(a) op T(b), T(a) op b and through a typed named constant), 33 further leaves (hexadecimal floats with short mantissas inside and outside float64, integers written in float form from 2^63 up, decimals within 2^-53 of an integer, values that round differently to float32 in one and in two steps, -0.0, constant calls of real, imag and complex) as leaves, under every conversion and unary operator, with 12 partners under every binary operator and pairwise under 6 operators, typed constant declarations (const a T = E for 15 numeric types x 49 values, then 10 operations on a), constant groups (second spec implicit, with its own value, with iota, with its own type), the constants of a native package declared with native.UntypedNumericConst in 29 spellings and typed, alone, under 11 operators with 14 partners, and used again after a first use in 9 forms, exponent spellings in a package each, implicit conversions observed at run time (124 constants in every internal representation x 28 sites: declaration, assignment, argument, variadic argument, return, slice, array, struct and map elements, map key, channel send, operations and comparisons with a variable, switch case, array, slice and string index, slice bound, shift counts, make and array length, division of a float or int variable x the 15 numeric types), and both depth-2 binary shapes over a 7 (quick) / 16 (thorough) literal subset, thorough also with all three leaves converted to each basic type; in the quick tier the typed binary and shift spaces draw their literals from a 20-literal core subset and the unary-of-binary / binary-of-unary spaces use the unary operator - only. Each index is a distinct expression text. A case is non-trivial when every operand of the outermost operator is itself a valid constant expression for go/types, so the verdict depends on the operator and not on a broken leaf", len(literals), len(binOps), len(unOps), len(basicTypes)),
		Assumptions: []string{
			"reference = go/types + go/constant of the toolchain that builds the check (GoVersion go1.25, 64-bit int)",
			"values are compared after conversion to each basic type (floats after rounding to the type) and, for integers, dyadic rationals, strings and booleans, exactly against a literal; non-dyadic untyped float values are compared only through float32/float64/complex rounding",
			"expressions deeper than 2 operators are not explored",
			"two documented quirks of the reference are skipped, not judged: go/constant's MinInt64 / -1 (int64 fast path wraps; gc prints the same wrong value) and go/types accepting a typed constant of non-integer type as shift count (go.dev/issue/47410)",
			"a compound expression whose operand (a literal too) already fails on its own is reported under the operand's failure key; an implicit conversion site whose constant already fails under explicit conversion is reported under that key",
			"printed floating-point values are compared with their sign: a negative zero where Go has +0 is a failure (Go constants have no -0)",
			"the array-length site is not built for lengths of 4096 and more: Build allocates the zero value of the array and a huge valid length exhausts the memory of the host",
		},
		Spaces: spaces,
		// safety net on an overloaded machine: ~6 min on 16 idle cores
		Budget: map[string]time.Duration{"thorough": 30 * time.Minute},
	})
}
