package main

import (
	"fmt"
	"go/ast"
	"go/constant"
	"go/parser"
	"go/token"
	"go/types"
	"strings"

	"verif/kit"

	"github.com/open2b/scriggo"
)

// ---- implicit conversions of untyped constants, observed at run time ----
//
// An untyped constant in each internal representation is used where Go
// converts it implicitly to a numeric type: the program prints the result and
// the value must be the exact one (go/types records it for the expression);
// where go/types rejects the use (overflow, truncation) Build must too.

var implicitValues = func() []string {
	var vs []string
	for _, l := range literals {
		if !strings.HasPrefix(l, `"`) && l != "true" && l != "false" {
			vs = append(vs, l)
		}
	}
	vs = append(vs, extLeaves...)
	return append(vs, "1<<70>>6", "0.1*10", "1e1000/1e999", "7/2.0", "8/2.0", "1<<62", "-1<<63", "1<<64 - 1", "-0.5", "1e19 + 0.5", "1e19 + 1", "0.1 + 0.2", "1 - 1e-320", "3i * 0", "'a' + 0.0")
}()

// a site is a statement that uses (E) where a value of type T is expected
type implicitSite struct {
	name  string
	decls string // package-level declarations, T replaced
	stmt  string // statements of main printing one value; T and (E) replaced
	typed bool   // enumerated over the numeric types
	want  func(val constant.Value, t string) (any, bool)
}

func sameAsConversion(val constant.Value, t string) (any, bool) {
	w, _ := goValue(val, t)
	return w, true
}

func intOf(val constant.Value) (int64, bool) {
	return constant.Int64Val(constant.ToInt(val))
}

var implicitSites = []implicitSite{
	{"variable declaration", "", "var v T = (E); print(v)", true, sameAsConversion},
	{"assignment", "", "var v T; v = (E); print(v)", true, sameAsConversion},
	{"argument", "func id(x T) T { return x }\n", "print(id((E)))", true, sameAsConversion},
	{"variadic argument", "func last(xs ...T) T { return xs[len(xs)-1] }\n", "print(last(0, (E)))", true, sameAsConversion},
	{"return value", "func ret() T { return (E) }\n", "print(ret())", true, sameAsConversion},
	{"slice element", "", "print([]T{(E)}[0])", true, sameAsConversion},
	{"array element with index", "", "print([...]T{1: (E)}[1])", true, sameAsConversion},
	{"struct field", "", "print(struct{ f T }{(E)}.f)", true, sameAsConversion},
	{"map element", "", "print(map[string]T{\"k\": (E)}[\"k\"])", true, sameAsConversion},
	{"map key", "", "for k := range map[T]bool{(E): true} { print(k) }", true, sameAsConversion},
	{"channel send", "", "ch := make(chan T, 1); ch <- (E); print(<-ch)", true, sameAsConversion},
	{"variable + constant", "", "var w T; print(w + (E))", true, sameAsConversion},
	{"constant + variable", "", "var w T; print((E) + w)", true, sameAsConversion},
	{"variable * constant", "", "var w T = 1; print(w * (E))", true, sameAsConversion},
	{"variable == constant", "", "var x T = (E); print(x == (E))", true, func(constant.Value, string) (any, bool) { return true, true }},
	{"variable != constant", "", "var x T = (E); print(x != (E))", true, func(constant.Value, string) (any, bool) { return false, true }},
	{"variable < constant", "", "var x T = (E); print(x < (E), x >= (E))", true, nil}, // two values: see below
	{"switch case", "", "var x T = (E); switch x { case (E): print(1); default: print(2) }", true, func(constant.Value, string) (any, bool) { return 1, true }},
	{"array index", "var arr = [4]int{10, 11, 12, 13}\n", "print(arr[(E)])", false, func(v constant.Value, _ string) (any, bool) { n, _ := intOf(v); return int(10 + n), true }},
	{"slice index", "var sl = []int{10, 11, 12, 13}\n", "print(sl[(E)])", false, func(v constant.Value, _ string) (any, bool) {
		n, _ := intOf(v)
		return int(10 + n), n < 4 // beyond the length: a run-time panic, not a build error
	}},
	{"string index", "var str = \"abcd\"\n", "print(str[(E)])", false, func(v constant.Value, _ string) (any, bool) { n, _ := intOf(v); return byte('a' + n), n < 4 }},
	{"slice bound", "var sl = []int{10, 11, 12, 13}\n", "print(len(sl[(E):]))", false, func(v constant.Value, _ string) (any, bool) { n, _ := intOf(v); return int(4 - n), n <= 4 }},
	{"shift count of a variable", "", "var w int64 = 1; print(w << (E))", false, func(v constant.Value, _ string) (any, bool) {
		n, _ := intOf(v)
		if n >= 64 {
			return int64(0), true
		}
		return int64(1) << uint(n), true
	}},
	{"shift count of a constant in a variable context", "", "var w int64 = 1 << (E); print(w)", false, func(v constant.Value, _ string) (any, bool) { n, _ := intOf(v); return int64(1) << uint(n), true }},
	{"make length", "", "print(len(make([]int, (E))))", false, func(v constant.Value, _ string) (any, bool) { n, _ := intOf(v); return int(n), n < 4096 }},
	{"array length", "", "var a [(E)]int8; print(len(a))", false, func(v constant.Value, _ string) (any, bool) { n, _ := intOf(v); return int(n), n < 4096 }},
	{"float64 variable / constant", "", "var x float64 = 1; print(x / (E))", false, func(v constant.Value, _ string) (any, bool) {
		f, _ := constant.Float64Val(constant.ToFloat(v))
		return 1 / f, true
	}},
	{"float32 variable / constant", "", "var x float32 = 1; print(x / (E))", false, func(v constant.Value, _ string) (any, bool) {
		f, _ := constant.Float32Val(constant.ToFloat(v))
		return 1 / f, true
	}},
	{"int variable / constant", "", "var x int = 100; print(x / (E), x % (E))", false, nil}, // two values: see below
}

type siteCase struct {
	t     string // type, "" for untyped sites
	src   string
	eOff  int // offset of the first (E) in src
	lines [2]int
}

// siteProgram builds the Go program of one site for one type.
func siteProgram(s implicitSite, t, e string) (src string, eOff int) {
	stmt := strings.ReplaceAll(s.stmt, "T", t)
	decls := strings.ReplaceAll(s.decls, "T", t)
	head := "package main\n\n" + decls + "\nfunc main() {\n\t"
	eOff = len(head) + strings.Index(stmt, "(E)")
	if i := strings.Index(decls, "(E)"); i >= 0 {
		eOff = len("package main\n\n") + i
	}
	src = head + stmt + "\n}\n"
	return strings.ReplaceAll(src, "(E)", "("+e+")"), eOff
}

// goSite type-checks the program and returns the constant recorded for (E).
func goSite(src string, eOff int) (ok bool, msg string, val constant.Value, typ types.Type) {
	fset := token.NewFileSet()
	f, err := parser.ParseFile(fset, "main.go", src, parser.SkipObjectResolution)
	if err != nil {
		panic("harness: " + err.Error() + "\n" + src)
	}
	first := ""
	conf := types.Config{GoVersion: "go1.25", Error: func(e error) {
		if first == "" {
			first = e.(types.Error).Msg
		}
	}}
	info := &types.Info{Types: map[ast.Expr]types.TypeAndValue{}}
	conf.Check("main", fset, []*ast.File{f}, info)
	if first != "" {
		return false, first, nil, nil
	}
	base := fset.File(f.Pos()).Base()
	ast.Inspect(f, func(n ast.Node) bool {
		if p, isParen := n.(*ast.ParenExpr); isParen && int(p.Pos())-base == eOff && val == nil {
			tv := info.Types[p]
			val, typ = tv.Value, tv.Type
		}
		return true
	})
	return true, "", val, typ
}

func implicitSpace() kit.Space {
	nv, ns := uint64(len(implicitValues)), uint64(len(implicitSites))
	at := func(i uint64) (implicitSite, string) { return implicitSites[i%ns], implicitValues[i/ns] }
	return kit.Space{
		Name: "20.implicit-conversion-sites",
		Size: nv * ns,
		Eval: func(i uint64) kit.Outcome {
			s, e := at(i)
			// a constant that is already mishandled where it is converted explicitly
			// is reported under that key: the sites add nothing
			if o := checkCached(e); !o.OK {
				o.Detail = "implicit conversion of " + e + " (" + s.name + "): the constant itself already fails:\n" + o.Detail
				return o
			}
			ts := []string{"int"}
			if s.typed {
				ts = numericTypes
			}
			accepted, rejected := 0, 0
			for _, t := range ts {
				src, eOff := siteProgram(s, t, e)
				ok, msg, val, typ := goSite(src, eOff)
				if ok && val != nil && s.name == "array length" {
					// Build allocates the zero value of the array while type checking: a
					// huge valid length exhausts the memory of the host (reported apart)
					if n, exact := intOf(val); !exact || n >= 4096 {
						continue
					}
				}
				p, r := scriggoBuild(src)
				if r.badErr != "" {
					return fail("error-type|"+r.badErr, src+"\nBuild returned "+r.badErr+": "+r.msg)
				}
				tc := "the site's type"
				if s.typed {
					tc = classOfName(t)
				}
				key := "implicit conversion: " + s.name + ", to " + tc
				if !ok {
					rejected++
					if r.ok {
						return fail(key+" | gotypes=reject("+why(msg)+") scriggo=accept", src+"\ngo/types: "+msg+"\nscriggo.Build: accepted")
					}
					continue
				}
				if !r.ok {
					return fail(key+" | gotypes=accept scriggo=reject("+why(r.msg)+")", src+"\ngo/types: accepted\nscriggo.Build: "+r.msg)
				}
				accepted++
				if val == nil {
					continue // (E) is not a constant operand here (a shift of a variable count…)
				}
				name := t
				if b, isBasic := typ.Underlying().(*types.Basic); isBasic && !s.typed {
					name = b.Name()
				}
				var wants []any
				switch {
				case s.want != nil:
					w, runnable := s.want(val, name)
					if !runnable {
						continue
					}
					wants = []any{w}
				case strings.HasPrefix(s.name, "variable <"):
					wants = []any{false, true}
				default: // int variable / constant
					n, _ := intOf(val)
					wants = []any{int(100 / n), int(100 % n)}
				}
				var got []any
				if err := p.Run(&scriggo.RunOptions{Print: func(v any) { got = append(got, v) }}); err != nil {
					return fail(key+" | run-error", src+"\nRun: "+err.Error())
				}
				if len(got) != len(wants) {
					return fail(key+" | print-count", fmt.Sprintf("%s\nprinted %d values, want %d", src, len(got), len(wants)))
				}
				for k := range wants {
					if !sameValue(got[k], wants[k]) {
						return fail(key+" | value-differs", fmt.Sprintf("%s\ngo/types: (%s) is %s as %s\nexpected %T %v\nobserved %T %v", src, e, val.ExactString(), typ, wants[k], wants[k], got[k], got[k]))
					}
				}
			}
			cls := "implicit: accepted by both for some types"
			if accepted == 0 {
				cls = "implicit: rejected by both for every type"
			} else if rejected == 0 {
				cls = "implicit: accepted by both for every type"
			}
			return kit.Outcome{OK: true, Nontrivial: true, Class: cls, Ops: len(ts) * 2}
		},
		Describe: func(i uint64) any {
			s, e := at(i)
			src, _ := siteProgram(s, "T", e)
			return map[string]string{"site": s.name, "constant": e, "program (T = each numeric type)": src}
		},
	}
}
