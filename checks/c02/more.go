package main

import (
	"fmt"
	"math/big"
	"strings"

	"verif/kit"
)

// ---- typed operands at the edges of their type ----

type intType struct {
	name, decl string // decl: a type declaration for defined types
	bits       uint
	signed     bool
}

var intTypes = []intType{
	{"int8", "", 8, true}, {"int16", "", 16, true}, {"int32", "", 32, true}, {"int64", "", 64, true}, {"int", "", 64, true},
	{"uint8", "", 8, false}, {"uint16", "", 16, false}, {"uint32", "", 32, false}, {"uint64", "", 64, false}, {"uint", "", 64, false}, {"uintptr", "", 64, false},
	{"D8", "type D8 int8\n", 8, true}, {"D16", "type D16 int16\n", 16, true}, {"D32", "type D32 int32\n", 32, true}, {"D64", "type D64 int64\n", 64, true}, {"DU8", "type DU8 uint8\n", 8, false},
}

// edge returns the operands used for t: both ends of the range, their
// neighbours and the small values that push a result one past an end.
func (t intType) edge() []string {
	one := big.NewInt(1)
	if t.signed {
		max := new(big.Int).Sub(new(big.Int).Lsh(one, t.bits-1), one)
		min := new(big.Int).Neg(new(big.Int).Lsh(one, t.bits-1))
		return []string{min.String(), new(big.Int).Add(min, one).String(), "-1", "0", "1", "2", new(big.Int).Sub(max, one).String(), max.String()}
	}
	max := new(big.Int).Sub(new(big.Int).Lsh(one, t.bits), one)
	half := new(big.Int).Lsh(one, t.bits-1)
	return []string{"0", "1", "2", "7", new(big.Int).Sub(half, one).String(), half.String(), new(big.Int).Sub(max, one).String(), max.String()}
}

func classOfIntType(t intType) string {
	if t.signed {
		return "intN"
	}
	return "uintN"
}

var edgeOps = []string{"+", "-", "*", "/", "%", "&", "|", "^", "&^", "<<", ">>"}

func typedBoundarySpace() kit.Space {
	nt, no := uint64(len(intTypes)), uint64(len(edgeOps))
	at := func(i uint64) (pre prelude, c, inline string) {
		m := kit.Mixed(i, 8, no, 8, 3, nt)
		t := intTypes[m[4]]
		e := t.edge()
		a, op, b := e[m[2]], edgeOps[m[1]], e[m[0]]
		typedB := t.name + "(" + b + ")"
		if op == "<<" || op == ">>" {
			typedB = b // the count keeps its own (untyped) kind
		}
		switch m[3] {
		case 0: // T(a) op T(b)
			return prelude{decls: t.decl}, bin(t.name+"("+a+")", op, typedB), ""
		case 1: // T(a) op b, b untyped
			return prelude{decls: t.decl}, bin(t.name+"("+a+")", op, b), ""
		}
		// const m T = a; m op b
		return prelude{decls: t.decl + "const a " + t.name + " = " + a + "\n", names: []string{"a"}, key: "typed named constant (" + classOfIntType(t) + ") op=" + op}, bin("a", op, b), bin(t.name+"("+a+")", op, b)
	}
	return kit.Space{
		Name: "15.typed-boundary",
		Size: kit.Product(8, no, 8, 3, nt),
		Eval: func(i uint64) kit.Outcome {
			pre, c, inline := at(i)
			if inline != "" {
				// the same expression without the named constant is checked first
				var o kit.Outcome
				if i := strings.Index(pre.decls, "const a "); i > 0 {
					o = checkBlock(prelude{decls: pre.decls[:i]}, inline) // with the type declaration
				} else {
					o = checkCached(inline)
				}
				if !o.OK || strings.HasPrefix(o.Class, "skipped:") {
					return o
				}
			}
			return checkBlock(pre, c)
		},
		Describe: func(i uint64) any {
			pre, c, _ := at(i)
			return pre.decls + "const c = " + c
		},
	}
}

// ---- literals and constant builtin calls outside the main literal set ----

var extLeaves = []string{
	"0x1p2000", "0x1p1990", "0x1p-2000", "0x1p1023", "0x1p1024", "0x1p-1074", "0x1p-1075", "0x1.8p1", "0x1p64", "0x1p-1",
	"1e19", "9223372036854775808.0", "18446744073709551615.0", "18446744073709551616.0", "16777217", "9007199254740993",
	"1.000000059604644776390625", "2.0000000000000001", "0.99999999999999999", "1.00000000000000001", "2.00000000000000000001", "3.0", "7.0",
	"-0.0", "real(2 + 0i)", "imag(3i)", "(3 + 00i)", "complex(3, 0)", "complex(-0.0, -0.0)", "real(1i * 1i)", "imag(1 + 0.5i)", "00i", "complex(1, 1e19)",
}
var extPartners = []string{"0", "1", "-1", "2", "4", "7", "0.5", "1i", pow2(63, -1), pow2(70, 0), `"s"`, "true"}
var extOps = []string{"+", "-", "*", "/", "==", "<"}

func extendedSpaces() []kit.Space {
	ne, np, nb, nu, nt := uint64(len(extLeaves)), uint64(len(extPartners)), uint64(len(binOps)), uint64(len(unOps)), uint64(len(basicTypes))
	return []kit.Space{
		exprSpace("16.extended.leaf", ne*(1+nt), func(i uint64) string {
			if i < ne {
				return extLeaves[i]
			}
			i -= ne
			return basicTypes[i/ne] + "(" + extLeaves[i%ne] + ")"
		}),
		exprSpace("16.extended.unary", ne*nu, func(i uint64) string { return un(unOps[i/ne], extLeaves[i%ne]) }),
		exprSpace("16.extended.binary", kit.Product(np, nb, ne, 2), func(i uint64) string {
			m := kit.Mixed(i, np, nb, ne, 2)
			if m[3] == 0 {
				return bin(extLeaves[m[2]], binOps[m[1]], extPartners[m[0]])
			}
			return bin(extPartners[m[0]], binOps[m[1]], extLeaves[m[2]])
		}),
		exprSpace("16.extended.pairs", kit.Product(ne, uint64(len(extOps)), ne), func(i uint64) string {
			m := kit.Mixed(i, ne, uint64(len(extOps)), ne)
			return bin(extLeaves[m[2]], extOps[m[1]], extLeaves[m[0]])
		}),
	}
}

// ---- typed constant declarations: const a T = E; c = <operation on a> ----

var numericTypes = basicTypes[:15]
var typedDeclValues = append(append([]string{}, extLeaves...), "0", "1", "-1", "3", "7", "127", "128", "255", "256", "0.5", "0.1", "1e308", "1i", pow2(63, -1), pow2(63, 0), pow2(64, -1))
var typedDeclForms = []string{"a", "a / 2", "a % 4", "a == E", "a + 1", "-a", "a * a", "a << 1", "a / a", "a < E"}

func typedDeclSpace() kit.Space {
	nt, nv, nf := uint64(len(numericTypes)), uint64(len(typedDeclValues)), uint64(len(typedDeclForms))
	at := func(i uint64) (pre prelude, c, inline string) {
		m := kit.Mixed(i, nf, nv, nt)
		t, v, f := numericTypes[m[2]], typedDeclValues[m[1]], typedDeclForms[m[0]]
		pre = prelude{decls: "const a " + t + " = " + v + "\n", names: []string{"a"}, key: "typed constant declaration (" + classOfName(t) + ")"}
		c = strings.ReplaceAll(f, "E", paren(v))
		inline = reName.ReplaceAllString(f, t+"("+v+")")
		inline = strings.ReplaceAll(inline, "E", paren(v))
		return pre, c, inline
	}
	return kit.Space{
		Name: "17.typed-const-declaration",
		Size: kit.Product(nf, nv, nt),
		Eval: func(i uint64) kit.Outcome {
			pre, c, inline := at(i)
			if o := checkCached(inline); !o.OK || strings.HasPrefix(o.Class, "skipped:") {
				if !o.OK {
					o.Detail = pre.decls + "const c = " + c + "\nthe same expression with a conversion instead of the typed declaration already fails:\n" + o.Detail
				}
				return o
			}
			return checkBlock(pre, c)
		},
		Describe: func(i uint64) any {
			pre, c, _ := at(i)
			return pre.decls + "const c = " + c
		},
	}
}

// ---- constant groups: implicit repetition, iota, and specs with their own value ----

func constGroupSpace() kit.Space {
	types := []string{"", "int8", "uint8", "float32", "string", "int64"}
	firsts := []string{"1", "iota", "1 << iota", "iota * 100", `"s"`, "0.5"}
	seconds := []string{"", "300", "-1", "1.5", `"t"`, "1 << 40", "iota", "iota + 300", "b0"}
	reads := []string{"b", "b + 0", "b == b"}
	nt, nf, ns, nr := uint64(len(types)), uint64(len(firsts)), uint64(len(seconds)), uint64(len(reads))
	at := func(i uint64) (prelude, string) {
		m := kit.Mixed(i, nr, ns, nf, nt)
		t, f, s2, r := types[m[3]], firsts[m[2]], seconds[m[1]], reads[m[0]]
		first := "a"
		if t != "" {
			first += " " + t
		}
		first += " = " + f
		second := "b"
		if s2 == "b0" {
			second = "b int16 = 5" // its own type and value
		} else if s2 != "" {
			second += " = " + s2
		}
		kind := "implicit repetition"
		if s2 != "" {
			kind = "second spec with its own value"
		}
		return prelude{decls: "const (\n\t" + first + "\n\t" + second + "\n)\n", names: []string{"a", "b"}, key: "constant group, " + kind}, r
	}
	return kit.Space{
		Name: "18.const-groups",
		Size: kit.Product(nr, ns, nf, nt),
		Eval: func(i uint64) kit.Outcome {
			pre, c := at(i)
			return checkBlock(pre, c)
		},
		Describe: func(i uint64) any {
			pre, c := at(i)
			return pre.decls + "const c = " + c
		},
	}
}

// ---- constants of a native package, reached through a selector ----

func nativeConstSpaces() []kit.Space {
	names := []string{"T8", "TU", "TF", "TS", "TB", "TC", "UB", "US"}
	for _, c := range nativeConsts {
		names = append(names, c.name)
	}
	partners := []string{"0", "1", "-1", "2", "7", "0.5", "1i", pow2(63, -1), `"s"`, "true", "99", "m.Small", "m.Big", "m.Half"}
	ops := []string{"+", "-", "*", "/", "%", "<<", ">>", "==", "<", "&", "&&"}
	imp := prelude{decls: "import \"m\"\n"}
	nn, np, no := uint64(len(names)), uint64(len(partners)), uint64(len(ops))
	uses := []string{"var f float64 = X\n", "var f float32 = X\n", "var n int = X\n", "var u uint64 = X\n", "var z complex128 = X\n", "var e interface{} = X\n", "const k = X + X\n", "const k = -X\n", "var s = []float64{X}\n"}
	after := []string{"X", "X >> 99", "X + 1", "X / 7", "-X", "X * X"}
	nu, na := uint64(len(uses)), uint64(len(after))
	expOps := []string{"N", "N + 1", "N / 4", "N * N", "N == N", "-N", "N >> 3", "float64(N)"}
	return []kit.Space{
		{Name: "19.native-constants.exponent-spelling", Size: uint64(len(nativeConstsExp) * len(expOps)),
			Eval: func(i uint64) kit.Outcome {
				c := nativeConstsExp[i/uint64(len(expOps))]
				return checkBlock(prelude{decls: "import \"" + c.name + "\"\n"}, strings.ReplaceAll(expOps[i%uint64(len(expOps))], "N", c.name+".N"))
			},
			Describe: func(i uint64) any {
				c := nativeConstsExp[i/uint64(len(expOps))]
				return "native.UntypedNumericConst(" + c.spelling + "): import \"" + c.name + "\"; const c = " + strings.ReplaceAll(expOps[i%uint64(len(expOps))], "N", c.name+".N")
			}},
		{Name: "19.native-constants.leaf", Size: nn,
			Eval:     func(i uint64) kit.Outcome { return checkBlock(imp, "m."+names[i]) },
			Describe: func(i uint64) any { return imp.decls + "const c = m." + names[i] }},
		{Name: "19.native-constants.binary", Size: kit.Product(np, no, nn, 2),
			Eval: func(i uint64) kit.Outcome {
				m := kit.Mixed(i, np, no, nn, 2)
				if m[3] == 0 {
					return checkBlock(imp, bin("m."+names[m[2]], ops[m[1]], partners[m[0]]))
				}
				return checkBlock(imp, bin(partners[m[0]], ops[m[1]], "m."+names[m[2]]))
			},
			Describe: func(i uint64) any {
				m := kit.Mixed(i, np, no, nn, 2)
				if m[3] == 0 {
					return imp.decls + "const c = " + bin("m."+names[m[2]], ops[m[1]], partners[m[0]])
				}
				return imp.decls + "const c = " + bin(partners[m[0]], ops[m[1]], "m."+names[m[2]])
			}},
		// the constant is used once (converted, negated, …) and then again: the
		// first use must not change what the second one sees
		{Name: "19.native-constants.reuse", Size: kit.Product(na, nu, nn),
			Eval: func(i uint64) kit.Outcome {
				m := kit.Mixed(i, na, nu, nn)
				x := "m." + names[m[2]]
				c := strings.ReplaceAll(after[m[0]], "X", x)
				// without the first use
				if o := checkBlock(imp, c); !o.OK || strings.HasPrefix(o.Class, "skipped:") {
					return o
				}
				pre := prelude{decls: imp.decls + strings.ReplaceAll(uses[m[1]], "X", x)}
				o := checkBlock(pre, c)
				if !o.OK {
					o.Key = "after another use of the same native constant: " + o.Key
				}
				return o
			},
			Describe: func(i uint64) any {
				m := kit.Mixed(i, na, nu, nn)
				x := "m." + names[m[2]]
				return imp.decls + strings.ReplaceAll(uses[m[1]], "X", x) + "const c = " + strings.ReplaceAll(after[m[0]], "X", x)
			}},
	}
}

var _ = fmt.Sprint
