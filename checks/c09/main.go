// C09 — a show accepted by the type checker never fails for its static type.
//
// Complete grid: every type of a table (every basic kind, named variants,
// byte slices, Stringer / EnvStringer / error implementers, the format types
// and their stringer interfaces, composites, funcs, chans, time types,
// unsafe.Pointer) x every show context the lexer can enter (the 14
// ast.Context values plus the URL states) x {global of that static type,
// the value boxed in any, boxed in error / fmt.Stringer when it implements
// them}. If BuildTemplate accepts the template, Run must not fail for the
// zero value and two non-zero values; a boxed value may fail only if its
// dynamic type is rejected at build time as a static type.
package main

import (
	"bytes"
	"errors"
	"fmt"
	"io"
	"reflect"
	"regexp"
	"sort"
	"strings"
	"sync"
	"time"
	"unsafe"

	"verif/kit"

	"github.com/open2b/scriggo"
	"github.com/open2b/scriggo/native"
)

// ---- named types ----

type (
	NBool       bool
	NInt        int
	NInt8       int8
	NInt16      int16
	NInt32      int32
	NInt64      int64
	NUint       uint
	NUint8      uint8
	NUint16     uint16
	NUint32     uint32
	NUint64     uint64
	NUintptr    uintptr
	NFloat32    float32
	NFloat64    float64
	NComplex64  complex64
	NComplex128 complex128
	NString     string
	NBytes      []byte
	NSlice      []int
	NMap        map[string]int
	NStruct     struct {
		A int
		B string
	}
)

// implementers (all methods are safe on a nil pointer receiver)

type StructStringer struct{ A int }

func (s StructStringer) String() string { return fmt.Sprintf("S<%d>&\"'", s.A) }

type PtrStringer struct{ A int }

func (s *PtrStringer) String() string { return "P<>&\"'" }

type StringStringer string

func (s StringStringer) String() string { return "str:" + string(s) }

type SliceStringer []int

func (s SliceStringer) String() string { return fmt.Sprint(len(s)) }

type FuncStringer func()

func (f FuncStringer) String() string { return "func" }

type EnvStr struct{ A int }

func (s EnvStr) String(env native.Env) string { return fmt.Sprintf("E<%d>", s.A) }

type MapErr map[string]int

func (e MapErr) Error() string { return fmt.Sprintf("maperr %d <>", len(e)) }

type StructErr struct{ Code int }

func (e StructErr) Error() string { return fmt.Sprintf("err %d <>&", e.Code) }

// ErrKey is a comparable struct that implements only error (a map key type).
type ErrKey struct{ Code int }

func (e ErrKey) Error() string { return fmt.Sprintf("errkey%d", e.Code) }

// EnvKey is a comparable struct that implements only native.EnvStringer.
type EnvKey struct{ A int }

func (k EnvKey) String(native.Env) string { return fmt.Sprintf("envkey%d", k.A) }

// Maps and byte slices that are showable only through their method, with
// keys / elements the renderer cannot show by itself.
type (
	SMap          map[struct{ A int }]int
	SMapArr       map[[2]int]string
	EnvSMap       map[struct{ A int }]int
	ErrSMap       map[struct{ A int }]int
	HTMLSMap      map[struct{ A int }]int
	BytesStringer []byte
	BytesErr      []byte
	StructSlice   []struct{ F func() }
)

func (m SMap) String() string              { return fmt.Sprintf("smap%d<", len(m)) }
func (m SMapArr) String() string           { return fmt.Sprintf("smaparr%d", len(m)) }
func (m EnvSMap) String(native.Env) string { return fmt.Sprintf("envsmap%d", len(m)) }
func (m ErrSMap) Error() string            { return fmt.Sprintf("errsmap%d", len(m)) }
func (m HTMLSMap) HTML() native.HTML       { return "<i>m</i>" }
func (b BytesStringer) String() string     { return "bytes:" + string(b) }
func (b BytesErr) Error() string           { return "byteserr:" + string(b) }
func (s StructSlice) String() string       { return fmt.Sprintf("structslice%d", len(s)) }

type PtrErr struct{ Code int }

func (e *PtrErr) Error() string { return "ptrerr <>&" }

type (
	HTMLer    struct{ A int }
	HTMLEnver struct{ A int }
	CSSer     struct{ A int }
	CSSEnver  struct{ A int }
	JSer      struct{ A int }
	JSEnver   struct{ A int }
	JSONer    struct{ A int }
	JSONEnver struct{ A int }
	MDer      struct{ A int }
	MDEnver   struct{ A int }
)

func (HTMLer) HTML() native.HTML                    { return "<b>x</b>" }
func (HTMLEnver) HTML(native.Env) native.HTML       { return "<i>x</i>" }
func (CSSer) CSS() native.CSS                       { return "red" }
func (CSSEnver) CSS(native.Env) native.CSS          { return "blue" }
func (JSer) JS() native.JS                          { return "[1]" }
func (JSEnver) JS(native.Env) native.JS             { return "[2]" }
func (JSONer) JSON() native.JSON                    { return "[1]" }
func (JSONEnver) JSON(native.Env) native.JSON       { return "[2]" }
func (MDer) Markdown() native.Markdown              { return "*x*" }
func (MDEnver) Markdown(native.Env) native.Markdown { return "_x_" }

// ---- the type table ----

type typ struct {
	name string
	t    reflect.Type
	vals []reflect.Value // the zero value and two non-zero values
}

func ty[X any](a, b X) typ {
	t := reflect.TypeFor[X]()
	return typ{name: t.String(), t: t, vals: []reflect.Value{reflect.Zero(t), reflect.ValueOf(a), reflect.ValueOf(b)}}
}

// tyOf is ty for a type that cannot be named (the dynamic type of a and b).
func tyOf(a, b any) typ {
	t := reflect.TypeOf(a)
	return typ{name: t.String(), t: t, vals: []reflect.Value{reflect.Zero(t), reflect.ValueOf(a), reflect.ValueOf(b)}}
}

func types() []typ {
	i1, i2 := 5, -6
	ps1, ps2 := &PtrStringer{1}, &PtrStringer{2}
	st1, st2 := NStruct{1, "a<"}, NStruct{-2, "\"b'"}
	t1 := time.Date(2020, 2, 29, 12, 30, 15, 0, time.UTC)
	t2 := time.Date(1999, 12, 31, 23, 59, 59, 500, time.FixedZone("X", 3600))
	c1, c2 := make(chan int), make(chan int, 1)
	x := 7
	return []typ{
		ty(true, true),
		ty(int(1), int(-9223372036854775808)), ty(int8(1), int8(-128)), ty(int16(1), int16(-32768)), ty(int32(1), int32(-2147483648)), ty(int64(1), int64(-1<<63)),
		ty(uint(1), ^uint(0)), ty(uint8(1), uint8(255)), ty(uint16(1), uint16(65535)), ty(uint32(1), ^uint32(0)), ty(uint64(1), ^uint64(0)), ty(uintptr(1), ^uintptr(0)),
		ty(float32(1.5), float32(-0.1)), ty(1.5, -1e300), ty(complex64(complex(1, 2)), complex64(complex(0, -1))), ty(complex(1, 2), complex(-1.5, 0)),
		ty("a", "<\"'&>\n ="),
		ty(NBool(true), NBool(true)), ty(NInt(1), NInt(-2)), ty(NInt8(1), NInt8(-2)), ty(NInt16(1), NInt16(-2)), ty(NInt32(1), NInt32(-2)), ty(NInt64(1), NInt64(-2)),
		ty(NUint(1), NUint(2)), ty(NUint8(1), NUint8(2)), ty(NUint16(1), NUint16(2)), ty(NUint32(1), NUint32(2)), ty(NUint64(1), NUint64(2)), ty(NUintptr(1), NUintptr(2)),
		ty(NFloat32(1.5), NFloat32(-2)), ty(NFloat64(1.5), NFloat64(-2)), ty(NComplex64(complex(1, 2)), NComplex64(complex(0, 1))), ty(NComplex128(complex(1, 2)), NComplex128(complex(0, 1))),
		ty(NString("a"), NString("<\"'&>")),
		ty([]byte("ab"), []byte{0, 255, '<'}), ty(NBytes("ab"), NBytes{0, 255}), ty([3]byte{1, 2, 3}, [3]byte{0, 0, 9}),
		ty(StructStringer{1}, StructStringer{2}), ty(ps1, ps2), ty(PtrStringer{1}, PtrStringer{2}), ty(StringStringer("a"), StringStringer("<b>")),
		ty(SliceStringer{1}, SliceStringer{1, 2}), ty(FuncStringer(func() {}), FuncStringer(func() {})),
		ty(EnvStr{1}, EnvStr{2}), ty(&EnvStr{1}, &EnvStr{2}),
		ty(StructErr{1}, StructErr{2}), ty(&PtrErr{1}, &PtrErr{2}), ty(PtrErr{1}, PtrErr{2}), ty(MapErr{"a": 1}, MapErr{}), tyOf(errors.New("e1 <>"), errors.New("e2")),
		ty(native.HTML("<b>x</b>"), native.HTML("a &amp; b")), ty(native.CSS("red"), native.CSS("1px")), ty(native.JS("[1,2]"), native.JS("null")),
		ty(native.JSON("[1,2]"), native.JSON("null")), ty(native.Markdown("*x*"), native.Markdown("# y")),
		ty(HTMLer{1}, HTMLer{2}), ty(HTMLEnver{1}, HTMLEnver{2}), ty(CSSer{1}, CSSer{2}), ty(CSSEnver{1}, CSSEnver{2}), ty(JSer{1}, JSer{2}), ty(JSEnver{1}, JSEnver{2}),
		ty(JSONer{1}, JSONer{2}), ty(JSONEnver{1}, JSONEnver{2}), ty(MDer{1}, MDer{2}), ty(MDEnver{1}, MDEnver{2}), ty(&HTMLer{1}, &HTMLer{2}),
		ty(&i1, &i2), ty(&st1, &st2), ty([]int{1}, []int{1, 2}), ty([]string{"a"}, []string{"<", ""}), ty([]any{1, "a"}, []any{nil}), ty(NSlice{1}, NSlice{2, 3}),
		ty([2]int{1, 2}, [2]int{0, 1}), ty([0]int{}, [0]int{}),
		ty(map[string]int{"a": 1}, map[string]int{}), ty(NMap{"a": 1}, NMap{}), ty(map[int]string{1: "a"}, map[int]string{-1: "", 2: "b"}), ty(map[bool]int{true: 1}, map[bool]int{false: 0}),
		ty(map[float64]int{1.5: 1}, map[float64]int{}), ty(map[uintptr]int{1: 1}, map[uintptr]int{2: 1, 3: 1}), ty(map[NUintptr]int{1: 1}, map[NUintptr]int{2: 1}),
		ty(map[complex128]int{complex(1, 2): 1}, map[complex128]int{complex(0, 1): 1}), ty(map[complex64]int{complex(1, 2): 1}, map[complex64]int{}),
		ty(map[StructStringer]int{{1}: 1}, map[StructStringer]int{{2}: 2}), ty(map[any]int{"a": 1}, map[any]int{1: 1}), ty(map[[1]int]int{{1}: 1}, map[[1]int]int{{2}: 1}),
		ty(map[string]any{"a": uintptr(1)}, map[string]any{"b": nil}),
		// maps keyed by every basic kind and by types implementing only error /
		// only fmt.Stringer / only native.EnvStringer; all values are non-empty
		ty(map[int8]int{1: 1}, map[int8]int{-2: 1, 3: 1}), ty(map[int16]int{1: 1}, map[int16]int{-2: 1}), ty(map[int32]int{1: 1}, map[int32]int{-2: 1}), ty(map[int64]int{1: 1}, map[int64]int{-2: 1}),
		ty(map[uint]int{1: 1}, map[uint]int{2: 1}), ty(map[uint8]int{1: 1}, map[uint8]int{2: 1}), ty(map[uint16]int{1: 1}, map[uint16]int{2: 1}), ty(map[uint32]int{1: 1}, map[uint32]int{2: 1}), ty(map[uint64]int{1: 1}, map[uint64]int{2: 1}),
		ty(map[float32]int{1.5: 1}, map[float32]int{-2: 1}), ty(map[NString]int{"a": 1}, map[NString]int{"<": 1}), ty(map[NInt]string{1: "a"}, map[NInt]string{2: "b"}),
		ty(map[ErrKey]int{{1}: 1}, map[ErrKey]int{{2}: 1, {3}: 2}), ty(map[error]int{ErrKey{1}: 1}, map[error]int{ErrKey{2}: 1}),
		ty(map[EnvKey]int{{1}: 1}, map[EnvKey]int{{2}: 1, {3}: 2}), ty(map[fmt.Stringer]int{StructStringer{1}: 1}, map[fmt.Stringer]int{StructStringer{2}: 1}),
		ty(map[*PtrStringer]int{ps1: 1}, map[*PtrStringer]int{ps2: 1}), ty(map[StringStringer]int{"a": 1}, map[StringStringer]int{"b": 1}),
		// the same key kinds nested in a struct field, a slice and a map element
		ty(struct{ M map[ErrKey]int }{map[ErrKey]int{{1}: 1}}, struct{ M map[ErrKey]int }{map[ErrKey]int{{2}: 1}}),
		ty(struct{ M map[error]int }{map[error]int{ErrKey{1}: 1}}, struct{ M map[error]int }{map[error]int{ErrKey{2}: 1}}),
		ty(struct{ M map[EnvKey]int }{map[EnvKey]int{{1}: 1}}, struct{ M map[EnvKey]int }{map[EnvKey]int{{2}: 1}}),
		ty(struct{ M map[StructStringer]int }{map[StructStringer]int{{1}: 1}}, struct{ M map[StructStringer]int }{map[StructStringer]int{{2}: 1}}),
		ty(struct{ M map[uintptr]int }{map[uintptr]int{1: 1}}, struct{ M map[uintptr]int }{map[uintptr]int{2: 1}}),
		ty(struct{ M map[complex128]int }{map[complex128]int{complex(1, 2): 1}}, struct{ M map[complex128]int }{map[complex128]int{complex(0, 1): 1}}),
		ty(struct{ M map[[1]int]int }{map[[1]int]int{{1}: 1}}, struct{ M map[[1]int]int }{map[[1]int]int{{2}: 1}}),
		ty([]map[ErrKey]int{{{1}: 1}}, []map[ErrKey]int{{{2}: 1}}), ty(map[string]map[ErrKey]int{"a": {{1}: 1}}, map[string]map[ErrKey]int{"b": {{2}: 1}}),
		ty(&map[ErrKey]int{{1}: 1}, &map[ErrKey]int{{2}: 1}),
		// showable only through a method, with parts the renderer cannot show itself
		ty(SMap{{1}: 1}, SMap{{2}: 1, {3}: 2}), ty(SMapArr{{1, 2}: "a"}, SMapArr{{3, 4}: "b"}), ty(EnvSMap{{1}: 1}, EnvSMap{{2}: 2}), ty(ErrSMap{{1}: 1}, ErrSMap{{2}: 2}),
		ty(HTMLSMap{{1}: 1}, HTMLSMap{{2}: 2}), ty(BytesStringer("ab"), BytesStringer{0, 255, '<'}), ty(BytesErr("ab"), BytesErr{0, 255}), ty(StructSlice{{}}, StructSlice{{}, {}}),
		ty(&SMap{{1}: 1}, &SMap{{2}: 1}), ty(struct{ M SMap }{SMap{{1}: 1}}, struct{ M SMap }{SMap{{2}: 1}}), ty([]SMap{{{1}: 1}}, []SMap{{{2}: 1}}), ty(map[string]SMap{"a": {{1}: 1}}, map[string]SMap{"b": {{2}: 1}}),
		ty(&[]byte{1, 2}, &[]byte{0}), ty(&NBytes{1, 2}, &NBytes{0}), ty([][]byte{{1}, nil}, [][]byte{{}}), ty(struct{ B []byte }{[]byte("a")}, struct{ B []byte }{[]byte{255}}),
		ty(st1, st2), ty(struct{}{}, struct{}{}), ty(struct{ a int }{1}, struct{ a int }{2}), ty(struct{ P uintptr }{1}, struct{ P uintptr }{2}),
		ty(func() {}, func() {}), ty(func(int) string { return "" }, func(int) string { return "x" }), ty(c1, c2), ty((<-chan int)(c1), (<-chan int)(c2)),
		ty(t1, t2), ty(&t1, &t2), ty(time.Second, -90*time.Minute),
		ty(unsafe.Pointer(&x), unsafe.Pointer(&i1)),
	}
}

// ---- contexts ----

type showCtx struct {
	name   string // the context as the disassembler names it (+ placement)
	disasm string // what the Show instruction must say
	file   string
	src    string
}

var contexts = []showCtx{
	{"text", "(text)", "index.txt", "a{{ v }}b"},
	{"HTML", "(HTML)", "index.html", "<p>{{ v }}</p>"},
	{"tag", "(tag)", "index.html", "<a {{ v }}>x</a>"},
	{"quoted attribute \"", "(quoted attribute)", "index.html", `<a title="{{ v }}">x</a>`},
	{"quoted attribute '", "(quoted attribute)", "index.html", `<a title='{{ v }}'>x</a>`},
	{"unquoted attribute", "(unquoted attribute)", "index.html", `<a title={{ v }}>x</a>`},
	{"CSS in .css", "(CSS)", "index.css", "a{width:{{ v }}}"},
	{"CSS in <style>", "(CSS)", "index.html", "<style>a{width:{{ v }}}</style>"},
	{"CSS string in .css", "(CSS string)", "index.css", `a{content:"{{ v }}"}`},
	{"CSS string in <style>", "(CSS string)", "index.html", `<style>a{content:'{{ v }}'}</style>`},
	{"JS in .js", "(JavaScript)", "index.js", "var x = {{ v }};"},
	{"JS in <script>", "(JavaScript)", "index.html", "<script>var x = {{ v }};</script>"},
	{"JS string in .js", "(JavaScript string)", "index.js", `var x = "{{ v }}";`},
	{"JS string in <script>", "(JavaScript string)", "index.html", `<script>var x = '{{ v }}';</script>`},
	{"JSON in .json", "(JSON)", "index.json", `{"a":{{ v }}}`},
	{"JSON in <script type=application/ld+json>", "(JSON)", "index.html", `<script type="application/ld+json">{{ v }}</script>`},
	{"JSON string in .json", "(JSON string)", "index.json", `{"a":"{{ v }}"}`},
	{"JSON string in <script type=application/ld+json>", "(JSON string)", "index.html", `<script type="application/ld+json">"{{ v }}"</script>`},
	{"Markdown", "(Markdown)", "index.md", "a {{ v }} b"},
	{"tab code block", "(tab code block)", "index.md", "\t{{ v }}\n"},
	{"spaces code block", "(spaces code block)", "index.md", "    {{ v }}\n"},
	{"HTML in .md", "(Markdown)", "index.md", "<b>{{ v }}</b>"},
	{"URL path in quoted attribute", "(quoted attribute)", "index.html", `<a href="/p/{{ v }}">x</a>`},
	{"URL query in quoted attribute", "(quoted attribute)", "index.html", `<a href="/p?q={{ v }}">x</a>`},
	{"URL in unquoted attribute", "(unquoted attribute)", "index.html", `<a href={{ v }}>x</a>`},
	{"URL set in srcset", "(quoted attribute)", "index.html", `<img srcset="{{ v }} 2x, /b.png">`},
	{"URL in Markdown", "(Markdown)", "index.md", "see http://x.org/{{ v }} ok"},
}

// ---- modes ----

var (
	anyT      = reflect.TypeFor[any]()
	errorT    = reflect.TypeFor[error]()
	stringerT = reflect.TypeFor[fmt.Stringer]()
)

// mode = static type of the global v
var modes = []struct {
	name string
	box  reflect.Type // nil: the type itself
}{
	{"static type", nil},
	{"boxed in any", anyT},
	{"boxed in error", errorT},
	{"boxed in fmt.Stringer", stringerT},
}

// nBase is the number of one-show sites of the grid; the sites after them
// show v in further positions of a URL, next to the string global base
// ("p?a=1", a value that contains a query).
var nBase = len(contexts)

var urlSites = []showCtx{
	{"URL: directly after a shown value that has a query", "(quoted attribute)", "index.html", `<a href="{{ base }}{{ v }}">x</a>`},
	{"URL: after a shown value that has a query and &x=", "(quoted attribute)", "index.html", `<a href="{{ base }}&x={{ v }}">x</a>`},
	{"URL: after a shown value that has a query and ?x=", "(quoted attribute)", "index.html", `<a href="{{ base }}?x={{ v }}">x</a>`},
	{"URL: after a shown value that has a query and ?", "(quoted attribute)", "index.html", `<a href="{{ base }}?{{ v }}">x</a>`},
	{"URL: first, before another shown value", "(quoted attribute)", "index.html", `<a href="{{ v }}{{ base }}">x</a>`},
	{"URL: first, before ?x=1", "(quoted attribute)", "index.html", `<a href='{{ v }}?x=1'>x</a>`},
	{"URL: twice, in the query and in the fragment", "(quoted attribute)", "index.html", `<a href="/p?q=1&amp;r={{ v }}#{{ v }}">x</a>`},
	{"URL: unquoted, in the query", "(unquoted attribute)", "index.html", `<a href=/p?q={{ v }}>x</a>`},
	{"URL: unquoted, after a shown value that has a query", "(unquoted attribute)", "index.html", `<a href={{ base }}{{ v }}>x</a>`},
	{"URL: form action", "(quoted attribute)", "index.html", `<form action="{{ v }}"></form>`},
	{"URL: img src, in the query", "(quoted attribute)", "index.html", `<img src='/i?w={{ v }}'>`},
	{"URL set: second candidate", "(quoted attribute)", "index.html", `<img srcset="/a.png 1x, {{ v }} 2x">`},
	{"URL set: in the query of both candidates", "(quoted attribute)", "index.html", `<img srcset="/a.png?w={{ v }} 1x, /b.png?w={{ v }} 2x">`},
	{"URL set: after a shown value that has a query", "(quoted attribute)", "index.html", `<img srcset="{{ base }}{{ v }} 2x, /b.png">`},
	{"URL in Markdown: in the query", "(Markdown)", "index.md", "see http://x.org/p?q={{ v }} ok"},
	{"URL in Markdown: after a shown value that has a query", "(Markdown)", "index.md", "see http://x.org/{{ base }}{{ v }} ok"},
}

func init() { contexts = append(contexts, urlSites...) }

var baseValue = "p?a=1"

type buildKey struct {
	ctx int
	t   reflect.Type
}

type buildRes struct {
	once sync.Once
	tmpl *scriggo.Template
	err  error
}

var builds sync.Map

// build builds context ctx with the global v of static type t. A host panic
// propagates (and is not cached).
func build(ctx int, t reflect.Type) (*scriggo.Template, error) {
	e, _ := builds.LoadOrStore(buildKey{ctx, t}, &buildRes{})
	r := e.(*buildRes)
	done := false
	defer func() {
		if !done {
			builds.Delete(buildKey{ctx, t})
		}
	}()
	r.once.Do(func() {
		c := contexts[ctx]
		r.tmpl, r.err = scriggo.BuildTemplate(scriggo.Files{c.file: []byte(c.src)}, c.file,
			&scriggo.BuildOptions{Globals: native.Declarations{"v": reflect.Zero(reflect.PointerTo(t)).Interface(), "base": &baseValue}})
	})
	done = true
	return r.tmpl, r.err
}

var nilReceiver = regexp.MustCompile(`value method .* called using nil \*.* pointer|invalid memory address or nil pointer dereference`)

// nilMethodPanic is returned by run when Run panicked because it called a
// method of the shown nil pointer.
type nilMethodPanic struct{ msg string }

func (e *nilMethodPanic) Error() string { return "Run PANICS: " + e.msg }

// run shows v in a global of the static type. A host panic propagates to the
// kit, except the one raised by calling a method through the shown nil
// pointer, which is returned as a *nilMethodPanic (one defect, whatever the
// type's name).
// buildSafe is build for the static variant consulted by a boxed cell: a
// host panic of BuildTemplate is reported by the static cell, not here.
func buildSafe(ctx int, t reflect.Type) (tmpl *scriggo.Template, err error, panicked bool) {
	defer func() {
		if recover() != nil {
			panicked = true
		}
	}()
	tmpl, err = build(ctx, t)
	return tmpl, err, false
}

func run(tmpl *scriggo.Template, static reflect.Type, v reflect.Value) (out string, err error) {
	if v.IsValid() && v.Kind() == reflect.Pointer && v.IsNil() {
		out, err, other := runNilPointer(tmpl, static, v)
		if !other {
			return out, err
		}
	}
	return run1(tmpl, static, v)
}

func runNilPointer(tmpl *scriggo.Template, static reflect.Type, v reflect.Value) (out string, err error, other bool) {
	defer func() {
		if e := recover(); e != nil {
			msg := fmt.Sprint(e)
			if nilReceiver.MatchString(msg) {
				err = &nilMethodPanic{msg}
			} else {
				other = true // run it again unprotected: the kit keys it by its stack
			}
		}
	}()
	out, err = run1(tmpl, static, v)
	return out, err, false
}

func run1(tmpl *scriggo.Template, static reflect.Type, v reflect.Value) (string, error) {
	p := reflect.New(static)
	if v.IsValid() {
		p.Elem().Set(v)
	}
	var b bytes.Buffer
	err := tmpl.Run(&b, map[string]any{"v": p.Interface()}, nil)
	return b.String(), err
}

// kindPath names the kind structure of t, one level deep, so that named and
// unnamed types of one kind share a failure key.
func kindPath(t reflect.Type) string {
	return kindOnly(t) + implemented(t)
}

var showIfaces = []struct {
	name string
	t    reflect.Type
}{
	{"fmt.Stringer", stringerT}, {"EnvStringer", reflect.TypeFor[native.EnvStringer]()}, {"error", errorT},
	{"HTMLStringer", reflect.TypeFor[native.HTMLStringer]()}, {"HTMLEnvStringer", reflect.TypeFor[native.HTMLEnvStringer]()},
	{"CSSStringer", reflect.TypeFor[native.CSSStringer]()}, {"CSSEnvStringer", reflect.TypeFor[native.CSSEnvStringer]()},
	{"JSStringer", reflect.TypeFor[native.JSStringer]()}, {"JSEnvStringer", reflect.TypeFor[native.JSEnvStringer]()},
	{"JSONStringer", reflect.TypeFor[native.JSONStringer]()}, {"JSONEnvStringer", reflect.TypeFor[native.JSONEnvStringer]()},
	{"MarkdownStringer", reflect.TypeFor[native.MarkdownStringer]()}, {"MarkdownEnvStringer", reflect.TypeFor[native.MarkdownEnvStringer]()},
}

func implemented(t reflect.Type) string {
	var is []string
	for _, i := range showIfaces {
		// the Env variant of an interface is the same decision in checker and renderer
		n := strings.Replace(strings.Replace(i.name, "EnvStringer", "Stringer", 1), "fmt.", "", 1)
		if t.Implements(i.t) && (len(is) == 0 || is[len(is)-1] != n) {
			is = append(is, n)
		}
	}
	if len(is) == 0 {
		return ""
	}
	return " implementing " + strings.Join(is, "+")
}

func kindOnly(t reflect.Type) string {
	switch t.Kind() {
	case reflect.Map:
		return "map[" + t.Key().Kind().String() + "]" + t.Elem().Kind().String()
	case reflect.Slice, reflect.Array, reflect.Pointer, reflect.Chan:
		return t.Kind().String() + " of " + t.Elem().Kind().String()
	}
	return t.Kind().String()
}

var typeInMsg = regexp.MustCompile(`(type|a|an) [^ ]+( value)?$`)

func errClass(err error) string {
	msg := err.Error()
	if _, ok := err.(*nilMethodPanic); ok {
		return "Run PANICS in the String/Error/HTML/… method it calls through the nil pointer"
	}
	var pe *scriggo.PanicError
	if errors.As(err, &pe) {
		return "PanicError: " + kit.NormMsg(msg)
	}
	return kit.NormMsg(typeInMsg.ReplaceAllString(msg, "$1 T"))
}

func failKey(t reflect.Type, err error) string {
	if _, ok := err.(*nilMethodPanic); ok {
		return "accepted at build, Run PANICS|nil pointer whose type has a String/Error/HTML/… method that is not safe on nil (e.g. a value-receiver method: *time.Time)"
	}
	if role, kind := offender(t, err); role != "" {
		return "accepted at build, Run fails|" + role + " of kind " + kind + " inside the shown value|cannot show value of type T"
	}
	return "accepted at build, Run fails|kind " + kindPath(t) + "|" + errClass(err)
}

// offender finds, inside the shown type t, the type that a "cannot show value
// of type X" error names (a map key, an element, a field), so that every way
// of nesting one offending part shares a key.
func offender(t reflect.Type, err error) (role, kind string) {
	const p = "cannot show value of type "
	msg := err.Error()
	i := strings.Index(msg, p)
	if i < 0 {
		return "", ""
	}
	name := msg[i+len(p):]
	if name == t.String() {
		return "", ""
	}
	seen := map[reflect.Type]bool{}
	var walk func(t reflect.Type, role string) (string, string)
	walk = func(t reflect.Type, role string) (string, string) {
		if seen[t] {
			return "", ""
		}
		seen[t] = true
		if t.String() == name && role != "" {
			if k := t.Kind(); k == reflect.Struct || k == reflect.Array {
				return role, "struct or array"
			}
			return role, kindOnly(t)
		}
		switch t.Kind() {
		case reflect.Map:
			if r, k := walk(t.Key(), "a map key"); r != "" {
				return r, k
			}
			return walk(t.Elem(), "a map element")
		case reflect.Slice, reflect.Array:
			return walk(t.Elem(), "an element")
		case reflect.Pointer:
			return walk(t.Elem(), role)
		case reflect.Struct:
			for i := 0; i < t.NumField(); i++ {
				if r, k := walk(t.Field(i).Type, "a field"); r != "" {
					return r, k
				}
			}
		}
		return "", ""
	}
	return walk(t, "")
}

func goValue(v reflect.Value) string {
	if !v.IsValid() {
		return "nil"
	}
	s := fmt.Sprintf("%#v", v.Interface())
	if len(s) > 120 {
		s = s[:120] + "…"
	}
	return s
}

func eval(tys []typ, ti, ci, mi int) kit.Outcome {
	T := tys[ti]
	c := contexts[ci]
	m := modes[mi]
	static := T.t
	if m.box != nil {
		if m.box != anyT && !T.t.Implements(m.box) {
			return kit.Outcome{OK: true, Class: "n/a (the type does not implement the interface)"}
		}
		static = m.box
	}
	head := fmt.Sprintf("context %s: file %s = %q, global v declared as (*%s)(nil)", c.name, c.file, c.src, static)
	tmpl, berr := build(ci, static)
	if m.box == nil {
		if berr != nil {
			return kit.Outcome{OK: true, Class: "static: rejected at build", Nontrivial: true}
		}
	} else if berr != nil {
		return kit.Outcome{Key: "an interface-typed show is rejected at build|" + m.name + "|" + kit.NormMsg(berr.Error()), Detail: head + "\nBuildTemplate: " + berr.Error(), Nontrivial: true}
	}
	var staticRejected error
	staticPanics := false
	if m.box != nil {
		_, staticRejected, staticPanics = buildSafe(ci, T.t)
	}
	cls := "static: accepted, 3 values shown"
	if m.box != nil {
		cls = "boxed: 3 values shown"
	}
	for k, v := range T.vals {
		out, err := run(tmpl, static, v)
		if err == nil {
			continue
		}
		what := []string{"the zero value", "a non-zero value", "a non-zero value"}[k]
		detail := fmt.Sprintf("%s\nRun with v = %s (%s) fails: %v\noutput so far: %q", head, goValue(v), what, err, out)
		if m.box == nil {
			return kit.Outcome{
				Key:        failKey(T.t, err),
				Nontrivial: true, Class: "fail",
				Detail: detail + "\nBuildTemplate accepted the show of static type " + T.name,
			}
		}
		if staticRejected != nil {
			cls = "boxed: Run fails, and the dynamic type is rejected at build as a static type (allowed)"
			continue
		}
		if staticPanics {
			cls = "boxed: Run fails, and BuildTemplate panics for the dynamic type as a static type (reported in the static cell)"
			continue
		}
		// the dynamic type is accepted statically: does the static variant fail too?
		st, _ := build(ci, T.t)
		if _, serr := run(st, T.t, v); serr != nil {
			return kit.Outcome{
				Key:        failKey(T.t, serr),
				Nontrivial: true, Class: "fail",
				Detail: detail + "\nthe same value in a global of static type " + T.name + " is accepted by BuildTemplate and fails too: " + serr.Error(),
			}
		}
		return kit.Outcome{
			Key:        "a boxed value fails though its dynamic type is accepted statically and shows|kind " + kindPath(T.t) + "|" + errClass(err),
			Nontrivial: true, Class: "fail",
			Detail: detail + "\nthe same value in a global of static type " + T.name + " builds and shows without error",
		}
	}
	return kit.Outcome{OK: true, Class: cls, Nontrivial: true, Ops: 3}
}

// evalNil shows a nil interface value.
func evalNil(ci, mi int) kit.Outcome {
	c := contexts[ci]
	m := modes[mi]
	tmpl, berr := build(ci, m.box)
	head := fmt.Sprintf("context %s: file %s = %q, global v declared as (*%s)(nil)", c.name, c.file, c.src, m.box)
	if berr != nil {
		return kit.Outcome{Key: "an interface-typed show is rejected at build|" + m.name + "|" + kit.NormMsg(berr.Error()), Detail: head + "\nBuildTemplate: " + berr.Error(), Nontrivial: true}
	}
	out, err := run(tmpl, m.box, reflect.Value{})
	if err != nil {
		return kit.Outcome{
			Key:        "showing a nil interface value fails|" + errClass(err),
			Nontrivial: true, Class: "fail",
			Detail: fmt.Sprintf("%s\nRun with v = nil fails: %v\noutput so far: %q", head, err, out),
		}
	}
	return kit.Outcome{OK: true, Class: "nil interface value shown", Nontrivial: true}
}

// ---- two shows of the same global in one compilation ----

func mdCopy(src []byte, out io.Writer) error { _, err := out.Write(src); return err }

// pairFiles returns the files of a template that shows v at site a and then
// at site b: in one file when both sites live in the same kind of file, else
// site b is a partial rendered after site a (one compilation either way).
func pairFiles(a, b int) (scriggo.Files, string) {
	ca, cb := contexts[a], contexts[b]
	if ca.file == cb.file {
		return scriggo.Files{ca.file: []byte(ca.src + "\n\n" + cb.src)}, ca.file
	}
	partial := "p" + cb.file[strings.LastIndex(cb.file, "."):]
	return scriggo.Files{ca.file: []byte(ca.src + "\n\n{{ render \"" + partial + "\" }}"), partial: []byte(cb.src)}, ca.file
}

type pairKey struct {
	a, b int
	t    reflect.Type
}

var pairBuilds sync.Map

func buildPair(a, b int, t reflect.Type) (*scriggo.Template, error) {
	e, _ := pairBuilds.LoadOrStore(pairKey{a, b, t}, &buildRes{})
	r := e.(*buildRes)
	done := false
	defer func() {
		if !done {
			pairBuilds.Delete(pairKey{a, b, t})
		}
	}()
	r.once.Do(func() {
		files, name := pairFiles(a, b)
		r.tmpl, r.err = scriggo.BuildTemplate(files, name, &scriggo.BuildOptions{
			Globals:           native.Declarations{"v": reflect.Zero(reflect.PointerTo(t)).Interface()},
			MarkdownConverter: mdCopy,
		})
	})
	done = true
	return r.tmpl, r.err
}

func filesText(fs scriggo.Files, name string) string {
	var names []string
	for n := range fs {
		names = append(names, n)
	}
	sort.Strings(names)
	var b strings.Builder
	for _, n := range names {
		fmt.Fprintf(&b, "file %s = %q\n", n, fs[n])
	}
	return b.String() + "entry " + name
}

// evalPair shows the global of static type T at site a and then at site b.
func evalPair(T typ, a, b int) kit.Outcome {
	if _, err := buildPair(a, b, anyT); err != nil {
		return kit.Outcome{OK: true, Class: "pair: n/a (the two sites cannot be combined: " + kit.NormMsg(err.Error()) + ")"}
	}
	_, ea, pa := buildSafe(a, T.t)
	_, eb, pb := buildSafe(b, T.t)
	if pa || pb {
		return kit.Outcome{OK: true, Class: "pair: n/a (BuildTemplate panics for one site alone, reported in the grid)"}
	}
	files, name := pairFiles(a, b)
	head := fmt.Sprintf("sites %q then %q, global v declared as (*%s)(nil)\n%s", contexts[a].name, contexts[b].name, T.name, filesText(files, name))
	alone := func(e error) string {
		if e == nil {
			return "accepted"
		}
		return "rejected (" + e.Error() + ")"
	}
	verdicts := fmt.Sprintf("\nalone, site %q is %s\nalone, site %q is %s", contexts[a].name, alone(ea), contexts[b].name, alone(eb))
	tmpl, err := buildPair(a, b, T.t)
	if err != nil {
		if ea == nil && eb == nil {
			return kit.Outcome{
				Key:        "the build verdict of a show depends on another show of the same variable|both accepted alone, rejected together",
				Nontrivial: true, Class: "fail",
				Detail: head + "\nBuildTemplate: " + err.Error() + verdicts,
			}
		}
		return kit.Outcome{OK: true, Class: "pair: rejected at build, as one of its sites alone", Nontrivial: true}
	}
	for k, v := range T.vals {
		out, err := run(tmpl, T.t, v)
		if err == nil {
			continue
		}
		what := []string{"the zero value", "a non-zero value", "a non-zero value"}[k]
		return kit.Outcome{
			Key:        failKey(T.t, err),
			Nontrivial: true, Class: "fail",
			Detail: fmt.Sprintf("%s\nBuildTemplate accepted it; Run with v = %s (%s) fails: %v\noutput so far: %q%s", head, goValue(v), what, err, out, verdicts),
		}
	}
	if ea != nil || eb != nil {
		return kit.Outcome{
			Key:        "the build verdict of a show depends on another show of the same variable|rejected alone, accepted together",
			Nontrivial: true, Class: "fail",
			Detail: head + "\nBuildTemplate accepted it and Run succeeded" + verdicts,
		}
	}
	return kit.Outcome{OK: true, Class: "pair: accepted as both sites alone, 3 values shown", Nontrivial: true, Ops: 6}
}

// representatives returns one type per acceptance pattern (the row of
// accepted / rejected over all sites), in table order.
func representatives(tys []typ) ([]typ, []string) {
	seen := map[string]bool{}
	var reps []typ
	var rows []string
	for _, T := range tys {
		row := make([]byte, nBase)
		for c := range contexts[:nBase] {
			_, err, p := buildSafe(c, T.t)
			switch {
			case p:
				row[c] = 'P'
			case err != nil:
				row[c] = '-'
			default:
				row[c] = '+'
			}
		}
		if !seen[string(row)] {
			seen[string(row)] = true
			reps = append(reps, T)
			rows = append(rows, string(row))
		}
	}
	return reps, rows
}

var repRows []string

func spaces(tier string) []kit.Space {
	// the contexts must be the ones their names say
	for i, c := range contexts {
		t, err := build(i, anyT)
		if err != nil {
			panic(fmt.Sprintf("C09: context %s does not build with v any: %v", c.name, err))
		}
		d := string(t.Disassemble(-1))
		if i >= nBase {
			// every show of a URL site (of v and of base) is in the site's context
			if n := strings.Count(d, "Show "); n < 1 || n != strings.Count(d, " "+c.disasm+"\n") || !strings.Contains(d, "Show interface {} g") {
				panic(fmt.Sprintf("C09: URL site %s: not every Show is %s:\n%s", c.name, c.disasm, d))
			}
			continue
		}
		if n := strings.Count(d, "Show "); n != 1 || !strings.Contains(d, "Show interface {} g1 "+c.disasm) {
			panic(fmt.Sprintf("C09: context %s: the template does not have exactly one Show %s:\n%s", c.name, c.disasm, d))
		}
	}
	tys := types()
	nt, nc, nm := uint64(len(tys)), uint64(nBase), uint64(len(modes))
	nu := uint64(len(contexts) - nBase)
	desc := func(T string, ci, mi uint64) any {
		c := contexts[ci]
		return map[string]string{"type": T, "context": c.name, "file": c.file, "template": c.src, "global v": modes[mi].name}
	}
	reps, rows := representatives(tys)
	pairTypes := "representative types (one per acceptance pattern)"
	repRows = nil
	for i, r := range reps {
		repRows = append(repRows, rows[i]+" "+r.name)
	}
	if tier == "thorough" {
		reps, pairTypes = tys, "all types"
	}
	nr := uint64(len(reps))
	return []kit.Space{
		{
			Name: "two shows of one global: " + pairTypes + " x ordered pairs of sites",
			Size: nr * nc * nc,
			Eval: func(i uint64) kit.Outcome {
				d := kit.Mixed(i, nc, nc, nr)
				return evalPair(reps[d[2]], int(d[1]), int(d[0]))
			},
			Describe: func(i uint64) any {
				d := kit.Mixed(i, nc, nc, nr)
				files, name := pairFiles(int(d[1]), int(d[0]))
				return map[string]string{"type": reps[d[2]].name, "first site": contexts[d[1]].name, "second site": contexts[d[0]].name, "files": filesText(files, name)}
			},
		},
		{
			Name: "types x contexts x {static, any, error, fmt.Stringer}",
			Size: nt * nc * nm,
			Eval: func(i uint64) kit.Outcome {
				d := kit.Mixed(i, nm, nc, nt)
				return eval(tys, int(d[2]), int(d[1]), int(d[0]))
			},
			Describe: func(i uint64) any {
				d := kit.Mixed(i, nm, nc, nt)
				return desc(tys[d[2]].name, d[1], d[0])
			},
		},
		{
			Name: "types x further URL positions (after a shown value with a query, after ?/&x=, before another value, fragment, unquoted, action, src, srcset candidates, Markdown) x {static, any, error, fmt.Stringer}",
			Size: nt * nu * nm,
			Eval: func(i uint64) kit.Outcome {
				d := kit.Mixed(i, nm, nu, nt)
				return eval(tys, int(d[2]), nBase+int(d[1]), int(d[0]))
			},
			Describe: func(i uint64) any {
				d := kit.Mixed(i, nm, nu, nt)
				return desc(tys[d[2]].name, uint64(nBase)+d[1], d[0])
			},
		},
		definedSpace(),
		{
			Name: "nil interface x contexts x {any, error, fmt.Stringer}",
			Size: nc * (nm - 1),
			Eval: func(i uint64) kit.Outcome {
				d := kit.Mixed(i, nm-1, nc)
				return evalNil(int(d[1]), int(d[0])+1)
			},
			Describe: func(i uint64) any {
				d := kit.Mixed(i, nm-1, nc)
				return desc("nil", d[1], d[0]+1)
			},
		},
	}
}

func main() {
	kit.Main(&kit.Check{
		ID:    "C09",
		Level: "model_checking",
		Rule:  "complete grid: 143 types (the 17 basic kinds incl. uintptr and both complex kinds, a named type of each, []byte, named []byte, [3]byte, implementers of fmt.Stringer (struct, pointer receiver, string-, slice- and func-kinded), native.EnvStringer, error (struct, pointer receiver, map-kinded, errors.New), native.HTML/CSS/JS/JSON/Markdown and an implementer of each of their ten stringer interfaces, pointers, slices, arrays, non-empty maps keyed by every basic kind, by named string/int, by types implementing only error (a struct and the interface error itself), only fmt.Stringer (struct, pointer, string-kinded, the interface), only native.EnvStringer, by interface and array keys, the same maps nested in a struct field, a slice, a map element and behind a pointer, structs, funcs, chans, time.Time, *time.Time, time.Duration, unsafe.Pointer) x 27 show sites covering the 14 contexts (text; HTML; tag; quoted attribute with both quotes; unquoted attribute; CSS and CSS string in .css and <style>; JS and JS string in .js and <script>; JSON and JSON string in .json and <script type=application/ld+json>; Markdown; tab and spaces code block; HTML inside Markdown) and the URL states (path, query, unquoted, srcset, Markdown URL) x {global of the static type, boxed in any, boxed in error, boxed in fmt.Stringer}, each with the zero value and two non-zero values; plus a nil any / error / fmt.Stringer in every site; plus (round 2) maps, byte slices and slices that are showable ONLY through their String/Error/HTML method while their keys or elements are not showable (map[struct]int, map[[2]int]string, []byte and []struct{func} with methods), alone, behind a pointer, in a struct, a slice and a map, and pointers to and structs/slices of []byte; every type x 16 further URL positions (directly after a shown value that has a query, after it and &x= / ?x= / ?, first before another value or before ?x=1, in the query and the fragment, unquoted, form action, img src, second srcset candidate, query of two srcset candidates, Markdown URL query) x the four ways of declaring the global; Scriggo-defined types: {% type T U %} for 37 underlying types U (every basic kind, html, js, slices incl. []byte, arrays, maps incl. defined key and element types, structs with fields of every kind, unexported and empty structs, pointer, func, chan, the interfaces error, Stringer, EnvStringer, HTMLStringer and any, the host types Duration, Time, a Stringer struct and a named []byte) x {zero, non-zero} x {the value, a pointer, in an any, in a slice, field of a defined struct, map element, map in an any, pointer in an any} x the 27 sites; plus templates with TWO shows of the same global (every ordered pair of the 27 sites, 729, in one file when both sites live in the same kind of file, else the second site is a partial rendered after the first) for one representative type per acceptance pattern (the row of accepted/rejected over the 27 sites; 10 patterns on the current tree, listed in the evidence) in the quick tier and for all 127 types in the thorough tier: if the pair builds Run must not fail, and the pair must build exactly when both sites alone accept the type. The context of every site is verified against the disassembled Show instruction. Non-trivial = BuildTemplate was called for the cell (rejected at build, or accepted and run 3 times); cells whose type does not implement the boxing interface are n/a",
		Assumptions: []string{
			"a failure is ANY error returned by Run for these one-show templates (the values avoid the documented data errors: no unclosed HTML comment in Markdown)",
			"pointer-receiver methods of the table's types are safe on a nil receiver; a nil *T whose T has a value-receiver String/Error/HTML/… method (e.g. a nil *time.Time) is the zero value of an accepted static type: Run panicking on it (instead of showing it or returning an error) is reported under one key",
			"types declared inside templates (Scriggo types) are not in the grid",
			"a boxed value whose Run succeeds although its dynamic type is rejected statically is not a breach of the statement and only classed",
		},
		Spaces: spaces,
		Extra: func(string) map[string]any {
			return map[string]any{"acceptance_patterns(+ accepted, - rejected, per site in table order) and their representative type": repRows}
		},
	})
}
