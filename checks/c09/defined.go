package main

// Scriggo-defined types (types declared in the template with {% type %}) in
// every show site: the value's reflect type is a proxy of the host type, so
// every decision of the renderer that looks at the Go type of the value sees
// something else than the type checker did.

import (
	"bytes"
	"errors"
	"fmt"
	"reflect"
	"strings"
	"sync"
	"time"

	"verif/kit"

	"github.com/open2b/scriggo"
	"github.com/open2b/scriggo/native"
)

// definedType is a type declaration {% type T <underlying> %}.
type definedType struct {
	under   string // the type expression after "type T"
	pre     string // declarations needed before it
	nonZero string // an expression of type T that is not the zero value
}

var definedTypes = []definedType{
	{"int", "", "T(5)"}, {"int8", "", "T(-3)"}, {"uint64", "", "T(18446744073709551615)"}, {"uintptr", "", "T(7)"},
	{"float64", "", "T(1.5)"}, {"float32", "", "T(0.25)"}, {"complex128", "", "T(complex(1, 2))"}, {"bool", "", "T(true)"},
	{"string", "", `T("a<\"'&")`}, {"html", "", `T("<b>x</b>")`}, {"js", "", `T("[1]")`},
	{"[]int", "", "T{1, 2}"}, {"[]byte", "", `T("ab")`}, {"[]string", "", `T{"a", "<"}`}, {"[2]int", "", "T{1, 2}"}, {"[]any", "", `T{1, "a", nil}`},
	{"map[string]int", "", `T{"a": 1}`}, {"map[int]string", "", `T{1: "a"}`}, {"map[K]int", "{% type K string %}", `T{"a": 1}`}, {"map[string]K", "{% type K []byte %}", `T{"a": K("x")}`},
	{"struct{ A int; B string }", "", `T{A: 1, B: "x<"}`},
	{"struct{ I int; U uint8; S string; B bool; F float64; Sl []int; M map[string]int; P *int; A any; E error; By []byte; St struct{ X int }; Ar [2]bool }", "", `T{I: 1, S: "s", Sl: []int{1}, M: map[string]int{"a": 1}, A: 2, E: e1, By: []byte("b")}`},
	{"struct{ F func(); C chan int; X complex128 }", "", "T{F: func() {}, X: 1i}"},
	{"struct{ a int }", "", "T{a: 1}"}, {"struct{}", "", "T{}"},
	{"*int", "{% var n = 5 %}", "T(&n)"}, {"func()", "", "T(func() {})"}, {"chan int", "", "T(make(chan int))"},
	{"error", "", "e1"}, {"Stringer", "", "s1"}, {"any", "", "5"}, {"EnvStringerT", "", "es1"}, {"HTMLStringerT", "", "hs1"}, {"error", "", "T(e1)"},
	{"Duration", "", "T(90)"}, {"Time", "", "T(t1)"}, {"HostStringer", "", "T(hv1)"}, {"HostBytes", "", `T("ab")`},
}

// forms are the ways the value reaches the show.
var definedForms = []struct {
	name   string
	decl   string // declares the shown variable x from v
	direct int    // >= 0: x is an interface; Run may fail if this form (the same value, statically typed) is rejected at build
}{
	{"the value", "{% var x = v %}", -1},
	{"a pointer to it", "{% var x = &v %}", -1},
	{"the value in an any", "{% var x any = v %}", 0},
	{"a slice of it", "{% var x = []T{v} %}", -1},
	{"a field of a defined struct", "{% type W struct{ F T } %}{% var x = W{F: v} %}", -1},
	{"an element of a map", `{% var x = map[string]T{"k": v} %}`, -1},
	{"an element of a map in an any", `{% var x any = map[string]T{"k": v} %}`, 5},
	{"a pointer to it in an any", "{% var x any = &v %}", 1},
}

type HostStringer struct{ A int }

func (h HostStringer) String() string { return "host<" }

var definedGlobals = func() native.Declarations {
	e1 := errors.New("e1 <&>")
	var s1 fmt.Stringer = HostStringer{1}
	t1 := time.Date(2020, 2, 29, 1, 2, 3, 0, time.UTC)
	var es1 native.EnvStringer = EnvStr{1}
	var hs1 native.HTMLStringer = HTMLer{1}
	hv1 := HostStringer{2}
	return native.Declarations{
		"e1": &e1, "s1": &s1, "t1": &t1, "es1": &es1, "hs1": &hs1, "hv1": &hv1,
		"EnvStringerT":  reflect.TypeFor[native.EnvStringer](),
		"HTMLStringerT": reflect.TypeFor[native.HTMLStringer](),
		"Stringer":      reflect.TypeFor[fmt.Stringer](),
		"Duration":      reflect.TypeFor[time.Duration](),
		"Time":          reflect.TypeFor[time.Time](),
		"HostStringer":  reflect.TypeFor[HostStringer](),
		"HostBytes":     reflect.TypeFor[NBytes](),
	}
}()

func definedSource(dt definedType, zero bool, form, site int) (file, src string) {
	c := contexts[site]
	v := "{% var v T %}"
	if !zero {
		v = "{% var v T = " + dt.nonZero + " %}"
	}
	prefix := dt.pre + "{% type T " + dt.under + " %}" + v + definedForms[form].decl
	// the declarations are a first line of their own followed by a blank line,
	// so that a Markdown code block site still starts a block
	return c.file, prefix + "\n\n" + strings.Replace(c.src, "{{ v }}", "{{ x }}", 1)
}

type definedRes struct {
	once sync.Once
	tmpl *scriggo.Template
	err  error
}

var definedBuilds sync.Map

func definedBuild(ti int, zero bool, form, site int) (*scriggo.Template, error) {
	key := [4]int{ti, form, site, 0}
	if zero {
		key[3] = 1
	}
	e, _ := definedBuilds.LoadOrStore(key, &definedRes{})
	r := e.(*definedRes)
	done := false
	defer func() {
		if !done {
			definedBuilds.Delete(key)
		}
	}()
	r.once.Do(func() {
		file, src := definedSource(definedTypes[ti], zero, form, site)
		r.tmpl, r.err = scriggo.BuildTemplate(scriggo.Files{file: []byte(src)}, file, &scriggo.BuildOptions{Globals: definedGlobals})
	})
	done = true
	return r.tmpl, r.err
}

func evalDefined(ti int, zero bool, form, site int) kit.Outcome {
	dt := definedTypes[ti]
	f := definedForms[form]
	tmpl, err := definedBuild(ti, zero, form, site)
	file, src := definedSource(dt, zero, form, site)
	if err != nil {
		if strings.Contains(err.Error(), "cannot show") {
			return kit.Outcome{OK: true, Class: "defined type: the show is rejected at build", Nontrivial: true}
		}
		return kit.Outcome{OK: true, Class: "defined type: the template does not build for another reason (" + kit.NormMsg(typeInMsg.ReplaceAllString(err.Error(), "$1 T")) + ")"}
	}
	var b bytes.Buffer
	rerr := tmpl.Run(&b, nil, nil)
	if rerr == nil {
		return kit.Outcome{OK: true, Class: "defined type: accepted and shown", Nontrivial: true, Ops: 1}
	}
	if f.direct >= 0 {
		// the same value shown with its static type
		if _, derr := definedBuild(ti, zero, f.direct, site); derr != nil {
			return kit.Outcome{OK: true, Class: "defined type in an interface: Run fails, and the show of the value itself is rejected at build (allowed)", Nontrivial: true}
		}
	}
	val := "the zero value"
	if !zero {
		val = dt.nonZero
	}
	return kit.Outcome{
		Key:        "Scriggo-defined type: accepted at build, Run fails|type T " + underClass(dt.under) + "|" + f.name + "|" + errClass(rerr),
		Class:      "fail",
		Nontrivial: true,
		Detail:     fmt.Sprintf("site %s: file %s = %q\nv = %s\nBuildTemplate accepts it; Run fails: %v\noutput so far: %q", contexts[site].name, file, src, val, rerr, b.String()),
	}
}

// underClass names the kind of the underlying type.
func underClass(u string) string {
	switch {
	case strings.HasPrefix(u, "struct"):
		return "struct"
	case strings.HasPrefix(u, "map["):
		return "map"
	case strings.HasPrefix(u, "[]"), strings.HasPrefix(u, "["):
		if strings.HasSuffix(u, "byte") {
			return "[]byte"
		}
		return "slice or array"
	case strings.HasPrefix(u, "interface"), u == "error", u == "Stringer", u == "any":
		return "interface (" + u + ")"
	case strings.HasPrefix(u, "int"), strings.HasPrefix(u, "uint"), strings.HasPrefix(u, "float"), strings.HasPrefix(u, "complex"), u == "bool":
		return "basic"
	}
	return u
}

func definedSpace() kit.Space {
	// every site must still be in its context behind the declarations
	for site := 0; site < nBase; site++ {
		t, err := definedBuild(0, false, 2, site)
		if err != nil {
			panic(fmt.Sprintf("C09 defined types: site %s does not build with an any: %v", contexts[site].name, err))
		}
		d := string(t.Disassemble(-1))
		if strings.Count(d, "Show ") != 1 || !strings.Contains(d, " "+contexts[site].disasm+"\n") {
			panic(fmt.Sprintf("C09 defined types: site %s is not %s behind the declarations:\n%s", contexts[site].name, contexts[site].disasm, d))
		}
	}
	nt, nf, ns := uint64(len(definedTypes)), uint64(len(definedForms)), uint64(nBase)
	return kit.Space{
		Name: "Scriggo-defined types x {zero, non-zero} x {value, pointer, in any, in a slice, field of a defined struct, map element, map in any, pointer in any} x sites",
		Size: nt * 2 * nf * ns,
		Eval: func(i uint64) kit.Outcome {
			d := kit.Mixed(i, ns, nf, 2, nt)
			return evalDefined(int(d[3]), d[2] == 0, int(d[1]), int(d[0]))
		},
		Describe: func(i uint64) any {
			d := kit.Mixed(i, ns, nf, 2, nt)
			file, src := definedSource(definedTypes[d[3]], d[2] == 0, int(d[1]), int(d[0]))
			return map[string]string{"site": contexts[d[0]].name, "file": file, "template": src}
		},
	}
}
