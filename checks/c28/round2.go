package main

// Round 2 spaces of C28: cloning from 8 goroutines at once, and trees built
// by hand the way the program parser builds them (a function declaration
// without body, a using statement without body).

import (
	"fmt"
	"sort"
	"strings"
	"sync"

	"verif/gen/astgen"
	"verif/kit"
	"verif/oracle/asteq"

	"github.com/open2b/scriggo/ast"
	"github.com/open2b/scriggo/ast/astutil"
)

func positions(v any) map[uintptr]string {
	out := map[uintptr]string{}
	for p, where := range asteq.Identities(v, true) {
		if strings.HasSuffix(where, "(*ast.Position)") {
			out[p] = where
		}
	}
	return out
}

// concurrentSpace clones tree i (and tree i+1) from 8 goroutines at once, as a
// whole, node by node and expression by expression, and then checks every copy.
func concurrentSpace(tier string) kit.Space {
	cases := append(append([]astgen.Case{}, astgen.Typed()...), astgen.MultiFile(tier)...)
	cases = append(cases, astgen.Statements("quick")...)
	if tier != "thorough" {
		// every fifth statement: the statements differ in one node, the point here is concurrency
		var c []astgen.Case
		for i, x := range cases {
			if i < 60 || i%5 == 0 {
				c = append(c, x)
			}
		}
		cases = c
	}
	const workers = 8
	return astgen.SlotSpace("6-concurrent-clones", len(cases), 3,
		func(i int) any {
			c := cases[i]
			return map[string]any{"name": c.Name, "entry": c.Entry, "files": c.Files, "also": cases[(i+1)%len(cases)].Name, "goroutines": workers}
		},
		func(i int) astgen.Result {
			var trees []*ast.Tree
			var srcs []astgen.Case
			for _, c := range []astgen.Case{cases[i], cases[(i+1)%len(cases)]} {
				if t, _, err := parse(c, true); err == nil {
					trees = append(trees, t)
					srcs = append(srcs, c)
				}
			}
			if len(trees) == 0 {
				return astgen.Result{Class: "source-rejected"}
			}
			type made struct {
				src  ast.Node
				copy ast.Node
				how  string
				tree int
			}
			before := make([][]asteq.Line, len(trees))
			nodes := make([][]asteq.NodeRef, len(trees))
			for k, t := range trees {
				before[k] = asteq.Dump(t, full)
				nodes[k] = asteq.Reachable(t, true)
			}
			results := make([][]made, workers)
			panics := make([]string, workers)
			var wg sync.WaitGroup
			for g := 0; g < workers; g++ {
				wg.Add(1)
				go func(g int) {
					defer wg.Done()
					k := 0 // goroutines 0-3 and 6,7 clone the first tree, 4,5 the second
					if (g == 4 || g == 5) && len(trees) > 1 {
						k = 1
					}
					var cur ast.Node
					defer func() {
						if e := recover(); e != nil {
							panics[g] = fmt.Sprintf("cloning the %s at %s: %v", asteq.Kind(cur), pos(cur), e)
						}
					}()
					cur = trees[k]
					results[g] = append(results[g], made{trees[k], astutil.CloneTree(trees[k]), "CloneTree", k})
					for _, r := range nodes[k] {
						cur = r.Node
						if e, ok := r.Node.(ast.Expression); ok {
							if (g+len(results[g]))%2 == 0 { // not every goroutine clones every node: keep the run short
								results[g] = append(results[g], made{r.Node, astutil.CloneExpression(e), "CloneExpression", k})
							}
						} else if _, isTree := r.Node.(*ast.Tree); !isTree {
							results[g] = append(results[g], made{r.Node, astutil.CloneNode(r.Node), "CloneNode", k})
						}
					}
				}(g)
			}
			wg.Wait()
			var fs []astgen.Finding
			where := fmt.Sprintf("templates %s and %s, %d goroutines cloning at the same time", srcs[0].Name, srcs[len(srcs)-1].Name, workers)
			ops := 0
			for g, p := range panics {
				if p != "" {
					fs = append(fs, astgen.Finding{Key: "concurrent-clone-panics " + normPanic(p[strings.Index(p, ": ")+2:]), Detail: fmt.Sprintf("%s\ngoroutine %d: %s", where, g, clip(p))})
				}
			}
			for k, t := range trees {
				if la, lb, differ := asteq.Diff(before[k], asteq.Dump(t, full)); differ {
					fs = append(fs, astgen.Finding{Key: "source-tree-changed-while-being-cloned", Detail: fmt.Sprintf("%s\nbefore: %s\nafter:  %s", where, la, lb)})
				}
			}
			srcPos := make([]map[uintptr]string, len(trees))
			for k, t := range trees {
				srcPos[k] = positions(t)
			}
			seen := map[uintptr]string{}
			for g := range results {
				for _, m := range results[g] {
					ops++
					// the checker's annotations, which a clone may leave out, are compared
					// in the space 5-type-checked; here everything else, positions included
					bare := full
					bare.SkipAnnotations = true
					if la, lb, differ := asteq.Diff(asteq.Dump(m.src, bare), asteq.Dump(m.copy, bare)); differ {
						fs = append(fs, astgen.Finding{Key: "concurrent-clone-differs " + m.how + " node=" + nodeLabel(m.src) + " at=" + topField(la),
							Detail: fmt.Sprintf("%s\ngoroutine %d: %s of the %s at %s differs from its source\nsource %s | copy %s", where, g, m.how, asteq.Kind(m.src), pos(m.src), la, lb)})
						continue
					}
					owner := fmt.Sprintf("goroutine %d %s of the %s at %s", g, m.how, asteq.Kind(m.src), pos(m.src))
					for p, w := range positions(m.copy) {
						if sw, ok := srcPos[m.tree][p]; ok {
							fs = append(fs, astgen.Finding{Key: "clone-shares-a-Position-pointer-with-its-source " + m.how,
								Detail: fmt.Sprintf("%s\n%s: the *ast.Position at %s is the source's %s", where, owner, w, sw)})
							break
						}
						if other, ok := seen[p]; ok && other != owner {
							fs = append(fs, astgen.Finding{Key: "two-clones-share-a-Position-pointer " + m.how,
								Detail: fmt.Sprintf("%s\n%s and %s share the *ast.Position at %s", where, owner, other, w)})
							break
						}
						seen[p] = owner
					}
				}
			}
			r := astgen.Result{Findings: astgen.Distinct(fs), Ops: ops, Nontrivial: ops > 8, Class: "concurrent:clones-equal-and-unshared"}
			if len(r.Findings) > 0 {
				r.Class = "concurrent:fails"
			}
			return r
		})
}

// handBuilt returns trees that only the program parser (not reachable through
// the template API) or a user of the ast package builds: the parser returns a
// Func without Body for a declaration like "func G()" (parser_func.go), and
// ast.NewUsing accepts a nil body.
func handBuilt() []struct {
	name string
	tree func() *ast.Tree
} {
	p := func(l, c, s, e int) *ast.Position { return &ast.Position{Line: l, Column: c, Start: s, End: e} }
	id := func(n string) *ast.Identifier { return ast.NewIdentifier(p(1, 1, 0, 0), n) }
	ftype := func() *ast.FuncType {
		return ast.NewFuncType(p(1, 1, 0, 8), false, []*ast.Parameter{ast.NewParameter(id("a"), id("int"))}, []*ast.Parameter{ast.NewParameter(nil, id("int"))}, false)
	}
	body := func() *ast.Block {
		return ast.NewBlock(p(1, 10, 9, 20), []ast.Node{ast.NewReturn(p(1, 11, 10, 18), []ast.Expression{id("a")})})
	}
	return []struct {
		name string
		tree func() *ast.Tree
	}{
		{"program package: func with body", func() *ast.Tree {
			return ast.NewTree("main.go", []ast.Node{ast.NewPackage(p(1, 1, 0, 30), "main", []ast.Node{
				ast.NewImport(p(2, 1, 13, 24), nil, "fmt", nil),
				ast.NewVar(p(3, 1, 26, 35), []*ast.Identifier{id("v")}, id("int"), []ast.Expression{ast.NewBasicLiteral(p(3, 9, 34, 34), ast.IntLiteral, "1")}),
				ast.NewFunc(p(4, 1, 40, 70), id("F"), ftype(), body(), false, ast.FormatText),
			})}, ast.FormatText)
		}},
		{"program package: func declaration without body", func() *ast.Tree {
			return ast.NewTree("main.go", []ast.Node{ast.NewPackage(p(1, 1, 0, 30), "main", []ast.Node{
				ast.NewFunc(p(4, 1, 40, 70), id("G"), ftype(), nil, false, ast.FormatText),
			})}, ast.FormatText)
		}},
		{"using statement without body", func() *ast.Tree {
			return ast.NewTree("index.html", []ast.Node{
				ast.NewUsing(p(1, 1, 0, 20), ast.NewShow(p(1, 4, 3, 12), []ast.Expression{id("itea")}, ast.ContextHTML), nil, nil, ast.FormatHTML),
			}, ast.FormatHTML)
		}},
		{"using statement with type and body", func() *ast.Tree {
			return ast.NewTree("index.html", []ast.Node{
				ast.NewUsing(p(1, 1, 0, 20), ast.NewShow(p(1, 4, 3, 12), []ast.Expression{id("itea")}, ast.ContextHTML), id("html"),
					ast.NewBlock(p(1, 21, 20, 30), []ast.Node{ast.NewText(p(1, 21, 20, 21), []byte("t"), ast.Cut{})}), ast.FormatHTML),
			}, ast.FormatHTML)
		}},
		{"if without else, label without statement, placeholder", func() *ast.Tree {
			return ast.NewTree("index.html", []ast.Node{
				ast.NewIf(p(1, 1, 0, 9), nil, id("a"), nil, nil),
				ast.NewLabel(p(2, 1, 10, 12), id("L"), nil),
				ast.NewAssignment(p(3, 1, 13, 20), []ast.Expression{id("x")}, ast.AssignmentSimple, []ast.Expression{ast.NewPlaceholder()}),
			}, ast.FormatHTML)
		}},
	}
}

func handBuiltSpace(aspect string) kit.Space {
	hb := handBuilt()
	return astgen.SlotSpace("7-hand-built/"+aspect, len(hb), slots,
		func(i int) any { return map[string]any{"tree built with the ast constructors": hb[i].name} },
		func(i int) astgen.Result {
			c := astgen.Case{Name: "hand-built: " + hb[i].name, Entry: "tree", Files: map[string]string{"tree": "(built with the ast constructors: " + hb[i].name + ")"}}
			tree := hb[i].tree()
			var r astgen.Result
			func() {
				defer func() {
					if e := recover(); e != nil {
						r.Findings = []astgen.Finding{{Key: "harness-cannot-enumerate-the-tree", Detail: fmt.Sprint(e)}}
					}
				}()
				if aspect == "clone" {
					r.Findings, r.Ops, _ = cloneFindings(c, tree, false)
				} else {
					r.Findings, r.Ops = walkFindings(c, tree)
				}
			}()
			r.Class = "hand-built:" + aspect + "-ok"
			if len(r.Findings) > 0 {
				r.Class = "hand-built:" + aspect + "-fails"
			}
			r.Nontrivial = true
			sort.SliceStable(r.Findings, func(a, b int) bool { return r.Findings[a].Key < r.Findings[b].Key })
			return r
		})
}
