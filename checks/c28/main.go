// C28 — Cloning a tree gives an independent equal copy; walking visits every node.
//
// Trees: everything C27 parses (expression grammar, statements, corpus) plus
// multi-file templates expanded through extends/import/render. For every node
// of every tree: astutil.CloneTree/CloneNode/CloneExpression must return a copy
// whose deep dump (positions and parenthesis counts included) equals the
// original's, and changing every settable field of the copy must leave the
// original's dump unchanged; astutil.Walk and astutil.Inspect must hand to the
// visitor exactly the node's direct children (reflection-derived), each once,
// and over a whole tree every reachable node exactly once.
package main

import (
	"fmt"
	"sort"
	"strings"

	"verif/gen/astgen"
	"verif/kit"
	"verif/oracle/asteq"

	"github.com/open2b/scriggo/ast"
	"github.com/open2b/scriggo/ast/astutil"
)

var full = asteq.Options{Positions: true, Parenthesis: true, ExpandedTrees: true}

// Children of a node that Walk's source documents as not visited: "Nothing to
// do, visiting the expanded tree is done by the Visit function if necessary"
// (cases Extends, Import, Render) — the expanded trees.
const documentedSkips = "Extends.Tree, Import.Tree, Render.Tree"

func cloneOf(n ast.Node) (c ast.Node, how string, panicked string) {
	defer func() {
		if e := recover(); e != nil {
			panicked = fmt.Sprint(e)
		}
	}()
	switch x := n.(type) {
	case *ast.Tree:
		how = "CloneTree"
		c = astutil.CloneTree(x)
	case ast.Expression:
		how = "CloneExpression"
		c = astutil.CloneExpression(x)
	default:
		how = "CloneNode"
		c = astutil.CloneNode(n)
	}
	return c, how, ""
}

// topField is the field of the node under which a dump line lies:
// ".Lhs[0].Position.Column" → "Lhs".
func topField(l asteq.Line) string {
	p := strings.TrimPrefix(l.Path, ".")
	if i := strings.IndexAny(p, ".["); i >= 0 {
		p = p[:i]
	}
	if p == "" {
		return "(node)"
	}
	return p
}

func normPanic(s string) string {
	// "unexpected node type &ast.StructType{...}" → keep the type only
	if i := strings.Index(s, "{"); i > 0 && strings.HasPrefix(s, "unexpected node type") {
		s = s[:i]
	}
	return kit.NormMsg(s)
}

func clip(s string) string {
	if len(s) > 300 {
		return s[:300] + "…"
	}
	return s
}

// nodeLabel adds to the kind what matters for clone/walk defects.
func nodeLabel(n ast.Node) string {
	k := asteq.Kind(n)
	switch x := n.(type) {
	case *ast.Func:
		switch {
		case x.Type != nil && x.Type.Macro:
			k += "(macro)"
		case x.Ident == nil:
			k += "(literal)"
		}
	case *ast.Break:
		if x.Label == nil {
			k += "(no label)"
		}
	case *ast.Continue:
		if x.Label == nil {
			k += "(no label)"
		}
	}
	return k
}

// cloneFindings checks every node of the tree, descendants first; a node with
// a failing descendant is not blamed again.
func cloneFindings(c astgen.Case, tree *ast.Tree, typed bool) (fs []astgen.Finding, checked int, shared int) {
	refs := asteq.Reachable(tree, true)
	tainted := map[ast.Node]bool{}
	done := map[ast.Node]bool{}
	bad := map[ast.Node]bool{}
	src := clip(c.Files[c.Entry])
	for i := len(refs) - 1; i >= 0; i-- {
		r := refs[i]
		n := r.Node
		taint := func() {
			bad[n] = true
			if r.Parent != nil {
				tainted[r.Parent] = true
			}
		}
		if done[n] { // an expanded tree referenced twice
			if bad[n] {
				taint()
			}
			continue
		}
		done[n] = true
		if tainted[n] {
			taint()
			continue
		}
		checked++
		before := asteq.Dump(n, full)
		cl, how, p := cloneOf(n)
		if p != "" {
			fs = append(fs, astgen.Finding{
				Key:    "clone-panics " + how + " node=" + nodeLabel(n) + " panic=" + normPanic(p),
				Detail: fmt.Sprintf("template %s: %q\n%s of the %s at %s (%s) panics: %s", c.Entry, src, how, asteq.Kind(n), pos(n), r.Owner, clip(p)),
			})
			taint()
			continue
		}
		la, lb, differ := asteq.Diff(before, asteq.Dump(cl, full))
		if differ && typed {
			// On a type-checked tree the clone may leave out the checker's
			// annotations (Upvars, IR, reflect types); what it carries over must
			// be equal; the rest must be equal.
			bare := full
			bare.SkipAnnotations = true
			la, lb, differ = asteq.Diff(asteq.Dump(n, bare), asteq.Dump(cl, bare))
			if !differ {
				orig := map[string]string{}
				for _, l := range before {
					if asteq.IsAnnotation(l) {
						orig[l.Path] = l.Val
					}
				}
				for _, l := range asteq.Dump(cl, full) {
					if asteq.IsAnnotation(l) && !asteq.IsZero(l) && orig[l.Path] != l.Val {
						la, lb, differ = asteq.Line{Path: ".annotations" + l.Path, Val: orig[l.Path]}, l, true
						break
					}
				}
			}
		}
		if differ {
			owner := topField(la)
			if la.Path == "" {
				owner = topField(lb)
			}
			fs = append(fs, astgen.Finding{
				Key:    "clone-differs " + how + " node=" + nodeLabel(n) + " at=" + owner,
				Detail: fmt.Sprintf("template %s: %q\n%s of the %s at %s (%s) is not equal to the original\nfirst difference: original %s | clone %s", c.Entry, src, how, asteq.Kind(n), pos(n), r.Owner, la, lb),
			})
			taint()
			continue
		}
		// identities shared between original and clone (informational), then the
		// decisive test: mutate everything reachable from the clone
		ids := asteq.Identities(n, true)
		var sharedAt []string
		for p, where := range asteq.Identities(cl, true) {
			if _, ok := ids[p]; ok {
				sharedAt = append(sharedAt, where)
			}
		}
		sort.Strings(sharedAt)
		shared += len(sharedAt)
		asteq.MutateAll(cl, true)
		after := asteq.Dump(n, full)
		if la, lb, differ := asteq.Diff(before, after); differ {
			owner := topField(la)
			if la.Path == "" {
				owner = topField(lb)
			}
			fs = append(fs, astgen.Finding{
				Key:    "clone-not-independent " + how + " node=" + nodeLabel(n) + " at=" + owner,
				Detail: fmt.Sprintf("template %s: %q\nafter changing every field of the %s of the %s at %s (%s) the ORIGINAL changed\noriginal before: %s\noriginal after:  %s\nshared pointers/backing arrays: %v", c.Entry, src, how, asteq.Kind(n), pos(n), r.Owner, la, lb, sharedAt),
			})
			taint()
		}
	}
	return astgen.Distinct(fs), checked, shared
}

func pos(n ast.Node) string {
	if asteq.IsNilNode(n) || n.Pos() == nil {
		return "?"
	}
	return n.Pos().String()
}

// oneLevel is a visitor that lets Walk descend into the root only and records
// what Walk hands over as its children.
type oneLevel struct {
	root     ast.Node
	children *[]ast.Node
	ends     *int
}

func (v oneLevel) Visit(n ast.Node) astutil.Visitor {
	if n == nil {
		*v.ends++
		return nil
	}
	if v.root != nil && n == v.root {
		return oneLevel{nil, v.children, v.ends}
	}
	*v.children = append(*v.children, n)
	return nil
}

type allVisitor struct {
	seen *[]ast.Node
	ends *int
}

func (v allVisitor) Visit(n ast.Node) astutil.Visitor {
	if n == nil {
		*v.ends++
		return nil
	}
	*v.seen = append(*v.seen, n)
	if asteq.IsNilNode(n) {
		return nil
	}
	return v
}

func walkFindings(c astgen.Case, tree *ast.Tree) (fs []astgen.Finding, checked int) {
	src := clip(c.Files[c.Entry])
	refs := asteq.Reachable(tree, false)
	direct := map[ast.Node][]asteq.NodeRef{}
	for _, r := range refs[1:] {
		direct[r.Parent] = append(direct[r.Parent], r)
	}
	add := func(key, detail string) {
		fs = append(fs, astgen.Finding{Key: key, Detail: fmt.Sprintf("template %s: %q\n%s", c.Entry, src, detail)})
	}
	for _, r := range refs {
		n := r.Node
		checked++
		run := func(api string) (got []ast.Node, ends int, p string) {
			defer func() {
				if e := recover(); e != nil {
					p = fmt.Sprint(e)
				}
			}()
			if api == "Walk" {
				astutil.Walk(oneLevel{n, &got, &ends}, n)
				return
			}
			astutil.Inspect(n, func(m ast.Node) bool {
				if m == nil {
					ends++
					return false
				}
				if m == n {
					return true
				}
				got = append(got, m)
				return false
			})
			return
		}
		got, ends, p := run("Walk")
		got2, ends2, p2 := run("Inspect")
		same := p == p2 && ends == ends2 && len(got) == len(got2)
		for i := 0; same && i < len(got); i++ {
			same = got[i] == got2[i]
		}
		if !same {
			add("Inspect-differs-from-Walk node="+nodeLabel(n), fmt.Sprintf("on the %s at %s Walk hands over %d nodes (panic %q), Inspect %d (panic %q)", asteq.Kind(n), pos(n), len(got), p, len(got2), p2))
		}
		const api = "Walk/Inspect"
		if p != "" {
			add(api+"-panics node="+nodeLabel(n)+" panic="+normPanic(p), fmt.Sprintf("Walk and Inspect on the %s at %s (%s) panic: %s", asteq.Kind(n), pos(n), r.Owner, clip(p)))
			continue
		}
		want := map[ast.Node]asteq.NodeRef{}
		for _, d := range direct[n] {
			want[d.Node] = d
		}
		count := map[ast.Node]int{}
		for _, g := range got {
			if asteq.IsNilNode(g) {
				add(fmt.Sprintf("%s-visits-nil-pointer parent=%s child-type=%s", api, nodeLabel(n), asteq.Kind(g)),
					fmt.Sprintf("Walk on the %s at %s calls Visit with a nil %T (nil fields: %v): not a node of the tree", asteq.Kind(n), pos(n), g, asteq.TypedNilFields(n)))
				continue
			}
			count[g]++
			if _, ok := want[g]; !ok {
				add(fmt.Sprintf("%s-visits-non-child parent=%s", api, asteq.Kind(n)),
					fmt.Sprintf("Walk on the %s at %s hands over a %s at %s that is not one of its direct children", asteq.Kind(n), pos(n), asteq.Kind(g), pos(g)))
			}
		}
		for _, d := range direct[n] {
			switch count[d.Node] {
			case 1:
			case 0:
				add(fmt.Sprintf("%s-skips %s", api, d.Owner),
					fmt.Sprintf("Walk on the %s at %s never visits its child %s (a %s at %s); documented as skipped are only: %s", asteq.Kind(n), pos(n), d.Owner, asteq.Kind(d.Node), pos(d.Node), documentedSkips))
			default:
				add(fmt.Sprintf("%s-visits-twice %s", api, d.Owner),
					fmt.Sprintf("Walk on the %s at %s visits its child %s %d times", asteq.Kind(n), pos(n), d.Owner, count[d.Node]))
			}
		}
		if ends != 1 {
			add(fmt.Sprintf("%s-end-calls parent=%s calls=%d", api, nodeLabel(n), ends),
				fmt.Sprintf("Walk on the %s at %s called Visit(nil) %d times after the children, want 1", asteq.Kind(n), pos(n), ends))
		}
	}
	// whole tree: every reachable node exactly once (only meaningful when the
	// per-node checks found nothing, otherwise it repeats them)
	if len(fs) == 0 {
		var seen []ast.Node
		ends := 0
		p := func() (p string) {
			defer func() {
				if e := recover(); e != nil {
					p = fmt.Sprint(e)
				}
			}()
			astutil.Walk(allVisitor{&seen, &ends}, tree)
			return ""
		}()
		if p != "" {
			add("Walk-panics whole-tree panic="+normPanic(p), "Walk over the whole tree panics: "+clip(p))
		} else {
			cnt := map[ast.Node]int{}
			for _, s := range seen {
				cnt[s]++
			}
			for _, r := range refs {
				if cnt[r.Node] != 1 {
					add(fmt.Sprintf("Walk-whole-tree visits=%d %s", cnt[r.Node], r.Owner), fmt.Sprintf("the %s at %s (%s) is visited %d times by Walk over the whole tree", asteq.Kind(r.Node), pos(r.Node), r.Owner, cnt[r.Node]))
				}
			}
			if len(seen) != len(refs) || ends != len(refs) {
				add("Walk-whole-tree count", fmt.Sprintf("Walk visited %d nodes and ended %d, the tree has %d", len(seen), ends, len(refs)))
			}
		}
	}
	return astgen.Distinct(fs), checked
}

const slots = 8

func parse(c astgen.Case, expanded bool) (*ast.Tree, string, error) {
	if strings.HasPrefix(c.Name, "typed:") {
		t, err := astgen.ParseTyped(c)
		return t, "type-checked", err
	}
	if expanded {
		if t, err := astgen.ParseExpanded(c); err == nil {
			return t, "expanded", nil
		}
	}
	t, err := astgen.ParseUnexpanded(c)
	return t, "unexpanded", err
}

func space(name, aspect string, cases []astgen.Case, expanded bool, nslots int) kit.Space {
	return astgen.SlotSpace(name+"/"+aspect, len(cases), nslots,
		func(i int) any {
			c := cases[i]
			if len(c.Files) > 1 {
				return map[string]any{"name": c.Name, "entry": c.Entry, "files": c.Files}
			}
			return map[string]any{"name": c.Name, "entry": c.Entry, "source": c.Files[c.Entry]}
		},
		func(i int) astgen.Result {
			c := cases[i]
			tree, how, err := parse(c, expanded)
			if err != nil {
				return astgen.Result{Class: "source-rejected"}
			}
			var r astgen.Result
			if aspect == "clone" {
				var shared int
				r.Findings, r.Ops, shared = cloneFindings(c, tree, how == "type-checked")
				r.Class = how + ":clone-ok"
				if shared > 0 {
					r.Class += "(shares-pointers-unobservably)"
				}
				if len(r.Findings) > 0 {
					r.Class = how + ":clone-fails"
				}
			} else {
				r.Findings, r.Ops = walkFindings(c, tree)
				r.Class = how + ":walk-ok"
				if len(r.Findings) > 0 {
					r.Class = how + ":walk-fails"
				}
			}
			r.Nontrivial = r.Ops > 1
			return r
		})
}

func spaces(tier string) []kit.Space {
	exprs := astgen.ExpressionShapes(tier)
	if tier == "thorough" {
		exprs = astgen.Expressions(tier)
	}
	ecs := make([]astgen.Case, len(exprs))
	for i, e := range exprs {
		ecs[i] = astgen.ExprCase(e)
	}
	stmts := astgen.Statements(tier)
	multi := astgen.MultiFile(tier)
	corpus := astgen.Corpus()
	var sps []kit.Space
	for _, aspect := range []string{"clone", "walk"} {
		sps = append(sps,
			space("1-expressions", aspect, ecs, false, 3),
			space("2-statements", aspect, stmts, false, slots),
			space("3-multi-file", aspect, multi, true, slots),
			space("4-corpus", aspect, corpus, true, slots),
		)
		sps = append(sps, space("5-type-checked", aspect, astgen.Typed(), true, slots), handBuiltSpace(aspect))
	}
	return append(sps, concurrentSpace(tier))
}

func main() {
	kit.Main(&kit.Check{
		ID:    "C28",
		Level: "model_checking",
		Rule: "every tree of C27's spaces (expression grammar — quick: without the operator-pair and operator-chain products that only vary precedence —, Go-form and template-form statements, /repo's template corpus) plus 13 multi-file templates expanded through extends/import/render (ExpandedTransformer); for EVERY node of each tree, descendants first: Clone* equality, mutation independence, and the exact set of children Walk and Inspect hand to the visitor; then a whole-tree walk. " +
			"Non-trivial = the tree has more than one node; index = (source, aspect, finding slot)",
		Assumptions: []string{
			"clone equality = equal deterministic reflection dumps including *ast.Position values and parenthesis counts; nil and empty slices are equal",
			"independence = after changing every settable number, string, bool, byte, slice element and parenthesis count reachable from the clone, the original's dump is unchanged; pointers shared without an observable effect (none is documented) are only counted in the outcome class",
			"reachable nodes = values implementing ast.Node found by reflection through exported fields, except *ast.Position and IR fields; children documented as skipped by Walk: " + documentedSkips,
			"the first four spaces take trees before type checking; the space 5-type-checked keeps the tree given to ExpandedTransformer until BuildTemplate has returned, i.e. with the checker's annotations (Upvars and their Declaration nodes, IR fields, reflect types): every annotation a clone carries must equal the original's (it may leave annotations out), and mutating everything reachable from the clone, annotations included, must not change the original",
		},
		Spaces: spaces,
	})
}
