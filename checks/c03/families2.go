package main

import (
	"fmt"
	"reflect"
	"strings"

	"verif/gen/gomutants"
	"verif/kit"

	"github.com/open2b/scriggo/native"
)

// Two more grammar families, judged by go/types like the others:
//
//   unused-variables: declaration form x position x mention form x nesting of
//   the mention: every way a variable can be mentioned after its declaration
//   without being read (and a few in which it is read);
//
//   call-arity: callee kind x parameter shape x statement x every argument
//   list from 0 to params+2 arguments, with and without a final "...".

// ---- the native package "arity" ----

type R struct{}

func (R) M0()                    {}
func (R) M1(a int)               {}
func (R) M2(a, b int)            {}
func (R) MV0(v ...int)           {}
func (R) MV1(a int, v ...int)    {}
func (R) MV2(a, b int, v ...int) {}
func F0()                        {}
func F1(a int)                   {}
func F2(a, b int)                {}
func FV0(v ...int)               {}
func FV1(a int, v ...int)        {}
func FV2(a, b int, v ...int)     {}

type RI interface {
	M0()
	M1(a int)
	M2(a, b int)
	MV0(v ...int)
	MV1(a int, v ...int)
	MV2(a, b int, v ...int)
}

const arityTwin = `package arity

type R struct{}

func (R) M0()                     {}
func (R) M1(a int)                {}
func (R) M2(a, b int)             {}
func (R) MV0(v ...int)            {}
func (R) MV1(a int, v ...int)     {}
func (R) MV2(a, b int, v ...int)  {}
func F0()                         {}
func F1(a int)                    {}
func F2(a, b int)                 {}
func FV0(v ...int)                {}
func FV1(a int, v ...int)         {}
func FV2(a, b int, v ...int)      {}

type RI interface {
	M0()
	M1(a int)
	M2(a, b int)
	MV0(v ...int)
	MV1(a int, v ...int)
	MV2(a, b int, v ...int)
}
`

func init() {
	hostPackages["arity"] = native.Package{Name: "arity", Declarations: native.Declarations{
		"R": reflect.TypeOf(R{}), "RI": reflect.TypeOf((*RI)(nil)).Elem(),
		"F0": F0, "F1": F1, "F2": F2, "FV0": FV0, "FV1": FV1, "FV2": FV2,
	}}
	hostTwins["arity"] = arityTwin
}

func moreSpaces() []kit.Space {
	var sps []kit.Space
	for _, f := range []gomutants.Family{{Name: "unused-variables", Cases: unusedVariables()}, {Name: "call-arity", Cases: callArity()}} {
		f := f
		sps = append(sps, kit.Space{
			Name:     "6.grammar." + f.Name,
			Size:     uint64(len(f.Cases)),
			Eval:     func(i uint64) kit.Outcome { return judgeCase(f.Name, f.Cases[i]) },
			Describe: func(i uint64) any { return map[string]any{"class": f.Cases[i].Class, "files": f.Cases[i].Files} },
		})
	}
	return sps
}

// ---- unused variables ----

type uvType struct {
	name, T, Z string
	extra      [][2]string // mention forms that need this type
}

type uvDecl struct {
	name string
	stmt string // declaration statement ("" for parameters and results)
	post string // use of the auxiliary variable b
	init bool   // a simple statement: can be the init of if, for and switch
	fn   string // "param" | "result": the variable is declared by the signature
}

func indent(s string) string {
	if s == "" {
		return ""
	}
	return "\t" + strings.ReplaceAll(strings.TrimRight(s, "\n"), "\n", "\n\t") + "\n"
}

func unusedVariables() []gomutants.Case {
	types := []uvType{
		{"int", "int", "1", [][2]string{
			{"incremented", "a++"},
			{"operation-assigned", "a += 1"},
			{"assigned as range key", "for a = range []int{1} {\n}"},
			{"assigned as range key and value", "for a, a = range []int{1} {\n}"},
		}},
		{"struct", "S", "S{}", [][2]string{{"field assigned", "a.x = 1"}, {"field incremented", "a.x++"}}},
		{"slice", "[]int", "[]int{1}", [][2]string{{"element assigned", "a[0] = 1"}, {"appended to itself", "a = append(a, 1)"}}},
		{"map", "map[string]int", "map[string]int{}", [][2]string{{"element assigned", "a[\"k\"] = 1"}}},
		{"pointer", "*int", "new(int)", [][2]string{{"pointee assigned", "*a = 1"}}},
		{"func", "func()", "func() {}", [][2]string{{"called", "a()"}}},
	}
	decls := []uvDecl{
		{name: "var with type", stmt: "var a T"},
		{name: "var with value", stmt: "var a = Z"},
		{name: "var with type and value", stmt: "var a T = Z"},
		{name: "var group", stmt: "var (\n\tb int\n\ta T\n)", post: "_ = b"},
		{name: "short declaration", stmt: "a := Z", init: true},
		{name: "multi-value short declaration", stmt: "a, b := f2()", post: "_ = b", init: true},
		{name: "short declaration of two", stmt: "b, a := 1, Z", post: "_ = b", init: true},
		{name: "partial redeclaration", stmt: "var b int\nb, a := 1, Z", post: "_ = b"},
		{name: "function parameter", fn: "param"},
		{name: "named result", fn: "result"},
	}
	// mention forms for every type
	mentions := [][2]string{
		{"never mentioned", ""},
		{"read", "_ = a"},
		{"assigned", "a = Z"},
		{"assigned to itself", "a = a"},
		{"assigned from a call with two results", "a, _ = f2()"},
		{"assigned in a tuple", "_, a = 1, Z"},
		{"redeclared in a partial short declaration", "a, c := f2()\n_ = c"},
		{"redeclared second in a partial short declaration", "c, a := 1, Z\n_ = c"},
		{"redeclared with itself on the right", "a, c := a, 1\n_ = c"},
		{"shadowed by a short declaration", "{\n\ta := Z\n\t_ = a\n}"},
		{"shadowed by a short declaration from itself", "{\n\ta := a\n\t_ = a\n}"},
		{"shadowed by an unused short declaration from itself", "{\n\ta := a\n}"},
		{"shadowed by a var", "{\n\tvar a T\n\t_ = a\n}"},
		{"shadowed by an if init", "if a := Z; true {\n\t_ = a\n}"},
		{"shadowed by a range variable", "for _, a := range []T{Z} {\n\t_ = a\n}"},
		{"shadowed by a parameter", "func(a T) {}(Z)"},
		{"address taken", "_ = &a"},
		{"assigned as range value", "for _, a = range []T{Z} {\n}"},
		{"assigned by a receive", "select {\ncase a = <-make(chan T):\ndefault:\n}"},
		{"assigned by a closure that is not called", "_ = func() { a = Z }"},
	}
	// where the mention is, relative to the declaration
	wraps := [][2]string{
		{"same block", "M"},
		{"nested block", "{\nM}"},
		{"if body", "if true {\nM}"},
		{"called closure", "func() {\nM}()"},
	}
	// where the declaration is
	positions := []struct {
		name string
		init bool
		text string
	}{
		{"function body", false, "D\nP\nM"},
		{"nested block", false, "{\nD\nP\nM}"},
		{"function literal", false, "func() {\nD\nP\nM}()"},
		{"case clause", false, "switch {\ndefault:\nD\nP\nM}"},
		{"if init", true, "if D; true {\nP\nM}"},
		{"if init, else branch", true, "if D; false {\nP\n} else {\nM}"},
		{"for init", true, "for D; false; {\nP\nM}"},
		{"switch init", true, "switch D; {\ndefault:\nP\nM}"},
	}
	var out []gomutants.Case
	for _, ty := range types {
		sub := strings.NewReplacer("T", ty.T, "Z", ty.Z)
		ms := append(append([][2]string{}, mentions...), ty.extra...)
		head := "package main\n\ntype S struct{ x int }\n\nfunc f2() (" + ty.T + ", int) { return " + ty.Z + ", 2 }\n\n"
		for _, d := range decls {
			for _, m := range ms {
				for _, w := range wraps {
					mention := sub.Replace(m[1])
					if m[1] == "" {
						if w[0] != "same block" {
							continue
						}
					} else {
						mention = strings.Replace(w[1], "M", indentIf(w[0] != "same block", mention), 1)
					}
					class := d.name + "; " + m[0]
					if w[0] == "called closure" {
						class += " in a closure"
					}
					switch d.fn {
					case "param":
						out = append(out,
							gomutants.Case{Class: class, Files: map[string]string{"main.go": head + "func g(a " + ty.T + ") {\n" + indent(mention) + "}\n\nfunc main() { g(" + ty.Z + ") }\n"}},
							gomutants.Case{Class: class, Files: map[string]string{"main.go": head + "func main() {\n\tfunc(a " + ty.T + ") {\n" + indent(indent(mention)) + "\t}(" + ty.Z + ")\n}\n"}})
						continue
					case "result":
						out = append(out,
							gomutants.Case{Class: class, Files: map[string]string{"main.go": head + "func g() (a " + ty.T + ") {\n" + indent(mention) + "\treturn\n}\n\nfunc main() { g() }\n"}},
							gomutants.Case{Class: class, Files: map[string]string{"main.go": head + "func main() {\n\tfunc() (a " + ty.T + ") {\n" + indent(indent(mention)) + "\t\treturn\n\t}()\n}\n"}})
						continue
					}
					for _, p := range positions {
						if p.init && !d.init {
							continue
						}
						body := p.text
						body = strings.Replace(body, "D", sub.Replace(d.stmt), 1)
						if d.post == "" {
							body = strings.Replace(body, "P\n", "", 1)
						} else {
							body = strings.Replace(body, "P", d.post, 1)
						}
						if mention == "" {
							body = strings.Replace(body, "M", "", 1)
						} else {
							body = strings.Replace(body, "M", strings.TrimRight(mention, "\n")+"\n", 1)
						}
						out = append(out, gomutants.Case{Class: class, Files: map[string]string{"main.go": head + "func main() {\n" + indent(body) + "}\n"}})
					}
				}
			}
		}
	}
	return out
}

func indentIf(c bool, s string) string {
	if !c {
		return s
	}
	return indent(s)
}

// ---- call arity x spread ----

func callArity() []gomutants.Case {
	type shape struct {
		fixed    int
		variadic bool
	}
	shapes := []shape{{0, false}, {1, false}, {2, false}, {0, true}, {1, true}, {2, true}}
	params := func(s shape) string {
		var ps []string
		for i := 0; i < s.fixed; i++ {
			ps = append(ps, fmt.Sprintf("p%d int", i))
		}
		if s.variadic {
			ps = append(ps, "v ...int")
		}
		return strings.Join(ps, ", ")
	}
	suffix := func(s shape) string {
		if s.variadic {
			return fmt.Sprintf("V%d", s.fixed)
		}
		return fmt.Sprintf("%d", s.fixed)
	}
	// the alternatives of an argument that is not bound to a fixed parameter,
	// and of a final argument followed by "..."
	alts := []string{"1", "s", "nil", `"x"`}
	// argLists returns every argument list for a callee with the given shape
	argLists := func(s shape) []string {
		total := s.fixed
		if s.variadic {
			total++
		}
		var out []string
		for n := 0; n <= total+2; n++ {
			for _, spread := range []bool{false, true} {
				if spread && n == 0 {
					continue
				}
				// positions that vary: the surplus ones and, with a spread, the last
				var vary []int
				for i := 0; i < n; i++ {
					if i >= s.fixed || (spread && i == n-1) {
						vary = append(vary, i)
					}
				}
				count := 1
				for range vary {
					count *= len(alts)
				}
				for k := 0; k < count; k++ {
					args := make([]string, n)
					for i := range args {
						args[i] = "1"
					}
					r := k
					for j := len(vary) - 1; j >= 0; j-- {
						args[vary[j]] = alts[r%len(alts)]
						r /= len(alts)
					}
					l := strings.Join(args, ", ")
					if spread {
						l += "..."
					}
					out = append(out, l)
				}
			}
		}
		// calls with multiple results as arguments
		for _, l := range []string{"g0()", "g2()", "g3()", "gis()", "gs()", "1, g2()", "g2(), 1", "g1(), g1()"} {
			out = append(out, l, l+"...")
		}
		return out
	}
	helpers := "var s []int\n\nfunc g0()                 {}\nfunc g1() int             { return 1 }\nfunc g2() (int, int)      { return 1, 2 }\nfunc g3() (int, int, int) { return 1, 2, 3 }\nfunc gis() (int, []int)   { return 1, nil }\nfunc gs() []int           { return nil }\n\n"
	type callee struct {
		name string
		host bool
		// decl: package-level declarations; pre: statements before the call; call: the callee expression
		build func(s shape) (decl, pre, call string)
	}
	callees := []callee{
		{"declared function", false, func(s shape) (string, string, string) {
			return "func fn(" + params(s) + ") {}\n\n", "", "fn"
		}},
		{"function literal in a variable", false, func(s shape) (string, string, string) {
			return "", "fl := func(" + params(s) + ") {}\n", "fl"
		}},
		{"function literal called in place", false, func(s shape) (string, string, string) {
			return "", "", "func(" + params(s) + ") {}"
		}},
		{"function value in a package variable", false, func(s shape) (string, string, string) {
			return "var fv = func(" + params(s) + ") {}\n\n", "", "fv"
		}},
		{"function parameter", false, func(s shape) (string, string, string) {
			return "", "", "cb"
		}},
		{"native function", true, func(s shape) (string, string, string) { return "", "", "arity.F" + suffix(s) }},
		{"method of a native type", true, func(s shape) (string, string, string) {
			return "", "var r arity.R\n", "r.M" + suffix(s)
		}},
		{"method of a native type through a pointer", true, func(s shape) (string, string, string) {
			return "", "r := &arity.R{}\n", "r.M" + suffix(s)
		}},
		{"method value of a native type", true, func(s shape) (string, string, string) {
			return "", "var r arity.R\nmv := r.M" + suffix(s) + "\n", "mv"
		}},
		{"method expression of a native type", true, func(s shape) (string, string, string) {
			return "", "var r arity.R\n", "arity.R.M" + suffix(s) + "(r, "
		}},
		{"method of a native interface", true, func(s shape) (string, string, string) {
			return "", "var r arity.RI = arity.R{}\n", "r.M" + suffix(s)
		}},
	}
	stmts := [][2]string{{"statement", "C"}, {"defer", "defer C"}, {"go", "go C"}}
	var out []gomutants.Case
	for _, c := range callees {
		for _, s := range shapes {
			decl, pre, call := c.build(s)
			kind := "non-variadic"
			if s.variadic {
				kind = "variadic"
			}
			for _, st := range stmts {
				for _, args := range argLists(s) {
					var expr string
					if strings.HasSuffix(call, "(r, ") {
						// method expression: the receiver is the first argument
						expr = call + args + ")"
						if args == "" {
							expr = strings.TrimSuffix(call, ", ") + ")"
						}
					} else {
						expr = call + "(" + args + ")"
					}
					body := indent(pre + strings.Replace(st[1], "C", expr, 1))
					imp := ""
					if c.host {
						imp = "import \"arity\"\n\n"
					}
					var src string
					if c.name == "function parameter" {
						src = "package main\n\n" + imp + helpers + decl + "func h(cb func(" + params(s) + ")) {\n" + body + "}\n\nfunc main() { h(nil) }\n"
					} else {
						src = "package main\n\n" + imp + helpers + decl + "func main() {\n" + body + "}\n"
					}
					class := c.name + ", " + kind
					if strings.HasSuffix(args, "...") {
						class += ", with ..."
					}
					out = append(out, gomutants.Case{Class: class, Host: c.host, Files: map[string]string{"main.go": src}})
				}
			}
		}
	}
	// builtin append: variadic with one fixed parameter; the slice types give
	// the special case append([]byte, string...)
	// (not generated, because Scriggo fails on them for reasons that are not
	// about arity: a final "nil...", append to []interface{} of a []int...,
	// and a call with several results as the only argument)
	for _, sl := range [][3]string{{"[]int", "1", "s"}, {"[]byte", "'a'", "\"x\""}} {
		elems := []string{sl[1], "t", "nil", sl[2]}
		var lists []string
		for n := 0; n <= 4; n++ {
			count := 1
			for i := 0; i < n; i++ {
				count *= len(elems)
			}
			for k := 0; k < count; k++ {
				args := make([]string, n)
				r := k
				for j := n - 1; j >= 0; j-- {
					args[j] = elems[r%len(elems)]
					r /= len(elems)
				}
				l := strings.Join(args, ", ")
				lists = append(lists, l)
				if n > 0 && args[n-1] != "nil" {
					lists = append(lists, l+"...")
				}
			}
		}
		for _, l := range []string{"gs()", "gs(), 1", "t, g2()"} {
			lists = append(lists, l, l+"...")
		}
		for _, use := range [][2]string{{"assigned", "_ = append(A)"}, {"statement", "append(A)"}, {"defer", "defer append(A)"}} {
			for _, l := range lists {
				src := "package main\n\nvar s []int\nvar t " + sl[0] + "\n\nfunc gs() " + sl[0] + " { return nil }\nfunc g2() (int, int) { return 1, 2 }\nfunc gsi() (" + sl[0] + ", int) { return nil, 1 }\nfunc gss() (" + sl[0] + ", " + sl[0] + ") { return nil, nil }\n\nfunc main() {\n\t" + strings.Replace(use[1], "A", l, 1) + "\n}\n"
				class := "builtin append, " + use[0]
				if strings.HasSuffix(l, "...") {
					class += ", with ..."
				}
				out = append(out, gomutants.Case{Class: class, Files: map[string]string{"main.go": src}})
			}
		}
	}
	return out
}
