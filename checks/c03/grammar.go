package main

import (
	"errors"
	"fmt"
	"io/fs"
	"reflect"
	"runtime/debug"
	"sort"
	"strings"

	"verif/gen/gomutants"
	"verif/kit"

	"github.com/open2b/scriggo"
	"github.com/open2b/scriggo/native"
)

// ---- the native package "host" (its source twin is gomutants.HostTwin) ----

type T struct{ N int }

func (t T) VM() int  { return t.N }
func (t *T) PM() int { t.N++; return t.N }

type I int

func (i I) VM() int  { return int(i) }
func (i *I) PM() int { *i++; return int(*i) }

type H struct {
	F T
	P *T
}

var (
	hostV  T
	hostVP *T
	hostM  map[string]T
	hostMP map[string]*T
	hostA  [2]T
	hostL  []T
)

var hostPackages = native.Packages{"host": native.Package{Name: "host", Declarations: native.Declarations{
	"T": reflect.TypeOf(T{}), "I": reflect.TypeOf(I(0)), "H": reflect.TypeOf(H{}),
	"NewT": func() T { return T{} }, "PtrT": func() *T { return &T{} }, "NewH": func() H { return H{} },
	"V": &hostV, "VP": &hostVP, "M": &hostM, "MP": &hostMP, "A": &hostA, "L": &hostL,
}}}

var hostTwins = map[string]string{"host": gomutants.HostTwin}

func showFiles(files map[string]string) string {
	names := make([]string, 0, len(files))
	for n := range files {
		names = append(names, n)
	}
	sort.Strings(names)
	if len(names) == 1 {
		return files[names[0]]
	}
	var b strings.Builder
	for _, n := range names {
		fmt.Fprintf(&b, "--- %s\n%s", n, files[n])
		if !strings.HasSuffix(files[n], "\n") {
			b.WriteString("\n")
		}
	}
	return b.String()
}

// judgeCase applies the C03 oracle to one case of a grammar family. The key
// names the family, the construct class and the direction.
func judgeCase(family string, c gomutants.Case) (o kit.Outcome) {
	var twins map[string]string
	opts := &scriggo.BuildOptions{AllowGoStmt: true}
	if c.Host {
		twins = hostTwins
		opts.Packages = hostPackages
	}
	v := gomutants.JudgeFiles(c.Files, twins)
	src := showFiles(c.Files)
	what := family + ": " + c.Class
	verdict := "go/types: accepted"
	if !v.Accepted {
		verdict = fmt.Sprintf("go/types: %d:%d: %s", v.Line, v.Column, v.Msg)
	}
	defer func() {
		if e := recover(); e != nil {
			fr := kit.FirstRepoFrame(string(debug.Stack()))
			if fr == "" {
				panic(e)
			}
			o = kit.Outcome{Key: what + " | build-panic | " + fr + " | " + panicClass(fmt.Sprint(e), src), Class: "fail(panic)", Nontrivial: true,
				Detail: fmt.Sprintf("%s\n%s\nscriggo.Build panics: %v", src, verdict, e)}
		}
	}()
	files := scriggo.Files{}
	for n, s := range c.Files {
		files[n] = []byte(s)
	}
	_, err := scriggo.Build(files, opts)
	o = kit.Outcome{OK: true, Nontrivial: true, Ops: 2}
	var be *scriggo.BuildError
	if err != nil && !errors.As(err, &be) {
		return kit.Outcome{Key: what + " | error-type " + fmt.Sprintf("%T", err), Class: "fail", Nontrivial: true,
			Detail: fmt.Sprintf("%s\n%s\nscriggo.Build returned %T: %v (want *scriggo.BuildError)", src, verdict, err, err)}
	}
	switch {
	case v.Accepted && !v.Subset:
		o.Class, o.Nontrivial = "skipped:outside-subset(valid only for Go newer than "+gomutants.ScriggoLevel+")", false
	case v.Accepted && v.Quirk != "":
		o.Class, o.Nontrivial = "skipped:reference-quirk("+v.Quirk+")", false
	case v.Accepted && err == nil:
		o.Class = "both-accept"
	case !v.Accepted && err != nil:
		o.Class = "both-reject"
	case v.Accepted && strings.Contains(be.Message(), "not supported"):
		o.Class, o.Nontrivial = "outside the supported subset (the BuildError says: not supported)", false
	case v.Accepted:
		return kit.Outcome{Key: what + " | scriggo-rejects-valid | " + gomutants.Normalise(strings.SplitN(strings.SplitN(be.Message(), "\n", 2)[0], " involving", 2)[0], src), Class: "fail", Nontrivial: true,
			Detail: fmt.Sprintf("%s\n%s\nscriggo.Build: %v", src, verdict, err)}
	default:
		return kit.Outcome{Key: what + " | scriggo-accepts-invalid | " + v.Class, Class: "fail", Nontrivial: true,
			Detail: fmt.Sprintf("%s\n%s\nscriggo.Build: accepted", src, verdict)}
	}
	return o
}

func grammarSpaces() []kit.Space {
	var sps []kit.Space
	for _, f := range gomutants.Grammar() {
		f := f
		sps = append(sps, kit.Space{
			Name:     "4.grammar." + f.Name,
			Size:     uint64(len(f.Cases)),
			Eval:     func(i uint64) kit.Outcome { return judgeCase(f.Name, f.Cases[i]) },
			Describe: func(i uint64) any { return map[string]any{"class": f.Cases[i].Class, "files": f.Cases[i].Files} },
		})
	}
	return append(append(sps, importerSpace()), moreSpaces()...)
}

// ---- Part 1 (c): importers that fail ----
//
// Oracle, from the documentation: native.Importer says "If an error occurs it
// returns the error, if the package does not exist it returns nil and nil";
// Build says "If a build error occurs, it returns a *BuildError". A failing
// import is a build error: Build must return a non-nil error that is a
// *BuildError (errors.As) located at the import declaration of the importing
// file and whose message carries the importer's message; it may in addition
// wrap the importer's error (errors.Is), which is recorded in the outcome
// class but not required. A nil error, a panic of Scriggo itself, the
// importer's error returned as is, or an unrelated error are failures.

type myErr struct{ code int }

func (e *myErr) Error() string { return fmt.Sprintf("host importer failed with code %d", e.code) }

var errSentinel = errors.New("sentinel importer failure")

type funcImporter func(path string) (native.ImportablePackage, error)

func (f funcImporter) Import(path string) (native.ImportablePackage, error) { return f(path) }

type importerCase struct {
	name string
	err  error // the error the importer returns (nil: see pkg)
	mk   func(err error) native.Importer
}

func importerCases() []importerCase {
	fail := func(err error) native.Importer {
		return funcImporter(func(string) (native.ImportablePackage, error) { return nil, err })
	}
	errs := []struct {
		name string
		err  error
	}{
		{"errors.New", errSentinel},
		{"custom pointer error type", &myErr{7}},
		{"wrapped with %w", fmt.Errorf("loading: %w", errSentinel)},
		{"fs.ErrNotExist", fs.ErrNotExist},
		{"*fs.PathError", &fs.PathError{Op: "open", Path: "host", Err: fs.ErrPermission}},
		{"error with a newline and a colon", errors.New("line one\nline: two")},
		{"error with an empty message", errors.New("")},
	}
	var out []importerCase
	for _, e := range errs {
		e := e
		out = append(out,
			importerCase{"importer returns (nil, " + e.name + ")", e.err, fail},
			importerCase{"CombinedImporter{failing} returns (nil, " + e.name + ")", e.err, func(err error) native.Importer { return native.CombinedImporter{fail(err)} }},
			importerCase{"CombinedImporter{empty, failing} returns (nil, " + e.name + ")", e.err, func(err error) native.Importer {
				return native.CombinedImporter{native.Packages{}, fail(err)}
			}},
			importerCase{"importer returns (package, " + e.name + ")", e.err, func(err error) native.Importer {
				return funcImporter(func(string) (native.ImportablePackage, error) { return hostPackages["host"], err })
			}},
		)
	}
	out = append(out,
		importerCase{"importer returns (nil, nil)", nil, func(error) native.Importer { return native.Packages{} }},
		importerCase{"CombinedImporter{} (no importers)", nil, func(error) native.Importer { return native.CombinedImporter{} }},
		importerCase{"CombinedImporter{failing, working}: the failure comes first", errSentinel, func(err error) native.Importer {
			return native.CombinedImporter{fail(err), hostPackages}
		}},
	)
	return out
}

// programs that import "host" in the ways an import can be written
var importForms = []struct{ name, src string }{
	{"plain", "package main\n\nimport \"host\"\n\nfunc main() { _ = host.NewT() }\n"},
	{"blank", "package main\n\nimport _ \"host\"\n\nfunc main() {}\n"},
	{"renamed", "package main\n\nimport h \"host\"\n\nfunc main() { _ = h.NewT() }\n"},
	{"dot", "package main\n\nimport . \"host\"\n\nfunc main() { _ = NewT() }\n"},
	{"second import", "package main\n\nimport (\n\t\"other\"\n\t\"host\"\n)\n\nfunc main() { _, _ = other.NewT(), host.NewT() }\n"},
	{"template import", "{% import \"host\" %}{{ host.NewT().N }}"},
	{"template import for", "{% import \"host\" for NewT %}{{ NewT().N }}"},
}

func importerSpace() kit.Space {
	cases := importerCases()
	n := uint64(len(importForms))
	at := func(i uint64) (importerCase, int) { return cases[i/n], int(i % n) }
	return kit.Space{
		Name: "5.importer-failures",
		Size: uint64(len(cases)) * n,
		Eval: func(i uint64) (o kit.Outcome) {
			c, f := at(i)
			form := importForms[f]
			imp := c.mk(c.err)
			if form.name == "second import" {
				// "other" is imported first and works; only "host" fails
				inner := imp
				imp = funcImporter(func(path string) (native.ImportablePackage, error) {
					if path == "other" {
						return hostPackages["host"], nil
					}
					return inner.Import(path)
				})
			}
			what := "importer-failure: " + strings.SplitN(c.name, " returns", 2)[0]
			detail := fmt.Sprintf("%s\nimporter: %s", form.src, c.name)
			defer func() {
				if e := recover(); e != nil {
					fr := kit.FirstRepoFrame(string(debug.Stack()))
					if fr == "" {
						panic(e)
					}
					// the message is the importer's: it does not name the defect
					o = kit.Outcome{Key: what + " | build-panic | " + fr, Class: "fail(panic)", Nontrivial: true,
						Detail: fmt.Sprintf("%s\nBuild panics: %v", detail, e)}
				}
			}()
			var err error
			file := "main.go"
			if strings.HasPrefix(form.name, "template") {
				file = "index.html"
				_, err = scriggo.BuildTemplate(scriggo.Files{file: []byte(form.src)}, file, &scriggo.BuildOptions{Packages: imp})
			} else {
				_, err = scriggo.Build(scriggo.Files{file: []byte(form.src)}, &scriggo.BuildOptions{Packages: imp})
			}
			bad := func(key, why string) kit.Outcome {
				return kit.Outcome{Key: what + " | " + key, Class: "fail", Nontrivial: true, Detail: fmt.Sprintf("%s\nBuild returned %T: %v\n%s", detail, err, err, why)}
			}
			if err == nil {
				return bad("build succeeds", "want an error: the import failed")
			}
			var be *scriggo.BuildError
			isBE := errors.As(err, &be)
			wraps := c.err != nil && errors.Is(err, c.err)
			if !isBE {
				if wraps {
					return bad("the importer's error is returned as is, not as a *BuildError", "")
				}
				return bad("error is neither a *BuildError nor the importer's error", "")
			}
			{
				if be.Path() != file {
					return bad("BuildError names another file", fmt.Sprintf("Path() = %q, want %q", be.Path(), file))
				}
				if !strings.Contains(form.src[min(be.Position().Start, len(form.src)):], "host") {
					return bad("BuildError is not located at the import", fmt.Sprintf("Start = %d", be.Position().Start))
				}
				want := `cannot find package "host"`
				if c.err != nil {
					want = c.err.Error()
				}
				if !strings.Contains(be.Message(), want) {
					return bad("BuildError does not carry the importer's message", fmt.Sprintf("Message() = %q, want it to contain %q", be.Message(), want))
				}
			}
			cls := "*BuildError"
			if wraps {
				cls += " wrapping the importer's error"
			}
			return kit.Outcome{OK: true, Nontrivial: true, Class: "importer failure reported as " + cls}
		},
		Describe: func(i uint64) any {
			c, f := at(i)
			return map[string]string{"importer": c.name, "program": importForms[f].src}
		},
	}
}
