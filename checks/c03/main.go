// C03 — Build accepts a program exactly when the Go type checker does.
//
// Exhaustive single-point mutation of ~30 seed programs: every AST position ×
// every applicable operator of verif/gen/gomutants, plus the deletion of
// every token. Each mutant is judged by go/parser + go/types; scriggo.Build
// must give the same verdict and a rejection must be a *scriggo.BuildError.
package main

import (
	"errors"
	"fmt"
	"os"
	"regexp"
	"runtime/debug"
	"sort"
	"strings"
	"sync"
	"time"

	"verif/gen/gomutants"
	"verif/kit"

	"github.com/open2b/scriggo"
)

// judge applies the C03 oracle to one source.
func judge(op, src string) (o kit.Outcome) {
	v := gomutants.Judge(src)
	defer func() {
		// a panic of Build on the calling goroutine: keyed by the panicking
		// function and the message without the operands
		if e := recover(); e != nil {
			fr := kit.FirstRepoFrame(string(debug.Stack()))
			if fr == "" {
				panic(e)
			}
			verdict := "go/types: accepted"
			if !v.Accepted {
				verdict = fmt.Sprintf("go/types: main.go:%d:%d: %s", v.Line, v.Column, v.Msg)
			}
			o = kit.Outcome{Key: "panic | " + fr + " | " + panicClass(fmt.Sprint(e), src), Class: "fail(panic)", Nontrivial: true, Hash: kit.Hash64(src),
				Detail: fmt.Sprintf("%s\n%s\nscriggo.Build panics: %v", src, verdict, e)}
		}
	}()
	_, err := scriggo.Build(scriggo.Files{"main.go": []byte(src)}, &scriggo.BuildOptions{AllowGoStmt: true})
	o = kit.Outcome{OK: true, Nontrivial: true, Hash: kit.Hash64(src), Ops: 2}
	var be *scriggo.BuildError
	if err != nil && !errors.As(err, &be) {
		return kit.Outcome{Key: op + " | error-type " + fmt.Sprintf("%T", err) + " | " + kit.NormMsg(err.Error()), Class: "fail", Nontrivial: true, Hash: o.Hash,
			Detail: fmt.Sprintf("%s\ngo/types: accepted=%v %s\nscriggo.Build returned %T: %v (want *scriggo.BuildError)", src, v.Accepted, v.Msg, err, err)}
	}
	switch {
	case v.Accepted && !v.Subset:
		o.Class = "skipped:outside-subset(valid only for Go newer than " + gomutants.ScriggoLevel + ")"
		o.Nontrivial = false
	case v.Accepted && v.Quirk != "":
		o.Class = "skipped:reference-quirk(" + v.Quirk + ")"
		o.Nontrivial = false
	case v.Accepted && err == nil:
		o.Class = "both-accept"
	case !v.Accepted && err != nil:
		o.Class = "both-reject"
		if v.Syntax {
			o.Class = "both-reject(syntax)"
		}
	case v.Accepted && err != nil && strings.Contains(be.Message(), "not supported"):
		// the statement is about the SUPPORTED subset: a build error that says the
		// construct is not supported (method declarations, non-empty interfaces,
		// labels of outer statements, range with a non-name target…) delimits it
		o.Class = "outside the supported subset (the BuildError says: not supported)"
		o.Nontrivial = false
	case v.Accepted && err != nil:
		return kit.Outcome{Key: op + " | scriggo-rejects-valid | " + gomutants.Normalise(be.Message(), src), Class: "fail", Nontrivial: true, Hash: o.Hash,
			Detail: fmt.Sprintf("%s\ngo/types: accepted\nscriggo.Build: %v", src, err)}
	default:
		return kit.Outcome{Key: op + " | " + v.Class + " | scriggo-accepts-invalid", Class: "fail", Nontrivial: true, Hash: o.Hash,
			Detail: fmt.Sprintf("%s\ngo/types: main.go:%d:%d: %s\nscriggo.Build: accepted", src, v.Line, v.Column, v.Msg)}
	}
	return o
}

var reAddr = regexp.MustCompile(`0x[0-9a-f]+`)
var reNode = regexp.MustCompile(`is \*ast\.\w+,`)
var reIdent = regexp.MustCompile(`identifier \w+`)
var reElem = regexp.MustCompile(`Elem of invalid type .*`)

// panicClass reduces a panic message to its constant part.
func panicClass(msg, src string) string {
	for _, cut := range []string{" &ast.", "(expr:", "{"} {
		if i := strings.Index(msg, cut); i >= 0 {
			msg = msg[:i]
		}
	}
	msg = reAddr.ReplaceAllString(msg, "ADDR")
	msg = reNode.ReplaceAllString(msg, "is *ast.<node>,")
	msg = reIdent.ReplaceAllString(msg, "identifier <name>")
	msg = reElem.ReplaceAllString(msg, "Elem of invalid type <type>")
	return kit.NormMsg(msg)
}

type seedPlan struct {
	seed    gomutants.Seed
	mutants []gomutants.Mutant
}

func spaces(tier string) []kit.Space {
	seeds := gomutants.Seeds()
	var plans []seedPlan
	var starts []uint64
	total := uint64(0)
	for _, s := range seeds {
		pl := seedPlan{s, gomutants.Plan(s.Src)}
		if pl.mutants == nil {
			fmt.Fprintf(os.Stderr, "HARNESS-ERROR: seed %s does not parse\n", s.Name)
			os.Exit(2)
		}
		plans = append(plans, pl)
		starts = append(starts, total)
		total += uint64(len(pl.mutants))
	}
	locate := func(i uint64) (seedPlan, gomutants.Mutant) {
		k := sort.Search(len(starts), func(k int) bool { return starts[k] > i }) - 1
		return plans[k], plans[k].mutants[i-starts[k]]
	}
	constructs := gomutants.Constructs()
	sps := []kit.Space{
		{
			Name: "0.constructs",
			Size: uint64(len(constructs)),
			Eval: func(i uint64) kit.Outcome {
				o := judge("construct "+constructs[i].Name, constructs[i].Src)
				if o.OK && o.Class != "both-accept" && !strings.HasPrefix(o.Class, "outside the supported subset") {
					return kit.Outcome{Key: "construct " + constructs[i].Name + " is not accepted by go/types", Detail: constructs[i].Src, Class: "fail"}
				}
				return o
			},
			Describe: func(i uint64) any {
				return map[string]string{"construct": constructs[i].Name, "src": constructs[i].Src}
			},
		},
		{
			Name: "1.seeds",
			Size: uint64(len(seeds)),
			Eval: func(i uint64) kit.Outcome {
				o := judge("seed", seeds[i].Src)
				if o.OK && o.Class != "both-accept" {
					return kit.Outcome{Key: "seed " + seeds[i].Name + " is not accepted by go/types", Detail: seeds[i].Src, Class: "fail"}
				}
				return o
			},
			Describe: func(i uint64) any { return map[string]string{"seed": seeds[i].Name} },
		},
		{
			Name:         "2.first-order",
			Size:         total,
			NotInjective: true,
			Eval: func(i uint64) kit.Outcome {
				pl, m := locate(i)
				return judge(m.Op, m.Apply(pl.seed.Src))
			},
			Describe: func(i uint64) any {
				pl, m := locate(i)
				return map[string]any{"seed": pl.seed.Name, "op": m.Op, "offset": m.Off, "end": m.End, "text": m.Text}
			},
		},
	}
	sps = append(sps, grammarSpaces()...)
	if tier == "thorough" {
		sps = append(sps, secondOrder(plans[:0:0], seeds)...)
	}
	return sps
}

func structural(op string) bool {
	for _, p := range []string{"expr→", "wrap ", "insert ", "insert-decl ", "delete-token ", "ident→"} {
		if strings.HasPrefix(op, p) {
			return false
		}
	}
	return true
}

// secondOrderSeeds are the seeds mutated twice in the thorough tier.
var secondOrderSeeds = []string{"arith", "structs", "interfaces", "closures", "switches"}

func secondOrder(_ []seedPlan, seeds []gomutants.Seed) []kit.Space {
	var sps []kit.Space
	for _, name := range secondOrderSeeds {
		var seed gomutants.Seed
		for _, s := range seeds {
			if s.Name == name {
				seed = s
			}
		}
		// first mutation: the structural operators (statements, declarations,
		// names, arities, signatures); second mutation: every operator
		var first []gomutants.Mutant
		for _, m := range gomutants.Plan(seed.Src) {
			if structural(m.Op) {
				first = append(first, m)
			}
		}
		// children of every first-order mutant that still parses
		var starts []uint64
		total := uint64(0)
		for _, m := range first {
			starts = append(starts, total)
			total += uint64(len(gomutants.Plan(m.Apply(seed.Src))))
		}
		sd := seed
		// the plan of the intermediate source is cached: consecutive indices
		// share their first mutation
		var mu sync.Mutex
		lastK, lastMid, lastPlan := -1, "", []gomutants.Mutant(nil)
		locate := func(i uint64) (gomutants.Mutant, gomutants.Mutant, string) {
			k := sort.Search(len(starts), func(k int) bool { return starts[k] > i }) - 1
			mu.Lock()
			if k != lastK {
				lastK, lastMid = k, first[k].Apply(sd.Src)
				lastPlan = gomutants.Plan(lastMid)
			}
			mid, plan := lastMid, lastPlan
			mu.Unlock()
			second := plan[i-starts[k]]
			return first[k], second, second.Apply(mid)
		}
		sps = append(sps, kit.Space{
			Name:         "3.second-order." + name,
			Size:         total,
			NotInjective: true,
			Eval: func(i uint64) kit.Outcome {
				m1, m2, src := locate(i)
				_, _ = m1, m2 // the operators are in the witness: with two mutations the go/types error class names the defect
				return judge("second-order", src)
			},
			Describe: func(i uint64) any {
				m1, m2, _ := locate(i)
				return map[string]any{"seed": sd.Name, "first": m1, "second": m2}
			},
		})
	}
	return sps
}

func main() {
	kit.Main(&kit.Check{
		ID:       "C03",
		Level:    "model_checking",
		Isolated: true,
		// a worker of the thorough tier plans the second-order spaces before its
		// first case: a few seconds, but more than the default 30 on a loaded machine
		HangSeconds: 120,
		Rule:        "every first-order mutant of every seed program: each AST position (expression slots, declaration names, statement lists, declaration list, calls, returns, assignments, value specs, function signatures, binary expressions) x each applicable operator of verif/gen/gomutants, plus the deletion of each token; thorough adds, for 5 seeds, every second-order mutant whose first mutation is structural (statement/declaration deletion and duplication, renamed declarations, arities of calls, returns, assignments and signatures) and whose second mutation is any operator. Both tiers also evaluate the program families of verif/gen/gomutants.Grammar, each a small product of alternatives judged by go/types: terminating statements (18 final statements x 18 trailing statements, in a function and in a function literal), := on a name declared as constant / variable / type / parameter / result in the same, an outer or the package scope, constant indexes and slice bounds of arrays, pointers to arrays, slices and strings, duplicate keys of array, slice and map literals (pairs of keys for 12 map types), untyped nil in every operand position, initialisation dependencies (16 shadowing prefixes x 16 reference contexts x 3 declaration forms), duplicate cases of single, nested, sequential and function-literal switches for 11 tag kinds and for type switches, multi-package programs (unnamed types across packages, import declarations), assignability of defined channel types (8 contexts x 8 targets x 11 values), declarations with unbalanced names and values at package and function level, value- and pointer-receiver methods of a native package's types on 33 operand forms x 5 uses, unused variables (6 variable types x 10 declaration forms x 8 positions of the declaration x 20+ ways of mentioning the variable again, read or not, x 4 nestings of the mention), call arity (11 callee kinds: declared, literal, variable, parameter, native function, native methods, method values and expressions, plus builtin append; x 6 parameter shapes x statement/defer/go x every argument list of 0 to params+2 arguments with surplus arguments 1, s, nil or a string, with and without a final ..., and calls with several results as arguments); and importers that fail (7 error flavours x 4 importer shapes x 7 import forms, programs and templates). A case is non-trivial when go/types' verdict is usable (all but mutants that are valid only for a Go version newer than Scriggo's language level); distinct cases are counted by the hash of the mutant text",
		Assumptions: []string{
			"reference = go/parser + go/types of the toolchain that builds the check, GoVersion go1.25, no importer; soft errors (unused variable/import/label) are rejections",
			"Scriggo's supported subset = Go 1.17 language level without generics: a mutant that go/types accepts with GoVersion go1.25 but rejects with go1.17 is outside the subset and skipped",
			"mutants are single-file programs, package main, without imports; the grammar families also use go.mod programs with several packages (go/types with a source importer) and the native package host, described to go/types by the source twin gomutants.HostTwin",
			"a failing importer: from the doc comments (Importer: 'If an error occurs it returns the error'; Build: 'If a build error occurs, it returns a *BuildError') the result must be a *BuildError at the import declaration carrying the importer's message; wrapping the importer's error in addition is allowed, returning it as is is not",
			"valid recursive types are a documented limit of Scriggo and are not generated",
		},
		Spaces: spaces,
		Budget: map[string]time.Duration{"thorough": 30 * time.Minute},
	})
}
