#!/bin/bash
exec /verif/bin/schedcheck.sh C10 ./checks/c10 1 "$@"
