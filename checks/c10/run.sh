#!/bin/bash
# C10: scheduler-based check + free-running -race companion
set -u
cd /verif
. bin/env.sh
ID=C10; PKG=./checks/c10
tier=quick; replay=""
while [ $# -gt 0 ]; do
  case "$1" in
    quick|thorough) tier="$1"; shift;;
    --replay) replay="$2"; shift 2;;
    *) shift;;
  esac
done
mkdir -p .build
if ! go test -c -tags verif -o .build/$ID.test $PKG 2>.build/$ID.buildlog; then
  cat .build/$ID.buildlog >&2
  echo "HARNESS-ERROR: build of $ID against /repo's working tree failed" >&2
  exit 2
fi
if [ -z "$replay" ]; then
  if ! go test -c -race -tags verif -o .build/$ID.race.test $PKG 2>.build/$ID.race.buildlog; then
    cat .build/$ID.race.buildlog >&2
    echo "HARNESS-ERROR: -race build of $ID failed" >&2
    exit 2
  fi
fi
VERIF_TIER=$tier VERIF_REPLAY=$replay exec .build/$ID.test -test.run '^TestVerif$' -test.timeout 0
