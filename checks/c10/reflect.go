package c10

import "reflect"

func reflectTypeOf(p any) reflect.Type { return reflect.TypeOf(p).Elem() }
