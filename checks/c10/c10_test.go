package c10

import (
	"fmt"
	"runtime"
	"strings"
	"sync"
	"testing"

	"verif/kit"
	"verif/sched"

	"github.com/open2b/scriggo"
)

var visibleOps = func() map[int]bool {
	m := map[int]bool{}
	for _, n := range []string{"Load", "LoadFunc", "CallNative", "CallIndirect", "CallMacro", "GetVar", "SetVar", "GetVarAddr", "MethodValue", "Show", "Text", "Print", "Go", "Send", "Receive", "Select", "Close", "Defer", "Recover", "Panic"} {
		m[scriggo.VerifOps[n]] = true
	}
	return m
}()

var inputs = []int{1, 2, 3}

type prepared struct {
	once     sync.Once
	run      func(int) string
	inspect  func() string
	err      error
	expected map[int]string
	// expectedInspect is what inspect returns on a freshly built copy
	expectedInspect string
}

func (p *prepared) prepare(a Artefact) {
	p.once.Do(func() {
		p.run, p.inspect, p.err = a.Build()
		if p.err != nil {
			return
		}
		if _, fi, err := a.Build(); err == nil {
			p.expectedInspect = fi()
		}
		p.expected = map[int]string{}
		for _, in := range inputs {
			fresh, _, err := a.Build() // a freshly built copy, run exactly once
			if err != nil {
				p.err = err
				return
			}
			p.expected[in] = fresh(in)
		}
	})
}

func concurrent(a Artefact, k, bound int) *sched.Scenario {
	p := &prepared{}
	return &sched.Scenario{
		Name:      fmt.Sprintf("concurrent%d-%s", k, a.Name),
		RepeatKey: "run-depends-on-earlier-runs-of-the-same-artefact|artefact=" + a.Name,
		Bound:     bound,
		MaxPoints: 20000,
		Visible:   func(ev *scriggo.VerifEvent) bool { return visibleOps[sched.AbsOp(ev)] },
		Prepare:   func() { p.prepare(a) },
		Setup: func(x *sched.Exec) ([]sched.Driver, func(*sched.Exec) string) {
			res := make([]string, k)
			var ds []sched.Driver
			for i := 0; i < k; i++ {
				i := i
				ds = append(ds, sched.Driver{Name: fmt.Sprintf("run%d", i), Body: func() {
					if p.err != nil {
						res[i] = "build error: " + p.err.Error()
						return
					}
					res[i] = p.run(inputs[i])
				}})
			}
			// one more thread calls the read-only methods of the artefact while the runs go on
			insp := "not run"
			ds = append(ds, sched.Driver{Name: "inspect", Body: func() {
				if p.err == nil {
					insp = p.inspect()
				}
			}})
			return ds, func(*sched.Exec) string {
				if insp != p.expectedInspect {
					return strings.Join(res, " ## ") + " ## inspect differs: " + insp
				}
				return strings.Join(res, " ## ")
			}
		},
		Check: func(x *sched.Exec, obs string) (bool, string, string) {
			if p.err != nil {
				return false, "harness|build-error", p.err.Error()
			}
			var want []string
			for i := 0; i < k; i++ {
				want = append(want, p.expected[inputs[i]])
			}
			w := strings.Join(want, " ## ")
			if obs == w {
				return true, "", ""
			}
			key := "concurrent-run-differs-from-solo-fresh-run"
			if strings.Contains(obs, "host panic") {
				key = "host-panic-in-concurrent-run"
			} else if strings.HasPrefix(obs, "DEADLOCK") || strings.HasPrefix(obs, "LEAK") {
				key = "concurrent-run-blocked"
			}
			return false, key + "|artefact=" + a.Name, fmt.Sprintf("artefact %s, %d concurrent runs with inputs %v\nexpected (solo runs of fresh builds): %q\nobserved:                            %q", a.Name, k, inputs[:k], w, obs)
		},
	}
}

// history: all 64 sequences of 3 operations {run with input 1, 2 (cancellable context), 3 (deadline), inspect} on ONE compiled artefact; every run must equal a fresh build's single run and every inspection a fresh build's inspection.
func history(a Artefact) *sched.Scenario {
	p := &prepared{}
	return &sched.Scenario{
		Name:      "history-" + a.Name,
		RepeatKey: "run-depends-on-earlier-runs-of-the-same-artefact|artefact=" + a.Name,
		Bound:     0,
		MaxPoints: 2000000,
		Visible:   func(ev *scriggo.VerifEvent) bool { return false },
		Prepare:   func() { p.prepare(a) },
		Setup: func(x *sched.Exec) ([]sched.Driver, func(*sched.Exec) string) {
			result := "ok"
			body := func() {
				if p.err != nil {
					result = "build error: " + p.err.Error()
					return
				}
				// operations: run with input 1, 2, 3 and 0 = inspect (Disassemble, UsedVars)
				for h := 0; h < 64; h++ {
					seq := []int{h % 4, h / 4 % 4, h / 16 % 4}
					for pos, in := range seq {
						if in == 0 {
							if got := p.inspect(); got != p.expectedInspect {
								result = fmt.Sprintf("history %v position %d: inspect differs from the inspection of a fresh build:\ngot  %q\nwant %q", seq, pos, got, p.expectedInspect)
								return
							}
							continue
						}
						got := p.run(in)
						if got != p.expected[in] {
							result = fmt.Sprintf("history %v position %d input %d: got %q want %q", seq, pos, in, got, p.expected[in])
							return
						}
					}
				}
			}
			return []sched.Driver{{Name: "seq", Body: body}}, func(*sched.Exec) string { return result }
		},
		Check: func(x *sched.Exec, obs string) (bool, string, string) {
			if obs == "ok" {
				return true, "", ""
			}
			return false, "repeated-run-differs-from-fresh-run|artefact=" + a.Name, obs
		},
	}
}

func TestVerif(t *testing.T) {
	sched.RunCheck(t, &sched.CheckSpec{
		ID:    "C10",
		Level: "model_checking",
		Rule:  "12 compiled artefacts (programs and templates exercising compiled constants, native calls of every shape, package-level initialisation, defer/recover, closures, goroutines, every show context, macros, import/render/extends, Markdown conversion, {%% %%} blocks). (a) 2 (quick) / 3 (thorough) concurrent Runs of ONE artefact with different inputs under the controlled scheduler: all schedules with at most deviation_bound preemptions at instructions that can touch state reachable from the shared artefact or shared host objects (Load, LoadFunc, native/indirect/macro calls, Get/SetVar, MethodValue, Show, Text, Print, defer/recover/panic, channel ops) and at yield points inside the harness' native functions and writer; each run's (output, error, printed text) must equal a single run of a freshly built copy. (b) all 64 sequences of 3 operations over {run input 1 (plain context), run input 2 (cancellable context, never cancelled), run input 3 (deadline context), inspect = Disassemble(3)+Disassemble(-1)+UsedVars / Disassemble(\"main\")} on one artefact; in (a) one more thread inspects the artefact while the runs go on. states = distinct (point, enabled set, step) tuples",
		Assumptions: []string{
			"data races below instruction granularity are left to the separate free-running -race pass (companion; reported in coverage.race_companion), which can find but never prove absence",
			"more than 3 concurrent runs and more preemptions than the bound are not explored",
		},
		Scenarios: func(tier string) []*sched.Scenario {
			k, b := 2, 2
			if tier == "thorough" {
				k = 3
			}
			var scs []*sched.Scenario
			for _, a := range Artefacts() {
				scs = append(scs, concurrent(a, k, b))
				if tier == "thorough" {
					scs = append(scs, concurrent(a, 2, 3))
				}
				scs = append(scs, history(a))
			}
			return scs
		},
		MaxExec: func(tier string) int {
			if tier == "thorough" {
				return 300000
			}
			return 120000
		},
		Extra: sched.RaceCompanion("C10"),
	})
}

// TestRace is the free-running companion: same artefacts, no scheduler, many
// goroutines; meaningful only in the -race build.
func TestRace(t *testing.T) {
	iters := 30
	if kit.Tier(nil) == "thorough" {
		iters = 300
	}
	total := 0
	for _, procs := range []int{1, 2, 4, 16} {
		runtime.GOMAXPROCS(procs)
		for _, a := range Artefacts() {
			p := &prepared{}
			p.prepare(a)
			if p.err != nil {
				t.Fatalf("build %s: %v", a.Name, p.err)
			}
			var wg sync.WaitGroup
			var mu sync.Mutex
			bad := ""
			for g := 0; g < 8; g++ {
				wg.Add(1)
				go func(g int) {
					defer wg.Done()
					for i := 0; i < iters; i++ {
						in := inputs[(g+i)%3]
						if got := p.run(in); got != p.expected[in] {
							mu.Lock()
							bad = fmt.Sprintf("MISMATCH-KEY free-running-concurrent-run-differs|artefact=%s\nMISMATCH artefact %s input %d: got %q want %q", a.Name, a.Name, in, got, p.expected[in])
							mu.Unlock()
							return
						}
					}
				}(g)
			}
			wg.Wait()
			total += 8 * iters
			if bad != "" {
				t.Fatal(bad)
			}
		}
	}
	fmt.Printf("race-companion: %d free-running concurrent runs at GOMAXPROCS 1,2,4,16, no race reported\n", total)
}
