// Package c10: compiled programs and templates run in isolation, repeatedly and concurrently.
package c10

import (
	"bytes"
	"context"
	"fmt"
	"io"
	"strings"
	"sync"
	"time"

	"verif/sched"

	"github.com/open2b/scriggo"
	"github.com/open2b/scriggo/builtin"
	"github.com/open2b/scriggo/native"
)

type ctxKey struct{}

// Counter is a host type with methods, used through method values.
type Counter struct{ n int }

func (c *Counter) Inc(by int) int { sched.YieldHere("Counter.Inc"); c.n += by; return c.n }
func (c *Counter) Get() int       { return c.n }

func input(env native.Env) int {
	sched.YieldHere("In")
	v, _ := env.Context().Value(ctxKey{}).(int)
	return v
}

var hostPkg = native.Packages{"host": native.Package{Name: "host", Declarations: native.Declarations{
	"In":    input,
	"Upper": func(s string) string { sched.YieldHere("Upper"); return strings.ToUpper(s) },
	"Join": func(sep string, parts ...string) string {
		sched.YieldHere("Join")
		return strings.Join(parts, sep)
	},
	"Apply": func(f func(int) int, x int) int {
		sched.YieldHere("Apply")
		r := f(x)
		sched.YieldHere("Apply2")
		return r + f(x+1)
	},
	"NewCounter": func() *Counter { return &Counter{} },
	"Counter":    nativeType[Counter](),
	"Title":      "T-const",
}}}

func nativeType[T any]() any {
	var p *T
	return reflectTypeOf(p)
}

// Artefact is a compiled program or template together with a way to run it on an input.
type Artefact struct {
	Name string
	// Build compiles the artefact. run executes it once with input in (input 2
	// runs with a cancellable context that is cancelled only after the run,
	// input 3 with a far deadline); inspect calls the read-only methods of the
	// artefact (Disassemble with a small text limit, UsedVars).
	Build func() (run func(in int) string, inspect func() string, err error)
}

func runProgram(p *scriggo.Program, in int) string {
	var mu sync.Mutex
	var out strings.Builder
	status := ""
	func() {
		defer func() {
			if r := recover(); r != nil {
				status = fmt.Sprintf("host panic: %v", r)
			}
		}()
		ctx, cancel := runContext(in)
		defer cancel()
		err := p.Run(&scriggo.RunOptions{
			Context: ctx,
			Print: func(v any) {
				mu.Lock()
				fmt.Fprint(&out, v)
				mu.Unlock()
			},
		})
		status = fmt.Sprintf("err=%v", err)
	}()
	mu.Lock()
	defer mu.Unlock()
	return out.String() + "|" + status
}

// runContext returns the context of a run with input in: the input value is
// always attached; input 2 adds cancellation (never triggered during the run),
// input 3 a deadline one hour away.
func runContext(in int) (context.Context, context.CancelFunc) {
	ctx := context.WithValue(context.Background(), ctxKey{}, in)
	switch in {
	case 2:
		return context.WithCancel(ctx)
	case 3:
		return context.WithTimeout(ctx, time.Hour)
	}
	return ctx, func() {}
}

func program(name, src string) Artefact {
	return Artefact{Name: name, Build: func() (func(int) string, func() string, error) {
		p, err := scriggo.Build(scriggo.Files{"main.go": []byte(src)}, &scriggo.BuildOptions{AllowGoStmt: true, Packages: hostPkg})
		if err != nil {
			return nil, nil, err
		}
		inspect := func() (s string) {
			defer func() {
				if r := recover(); r != nil {
					s = fmt.Sprintf("host panic: %v", r)
				}
			}()
			asm, err := p.Disassemble("main")
			return fmt.Sprintf("%s|err=%v", asm, err)
		}
		return func(in int) string { return runProgram(p, in) }, inspect, nil
	}}
}

var inputsText = []string{"<a&b>", "x\"y'z", "plain"}

type syncWriter struct {
	mu sync.Mutex
	b  bytes.Buffer
}

func (w *syncWriter) Write(p []byte) (int, error) {
	sched.YieldHere("Write")
	w.mu.Lock()
	defer w.mu.Unlock()
	return w.b.Write(p)
}

func mdConverter(src []byte, out io.Writer) error {
	sched.YieldHere("md")
	_, err := out.Write([]byte("<md>" + strings.ToUpper(string(src)) + "</md>"))
	return err
}

func template(name string, files map[string]string) Artefact {
	return Artefact{Name: name, Build: func() (func(int) string, func() string, error) {
		fsys := scriggo.Files{}
		for k, v := range files {
			fsys[k] = []byte(v)
		}
		var shared = 1000 // a predefined variable given by pointer: read-only in the templates
		opts := &scriggo.BuildOptions{
			Packages:          hostPkg,
			MarkdownConverter: mdConverter,
			Globals: native.Declarations{
				"v":      (*string)(nil),
				"n":      (*int)(nil),
				"shared": &shared,
				"input":  input,
				// the library's own builtins (package builtin), as an embedder declares them
				"regexp": builtin.RegExp, "sprintf": builtin.Sprintf, "replace": builtin.Replace, "toUpper": builtin.ToUpper,
				"md5": builtin.Md5, "sha1": builtin.Sha1, "base64": builtin.Base64, "join": builtin.Join, "split": builtin.Split,
				"capitalize": builtin.Capitalize, "abbreviate": builtin.Abbreviate, "htmlEscape": builtin.HtmlEscape,
				"sort": builtin.Sort, "reverse": builtin.Reverse,
				"upper": func(s string) string { sched.YieldHere("upper"); return strings.ToUpper(s) },
				"list": func(n int) []int {
					r := make([]int, n)
					for i := range r {
						r[i] = i * n
					}
					return r
				},
			},
		}
		t, err := scriggo.BuildTemplate(fsys, "index.html", opts)
		if err != nil {
			return nil, nil, err
		}
		inspect := func() (s string) {
			defer func() {
				if r := recover(); r != nil {
					s = fmt.Sprintf("host panic: %v", r)
				}
			}()
			return fmt.Sprintf("%s|%s|%v", t.Disassemble(3), t.Disassemble(-1), t.UsedVars())
		}
		return func(in int) string {
			w := &syncWriter{}
			var pmu sync.Mutex
			var printed strings.Builder
			status := ""
			func() {
				defer func() {
					if r := recover(); r != nil {
						status = fmt.Sprintf("host panic: %v", r)
					}
				}()
				n := in
				vars := map[string]any{"v": inputsText[in%len(inputsText)], "n": &n}
				ctx, cancel := runContext(in)
				defer cancel()
				err := t.Run(w, vars, &scriggo.RunOptions{
					Context: ctx,
					Print: func(v any) {
						pmu.Lock()
						fmt.Fprint(&printed, v)
						pmu.Unlock()
					},
				})
				status = fmt.Sprintf("err=%v n=%d", err, n)
			}()
			w.mu.Lock()
			defer w.mu.Unlock()
			return w.b.String() + "|" + printed.String() + "|" + status
		}, inspect, nil
	}}
}

// Artefacts is the list of compiled artefacts under test.
func Artefacts() []Artefact {
	return []Artefact{
		program("consts", `package main
import "host"
type P struct{ X, Y int; S string }
var table = []string{"zero", "one", "two", "three"}
func main() {
	in := host.In()
	p := P{X: 1 << 40, Y: in, S: "s"}
	m := map[string]float64{"a": 1.5, "b": 2.25e10}
	a := [3]int{7, 8, 9}
	println(table[in%4], p.X+int(m["a"]*2), a[in%3], p.S+table[(in+1)%4], 123456789012345678, 3.75)
	q := &P{S: "ptr"}
	q.Y += in * 3
	println(q.Y, len(table), m["b"] > 1e9)
}`),
		program("natives", `package main
import "host"
func main() {
	in := host.In()
	s := host.Upper("ab")
	println(host.Join("-", s, "c", host.Title))
	f := func(x int) int { return x*in + 1 }
	println(host.Apply(f, 2))
	c := host.NewCounter()
	inc := c.Inc
	inc(in)
	inc(2)
	println(c.Get())
	up := host.Upper
	println(up("q"))
}`),
		program("pkgvars", `package main
import "host"
var base = host.In() * 2
var memo = map[int]int{}
var log []string
func fib(n int) int {
	if n < 2 { return n }
	if v, ok := memo[n]; ok { return v }
	v := fib(n-1) + fib(n-2)
	memo[n] = v
	log = append(log, "f")
	return v
}
func main() {
	println(base, len(memo), len(log))
	println(fib(6 + base%3))
	base++
	println(base, len(memo), len(log))
}`),
		program("defer-recover", `package main
import "host"
func try(n int) (r int) {
	defer func() {
		if e := recover(); e != nil {
			r = -n
		}
	}()
	a := []int{1, 2, 3}
	return a[n]
}
func main() {
	in := host.In()
	for i := 0; i < 3; i++ {
		println(try(i + in))
	}
	var fs []func() int
	for i := 0; i < 2; i++ {
		j := i
		fs = append(fs, func() int { return j + in })
	}
	println(fs[0](), fs[1]())
}`),
		program("funcvalues", `package main
import "host"
var total int
var trace []string
func add(n int) { total += n }
func done() { trace = append(trace, "done") }
func twice(x int) int { total += x; return x * 2 }
func each(xs []int, f func(int)) {
	for _, x := range xs {
		f(x)
	}
}
func work(in int) {
	defer done()
	trace = append(trace, "work")
	each([]int{in, 2, 3}, add)
}
func main() {
	in := host.In()
	work(in)
	f := twice
	println(host.Apply(f, in))
	println("total:", total, "trace:", len(trace))
}`),
		program("goroutine", `package main
import "host"
func main() {
	in := host.In()
	c := make(chan int)
	go func(k int) { c <- k * 2 }(in)
	println(<-c)
}`),
		template("show-contexts", map[string]string{"index.html": `<p title="{{ v }}">{{ v }}</p><a href="/p/{{ v }}?q={{ v }}">x</a><script>var s = {{ v }}; var n = {{ n }};</script><style>a{content:"{{ v }}"}</style>{{ shared }}`}),
		template("macros", map[string]string{
			"index.html": `{% import "m.html" %}{% macro Local(s string) %}[{{ s }}:{{ n }}]{% end %}{{ Local(v) }}{{ Bold("z") }}{% n = n + 1 %}{{ Local("k") }}{% var r = Str(n) %}{{ r }}{{ render "p.html" }}`,
			"m.html":     `{% macro Bold(s string) %}<b>{{ s }}{{ v }}</b>{% end %}{% macro Str(i int) string %}#{{ i }}{% end %}`,
			"p.html":     `<i>{{ v }}{{ n }}</i>`,
		}),
		// package builtin called with DIFFERENT arguments by different runs (state the
		// library keeps between calls would be shared by every run of every artefact)
		template("builtins", map[string]string{"index.html": `{% if input() % 2 == 0 %}{{ regexp("a+").ReplaceAll(v + "aaa", "<A>") }}{% else %}{{ regexp("[bp]+").ReplaceAll(v + "bbb", "<B>") }}{% end %}|{{ sprintf("%05d", n) }}|{{ md5(v) }}|{{ join(split(v, "a"), "-") }}`}),
		template("native-env", map[string]string{"index.html": `{{ input() }} {{ upper(v) }} {% for i, x := range list(input() + 1) %}{{ i }}={{ x }};{% end %}{% n = input() * 10 %}{{ n }}`}),
		template("markdown", map[string]string{
			"index.html": `<div>{{ render "c.md" }}</div>{{ v }}`,
			"c.md":       "# t {{ n }}\n\n{{ v }}\n",
		}),
		template("block-closure", map[string]string{"index.html": `{%%
	total := 0
	add := func(k int) { total += k }
	for i := 0; i < 3; i++ {
		add(i + n)
	}
	defer func() { recover() }()
%%}{{ total }} {{ v }}{% if n > 0 %}{% var s = []string{"a","b"} %}{{ s[n%2] }}{% end %}`}),
		template("extends", map[string]string{
			"index.html":  `{% extends "layout.html" %}{% macro Body %}<main>{{ v }} {{ n }}</main>{% end %}{% macro Title %}T{{ n }}{% end %}`,
			"layout.html": `<title>{{ Title() }}</title>{{ Body() }}{{ shared }}`,
		}),
	}
}
