// Space range-assign-global of C17: a declared global is the iteration
// variable of a range statement in its assignment form (for g = range …, not
// :=).
//
//	range form      for g = range X | for g, _ = range X | for _, g = range X |
//	                for h, g = range X (both globals) | for l, g = range X and
//	                for g, l = range X (l a local variable)
//	ranged kind     slice, array, string, map (one entry), channel (buffered,
//	                closed), empty slice (the loop assigns nothing)
//	first mention   the function holding the range statement mentions 0, 1 or 2
//	                other globals before it; independently, when that function
//	                is a macro, the top level mentions 0 or 2 other globals
//	                before calling it
//	range site      top level | macro of the main file | macro of an imported file
//	reference site  top level | macro of the main file | macro of an imported file
//	vars            absent (nil) | values | pointers
//
// Oracle: one cell per global. The loop body prints the iteration variables
// at every iteration; after the loop the reference site prints g (and h), then
// the other globals x and z: g and h hold the last value the range assigned
// (or the supplied / zero value when nothing was assigned), x and z are
// untouched; with pointers the caller's variables hold the same values.
package main

import (
	"fmt"
	"strings"

	"verif/kit"

	"github.com/open2b/scriggo"
	"github.com/open2b/scriggo/native"
)

type raForm struct {
	name   string
	clause string // G, H, L stand for the variables
	vars   int    // number of iteration variables
	gIsVal bool   // g receives the value (second position)
	hKey   bool   // the global h receives the key
	local  string // "" | "key" | "value": the local variable l takes that position
}

var raForms = []raForm{
	{name: "for g = range X", clause: "g", vars: 1},
	{name: "for g, _ = range X", clause: "g, _", vars: 2},
	{name: "for _, g = range X", clause: "_, g", vars: 2, gIsVal: true},
	{name: "for h, g = range X (two globals)", clause: "h, g", vars: 2, gIsVal: true, hKey: true},
	{name: "for l, g = range X (l local)", clause: "l, g", vars: 2, gIsVal: true, local: "key"},
	{name: "for g, l = range X (l local)", clause: "g, l", vars: 2, local: "value"},
}

type raKind struct {
	name    string
	setup   string // statements before the loop
	expr    string
	maxVars int
	keys    []int
	vals    []int
	runeVal bool // the values are runes
	oneVar  string
}

var raKinds = []raKind{
	{name: "slice", expr: "[]int{4, 7}", maxVars: 2, keys: []int{0, 1}, vals: []int{4, 7}},
	{name: "array", expr: "[2]int{4, 7}", maxVars: 2, keys: []int{0, 1}, vals: []int{4, 7}},
	{name: "string", expr: `"ab"`, maxVars: 2, keys: []int{0, 1}, vals: []int{97, 98}, runeVal: true},
	{name: "map", expr: "map[int]int{3: 7}", maxVars: 2, keys: []int{3}, vals: []int{7}},
	// with one iteration variable a channel yields its elements
	{name: "channel", setup: "{% ch := make(chan int, 2) %}{% ch <- 4 %}{% ch <- 7 %}{% close(ch) %}", expr: "ch", maxVars: 1, keys: []int{4, 7}},
	{name: "empty-slice", expr: "[]int{}", maxVars: 2},
}

var raSites = []string{"top-level", "macro", "imported-macro"}

const (
	raG = 50 // supplied values
	raH = 60
	raX = 2
	raZ = 3
)

type raCase struct {
	form, kind int
	before     int // other globals mentioned before the range statement in its function: 0, 1, 2
	topBefore  int // other globals mentioned at the top level before the macro holding the range is called: 0, 2
	rangeSite  int
	refSite    int
	mode       int // index into modes: absent, value, pointer
}

func (c raCase) exists() bool {
	f, k := raForms[c.form], raKinds[c.kind]
	if f.vars > k.maxVars {
		return false
	}
	if c.topBefore != 0 && c.rangeSite == 0 {
		return false
	}
	return true
}

type raGen struct {
	files                  map[string]string
	expected               string
	loopOut                string
	finalG, finalH         int
	initG, initH, valX, vZ int
	gRune                  bool
}

func (c raCase) generate() raGen {
	f, k := raForms[c.form], raKinds[c.kind]
	g := raGen{files: map[string]string{}}
	g.initG, g.initH, g.valX, g.vZ = raG, raH, raX, raZ
	if modes[c.mode] == "absent" {
		g.initG, g.initH, g.valX, g.vZ = 0, 0, 0, 0
	}
	g.gRune = k.runeVal && f.gIsVal
	// the loop
	var loop strings.Builder
	loop.WriteString(k.setup)
	if f.local != "" {
		typ := "int"
		if f.local == "value" && k.runeVal {
			typ = "int32"
		}
		loop.WriteString("{% var l " + typ + " %}")
	}
	body := "<{{ g }}>"
	if f.hKey {
		body = "<{{ h }}:{{ g }}>"
	}
	loop.WriteString("{% for " + f.clause + " = range " + k.expr + " %}" + body + "{% end %}")
	// what it prints and leaves
	g.finalG, g.finalH = g.initG, g.initH
	var lo strings.Builder
	for i := range k.keys {
		gv := k.keys[i]
		if f.gIsVal {
			gv = k.vals[i]
		}
		g.finalG = gv
		if f.hKey {
			g.finalH = k.keys[i]
			fmt.Fprintf(&lo, "<%d:%d>", k.keys[i], gv)
		} else {
			fmt.Fprintf(&lo, "<%d>", gv)
		}
	}
	g.loopOut = lo.String()
	prefix, prefixOut := "", ""
	switch c.before {
	case 1:
		prefix, prefixOut = "{{ x }}", fmt.Sprint(g.valX)
	case 2:
		prefix, prefixOut = "{{ x }}{{ z }}", fmt.Sprint(g.valX, g.vZ)
	}
	prefixOut = strings.ReplaceAll(prefixOut, " ", "")
	top, topOut := "", ""
	if c.topBefore == 2 {
		top, topOut = "{{ z }}{{ x }}", fmt.Sprint(g.vZ)+fmt.Sprint(g.valX)
	}
	ranger := prefix + "(" + loop.String() + ")"
	reader := "[{{ g }}|{{ x }}|{{ z }}]"
	readerOut := fmt.Sprintf("[%d|%d|%d]", g.finalG, g.valX, g.vZ)
	if f.hKey {
		reader = "[{{ g }}|{{ h }}|{{ x }}|{{ z }}]"
		readerOut = fmt.Sprintf("[%d|%d|%d|%d]", g.finalG, g.finalH, g.valX, g.vZ)
	}
	var imp, decls, seq strings.Builder
	switch raSites[c.rangeSite] {
	case "top-level":
		seq.WriteString(ranger)
	case "macro":
		decls.WriteString("{% macro RM %}" + ranger + "{% end %}")
		seq.WriteString(top + "{{ RM() }}")
	case "imported-macro":
		imp.WriteString("{% macro IRM %}" + ranger + "{% end %}")
		seq.WriteString(top + "{{ IRM() }}")
	}
	switch raSites[c.refSite] {
	case "top-level":
		seq.WriteString(reader)
	case "macro":
		decls.WriteString("{% macro MR %}" + reader + "{% end %}")
		seq.WriteString("{{ MR() }}")
	case "imported-macro":
		imp.WriteString("{% macro IR %}" + reader + "{% end %}")
		seq.WriteString("{{ IR() }}")
	}
	importStmt := ""
	if imp.Len() > 0 {
		importStmt = `{% import "imp.html" %}`
		g.files["imp.html"] = imp.String()
	}
	g.files["index.html"] = importStmt + decls.String() + seq.String()
	g.expected = topOut + prefixOut + "(" + g.loopOut + ")" + readerOut
	return g
}

func (c raCase) describe() string {
	g := c.generate()
	return fmt.Sprintf("range form %s over %s; %d other global(s) mentioned before it in its function, %d at the top level before the call; range statement at %s, references after the loop at %s; vars %s (g = %d, h = %d, x = %d, z = %d when supplied)\nfiles:\n%s",
		raForms[c.form].name, raKinds[c.kind].name, c.before, c.topBefore, raSites[c.rangeSite], raSites[c.refSite], modes[c.mode], raG, raH, raX, raZ, showFiles(g.files))
}

func (c raCase) eval() kit.Outcome {
	if !c.exists() {
		return kit.Outcome{OK: true, Class: "range-assign: combination does not exist"}
	}
	g := c.generate()
	f := raForms[c.form]
	o := kit.Outcome{OK: true, Nontrivial: true, Ops: 2, Class: "range-assign: " + raKinds[c.kind].name + ", vars " + modes[c.mode]}
	fail := func(sym, what string) kit.Outcome {
		o.OK = false
		o.Key = "range-assign-global|" + sym
		o.Class = "range-assign: differs from the one-cell model"
		o.Detail = c.describe() + what
		return o
	}
	decl := native.Declarations{"g": (*int)(nil), "h": (*int)(nil), "x": (*int)(nil), "z": (*int)(nil), "w": (*int)(nil)}
	if g.gRune {
		decl["g"] = (*int32)(nil)
	}
	t, err, p := safeBuild(g.files, &scriggo.BuildOptions{Globals: decl})
	if p != "" {
		return fail("BuildTemplate-panics|"+kit.NormMsg(p), "BuildTemplate panicked: "+p)
	}
	if err != nil {
		return fail("does-not-build|"+kit.NormMsg(err.Error()), "BuildTemplate: "+err.Error()+" (every generated template is valid)")
	}
	gi, gr, h, x, z := raG, int32(raG), raH, raX, raZ
	var vars map[string]any
	switch modes[c.mode] {
	case "value":
		vars = map[string]any{"g": gi, "x": x, "z": z}
		if g.gRune {
			vars["g"] = gr
		}
		if f.hKey {
			vars["h"] = h
		}
	case "pointer":
		vars = map[string]any{"g": &gi, "x": &x, "z": &z}
		if g.gRune {
			vars["g"] = &gr
		}
		if f.hKey {
			vars["h"] = &h
		}
	}
	out, rerr, p := safeRun(t, vars)
	if p != "" {
		return fail("Run-panics|"+kit.NormMsg(p), "Run panicked: "+p)
	}
	if rerr != nil {
		return fail("run-error|"+kit.NormMsg(rerr.Error()), "Run: "+rerr.Error())
	}
	vm := "value-or-absent"
	if modes[c.mode] == "pointer" {
		vm = "pointer"
	}
	if out != g.expected {
		what := fmt.Sprintf("expected output %q ((…) the iteration variables at each iteration, [g|x|z] or [g|h|x|z] after the loop)\nobserved output %q", g.expected, out)
		// which part differs first: the loop, g / h after the loop, the other globals
		i1, i2, i3 := strings.IndexByte(out, '('), strings.IndexByte(out, ')'), strings.IndexByte(out, '[')
		if i1 < 0 || i2 < i1 || i3 != i2+1 || !strings.HasSuffix(out, "]") {
			return fail("output-malformed", what)
		}
		e1 := strings.IndexByte(g.expected, '(')
		if out[:i1] != g.expected[:e1] {
			return fail("other-global-read-before-the-loop-differs", what)
		}
		if out[i1+1:i2] != g.loopOut {
			return fail("iteration-variable-inside-the-loop-differs", what)
		}
		fields := strings.Split(out[i3+1:len(out)-1], "|")
		n := 3
		if f.hKey {
			n = 4
		}
		if len(fields) != n {
			return fail("output-malformed", what)
		}
		classify := func(got string, final, init int) string {
			switch {
			case got == fmt.Sprint(final):
				return ""
			case got == fmt.Sprint(init):
				return "value-before-the-loop"
			case got == "0":
				return "zero-value"
			}
			return "other"
		}
		where := "different-files"
		if (c.rangeSite == 2) == (c.refSite == 2) {
			where = "the-same-file"
		}
		if obs := classify(fields[0], g.finalG, g.initG); obs != "" {
			return fail(fmt.Sprintf("value-after-the-loop-is-not-the-last-assigned|observed=%s|loop-and-reader-in=%s|vars=%s", obs, where, vm), what)
		}
		if f.hKey {
			if obs := classify(fields[1], g.finalH, g.initH); obs != "" {
				return fail(fmt.Sprintf("value-after-the-loop-is-not-the-last-assigned|observed=%s|loop-and-reader-in=%s|vars=%s", obs, where, vm), what)
			}
		}
		return fail("another-global-changed-by-the-loop", what)
	}
	switch modes[c.mode] {
	case "pointer":
		gotG := gi
		if g.gRune {
			gotG = int(gr)
		}
		wantH := raH
		if f.hKey {
			wantH = g.finalH
		}
		if gotG != g.finalG || h != wantH {
			return fail("caller-variable-after-run|vars=pointer|final-value-not-the-last-assigned",
				fmt.Sprintf("output %q as expected\ncaller's g = %d, h = %d after Run; expected g = %d, h = %d", out, gotG, h, g.finalG, wantH))
		}
		if x != raX || z != raZ {
			return fail("caller-variable-after-run|vars=pointer|another-global-changed",
				fmt.Sprintf("output %q as expected\ncaller's x = %d, z = %d after Run; expected %d, %d", out, x, z, raX, raZ))
		}
	case "value":
		if vars["x"] != raX || vars["z"] != raZ || (!g.gRune && vars["g"] != raG) || (g.gRune && vars["g"] != int32(raG)) {
			return fail("caller-copy-modified|vars=value", fmt.Sprintf("vars after Run: %v", vars))
		}
	}
	// UsedVars: exactly the referenced globals, each once
	want := map[string]int{"g": 1, "x": 1, "z": 1}
	if f.hKey {
		want["h"] = 1
	}
	got := map[string]int{}
	for _, n := range t.UsedVars() {
		got[n]++
	}
	for _, n := range []string{"g", "h", "w", "x", "z"} {
		if got[n] != want[n] {
			sym := "usedvars|misses-a-referenced-global"
			if got[n] > want[n] {
				sym = "usedvars|lists-a-name-too-often"
			}
			return fail(sym, fmt.Sprintf("output %q as expected\nUsedVars() = %v, expected g, x, z (and h when it is an iteration variable) once each", out, t.UsedVars()))
		}
	}
	if len(got) != len(want) {
		return fail("usedvars|lists-an-unreferenced-name", fmt.Sprintf("UsedVars() = %v", t.UsedVars()))
	}
	return o
}

func rangeAssignSpace() kit.Space {
	radices := []uint64{uint64(len(modes)), uint64(len(raSites)), uint64(len(raSites)), 2, 3, uint64(len(raKinds)), uint64(len(raForms))}
	mk := func(i uint64) raCase {
		d := kit.Mixed(i, radices...)
		return raCase{mode: int(d[0]), refSite: int(d[1]), rangeSite: int(d[2]), topBefore: 2 * int(d[3]), before: int(d[4]), kind: int(d[5]), form: int(d[6])}
	}
	return kit.Space{
		Name: "range-assign-global",
		Size: kit.Product(radices...),
		Eval: func(i uint64) kit.Outcome { return mk(i).eval() },
		Describe: func(i uint64) any {
			c := mk(i)
			g := c.generate()
			return map[string]any{"range_form": raForms[c.form].name, "ranged_kind": raKinds[c.kind].name, "other_globals_mentioned_before_in_the_function": c.before,
				"other_globals_mentioned_before_at_top_level": c.topBefore, "range_site": raSites[c.rangeSite], "reference_site": raSites[c.refSite],
				"vars": modes[c.mode], "files": g.files, "expected_output": g.expected}
		},
	}
}
