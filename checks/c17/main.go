// C17 — template variables passed to Run are the values every reference sees.
//
// A global v is declared without a value (native.Declarations{"v": (*T)(nil)})
// and every sequence of references to it — reads and writes at the top level,
// in a macro, in a macro called by a macro, in an imported macro, in a rendered
// file, through a function literal nested in a macro (with and without an
// earlier reference in the macro body), through a function literal in a
// {%% %%} block at the top level, and (extends scenario) in an extended layout
// calling the child's macros — is built and run with vars absent / a value / a
// pointer, optionally next to an imported file that declares its own,
// unrelated package-level variable with the same name v.
//
// Oracle: one memory cell for the global (and a second, independent cell for
// the imported file's own v). Reads print the supplied value (or the zero
// value) and then the latest write in execution order; with a pointer the
// caller's variable holds the final value, with a value the caller's copy is
// untouched; UsedVars lists the global exactly once (and never the unused
// global w).
package main

import (
	"bytes"
	"fmt"
	"reflect"
	"sort"
	"strings"

	"verif/kit"

	"github.com/open2b/scriggo"
	"github.com/open2b/scriggo/native"
)

// S is the small struct type of the struct-kind variables.
type S struct{ A int }

// ---- reference kinds ----

const (
	siteTop = iota // top level of the executing file (the layout, in the extends scenario)
	siteMacro
	siteNested
	siteImported
	siteRendered
	siteLitInMacro      // function literal in a {%% %%} block of a macro; the macro body itself has no reference
	siteLitAfterBodyRef // the same, but the macro body references the global before the literal does
	siteLitTop          // function literal in a {%% %%} block at the top level
	siteShadow          // NOT the global: the package-level variable v of an imported file
	nSites
)

const nOriginalSites = siteRendered + 1

var siteName = [...]string{"top-level", "macro", "nested-macro", "imported-macro", "rendered-file",
	"func-literal-in-macro", "func-literal-in-macro-after-body-reference", "func-literal-at-top-level", "same-name-variable-of-imported-file"}

type ref struct {
	site  int
	write bool
}

func (r ref) String() string {
	if r.write {
		return "write@" + siteName[r.site]
	}
	return "read@" + siteName[r.site]
}

var refKinds = func() []ref {
	var k []ref
	for s := 0; s < nSites; s++ {
		k = append(k, ref{s, false}, ref{s, true})
	}
	return k
}()

func refKindNames(n int) []string {
	names := make([]string, n)
	for i := range names {
		names[i] = refKinds[i].String()
	}
	return names
}

// ---- variable kinds ----

type varKind struct {
	name     string
	decl     any                                         // typed nil pointer for Declarations
	readTpl  string                                      // template source printing the variable
	readFn   string                                      // function literal returning what a read prints
	lit      func(k int) string                          // source of the value written at position k
	printed  func(k int) string                          // what a read prints for it
	zero     string                                      // print of the zero value
	supplied string                                      // print of the supplied value
	mkValue  func() (val any, ptr any, deref func() any) // fresh supplied value; pointer to a fresh variable holding it
	final    func(k int) any                             // Go value written at position k
}

func intLit(k int) string { return fmt.Sprint(10 + k) }

var varKinds = []varKind{
	{
		name: "int", decl: (*int)(nil), readTpl: "{{ v }}", readFn: "func() int { return v }",
		lit: intLit, printed: intLit, zero: "0", supplied: "5",
		mkValue: func() (any, any, func() any) { x := 5; return 5, &x, func() any { return x } },
		final:   func(k int) any { return 10 + k },
	},
	{
		name: "string", decl: (*string)(nil), readTpl: "{{ v }}", readFn: "func() string { return v }",
		lit:     func(k int) string { return fmt.Sprintf("%q", fmt.Sprintf("w%d", k)) },
		printed: func(k int) string { return fmt.Sprintf("w%d", k) },
		zero:    "", supplied: "s5",
		mkValue: func() (any, any, func() any) { x := "s5"; return "s5", &x, func() any { return x } },
		final:   func(k int) any { return fmt.Sprintf("w%d", k) },
	},
	{
		name: "struct", decl: (*S)(nil), readTpl: "{{ v.A }}", readFn: "func() int { return v.A }",
		lit:     func(k int) string { return fmt.Sprintf("S{A: %d}", 10+k) },
		printed: intLit, zero: "0", supplied: "5",
		mkValue: func() (any, any, func() any) { x := S{5}; return S{5}, &x, func() any { return x } },
		final:   func(k int) any { return S{10 + k} },
	},
	{
		// a global of interface type
		name: "interface", decl: (*any)(nil), readTpl: "{{ v }}", readFn: "func() any { return v }",
		lit: intLit, printed: intLit, zero: "", supplied: "5",
		mkValue: func() (any, any, func() any) { var x any = 5; return 5, &x, func() any { return x } },
		final:   func(k int) any { return 10 + k },
	},
	{
		// a global of pointer-to-struct type; a nil pointer prints -1
		name: "pointer-to-struct", decl: (**S)(nil),
		readTpl: "{% if v == nil %}-1{% else %}{{ v.A }}{% end %}",
		readFn:  "func() int {\n  if v == nil {\n   return -1\n  }\n  return v.A\n }",
		lit:     func(k int) string { return fmt.Sprintf("&S{A: %d}", 10+k) },
		printed: intLit, zero: "-1", supplied: "5",
		mkValue: func() (any, any, func() any) { x := &S{5}; return &S{5}, &x, func() any { return x } },
		final:   func(k int) any { return &S{10 + k} },
	},
}

var modes = []string{"absent", "value", "pointer"}

// scenarios: where the macros are declared / whether the sequence runs in an extended layout
var scenarios = []string{"macros-declared-first", "macros-declared-just-before-first-call", "sequence-in-extended-layout"}

// shadow: an imported file b.html declares its own package-level variable
// named v (an int, initially 10) with macros reading and writing it
var shadows = []string{"no-same-name-variable", "file-with-same-name-variable-imported-first", "file-with-same-name-variable-imported-last"}

func shadowLit(k int) string { return fmt.Sprint(20 + k) }

// ---- template generation ----

type tcase struct {
	seq    []ref
	scen   int
	kind   varKind
	mode   string
	shadow int
}

type generated struct {
	files    map[string]string
	fileOf   []string // file holding reference k
	expected string
	cellSrc  []int // for each read of the sequence, in order: -1 initial value, else index of the write observed
}

// applicable reports whether the case is a member of the space: references to
// the imported file's own variable need that file.
func (c tcase) applicable() bool {
	if c.shadow != 0 {
		return true
	}
	for _, r := range c.seq {
		if r.site == siteShadow {
			return false
		}
	}
	return true
}

func (c tcase) generate() generated {
	vk := c.kind
	read := "[" + vk.readTpl + "]"
	write := func(k int) string { return "{% v = " + vk.lit(k) + " %}" }
	g := generated{files: map[string]string{}}
	ext := c.scen == 2
	late := c.scen == 1
	bodyFile, macroFile := "index.html", "index.html"
	if ext {
		bodyFile = "layout.html"
	}
	declared := map[string]bool{}
	var decls strings.Builder  // all macro declarations, in order of need
	var body strings.Builder   // the executing sequence
	var imp strings.Builder    // imported file with macros referring to the global
	var shadow strings.Builder // imported file with its own v
	needImport := false
	declare := func(dst *strings.Builder, name, src string) {
		if !declared[name] {
			declared[name] = true
			fmt.Fprintf(dst, "{%% macro %s %%}%s{%% end %%}", name, src)
		}
	}
	shadow.WriteString("{% var v = 10 %}")
	declare(&shadow, "BR", "<{{ v }}>")
	for i, r := range c.seq {
		k := i + 1
		// where do the macro declarations of this reference go?
		dst := &decls
		if late && !ext {
			dst = &body
		}
		var call, file string
		switch r.site {
		case siteTop:
			file = bodyFile
			if r.write {
				call = write(k)
			} else {
				call = read
			}
		case siteMacro:
			file = macroFile
			if r.write {
				n := fmt.Sprintf("MW%d", k)
				declare(dst, n, write(k))
				call = "{{ " + n + "() }}"
			} else {
				declare(dst, "MR", read)
				call = "{{ MR() }}"
			}
		case siteNested:
			file = macroFile
			if r.write {
				in, out := fmt.Sprintf("MW%d", k), fmt.Sprintf("NW%d", k)
				declare(dst, in, write(k))
				declare(dst, out, "{{ "+in+"() }}")
				call = "{{ " + out + "() }}"
			} else {
				declare(dst, "MR", read)
				declare(dst, "NR", "{{ MR() }}")
				call = "{{ NR() }}"
			}
		case siteImported:
			file = "imp.html"
			needImport = true
			if r.write {
				n := fmt.Sprintf("IW%d", k)
				declare(&imp, n, write(k))
				call = "{{ " + n + "() }}"
			} else {
				declare(&imp, "IR", read)
				call = "{{ IR() }}"
			}
		case siteRendered:
			if r.write {
				file = fmt.Sprintf("rw%d.html", k)
				g.files[file] = write(k)
			} else {
				file = "rr.html"
				g.files[file] = read
			}
			call = `{{ render "` + file + `" }}`
		case siteLitInMacro, siteLitAfterBodyRef:
			file = macroFile
			prefix, bodyRef := "F", ""
			if r.site == siteLitAfterBodyRef {
				prefix, bodyRef = "G", " _ = v\n"
			}
			if r.write {
				n := fmt.Sprintf("%sW%d", prefix, k)
				declare(dst, n, "{%%\n"+bodyRef+" f := func() { v = "+vk.lit(k)+" }\n f()\n%%}")
				call = "{{ " + n + "() }}"
			} else {
				n := prefix + "R"
				declare(dst, n, "{%%\n"+bodyRef+" f := "+vk.readFn+"\n%%}[{{ f() }}]")
				call = "{{ " + n + "() }}"
			}
		case siteLitTop:
			file = bodyFile
			if r.write {
				call = fmt.Sprintf("{%%%%\n t%d := func() { v = %s }\n t%d()\n%%%%}", k, vk.lit(k), k)
			} else {
				call = fmt.Sprintf("{%%%%\n t%d := %s\n%%%%}[{{ t%d() }}]", k, vk.readFn, k)
			}
		case siteShadow:
			file = "b.html"
			if r.write {
				n := fmt.Sprintf("BW%d", k)
				declare(&shadow, n, "{% v = "+shadowLit(k)+" %}")
				call = "{{ " + n + "() }}"
			} else {
				call = "{{ BR() }}"
			}
		}
		g.fileOf = append(g.fileOf, file)
		body.WriteString(call)
	}
	importStmt := ""
	if needImport {
		importStmt = `{% import "imp.html" %}`
		g.files["imp.html"] = imp.String()
	}
	switch c.shadow {
	case 1:
		importStmt = `{% import "b.html" %}` + importStmt
	case 2:
		importStmt += `{% import "b.html" %}`
	}
	if c.shadow != 0 {
		g.files["b.html"] = shadow.String()
	}
	if ext {
		g.files["index.html"] = `{% extends "layout.html" %}` + decls.String()
		g.files["layout.html"] = importStmt + body.String()
	} else {
		g.files["index.html"] = importStmt + decls.String() + body.String()
	}
	// the model: one cell for the global, one for the imported file's own v
	cell, cell2 := -1, -1
	var exp strings.Builder
	for i, r := range c.seq {
		switch {
		case r.site == siteShadow && r.write:
			cell2 = i
		case r.site == siteShadow:
			g.cellSrc = append(g.cellSrc, cell2)
			exp.WriteString("<" + c.printOf(r, cell2) + ">")
		case r.write:
			cell = i
		default:
			g.cellSrc = append(g.cellSrc, cell)
			exp.WriteString("[" + c.printOf(r, cell) + "]")
		}
	}
	g.expected = exp.String()
	return g
}

// printOf returns what the read r prints when its cell was last set by the
// write at index w (-1: never written).
func (c tcase) printOf(r ref, w int) string {
	if r.site == siteShadow {
		if w >= 0 {
			return shadowLit(w + 1)
		}
		return "10"
	}
	if w >= 0 {
		return c.kind.printed(w + 1)
	}
	if c.mode == "absent" {
		return c.kind.zero
	}
	return c.kind.supplied
}

func showFiles(files map[string]string) string {
	names := make([]string, 0, len(files))
	for k := range files {
		names = append(names, k)
	}
	sort.Strings(names)
	var b strings.Builder
	for _, n := range names {
		fmt.Fprintf(&b, "    %-12s %q\n", n, files[n])
	}
	return b.String()
}

type readTok struct {
	shadow bool
	val    string
}

// splitReads splits "[a]<b>[c]" into its bracketed values.
func splitReads(out string) ([]readTok, bool) {
	var vals []readTok
	for len(out) > 0 {
		var cl byte
		switch out[0] {
		case '[':
			cl = ']'
		case '<':
			cl = '>'
		default:
			return nil, false
		}
		j := strings.IndexByte(out, cl)
		if j < 0 {
			return nil, false
		}
		vals = append(vals, readTok{out[0] == '<', out[1:j]})
		out = out[j+1:]
	}
	return vals, true
}

// runTemplate runs t and converts a panic of Run into an error message.
func runTemplate(t *scriggo.Template, out *bytes.Buffer, vars map[string]any) (panicked string, err error) {
	defer func() {
		if r := recover(); r != nil {
			panicked = fmt.Sprint(r)
		}
	}()
	return "", t.Run(out, vars, nil)
}

func (c tcase) eval() kit.Outcome {
	if !c.applicable() {
		return kit.Outcome{OK: true, Class: "not a case: reference to the imported file's variable without that file"}
	}
	g := c.generate()
	fsys := scriggo.Files{}
	for k, v := range g.files {
		fsys[k] = []byte(v)
	}
	decl := native.Declarations{"v": c.kind.decl, "w": (*int)(nil), "S": reflect.TypeFor[S]()}
	t, err := scriggo.BuildTemplate(fsys, "index.html", &scriggo.BuildOptions{Globals: decl})
	describe := func() string {
		return fmt.Sprintf("variable kind %s, vars %s, scenario %s, %s, references %v\nfiles:\n%s", c.kind.name, c.mode, scenarios[c.scen], shadows[c.shadow], c.seq, showFiles(g.files))
	}
	if err != nil {
		return kit.Outcome{OK: false, Class: "BuildError", Nontrivial: true,
			Key:    "build-error|" + kit.NormMsg(err.Error()),
			Detail: describe() + "BuildTemplate: " + err.Error() + " (every generated template is valid)"}
	}
	val, ptr, deref := c.kind.mkValue()
	snapshot := fmt.Sprintf("%#v", val)
	if p, ok := val.(*S); ok {
		snapshot = fmt.Sprintf("&%#v", *p)
	}
	var vars map[string]any
	switch c.mode {
	case "value":
		vars = map[string]any{"v": val}
	case "pointer":
		vars = map[string]any{"v": ptr}
	}
	var out bytes.Buffer
	panicked, err := runTemplate(t, &out, vars)
	if panicked != "" {
		return kit.Outcome{OK: false, Class: "Run panics", Nontrivial: true,
			Key:    fmt.Sprintf("run-panics|variable-kind=%s|vars=%s|%s", c.kind.name, c.mode, kit.NormMsg(panicked)),
			Detail: describe() + fmt.Sprintf("Run(vars = %#v) panicked: %s", vars, panicked)}
	}
	if err != nil {
		return kit.Outcome{OK: false, Class: "RunError", Nontrivial: true,
			Key:    "run-error|" + kit.NormMsg(err.Error()),
			Detail: describe() + "Run: " + err.Error()}
	}
	o := kit.Outcome{OK: true, Nontrivial: len(c.seq) > 0, Ops: len(c.seq) + 1}
	nread, nwrite, nglobal, nfiles := 0, 0, 0, map[string]bool{}
	lit, sh := false, c.shadow != 0
	for i, r := range c.seq {
		if r.write {
			nwrite++
		} else {
			nread++
		}
		if r.site != siteShadow {
			nglobal++
		}
		if r.site == siteLitInMacro || r.site == siteLitAfterBodyRef || r.site == siteLitTop {
			lit = true
		}
		nfiles[g.fileOf[i]] = true
	}
	switch {
	case len(c.seq) == 0:
		o.Class = "no reference"
	case nwrite == 0:
		o.Class = "reads only"
	case nread == 0:
		o.Class = "writes only"
	case len(nfiles) > 1:
		o.Class = "reads and writes across files"
	default:
		o.Class = "reads and writes in one file"
	}
	if lit {
		o.Class += ", through function literals"
	}
	if sh {
		o.Class += ", next to a same-name variable"
	}
	fail := func(key, what string) kit.Outcome {
		o.OK = false
		o.Key = key
		o.Class += " — differs from the one-cell model"
		o.Detail = describe() + what
		return o
	}
	isShadowValue := func(s string) bool {
		if s == "10" {
			return true
		}
		for k := 1; k <= len(c.seq); k++ {
			if s == shadowLit(k) {
				return true
			}
		}
		return false
	}
	// 1. the output
	if got := out.String(); got != g.expected {
		what := fmt.Sprintf("expected output %q ([x] reads of the global: supplied value, then the latest write; <x> reads of the imported file's own v)\nobserved output %q\nUsedVars %v", g.expected, got, t.UsedVars())
		vals, ok := splitReads(got)
		if !ok || len(vals) != len(g.cellSrc) {
			return fail("output-malformed", what)
		}
		// first read that differs
		ri := 0
		for i, r := range c.seq {
			if r.write {
				continue
			}
			src := g.cellSrc[ri]
			if vals[ri].shadow != (r.site == siteShadow) {
				return fail("output-malformed", what)
			}
			if vals[ri].val != c.printOf(r, src) {
				observed := "other"
				switch {
				case r.site == siteShadow:
					if vals[ri].val == c.kind.supplied || vals[ri].val == c.kind.zero {
						observed = "value-of-the-global"
					}
					for w := 0; w < len(c.seq); w++ {
						if c.seq[w].write && c.seq[w].site != siteShadow && vals[ri].val == c.kind.printed(w+1) {
							observed = "value-of-the-global"
						}
					}
					return fail("same-name-variable-of-imported-file|its-read-observed="+observed, what)
				case vals[ri].val == c.kind.zero:
					observed = "zero-value"
				case c.mode != "absent" && vals[ri].val == c.kind.supplied:
					observed = "supplied-value"
				case isShadowValue(vals[ri].val):
					observed = "value-of-the-imported-file's-same-name-variable"
				default:
					for w := 0; w < i; w++ {
						if c.seq[w].write && vals[ri].val == c.kind.printed(w+1) {
							observed = "earlier-write"
						}
					}
				}
				if observed == "value-of-the-imported-file's-same-name-variable" {
					return fail("global-read-observed-the-imported-file's-same-name-variable", what)
				}
				if src < 0 {
					return fail("supplied-value-not-observed|observed="+observed, what)
				}
				where := "different-files"
				if g.fileOf[src] == g.fileOf[i] {
					where = "the-same-file"
				}
				vm := "value-or-absent"
				if c.mode == "pointer" {
					vm = "pointer"
				}
				return fail(fmt.Sprintf("write-not-observed|writer-and-reader-in=%s|vars=%s", where, vm), what+"\nthe read at position "+fmt.Sprint(i+1)+" observed: "+observed)
			}
			ri++
		}
		return fail("output-malformed", what)
	}
	// 2. the caller's variable
	last := -1
	for i, r := range c.seq {
		if r.write && r.site != siteShadow {
			last = i
		}
	}
	switch c.mode {
	case "pointer":
		want := val
		if last >= 0 {
			want = c.kind.final(last + 1)
		}
		if got := deref(); !reflect.DeepEqual(got, want) {
			observed := "other"
			if reflect.DeepEqual(got, val) {
				observed = "supplied-value"
			}
			if n, ok := got.(int); ok && isShadowValue(fmt.Sprint(n)) {
				return fail("caller-variable-after-run|vars=pointer|overwritten-by-the-imported-file's-same-name-variable",
					fmt.Sprintf("output %q as expected\nvariable behind the pointer after Run: %v, expected %v", out.String(), got, want))
			}
			return fail("caller-variable-after-run|vars=pointer|final-value-not-the-last-write",
				fmt.Sprintf("output %q as expected\nvariable behind the pointer after Run: %#v (%s), expected %#v", out.String(), got, observed, want))
		}
	case "value":
		now := fmt.Sprintf("%#v", vars["v"])
		if p, ok := vars["v"].(*S); ok && p != nil {
			now = fmt.Sprintf("&%#v", *p)
		}
		if now != snapshot {
			return fail("caller-copy-modified|vars=value", fmt.Sprintf("vars[\"v\"] after Run: %s, before: %s", now, snapshot))
		}
	}
	// 3. UsedVars
	got := t.UsedVars()
	n, other := 0, false
	for _, s := range got {
		if s == "v" {
			n++
		} else {
			other = true
		}
	}
	wantN := 0
	if nglobal > 0 {
		wantN = 1
	}
	// The imported file's own package-level v is reported by UsedVars as
	// well (as is any package-level variable of an imported or extending
	// file); the statement does not speak about such variables, so one extra
	// "v" is tolerated when that file is present.
	okN := n == wantN || sh && n == wantN+1
	if other || !okN {
		key := "usedvars|"
		switch {
		case other:
			key += "lists-an-unreferenced-name"
		case n > wantN:
			key += "lists-v-more-than-once"
		default:
			key += "misses-v"
		}
		return fail(key, fmt.Sprintf("output %q as expected\nUsedVars() = %v, expected \"v\" %d time(s)", out.String(), got, wantN))
	}
	return o
}

func spaces(tier string) []kit.Space {
	rest := kit.Product(uint64(len(modes)), uint64(len(varKinds)), uint64(len(scenarios)), uint64(len(shadows)))
	describe := func(c tcase) any {
		g := c.generate()
		return map[string]any{"references": fmt.Sprint(c.seq), "scenario": scenarios[c.scen], "kind": c.kind.name, "vars": c.mode, "same_name_variable": shadows[c.shadow], "files": g.files, "expected_output": g.expected}
	}
	full := func(maxLen int) kit.Space {
		en := kit.NewStringsUpTo(refKindNames(len(refKinds)), maxLen)
		mk := func(i uint64) tcase {
			d := kit.Mixed(i%rest, uint64(len(modes)), uint64(len(varKinds)), uint64(len(scenarios)), uint64(len(shadows)))
			var seq []ref
			for _, a := range en.Atoms(i / rest) {
				seq = append(seq, refKinds[a])
			}
			return tcase{seq: seq, mode: modes[d[0]], kind: varKinds[d[1]], scen: int(d[2]), shadow: int(d[3])}
		}
		return kit.Space{
			Name:     "reference-sequences",
			Size:     en.Size() * rest,
			Eval:     func(i uint64) kit.Outcome { return mk(i).eval() },
			Describe: func(i uint64) any { return describe(mk(i)) },
		}
	}
	if tier == "thorough" {
		return []kit.Space{full(3), opsSpace(), closuresSpace(), valuesSpace(), usedvarsSpace(), rangeAssignSpace()}
	}
	// quick: every sequence of length <= 2 over all 18 kinds in every
	// configuration, plus every sequence of length 3 over the 10 kinds of
	// the five plain sites for the three basic variable kinds
	const nOrig = 2 * nOriginalSites
	rest3 := kit.Product(uint64(len(modes)), 3, uint64(len(scenarios)))
	mk3 := func(i uint64) tcase {
		d := kit.Mixed(i, uint64(len(modes)), 3, uint64(len(scenarios)), nOrig, nOrig, nOrig)
		return tcase{seq: []ref{refKinds[d[5]], refKinds[d[4]], refKinds[d[3]]}, mode: modes[d[0]], kind: varKinds[d[1]], scen: int(d[2])}
	}
	return []kit.Space{
		full(2),
		{
			Name:     "length-3.plain-sites",
			Size:     rest3 * nOrig * nOrig * nOrig,
			Eval:     func(i uint64) kit.Outcome { return mk3(i).eval() },
			Describe: func(i uint64) any { return describe(mk3(i)) },
		},
		opsSpace(), closuresSpace(), valuesSpace(), usedvarsSpace(), rangeAssignSpace(),
	}
}

func main() {
	kit.Main(&kit.Check{
		ID:    "C17",
		Level: "model_checking",
		Rule: "reference kinds: (read | write) x 9 sites (top level, macro, macro called by a macro, imported macro, rendered file, function literal in a {%% %%} block of a macro, the same after a reference in the macro body, function literal in a top-level {%% %%} block, and the same-name package-level variable of an imported file) = 18; " +
			"configurations: 3 scenarios (macros declared first; just before their first call; sequence runs in an extended layout and the macros are the child's) x 5 variable kinds (int, string, struct, interface, pointer to struct) x vars (absent, value, pointer) x 3 (no file with a same-name variable, such a file imported first / last). " +
			"thorough: every sequence of 0..3 references in every configuration; quick: every sequence of 0..2 references in every configuration plus every sequence of exactly 3 references over the 5 plain sites for int/string/struct without the same-name file. " +
			"Sequences that refer to the same-name variable in a configuration without its file are counted in their own class and are not cases. A case is non-trivial when it has at least one reference (it builds, runs, and its output, the caller's variable and UsedVars are compared with the model)",
		Assumptions: []string{
			"ops, closures, values and usedvars (see ops.go), identical in both tiers: ops = 12 operations x 10 variable kinds x 7 positions x vars (value, pointer, absent) next to two other globals, judged against the twin in which the global is a local variable initialised with the supplied value (combinations that are not valid Scriggo for a local variable are not cases; 'default' is judged against a plain show); closures = 7 shapes of 2-3 nested macros / function literals x 3 target globals x read/write x every choice of what the enclosing levels reference (8 ordered subsets each) x values/pointers, exact expected output; values = macro of an imported / extending / rendered file used directly, through a variable, as an argument, as a slice element, passed down two macros x reads/writes the global x 7 plans of 2-3 runs of one Template with different values; usedvars = 8 referenced subsets of a, b, c x 3 shapes x 3 mutations of the returned slice x 4 neighbours (none, package-level variable of an imported file, global with a value, variable of a native package imported by two files): UsedVars must be unaffected by the caller's changes, report exactly the referenced globals without value, and Run must work with exactly the reported names",
			"range-assign-global (see rangeassign.go), identical in both tiers: a declared global as the iteration variable of a range statement in assignment form: 6 range forms (g alone, g with _, _ with g, two globals, g next to a local in either position) x 6 ranged kinds (slice, array, string, one-entry map, closed buffered channel, empty slice; a form with two variables over a channel is not a case) x 0/1/2 other globals mentioned before the statement in its function x 0/2 other globals mentioned at the top level before the macro holding it is called x range statement at top level / main-file macro / imported macro x references after the loop at top level / main-file macro / imported macro x vars absent / values / pointers; the iteration variables printed at every iteration, their values after the loop, the two other globals, the caller's variables and UsedVars are compared with the one-cell model. Range over an integer is not part of the space: this Scriggo rejects it (cannot range over 3)",
			"in the extends scenario 'top level' is the extended layout and the macro sites are the extending file's macros called from the layout",
			"every write stores a value distinct from the zero value, the supplied value, every other write of the case and every value of the imported file's own variable, so each read identifies the write it observed",
			"a second declared global w is never referenced and must not be listed by UsedVars",
			"UsedVars also reports package-level variables declared by imported or extending template files (observed on the unchanged tree: a file with {% var foo = 10 %} adds foo); the statement is about globals only, so when the file with its own v is imported one extra v is tolerated",
			"an interface-typed global supplied by value is given as vars{\"v\": 5}: any value is a value of type any",
			"the verdict names the first discrepancy in the order: output, caller's variable, UsedVars",
		},
		Spaces: spaces,
	})
}
