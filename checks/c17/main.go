// C17 — template variables passed to Run are the values every reference sees.
//
// A global v is declared without a value (native.Declarations{"v": (*T)(nil)})
// and every sequence of up to three references to it — reads and writes at the
// top level, in a macro, in a macro called by a macro, in an imported macro, in
// a rendered file, and (extends scenario) in an extended layout calling the
// child's macros — is built and run with vars absent / a value / a pointer.
// Oracle: one memory cell. Reads print the supplied value (or the zero value)
// and then the latest write in execution order; with a pointer the caller's
// variable holds the final value, with a value the caller's copy is untouched;
// UsedVars lists v exactly once (and never the unused global w).
package main

import (
	"bytes"
	"fmt"
	"reflect"
	"sort"
	"strings"

	"verif/kit"

	"github.com/open2b/scriggo"
	"github.com/open2b/scriggo/native"
)

// S is the small struct type of the struct-kind variable.
type S struct{ A int }

// ---- reference kinds ----

const (
	siteTop = iota // top level of the executing file (the layout, in the extends scenario)
	siteMacro
	siteNested
	siteImported
	siteRendered
	nSites
)

var siteName = [...]string{"top-level", "macro", "nested-macro", "imported-macro", "rendered-file"}

type ref struct {
	site  int
	write bool
}

func (r ref) String() string {
	if r.write {
		return "write@" + siteName[r.site]
	}
	return "read@" + siteName[r.site]
}

var refKinds = func() []ref {
	var k []ref
	for s := 0; s < nSites; s++ {
		k = append(k, ref{s, false}, ref{s, true})
	}
	return k
}()

var refKindNames = func() []string {
	n := make([]string, len(refKinds))
	for i, r := range refKinds {
		n[i] = r.String()
	}
	return n
}()

// ---- variable kinds ----

type varKind struct {
	name     string
	decl     any                                         // typed nil pointer for Declarations
	readExpr string                                      // expression shown by a read
	lit      func(k int) string                          // source of the value written at position k
	printed  func(k int) string                          // what a read prints for it
	zero     string                                      // print of the zero value
	supplied string                                      // print of the supplied value
	mkValue  func() (val any, ptr any, deref func() any) // fresh supplied value, pointer to a fresh variable holding it
	final    func(k int) any                             // Go value written at position k
}

var varKinds = []varKind{
	{
		name: "int", decl: (*int)(nil), readExpr: "v",
		lit:     func(k int) string { return fmt.Sprint(10 + k) },
		printed: func(k int) string { return fmt.Sprint(10 + k) },
		zero:    "0", supplied: "5",
		mkValue: func() (any, any, func() any) { x := 5; return 5, &x, func() any { return x } },
		final:   func(k int) any { return 10 + k },
	},
	{
		name: "string", decl: (*string)(nil), readExpr: "v",
		lit:     func(k int) string { return fmt.Sprintf("%q", fmt.Sprintf("w%d", k)) },
		printed: func(k int) string { return fmt.Sprintf("w%d", k) },
		zero:    "", supplied: "s5",
		mkValue: func() (any, any, func() any) { x := "s5"; return "s5", &x, func() any { return x } },
		final:   func(k int) any { return fmt.Sprintf("w%d", k) },
	},
	{
		name: "struct", decl: (*S)(nil), readExpr: "v.A",
		lit:     func(k int) string { return fmt.Sprintf("S{A: %d}", 10+k) },
		printed: func(k int) string { return fmt.Sprint(10 + k) },
		zero:    "0", supplied: "5",
		mkValue: func() (any, any, func() any) { x := S{5}; return S{5}, &x, func() any { return x } },
		final:   func(k int) any { return S{10 + k} },
	},
}

var modes = []string{"absent", "value", "pointer"}

// scenarios: where the macros are declared / whether the sequence runs in an extended layout
var scenarios = []string{"macros-declared-first", "macros-declared-just-before-first-call", "sequence-in-extended-layout"}

// ---- template generation ----

type tcase struct {
	seq  []ref
	scen int
	kind varKind
	mode string
}

type generated struct {
	files    map[string]string
	fileOf   []string // file holding reference k
	expected string
	cellSrc  []int // for each read position: -1 supplied, else index of the write observed
}

func (c tcase) generate() generated {
	vk := c.kind
	read := "[{{ " + vk.readExpr + " }}]"
	write := func(k int) string { return "{% v = " + vk.lit(k) + " %}" }
	g := generated{files: map[string]string{}}
	ext := c.scen == 2
	late := c.scen == 1
	bodyFile, macroFile := "index.html", "index.html"
	if ext {
		bodyFile = "layout.html"
	}
	declared := map[string]bool{}
	var decls strings.Builder // all macro declarations, in order of need
	var body strings.Builder  // the executing sequence
	var imp strings.Builder   // imported file
	needImport := false
	declare := func(dst *strings.Builder, name, src string) {
		if !declared[name] {
			declared[name] = true
			fmt.Fprintf(dst, "{%% macro %s %%}%s{%% end %%}", name, src)
		}
	}
	for i, r := range c.seq {
		k := i + 1
		// where do the macro declarations of this reference go?
		dst := &decls
		if late && !ext {
			dst = &body
		}
		var call, file string
		switch r.site {
		case siteTop:
			file = bodyFile
			if r.write {
				call = write(k)
			} else {
				call = read
			}
		case siteMacro:
			file = macroFile
			if r.write {
				n := fmt.Sprintf("MW%d", k)
				declare(dst, n, write(k))
				call = "{{ " + n + "() }}"
			} else {
				declare(dst, "MR", read)
				call = "{{ MR() }}"
			}
		case siteNested:
			file = macroFile
			if r.write {
				in, out := fmt.Sprintf("MW%d", k), fmt.Sprintf("NW%d", k)
				declare(dst, in, write(k))
				declare(dst, out, "{{ "+in+"() }}")
				call = "{{ " + out + "() }}"
			} else {
				declare(dst, "MR", read)
				declare(dst, "NR", "{{ MR() }}")
				call = "{{ NR() }}"
			}
		case siteImported:
			file = "imp.html"
			needImport = true
			if r.write {
				n := fmt.Sprintf("IW%d", k)
				declare(&imp, n, write(k))
				call = "{{ " + n + "() }}"
			} else {
				declare(&imp, "IR", read)
				call = "{{ IR() }}"
			}
		case siteRendered:
			if r.write {
				file = fmt.Sprintf("rw%d.html", k)
				g.files[file] = write(k)
			} else {
				file = "rr.html"
				g.files[file] = read
			}
			call = `{{ render "` + file + `" }}`
		}
		g.fileOf = append(g.fileOf, file)
		body.WriteString(call)
	}
	importStmt := ""
	if needImport {
		importStmt = `{% import "imp.html" %}`
		g.files["imp.html"] = imp.String()
	}
	if ext {
		g.files["index.html"] = `{% extends "layout.html" %}` + decls.String()
		g.files["layout.html"] = importStmt + body.String()
	} else {
		g.files["index.html"] = importStmt + decls.String() + body.String()
	}
	// the one-cell model
	cell := -1
	var exp strings.Builder
	for i, r := range c.seq {
		if r.write {
			cell = i
			continue
		}
		g.cellSrc = append(g.cellSrc, cell)
		exp.WriteString("[" + c.printOf(cell) + "]")
	}
	g.expected = exp.String()
	return g
}

// printOf returns what a read prints when the cell was last set by the write
// at index w (-1: never written).
func (c tcase) printOf(w int) string {
	if w >= 0 {
		return c.kind.printed(w + 1)
	}
	if c.mode == "absent" {
		return c.kind.zero
	}
	return c.kind.supplied
}

func showFiles(files map[string]string) string {
	names := make([]string, 0, len(files))
	for k := range files {
		names = append(names, k)
	}
	sort.Strings(names)
	var b strings.Builder
	for _, n := range names {
		fmt.Fprintf(&b, "    %-12s %q\n", n, files[n])
	}
	return b.String()
}

// splitReads splits "[a][b]" into its bracketed values.
func splitReads(out string) ([]string, bool) {
	var vals []string
	for len(out) > 0 {
		if out[0] != '[' {
			return nil, false
		}
		j := strings.IndexByte(out, ']')
		if j < 0 {
			return nil, false
		}
		vals = append(vals, out[1:j])
		out = out[j+1:]
	}
	return vals, true
}

func (c tcase) eval() kit.Outcome {
	g := c.generate()
	fsys := scriggo.Files{}
	for k, v := range g.files {
		fsys[k] = []byte(v)
	}
	decl := native.Declarations{"v": c.kind.decl, "w": (*int)(nil), "S": reflect.TypeFor[S]()}
	t, err := scriggo.BuildTemplate(fsys, "index.html", &scriggo.BuildOptions{Globals: decl})
	describe := func() string {
		return fmt.Sprintf("variable kind %s, vars %s, scenario %s, references %v\nfiles:\n%s", c.kind.name, c.mode, scenarios[c.scen], c.seq, showFiles(g.files))
	}
	if err != nil {
		return kit.Outcome{OK: false, Class: "BuildError", Nontrivial: true,
			Key:    "build-error|" + kit.NormMsg(err.Error()),
			Detail: describe() + "BuildTemplate: " + err.Error() + " (every generated template is valid)"}
	}
	val, ptr, deref := c.kind.mkValue()
	var vars map[string]any
	switch c.mode {
	case "value":
		vars = map[string]any{"v": val}
	case "pointer":
		vars = map[string]any{"v": ptr}
	}
	var out bytes.Buffer
	if err := t.Run(&out, vars, nil); err != nil {
		return kit.Outcome{OK: false, Class: "RunError", Nontrivial: true,
			Key:    "run-error|" + kit.NormMsg(err.Error()),
			Detail: describe() + "Run: " + err.Error()}
	}
	o := kit.Outcome{OK: true, Nontrivial: len(c.seq) > 0, Ops: len(c.seq) + 1}
	nread, nwrite, nfiles := 0, 0, map[string]bool{}
	for i, r := range c.seq {
		if r.write {
			nwrite++
		} else {
			nread++
		}
		nfiles[g.fileOf[i]] = true
	}
	switch {
	case len(c.seq) == 0:
		o.Class = "no reference"
	case nwrite == 0:
		o.Class = "reads only"
	case nread == 0:
		o.Class = "writes only"
	case len(nfiles) > 1:
		o.Class = "reads and writes across files"
	default:
		o.Class = "reads and writes in one file"
	}
	fail := func(key, what string) kit.Outcome {
		o.OK = false
		o.Key = key
		o.Class += " — differs from the one-cell model"
		o.Detail = describe() + what
		return o
	}
	// 1. the output
	if got := out.String(); got != g.expected {
		what := fmt.Sprintf("expected output %q (one cell: supplied value, then the latest write)\nobserved output %q\nUsedVars %v", g.expected, got, t.UsedVars())
		vals, ok := splitReads(got)
		if !ok || len(vals) != len(g.cellSrc) {
			return fail("output-malformed", what)
		}
		// first read that differs
		ri := 0
		for i, r := range c.seq {
			if r.write {
				continue
			}
			src := g.cellSrc[ri]
			if vals[ri] != c.printOf(src) {
				observed := "other"
				switch {
				case vals[ri] == c.kind.zero:
					observed = "zero-value"
				case c.mode != "absent" && vals[ri] == c.kind.supplied:
					observed = "supplied-value"
				default:
					for w := 0; w < i; w++ {
						if c.seq[w].write && vals[ri] == c.kind.printed(w+1) {
							observed = "earlier-write"
						}
					}
				}
				if src < 0 {
					return fail("supplied-value-not-observed|observed="+observed, what)
				}
				where := "different-files"
				if g.fileOf[src] == g.fileOf[i] {
					where = "the-same-file"
				}
				vm := "value-or-absent"
				if c.mode == "pointer" {
					vm = "pointer"
				}
				return fail(fmt.Sprintf("write-not-observed|writer-and-reader-in=%s|vars=%s", where, vm), what+"\nthe read at position "+fmt.Sprint(i+1)+" observed: "+observed)
			}
			ri++
		}
		return fail("output-malformed", what)
	}
	// 2. the caller's variable
	last := -1
	for i, r := range c.seq {
		if r.write {
			last = i
		}
	}
	switch c.mode {
	case "pointer":
		want := val
		if last >= 0 {
			want = c.kind.final(last + 1)
		}
		if got := deref(); !reflect.DeepEqual(got, want) {
			observed := "other"
			if reflect.DeepEqual(got, val) {
				observed = "supplied-value"
			}
			return fail("caller-variable-after-run|vars=pointer|final-value-not-the-last-write",
				fmt.Sprintf("output %q as expected\nvariable behind the pointer after Run: %v (%s), expected %v", out.String(), got, observed, want))
		}
	case "value":
		if got := vars["v"]; !reflect.DeepEqual(got, val) {
			return fail("caller-copy-modified|vars=value", fmt.Sprintf("vars[\"v\"] after Run: %v, expected %v", got, val))
		}
	}
	// 3. UsedVars
	want := []string{}
	if len(c.seq) > 0 {
		want = []string{"v"}
	}
	got := t.UsedVars()
	if len(got) != len(want) || len(got) == 1 && got[0] != "v" {
		n := 0
		other := false
		for _, s := range got {
			if s == "v" {
				n++
			} else {
				other = true
			}
		}
		key := "usedvars|"
		switch {
		case other:
			key += "lists-an-unreferenced-name"
		case n > 1:
			key += "lists-v-more-than-once"
		default:
			key += "misses-v"
		}
		return fail(key, fmt.Sprintf("output %q as expected\nUsedVars() = %v, expected %v", out.String(), got, want))
	}
	return o
}

func spaces(tier string) []kit.Space {
	en := kit.NewStringsUpTo(refKindNames, 3)
	rest := kit.Product(uint64(len(scenarios)), uint64(len(varKinds)), uint64(len(modes)))
	mk := func(i uint64) tcase {
		d := kit.Mixed(i%rest, uint64(len(modes)), uint64(len(varKinds)), uint64(len(scenarios)))
		var seq []ref
		for _, a := range en.Atoms(i / rest) {
			seq = append(seq, refKinds[a])
		}
		return tcase{seq: seq, mode: modes[d[0]], kind: varKinds[d[1]], scen: int(d[2])}
	}
	return []kit.Space{{
		Name: "reference-sequences",
		Size: en.Size() * rest,
		Eval: func(i uint64) kit.Outcome { return mk(i).eval() },
		Describe: func(i uint64) any {
			c := mk(i)
			g := c.generate()
			return map[string]any{"references": fmt.Sprint(c.seq), "scenario": scenarios[c.scen], "kind": c.kind.name, "vars": c.mode, "files": g.files, "expected_output": g.expected}
		},
	}}
}

func main() {
	kit.Main(&kit.Check{
		ID:    "C17",
		Level: "model_checking",
		Rule: "every sequence of 0..3 references out of 10 kinds (read | write) x (top level, macro, macro called by a macro, imported macro, rendered file) x 3 scenarios (macros declared first; macros declared just before their first call; the sequence runs in an extended layout and the macros are the child's) x 3 variable kinds (int, string, struct) x vars (absent, value, pointer); " +
			"both tiers are the same complete space; a case is non-trivial when it has at least one reference (it builds, runs, and its output, the caller's variable and UsedVars are compared with the one-cell model)",
		Assumptions: []string{
			"in the extends scenario 'top level' is the extended layout and the macro sites are the extending file's macros called from the layout",
			"every write stores a value distinct from the zero value, the supplied value and every other write of the case, so each read identifies the write it observed",
			"a second declared global w is never referenced and must not be listed by UsedVars",
			"the verdict names the first discrepancy in the order: output, caller's variable, UsedVars",
		},
		Spaces: spaces,
	})
}
