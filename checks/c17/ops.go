// Further spaces of C17:
//
//	ops      operations x variable kinds x positions: every operation that reads,
//	         writes or takes the address of a global (read, assign, op-assign,
//	         ++, address of the whole / an element / a field, range iteration
//	         variable, default, truthiness, call, alias then reassign) on
//	         globals of ten kinds at seven positions, next to two other
//	         globals; oracle: the global behaves as a local variable
//	         initialised with the supplied value (differential twin), and the
//	         caller's variable holds the final value;
//	closures references from closures nested 2-3 levels (macros and function
//	         literals) with three globals referenced in different subsets and
//	         orders by the enclosing levels;
//	values   declared macros of imported / extending / rendered files used as
//	         values (variable, argument, slice element) across several runs of
//	         one Template with different values;
//	usedvars UsedVars: the returned slice is the caller's; every reported name
//	         can be passed to Run and is a referenced global without value.
package main

import (
	"bytes"
	"fmt"
	"reflect"
	"sort"
	"strings"

	"verif/kit"

	"github.com/open2b/scriggo"
	"github.com/open2b/scriggo/native"
)

// safeBuild and safeRun turn host panics into messages.
func safeBuild(files map[string]string, opts *scriggo.BuildOptions) (t *scriggo.Template, err error, panicked string) {
	defer func() {
		if r := recover(); r != nil {
			panicked = fmt.Sprint(r)
		}
	}()
	fsys := scriggo.Files{}
	for k, v := range files {
		fsys[k] = []byte(v)
	}
	t, err = scriggo.BuildTemplate(fsys, "index.html", opts)
	return
}

func safeRun(t *scriggo.Template, vars map[string]any) (out string, err error, panicked string) {
	defer func() {
		if r := recover(); r != nil {
			panicked = fmt.Sprint(r)
		}
	}()
	var b bytes.Buffer
	err = t.Run(&b, vars, nil)
	return b.String(), err, ""
}

// ---- ops ----

type gKind struct {
	name      string
	decl      any
	typ       string // Scriggo type
	lit       string // the supplied value as a literal
	newLit    string // the value written by assign
	show      string // template source printing VAR
	mk        func() (val any, ptr any, get func() any)
	showGo    func(any) string
	valueSem  bool // assignment copies the whole value
	absentOK  bool // the zero value supports every operation of the kind
	opAssign  string
	inc       string
	elem      string // an addressable element, or ""
	field     string // an addressable field, or ""
	rangeExpr string // a slice whose elements can be assigned to VAR, or ""
	showable  bool   // {{ VAR }} is allowed
}

func add(a, b int) int { return a + b }

var gKinds = []gKind{
	{name: "int", decl: (*int)(nil), typ: "int", lit: "5", newLit: "11", show: "{{ VAR }}", showable: true,
		mk:     func() (any, any, func() any) { x := 5; return 5, &x, func() any { return x } },
		showGo: func(v any) string { return fmt.Sprint(v) }, valueSem: true, absentOK: true,
		opAssign: "VAR += 2", inc: "VAR++", rangeExpr: "[]int{4, 5}"},
	{name: "string", decl: (*string)(nil), typ: "string", lit: `"s5"`, newLit: `"w"`, show: "{{ VAR }}", showable: true,
		mk:     func() (any, any, func() any) { x := "s5"; return "s5", &x, func() any { return x } },
		showGo: func(v any) string { return fmt.Sprint(v) }, valueSem: true, absentOK: true,
		opAssign: `VAR += "x"`, rangeExpr: `[]string{"a", "b"}`},
	{name: "float", decl: (*float64)(nil), typ: "float64", lit: "1.5", newLit: "2.5", show: "{{ VAR }}", showable: true,
		mk:     func() (any, any, func() any) { x := 1.5; return 1.5, &x, func() any { return x } },
		showGo: func(v any) string { return fmt.Sprint(v) }, valueSem: true, absentOK: true,
		opAssign: "VAR += 1", inc: "VAR++", rangeExpr: "[]float64{4.5, 6.5}"},
	{name: "slice", decl: (*[]int)(nil), typ: "[]int", lit: "[]int{1, 2, 3}", newLit: "[]int{7, 8}", show: "{{ VAR[1] }}/{{ len(VAR) }}",
		mk: func() (any, any, func() any) {
			x := []int{1, 2, 3}
			return []int{1, 2, 3}, &x, func() any { return x }
		},
		showGo:   func(v any) string { s := v.([]int); return fmt.Sprintf("%d/%d", s[1], len(s)) },
		opAssign: "VAR[1] += 2", inc: "VAR[1]++", elem: "VAR[1]"},
	{name: "array", decl: (*[3]int)(nil), typ: "[3]int", lit: "[3]int{1, 2, 3}", newLit: "[3]int{7, 8, 9}", show: "{{ VAR[1] }}",
		mk: func() (any, any, func() any) {
			x := [3]int{1, 2, 3}
			return [3]int{1, 2, 3}, &x, func() any { return x }
		},
		showGo: func(v any) string { return fmt.Sprint(v.([3]int)[1]) }, valueSem: true, absentOK: true,
		opAssign: "VAR[1] += 2", inc: "VAR[1]++", elem: "VAR[1]"},
	{name: "struct", decl: (*S)(nil), typ: "S", lit: "S{A: 5}", newLit: "S{A: 11}", show: "{{ VAR.A }}",
		mk:     func() (any, any, func() any) { x := S{5}; return S{5}, &x, func() any { return x } },
		showGo: func(v any) string { return fmt.Sprint(v.(S).A) }, valueSem: true, absentOK: true,
		opAssign: "VAR.A += 2", inc: "VAR.A++", field: "VAR.A", rangeExpr: "[]S{{A: 21}, {A: 22}}"},
	{name: "map", decl: (*map[string]int)(nil), typ: "map[string]int", lit: `map[string]int{"k": 5}`, newLit: `map[string]int{"k": 11, "j": 1}`,
		show: `{{ VAR["k"] }}/{{ len(VAR) }}`,
		mk: func() (any, any, func() any) {
			x := map[string]int{"k": 5}
			return map[string]int{"k": 5}, &x, func() any { return x }
		},
		showGo:   func(v any) string { m := v.(map[string]int); return fmt.Sprintf("%d/%d", m["k"], len(m)) },
		opAssign: `VAR["k"] += 2`, inc: `VAR["k"]++`},
	{name: "func", decl: (*func(int, int) int)(nil), typ: "func(int, int) int", lit: "func(a, b int) int { return a + b }",
		newLit: "func(a, b int) int { return a * b }", show: "{{ VAR(2, 3) }}",
		mk: func() (any, any, func() any) {
			x := add
			return add, &x, func() any { return x }
		},
		showGo: func(v any) string { return fmt.Sprint(v.(func(int, int) int)(2, 3)) }},
	{name: "interface", decl: (*any)(nil), typ: "interface{}", lit: "interface{}(5)", newLit: "11", show: "{{ VAR }}", showable: true,
		mk:     func() (any, any, func() any) { var x any = 5; return 5, &x, func() any { return x } },
		showGo: func(v any) string { return fmt.Sprint(v) }, absentOK: true, rangeExpr: "[]interface{}{7, 8}"},
	{name: "pointer", decl: (**S)(nil), typ: "*S", lit: "&S{A: 5}", newLit: "&S{A: 11}", show: "{{ VAR.A }}",
		mk:       func() (any, any, func() any) { x := &S{5}; return &S{5}, &x, func() any { return x } },
		showGo:   func(v any) string { return fmt.Sprint(v.(*S).A) },
		opAssign: "VAR.A += 2", inc: "VAR.A++", field: "VAR.A"},
}

type gOp struct {
	name string
	// stmts returns the statements of the operation on v (Go syntax, one per
	// element) and extra template source printed before the final value;
	// ok=false when the operation does not exist for the kind.
	stmts func(k gKind) (stmts []string, tpl string, ok bool)
	// twinTpl, when set, replaces tpl in the local-variable twin.
	twinTpl func(k gKind) string
	noCode  bool // cannot be moved into a function literal
}

func sub(s string) string { return strings.ReplaceAll(s, "VAR", "v") }

var gOps = []gOp{
	{name: "read", stmts: func(k gKind) ([]string, string, bool) { return nil, "", true }},
	{name: "assign", stmts: func(k gKind) ([]string, string, bool) { return []string{"v = " + k.newLit}, "", true }},
	{name: "op-assign", stmts: func(k gKind) ([]string, string, bool) { return []string{sub(k.opAssign)}, "", k.opAssign != "" }},
	{name: "increment", stmts: func(k gKind) ([]string, string, bool) { return []string{sub(k.inc)}, "", k.inc != "" }},
	{name: "address-of-variable", stmts: func(k gKind) ([]string, string, bool) {
		return []string{"p := &v", "*p = " + k.newLit}, "", true
	}},
	{name: "address-of-element", stmts: func(k gKind) ([]string, string, bool) {
		return []string{"p := &" + sub(k.elem), "*p = 9"}, "", k.elem != ""
	}},
	{name: "address-of-field", stmts: func(k gKind) ([]string, string, bool) {
		return []string{"p := &" + sub(k.field), "*p = 9"}, "", k.field != ""
	}},
	{name: "range-index-variable", stmts: func(k gKind) ([]string, string, bool) {
		return []string{"for v = range []int{4, 5} {\n }"}, "", k.name == "int"
	}},
	{name: "range-value-variable", stmts: func(k gKind) ([]string, string, bool) {
		return []string{"for _, v = range " + k.rangeExpr + " {\n }"}, "", k.rangeExpr != ""
	}},
	{name: "default", noCode: true,
		stmts: func(k gKind) ([]string, string, bool) { return nil, "<{{ v default " + k.newLit + " }}>", k.showable },
		// "default" is only allowed on globals; a declared global shows its value
		twinTpl: func(k gKind) string { return "<{{ v }}>" }},
	{name: "truthiness", noCode: true, stmts: func(k gKind) ([]string, string, bool) {
		return nil, "{% if v %}T{% else %}F{% end %}", true
	}},
	{name: "alias-then-reassign", noCode: true, stmts: func(k gKind) ([]string, string, bool) {
		return []string{"g := v", "v = " + k.newLit}, "<" + strings.ReplaceAll(k.show, "VAR", "g") + ">", true
	}},
}

var gPositions = []string{"top-level", "macro", "nested-macro", "func-literal", "imported-macro", "extended-layout", "rendered-partial"}

var gModes = []string{"value", "pointer", "absent"}

// outside: the final value is printed outside the closure / file that holds
// the operation (by the main file's top level, or by the extending file's
// macro when the operation is in the layout)
type gCase struct {
	op, kind, pos, mode int
	outside             bool
}

func tplStmts(stmts []string) string {
	var b strings.Builder
	for _, s := range stmts {
		if strings.HasPrefix(s, "for ") {
			// for … {\n } as a template statement
			b.WriteString("{% " + strings.TrimSuffix(s, " {\n }") + " %}{% end %}")
		} else {
			b.WriteString("{% " + s + " %}")
		}
	}
	return b.String()
}

// build returns the real file set, the expected-output pattern with the
// snippet's output marked as \x00, and the twin.
func (c gCase) build() (files map[string]string, pattern string, twin map[string]string, ok bool) {
	k, op := gKinds[c.kind], gOps[c.op]
	stmts, tpl, exists := op.stmts(k)
	if !exists {
		return nil, "", nil, false
	}
	pos := gPositions[c.pos]
	if pos == "func-literal" && (op.noCode || len(stmts) == 0) {
		return nil, "", nil, false
	}
	if gModes[c.mode] == "absent" && !k.absentOK {
		return nil, "", nil, false
	}
	final := "[" + sub(k.show) + "]"
	opSrc := tplStmts(stmts) + tpl
	in, out := final, ""
	if c.outside {
		if pos == "top-level" {
			return nil, "", nil, false
		}
		in, out = "", final
	}
	// \x00 stands for the output of the operation, \x01 for the final value
	pin, pout := "\x01", ""
	if c.outside {
		pin, pout = "", "\x01"
	}
	files = map[string]string{}
	switch pos {
	case "top-level":
		files["index.html"] = "{{ z }}{{ x }}|" + opSrc + in + "|{{ x }}"
		pattern = "32|\x00" + pin + "|2"
	case "macro":
		files["index.html"] = "{{ x }}{% macro M %}{{ z }}" + opSrc + in + "{{ x }}{% end %}|{{ M() }}|{{ z }}" + out
		pattern = "2|3\x00" + pin + "2|3" + pout
	case "nested-macro":
		files["index.html"] = "{% macro In %}{{ z }}" + opSrc + in + "{% end %}{% macro Out %}{{ x }}{{ In() }}{% end %}|{{ Out() }}|" + out
		pattern = "|23\x00" + pin + "|" + pout
	case "func-literal":
		code := "{%%\n f := func() {\n _ = z\n " + strings.Join(stmts, "\n ") + "\n }\n f()\n%%}"
		files["index.html"] = "{{ x }}{% macro M %}" + code + in + "{{ x }}{% end %}|{{ M() }}|" + out
		pattern = "2|\x00" + pin + "2|" + pout
	case "imported-macro":
		files["imp.html"] = "{% macro IM %}{{ z }}" + opSrc + in + "{{ x }}{% end %}"
		files["index.html"] = `{% import "imp.html" %}{{ x }}|{{ IM() }}|` + out
		pattern = "2|3\x00" + pin + "2|" + pout
	case "extended-layout":
		files["index.html"] = `{% extends "layout.html" %}{% macro Body %}{{ x }}` + out + `{% end %}`
		files["layout.html"] = "{{ z }}|" + opSrc + in + "|{{ Body() }}"
		pattern = "3|\x00" + pin + "|2" + pout
	case "rendered-partial":
		files["part.html"] = "{{ z }}" + opSrc + in
		files["index.html"] = `{{ x }}|{{ render "part.html" }}|{{ x }}` + out
		pattern = "2|3\x00" + pin + "|2" + pout
	}
	decl := "{% var v " + k.typ + " = " + k.lit + " %}"
	if gModes[c.mode] == "absent" {
		decl = "{% var v " + k.typ + " %}"
	}
	twinTpl := tpl
	if op.twinTpl != nil {
		twinTpl = op.twinTpl(k)
	}
	twin = map[string]string{"index.html": decl + tplStmts(stmts) + twinTpl + "~" + final}
	return files, pattern, twin, true
}

// gResult is the verdict on one configuration.
type gResult struct {
	symptom string // "" = agrees
	detail  string
	class   string
}

func (c gCase) evaluate() gResult {
	files, pattern, twin, ok := c.build()
	if !ok {
		return gResult{class: "ops: combination does not exist"}
	}
	k := gKinds[c.kind]
	show := func(m map[string]string) string {
		names := make([]string, 0, len(m))
		for n := range m {
			names = append(names, n)
		}
		sort.Strings(names)
		var b strings.Builder
		for _, n := range names {
			fmt.Fprintf(&b, "    %-12s %q\n", n, m[n])
		}
		return b.String()
	}
	site := "next to the operation"
	if c.outside {
		site = "outside the closure / file of the operation"
	}
	head := fmt.Sprintf("operation %s on a global of kind %s at %s, final value printed %s, vars %s (x = 2, z = 3 supplied by value)\nfiles:\n%s", gOps[c.op].name, k.name, gPositions[c.pos], site, gModes[c.mode], show(files))
	// the twin: a local variable
	typeDecl := native.Declarations{"S": reflect.TypeFor[S]()}
	tt, terr, tp := safeBuild(twin, &scriggo.BuildOptions{Globals: typeDecl})
	if tp != "" || terr != nil {
		// the operation is not valid Scriggo for a local variable either: not a case
		return gResult{class: "ops: the twin with a local variable does not build"}
	}
	tout, trunErr, tp := safeRun(tt, nil)
	if tp != "" {
		return gResult{class: "ops: the twin with a local variable panics"}
	}
	decl := native.Declarations{"v": k.decl, "x": (*int)(nil), "z": (*int)(nil), "S": reflect.TypeFor[S]()}
	t, err, p := safeBuild(files, &scriggo.BuildOptions{Globals: decl})
	twinNote := fmt.Sprintf("twin with a local variable: %q => %q (run error: %v)\n", twin["index.html"], tout, trunErr)
	if p != "" {
		return gResult{symptom: "BuildTemplate-panics", detail: head + twinNote + "BuildTemplate panicked: " + p}
	}
	if err != nil {
		return gResult{symptom: "does-not-build", detail: head + twinNote + "BuildTemplate: " + err.Error()}
	}
	val, ptr, get := k.mk()
	vars := map[string]any{"x": 2, "z": 3}
	switch gModes[c.mode] {
	case "value":
		vars["v"] = val
	case "pointer":
		vars["v"] = ptr
	}
	out, rerr, p := safeRun(t, vars)
	if p != "" {
		return gResult{symptom: "Run-panics", detail: head + twinNote + "Run panicked: " + p}
	}
	if (rerr != nil) != (trunErr != nil) {
		return gResult{symptom: "run-error-only-in-one-form", detail: head + twinNote + fmt.Sprintf("Run: output %q error %v", out, rerr)}
	}
	if rerr != nil {
		return gResult{class: "ops: both forms fail at run time"}
	}
	opOut, finalOut, _ := strings.Cut(tout, "~")
	want := strings.Replace(strings.Replace(pattern, "\x00", opOut, 1), "\x01", finalOut, 1)
	if out != want {
		return gResult{symptom: "output-differs-from-the-local-variable-twin", detail: head + twinNote + fmt.Sprintf("expected %q\nobserved %q", want, out)}
	}
	if gModes[c.mode] == "pointer" {
		// the final value printed by the twin is what the caller must find
		finalPrinted := finalOut[1 : len(finalOut)-1]
		if got := k.showGo(get()); got != finalPrinted {
			return gResult{symptom: "caller-variable-after-run-differs", detail: head + twinNote + fmt.Sprintf("output %q as expected\nthe caller's variable shows %q after Run, the template printed %q", out, got, finalPrinted)}
		}
	}
	return gResult{class: "ops: agrees with the local-variable twin"}
}

func opsSpace() kit.Space {
	var cases []gCase
	for op := range gOps {
		for kind := range gKinds {
			for pos := range gPositions {
				for mode := range gModes {
					cases = append(cases, gCase{op, kind, pos, mode, false}, gCase{op, kind, pos, mode, true})
				}
			}
		}
	}
	return kit.Space{
		Name: "ops.operations-kinds-positions",
		Size: uint64(len(cases)),
		Eval: func(i uint64) kit.Outcome {
			c := cases[i]
			r := c.evaluate()
			o := kit.Outcome{OK: r.symptom == "", Class: r.class, Nontrivial: r.class == "ops: agrees with the local-variable twin" || r.symptom != ""}
			if o.OK {
				return o
			}
			o.Class = "ops: differs from the local-variable twin"
			// the smallest discriminating tuple: the position, the vars mode and
			// the place of the final print
			// are in the key only when some other position / mode / print site
			// of the same operation and kind does not show the symptom
			pos, mode, site := gPositions[c.pos], gModes[c.mode], "next-to-the-operation"
			if c.outside {
				site = "elsewhere"
			}
			same := func(x gCase) bool {
				r0 := x.evaluate()
				return r0.symptom == r.symptom || r0.symptom == "" && r0.class != "ops: agrees with the local-variable twin"
			}
			all := true
			for p := range gPositions {
				all = all && same(gCase{c.op, c.kind, p, c.mode, c.outside})
			}
			if all {
				pos = "any"
			}
			all = true
			for m := range gModes {
				all = all && same(gCase{c.op, c.kind, c.pos, m, c.outside})
			}
			if all {
				mode = "any"
			}
			if same(gCase{c.op, c.kind, c.pos, c.mode, !c.outside}) {
				site = "anywhere"
			}
			kind := gKinds[c.kind].name
			all = true
			for k := range gKinds {
				x := gCase{c.op, k, c.pos, c.mode, c.outside}
				if _, _, _, ok := x.build(); !ok {
					x.mode = 0 // kinds whose zero value does not support the operation exist by value only
				}
				all = all && same(x)
			}
			if all {
				kind = "any"
			}
			o.Key = fmt.Sprintf("ops|operation=%s|kind=%s|position=%s|vars=%s|final-value-printed=%s|%s", gOps[c.op].name, kind, pos, mode, site, r.symptom)
			o.Detail = r.detail
			return o
		},
		Describe: func(i uint64) any {
			c := cases[i]
			files, _, twin, _ := c.build()
			return map[string]any{"operation": gOps[c.op].name, "kind": gKinds[c.kind].name, "position": gPositions[c.pos], "vars": gModes[c.mode], "final_value_printed_outside": c.outside, "files": files, "twin": twin}
		},
	}
}

// ---- closures ----

var cGlobals = []string{"a", "b", "c"}
var cValues = map[string]int{"a": 10, "b": 20, "c": 30}

// what an enclosing level references, in this order
var cRefMenu = [][]string{{}, {"a"}, {"b"}, {"c"}, {"a", "b"}, {"b", "a"}, {"c", "a"}, {"c", "b", "a"}}

// level kinds, outermost first; once a level is a function literal the inner ones are too
var cShapes = [][]string{
	{"macro", "macro"}, {"macro", "func"}, {"func", "func"},
	{"macro", "macro", "macro"}, {"macro", "macro", "func"}, {"macro", "func", "func"}, {"func", "func", "func"},
}

type cCase struct {
	shape  int
	target int
	write  bool
	refs   []int // menu index per enclosing level
	ptr    bool
}

func (c cCase) build() (src, want string) {
	shape := cShapes[c.shape]
	t := cGlobals[c.target]
	n := len(shape)
	var exp strings.Builder
	// innermost
	var inner string // source of level n-1 and its call, in the syntax of its parent
	val := map[string]int{"a": 10, "b": 20, "c": 30}
	// build from the inside out
	for lvl := n - 1; lvl >= 0; lvl-- {
		kind := shape[lvl]
		parentIsCode := lvl > 0 && shape[lvl-1] == "func"
		var refs []string
		if lvl < n-1 {
			refs = cRefMenu[c.refs[lvl]]
		}
		name := fmt.Sprintf("L%d", lvl+1)
		switch kind {
		case "macro":
			var body strings.Builder
			for _, r := range refs {
				body.WriteString("{{ " + r + " }}")
			}
			if lvl == n-1 {
				if c.write {
					body.WriteString("{% " + t + " = 77 %}")
				} else {
					body.WriteString("<{{ " + t + " }}>")
				}
			} else {
				body.WriteString(inner)
			}
			inner = "{% macro " + name + " %}" + body.String() + "{% end %}{{ " + name + "() }}"
		case "func":
			var body strings.Builder
			for _, r := range refs {
				body.WriteString(" _ = " + r + "\n")
			}
			if lvl == n-1 {
				if c.write {
					body.WriteString(" " + t + " = 77\n return 0\n")
				} else {
					body.WriteString(" return " + t + "\n")
				}
			} else {
				body.WriteString(inner)
			}
			decl := " " + name + " := func() int {\n" + body.String() + " }\n"
			if parentIsCode {
				inner = decl + " return " + name + "()\n"
			} else {
				inner = "{%%\n" + decl + "%%}<{{ " + name + "() }}>"
			}
		}
	}
	src = inner + "|{{ a }},{{ b }},{{ c }}"
	// expected: what the macro levels print, outermost first
	for lvl := 0; lvl < n; lvl++ {
		if shape[lvl] != "macro" {
			// the outermost function literal prints its result
			if c.write {
				exp.WriteString("<0>")
			} else {
				fmt.Fprintf(&exp, "<%d>", val[t])
			}
			break
		}
		if lvl < n-1 {
			for _, r := range cRefMenu[c.refs[lvl]] {
				fmt.Fprint(&exp, val[r])
			}
		} else if !c.write {
			fmt.Fprintf(&exp, "<%d>", val[t])
		}
	}
	if c.write {
		val[t] = 77
	}
	fmt.Fprintf(&exp, "|%d,%d,%d", val["a"], val["b"], val["c"])
	return src, exp.String()
}

func closuresSpace() kit.Space {
	var cases []cCase
	for s, shape := range cShapes {
		n := len(shape)
		nref := 1
		for i := 0; i < n-1; i++ {
			nref *= len(cRefMenu)
		}
		for target := range cGlobals {
			for _, write := range []bool{false, true} {
				for r := 0; r < nref; r++ {
					refs := make([]int, n-1)
					x := r
					for i := range refs {
						refs[i] = x % len(cRefMenu)
						x /= len(cRefMenu)
					}
					for _, ptr := range []bool{false, true} {
						cases = append(cases, cCase{s, target, write, refs, ptr})
					}
				}
			}
		}
	}
	return kit.Space{
		Name: "closures.nested-references",
		Size: uint64(len(cases)),
		Eval: func(i uint64) kit.Outcome {
			c := cases[i]
			src, want := c.build()
			shape := strings.Join(cShapes[c.shape], ">")
			rw := "read"
			if c.write {
				rw = "write"
			}
			key := func(sym string) string {
				return fmt.Sprintf("closures|nested-levels=%s|innermost=%s|%s", shape, rw, sym)
			}
			o := kit.Outcome{OK: true, Nontrivial: true, Class: "closures: " + shape + ", " + rw}
			head := fmt.Sprintf("levels %s, innermost %ss %s, enclosing levels reference %v, vars a=10 b=20 c=30 (pointers: %v)\ntemplate %q\n", shape, rw, cGlobals[c.target], c.refs, c.ptr, src)
			decl := native.Declarations{"a": (*int)(nil), "b": (*int)(nil), "c": (*int)(nil)}
			t, err, p := safeBuild(map[string]string{"index.html": src}, &scriggo.BuildOptions{Globals: decl})
			if p != "" || err != nil {
				o.OK, o.Key, o.Detail = false, key("does-not-build"), head+fmt.Sprintf("BuildTemplate: error %v panic %q", err, p)
				return o
			}
			a, b, cc := 10, 20, 30
			vars := map[string]any{"a": a, "b": b, "c": cc}
			if c.ptr {
				vars = map[string]any{"a": &a, "b": &b, "c": &cc}
			}
			out, rerr, p := safeRun(t, vars)
			if p != "" || rerr != nil {
				o.OK, o.Key, o.Detail = false, key("run-fails"), head+fmt.Sprintf("Run: output %q error %v panic %q", out, rerr, p)
				return o
			}
			if out != want {
				o.OK, o.Key, o.Detail = false, key("output-differs"), head+fmt.Sprintf("expected %q\nobserved %q", want, out)
				o.Class += " — differs"
				return o
			}
			if c.ptr {
				wa, wb, wc := 10, 20, 30
				if c.write {
					switch c.target {
					case 0:
						wa = 77
					case 1:
						wb = 77
					case 2:
						wc = 77
					}
				}
				if a != wa || b != wb || cc != wc {
					o.OK, o.Key = false, key("caller-variables-after-run-differ")
					o.Detail = head + fmt.Sprintf("output %q as expected; caller's a,b,c = %d,%d,%d, expected %d,%d,%d", out, a, b, cc, wa, wb, wc)
				}
			}
			return o
		},
		Describe: func(i uint64) any {
			src, want := cases[i].build()
			return map[string]any{"template": src, "expected": want, "pointers": cases[i].ptr}
		},
	}
}

// ---- values ----

type vCase struct {
	host  string // imported | extending | rendered
	use   string // direct | variable | argument | slice-element | passed-down
	write bool
	runs  int // index into vRunPlans
}

// each run: "v5" value 5, "p5" pointer to 5, "-" absent
var vRunPlans = [][]string{
	{"v5", "v6"}, {"v6", "v5", "v7"}, {"p5", "p6"}, {"v5", "-"}, {"-", "v5"}, {"p5", "v6", "-"}, {"v5", "v5"},
}

func (c vCase) files() map[string]string {
	body := "[{{ v }}]"
	if c.write {
		body = "{% v = v + 100 %}[{{ v }}]"
	}
	var use string
	switch c.use {
	case "direct":
		use = "{{ MV() }}"
	case "variable":
		use = "{% var f = MV %}{{ f() }}"
	case "argument":
		use = "{% macro Apply(h macro() html) %}<{{ h() }}>{% end %}{{ Apply(MV) }}"
	case "slice-element":
		use = "{% fs := []macro() html{MV} %}{{ fs[0]() }}"
	case "passed-down":
		use = "{% macro Inner(h macro() html) %}<{{ h() }}>{% end %}{% macro Outer(h macro() html) %}{{ Inner(h) }}{% end %}{{ Outer(MV) }}"
	}
	mv := "{% macro MV %}" + body + "{% end %}"
	switch c.host {
	case "imported":
		return map[string]string{"imp.html": mv, "index.html": `{% import "imp.html" %}a` + use + "b"}
	case "extending":
		return map[string]string{"index.html": `{% extends "layout.html" %}` + mv, "layout.html": "a" + use + "b"}
	}
	return map[string]string{"part.html": mv + use, "index.html": `a{{ render "part.html" }}b`}
}

func valuesSpace() kit.Space {
	var cases []vCase
	for _, host := range []string{"imported", "extending", "rendered"} {
		for _, use := range []string{"direct", "variable", "argument", "slice-element", "passed-down"} {
			for _, w := range []bool{false, true} {
				for r := range vRunPlans {
					cases = append(cases, vCase{host, use, w, r})
				}
			}
		}
	}
	return kit.Space{
		Name: "values.declared-macros-as-values-across-runs",
		Size: uint64(len(cases)),
		Eval: func(i uint64) kit.Outcome {
			c := cases[i]
			files := c.files()
			rw := "reads"
			if c.write {
				rw = "writes"
			}
			key := func(sym string) string {
				return fmt.Sprintf("values|macro-of-%s-file-used-as=%s|%s-the-global|%s", c.host, c.use, rw, sym)
			}
			o := kit.Outcome{OK: true, Nontrivial: true, Class: "values: " + c.use}
			var fl strings.Builder
			for _, n := range []string{"index.html", "imp.html", "layout.html", "part.html"} {
				if s, ok := files[n]; ok {
					fmt.Fprintf(&fl, "    %-12s %q\n", n, s)
				}
			}
			head := fmt.Sprintf("files:\n%sruns of the same Template with vars %v\n", fl.String(), vRunPlans[c.runs])
			t, err, p := safeBuild(files, &scriggo.BuildOptions{Globals: native.Declarations{"v": (*int)(nil)}})
			if p != "" || err != nil {
				o.OK, o.Key, o.Detail = false, key("does-not-build"), head+fmt.Sprintf("BuildTemplate: error %v panic %q", err, p)
				return o
			}
			for ri, plan := range vRunPlans[c.runs] {
				var vars map[string]any
				supplied := 0
				var cell *int
				switch plan[0] {
				case 'v':
					supplied = int(plan[1] - '0')
					vars = map[string]any{"v": supplied}
				case 'p':
					supplied = int(plan[1] - '0')
					x := supplied
					cell = &x
					vars = map[string]any{"v": cell}
				}
				final := supplied
				if c.write {
					final += 100
				}
				inner := fmt.Sprintf("[%d]", final)
				if c.use == "argument" || c.use == "passed-down" {
					inner = "<" + inner + ">"
				}
				want := "a" + inner + "b"
				out, rerr, p := safeRun(t, vars)
				if p != "" || rerr != nil {
					o.OK, o.Key, o.Detail = false, key("run-fails"), head+fmt.Sprintf("run %d: output %q error %v panic %q", ri+1, out, rerr, p)
					return o
				}
				if out != want {
					sym := "a-run-does-not-see-its-own-value"
					if ri == 0 {
						sym = "first-run-output-differs"
					}
					o.OK, o.Key, o.Detail = false, key(sym), head+fmt.Sprintf("run %d: expected %q, observed %q", ri+1, want, out)
					return o
				}
				if cell != nil && *cell != final {
					o.OK, o.Key, o.Detail = false, key("caller-variable-after-run-differs"), head+fmt.Sprintf("run %d: the caller's variable is %d, expected %d", ri+1, *cell, final)
					return o
				}
			}
			return o
		},
		Describe: func(i uint64) any {
			return map[string]any{"files": cases[i].files(), "runs": vRunPlans[cases[i].runs]}
		},
	}
}

// ---- usedvars ----

type uCase struct {
	subset   int // bit i: global i of a, b, c is referenced
	shape    string
	mutation string
	extra    string // none | imported-file-variable | global-with-value | native-package-variable
	check    string // names | run
}

func (c uCase) build() (files map[string]string, refs []string, want string) {
	for i, g := range cGlobals {
		if c.subset>>i&1 == 1 {
			refs = append(refs, g)
		}
	}
	var uses, exp strings.Builder
	for _, g := range refs {
		uses.WriteString("{{ " + g + " }};")
		fmt.Fprintf(&exp, "%d;", cValues[g])
	}
	files = map[string]string{}
	imp, impUse, impExp := "", "", ""
	switch c.extra {
	case "imported-file-variable":
		files["lib.html"] = `{% var pv = 1 %}{% macro PV %}({{ pv }}){% end %}`
		imp, impUse, impExp = `{% import "lib.html" %}`, "{{ PV() }}", "(1)"
	case "global-with-value":
		impUse, impExp = "({{ w }})", "(4)"
	case "native-package-variable":
		files["lib.html"] = `{% import "pkg" %}{% macro PV %}({{ pkg.V }}){% end %}`
		imp, impUse, impExp = `{% import "pkg" %}{% import "lib.html" %}`, "{% pkg.V = 5 %}{{ PV() }}", "(5)"
	}
	if c.extra == "global-with-value" {
		// a global declared with a value is a global variable used by the
		// template: UsedVars may report it, Run does not take it
		refs = append(refs, "w")
	}
	switch c.shape {
	case "top-level":
		files["index.html"] = imp + uses.String() + impUse
	case "macro":
		files["index.html"] = imp + "{% macro M %}" + uses.String() + "{% end %}{{ M() }}" + impUse
	case "imported-macro":
		files["m.html"] = "{% macro IM %}" + uses.String() + "{% end %}"
		files["index.html"] = imp + `{% import "m.html" %}{{ IM() }}` + impUse
	}
	return files, refs, exp.String() + impExp
}

func usedvarsSpace() kit.Space {
	var cases []uCase
	for subset := 0; subset < 8; subset++ {
		for _, shape := range []string{"top-level", "macro", "imported-macro"} {
			for _, mut := range []string{"filter-in-place", "reverse", "overwrite"} {
				for _, extra := range []string{"none", "imported-file-variable", "global-with-value", "native-package-variable"} {
					cases = append(cases, uCase{subset, shape, mut, extra, "names"})
					if mut == "filter-in-place" {
						cases = append(cases, uCase{subset, shape, mut, extra, "run"})
					}
				}
			}
		}
	}
	return kit.Space{
		Name: "usedvars.ownership-and-reported-names",
		Size: uint64(len(cases)),
		Eval: func(i uint64) kit.Outcome {
			c := cases[i]
			files, refs, want := c.build()
			o := kit.Outcome{OK: true, Nontrivial: true, Class: "usedvars: " + c.extra}
			key := func(sym string) string { return "usedvars|next-to=" + c.extra + "|" + sym }
			var fl strings.Builder
			for _, n := range []string{"index.html", "m.html", "lib.html"} {
				if s, ok := files[n]; ok {
					fmt.Fprintf(&fl, "    %-12s %q\n", n, s)
				}
			}
			head := fmt.Sprintf("globals a, b, c declared without a value (w declared with the value 4, package pkg with V declared without a value); referenced: %v\nfiles:\n%s", refs, fl.String())
			w := 4
			mkOpts := func() *scriggo.BuildOptions {
				return &scriggo.BuildOptions{
					Globals:  native.Declarations{"a": (*int)(nil), "b": (*int)(nil), "c": (*int)(nil), "w": &w},
					Packages: native.Packages{"pkg": native.Package{Name: "pkg", Declarations: native.Declarations{"V": (*int)(nil)}}},
				}
			}
			t, err, p := safeBuild(files, mkOpts())
			if p != "" || err != nil {
				o.OK, o.Key, o.Detail = false, key("does-not-build"), head+fmt.Sprintf("BuildTemplate: error %v panic %q", err, p)
				return o
			}
			if c.check == "run" {
				// run with the referenced globals: the neighbour must not disturb them
				vars := map[string]any{}
				for _, n := range refs {
					if n != "w" {
						vars[n] = cValues[n]
					}
				}
				out, rerr, p := safeRun(t, vars)
				if p != "" || rerr != nil {
					o.OK, o.Key, o.Detail = false, key("run-fails"), head+fmt.Sprintf("Run(vars %v): output %q error %v panic %q", vars, out, rerr, p)
				} else if out != want {
					o.OK, o.Key, o.Detail = false, key("run-output-differs"), head+fmt.Sprintf("Run(vars %v): expected %q, observed %q", vars, want, out)
				}
				return o
			}
			u1 := t.UsedVars()
			first := append([]string{}, u1...)
			switch c.mutation {
			case "filter-in-place":
				u1 = u1[:0]
				u1 = append(u1, "zz", "zz", "zz")
			case "reverse":
				sort.Sort(sort.Reverse(sort.StringSlice(u1)))
			case "overwrite":
				for k := range u1 {
					u1[k] = "zz"
				}
			}
			u2 := t.UsedVars()
			if !reflect.DeepEqual(first, u2) {
				o.OK, o.Key = false, "usedvars|result-changes-after-the-caller-modified-the-returned-slice|mutation="+c.mutation
				o.Detail = head + fmt.Sprintf("UsedVars() = %v; after the caller changed that slice (%s) UsedVars() = %v", first, c.mutation, u2)
				return o
			}
			if !reflect.DeepEqual(u2, refs) && !(len(u2) == 0 && len(refs) == 0) {
				sym := "does-not-report-exactly-the-referenced-globals-without-value"
				for _, n := range u2 {
					if n != "a" && n != "b" && n != "c" && n != "w" {
						sym = "reports-a-name-that-is-not-a-global"
					}
				}
				o.OK, o.Key = false, key(sym)
				o.Detail = head + fmt.Sprintf("UsedVars() = %v, expected %v", u2, refs)
				return o
			}
			// run with exactly the reported names
			vars := map[string]any{}
			for _, n := range u2 {
				if n != "w" {
					vars[n] = cValues[n]
				}
			}
			out, rerr, p := safeRun(t, vars)
			if p != "" || rerr != nil {
				o.OK, o.Key, o.Detail = false, key("run-with-the-reported-names-fails"), head+fmt.Sprintf("Run(vars %v): output %q error %v panic %q", vars, out, rerr, p)
				return o
			}
			if out != want {
				o.OK, o.Key, o.Detail = false, key("run-with-the-reported-names-output-differs"), head+fmt.Sprintf("Run(vars %v): expected %q, observed %q", vars, want, out)
			}
			return o
		},
		Describe: func(i uint64) any {
			files, refs, want := cases[i].build()
			return map[string]any{"files": files, "referenced": refs, "expected": want, "mutation": cases[i].mutation}
		},
	}
}
