package main

// F1 — arithmetic grid: binary/unary operators, shifts and conversions over
// every basic numeric kind and the boundary values of each kind.

import (
	"fmt"
	"math"
	"math/big"
	"strconv"

	"verif/gen/goprog"
)

type kind struct {
	name   string
	bits   int
	signed bool
	float  bool
}

var intKinds = []kind{
	{"int8", 8, true, false}, {"int16", 16, true, false}, {"int32", 32, true, false}, {"int64", 64, true, false}, {"int", 64, true, false},
	{"uint8", 8, false, false}, {"uint16", 16, false, false}, {"uint32", 32, false, false}, {"uint64", 64, false, false}, {"uint", 64, false, false}, {"uintptr", 64, false, false},
}

var floatKinds = []kind{{"float32", 32, true, true}, {"float64", 64, true, true}}

// val is one operand value: how to obtain it in a variable and, when it can
// be written as a constant, its literal.
type val struct {
	name string // short stable name for keys/witnesses
	lit  string // constant literal ("" when the value only exists at run time)
	pre  string // statements needed before expr (use %s for the type, §  for the variable suffix)
	expr string // initialiser expression for the variable (defaults to lit)
	num  *big.Float
}

func intVals(k kind) []val {
	var vs []val
	add := func(name string, v *big.Int) {
		for _, o := range vs {
			if o.lit == v.String() {
				return
			}
		}
		vs = append(vs, val{name: name, lit: v.String(), num: new(big.Float).SetInt(v)})
	}
	one := big.NewInt(1)
	pow := func(n int) *big.Int { return new(big.Int).Lsh(one, uint(n)) }
	add("0", big.NewInt(0))
	add("1", one)
	if k.signed {
		add("-1", big.NewInt(-1))
		min := new(big.Int).Neg(pow(k.bits - 1))
		max := new(big.Int).Sub(pow(k.bits-1), one)
		add("min", min)
		add("min+1", new(big.Int).Add(min, one))
		add("max", max)
		add("max-1", new(big.Int).Sub(max, one))
		add("2^(w/2)", pow(k.bits/2))
		add("100", big.NewInt(100))
		add("-100", big.NewInt(-100))
	} else {
		max := new(big.Int).Sub(pow(k.bits), one)
		add("2", big.NewInt(2))
		add("max", max)
		add("max-1", new(big.Int).Sub(max, one))
		add("2^(w-1)", pow(k.bits-1))
		add("2^(w-1)-1", new(big.Int).Sub(pow(k.bits-1), one))
		add("2^(w/2)", pow(k.bits/2))
		add("100", big.NewInt(100))
		add("200", big.NewInt(200))
	}
	return vs
}

func floatVals(k kind) []val {
	max, den := "1.7976931348623157e+308", "5e-324"
	if k.bits == 32 {
		max, den = "3.4028234663852886e+38", "1e-45"
	}
	return []val{
		{name: "0", lit: "0"},
		{name: "1", lit: "1"},
		{name: "-1", lit: "-1"},
		{name: "0.1", lit: "0.1"},
		{name: "2.5", lit: "2.5"},
		{name: "max", lit: max},
		{name: "denormal", lit: den},
		{name: "-0", pre: "var z§ %s = 0\n", expr: "-z§"},
		{name: "+Inf", pre: "var m§ %s = " + max + "\n", expr: "m§ * 2"},
		{name: "-Inf", pre: "var m§ %s = " + max + "\n", expr: "m§ * -2"},
		{name: "NaN", pre: "var m§ %s = " + max + "\n", expr: "m§*2 - m§*2"},
	}
}

func (v val) decl(name string, k kind) string {
	e := v.expr
	if e == "" {
		e = v.lit
	}
	pre := v.pre
	if pre != "" {
		pre = "\t" + fmt.Sprintf(replaceSuffix(pre, name), k.name)
	}
	return pre + "\tvar " + name + " " + k.name + " = " + replaceSuffix(e, name) + "\n"
}

func replaceSuffix(s, name string) string {
	out := []rune{}
	for _, r := range s {
		if r == '§' {
			out = append(out, []rune(name)...)
		} else {
			out = append(out, r)
		}
	}
	return string(out)
}

func paren(lit string) string {
	if len(lit) > 0 && lit[0] == '-' {
		return "(" + lit + ")"
	}
	return lit
}

type f1case struct {
	fam    string // arith | unary | shift | conv | tostring
	op     string
	k, k2  kind
	a, b   val
	form   string
	cclass string
}

var arithOps = []string{"+", "-", "*", "/", "%", "&", "|", "^", "&^"}
var cmpOps = []string{"==", "!=", "<", "<=", ">", ">="}

func isZero(v val) bool { return v.lit == "0" }

func f1Cases(tier string) []f1case {
	var cs []f1case
	allKinds := append(append([]kind{}, intKinds...), floatKinds...)
	// unary
	for _, k := range allKinds {
		vals := intVals(k)
		ops := []string{"-", "+", "^"}
		if k.float {
			vals = floatVals(k)
			ops = []string{"-", "+"}
		}
		for _, op := range ops {
			for _, a := range vals {
				cs = append(cs, f1case{fam: "unary", op: op, k: k, a: a, form: "var"})
			}
		}
	}
	// binary
	for _, k := range allKinds {
		vals := intVals(k)
		ops := append(append([]string{}, arithOps...), cmpOps...)
		if k.float {
			vals = floatVals(k)
			ops = append([]string{"+", "-", "*", "/"}, cmpOps...)
		}
		for _, op := range ops {
			for _, form := range []string{"var/var", "var/const", "const/var"} {
				for _, a := range vals {
					for _, b := range vals {
						if form == "var/const" && b.lit == "" || form == "const/var" && a.lit == "" {
							continue
						}
						if form == "var/const" && !k.float && (op == "/" || op == "%") && isZero(b) {
							continue // integer division by constant zero is a compile error
						}
						cs = append(cs, f1case{fam: "arith", op: op, k: k, a: a, b: b, form: form})
					}
				}
			}
		}
	}
	// shifts
	countKinds := []kind{{"uint8", 8, false, false}, {"uint", 64, false, false}, {"int", 64, true, false}}
	for _, op := range []string{"<<", ">>"} {
		for _, k := range intKinds {
			w := k.bits
			for _, a := range intVals(k) {
				for _, ck := range countKinds {
					for _, form := range []string{"var", "const"} {
						counts := []int64{0, 1, int64(w - 1), int64(w), int64(w + 1), 63, 64, 65}
						seen := map[int64]bool{}
						for _, c := range counts {
							if seen[c] {
								continue
							}
							seen[c] = true
							cs = append(cs, shiftCase(op, k, a, ck, form, c))
						}
						// the extreme count: negative for a signed variable, the
						// largest value otherwise (a negative constant is a compile error)
						switch {
						case ck.signed && form == "var":
							cs = append(cs, shiftCase(op, k, a, ck, form, -1))
							cs = append(cs, shiftCase(op, k, a, ck, form, math.MinInt64))
						case ck.bits == 8:
							cs = append(cs, shiftCase(op, k, a, ck, form, 255))
						default:
							cs = append(cs, shiftCase(op, k, a, ck, form, 1000))
						}
					}
				}
			}
		}
	}
	// conversions between numeric kinds
	for _, k := range allKinds {
		var vals []val
		if k.float {
			vals = floatConvVals(k)
		} else {
			vals = intVals(k)
		}
		for _, k2 := range allKinds {
			for _, a := range vals {
				if k.float && !k2.float && !inRange(a.num, k2) {
					continue // out-of-range float→integer is implementation-defined
				}
				cs = append(cs, f1case{fam: "conv", op: "T(x)", k: k, k2: k2, a: a, form: "var"})
			}
		}
	}
	// integer → string
	for _, k := range intKinds {
		vals := intVals(k)
		vals = append(vals, val{name: "0x41", lit: "65"})
		if k.bits == 64 {
			// outside the int32 range, but the low 32 bits are a valid code point: must be U+FFFD
			vals = append(vals, val{name: "1<<32|'A'", lit: "4294967361"}, val{name: "1<<40|0x20AC", lit: "1099511636140"}, val{name: "1<<31|'A'", lit: "2147483713"})
			if k.signed {
				vals = append(vals, val{name: "-(1<<32)+'A'", lit: "-4294967231"}, val{name: "-(1<<31)+'A'", lit: "-2147483583"})
			} else {
				vals = append(vals, val{name: "1<<63|'A'", lit: "9223372036854775873"})
			}
		}
		if k.bits >= 32 {
			vals = append(vals, val{name: "0xD800", lit: "55296"}, val{name: "0x10FFFF", lit: "1114111"}, val{name: "0x110000", lit: "1114112"}, val{name: "0x20AC", lit: "8364"})
		}
		for _, a := range vals {
			cs = append(cs, f1case{fam: "tostring", op: "string(x)", k: k, a: a, form: "var"})
		}
	}
	return cs
}

func shiftCase(op string, k kind, a val, ck kind, form string, c int64) f1case {
	cl := "lt-width"
	switch {
	case c < 0:
		cl = "negative"
	case c >= 64:
		cl = "ge-64"
	case c >= int64(k.bits):
		cl = "ge-width"
	}
	return f1case{fam: "shift", op: op, k: k, k2: ck, a: a, b: val{name: strconv.FormatInt(c, 10), lit: strconv.FormatInt(c, 10)}, form: form, cclass: cl}
}

func floatConvVals(k kind) []val {
	mk := func(lit string) val {
		f, _, _ := big.ParseFloat(lit, 10, 200, big.ToNearestEven)
		// the variable holds the literal rounded to the kind
		if k.bits == 32 {
			f32, _ := f.Float32()
			f = big.NewFloat(float64(f32))
		} else {
			f64, _ := f.Float64()
			f = big.NewFloat(f64)
		}
		return val{name: lit, lit: lit, num: f}
	}
	lits := []string{"0", "1", "-1", "0.1", "2.5", "-2.5", "0.9999999", "-0.9999999", "127.9", "-128.9", "255.9", "256", "32767.5", "65535.5", "-32768.5",
		"2147483520", "-2147483648", "4294967040", "16777216", "16777217", "1e18", "-1e18", "9223371487098961920", "9223372036854774784", "-9223372036854775808", "18446742974197923840", "18446744073709549568", "1e-45", "5e-324"}
	var vs []val
	for _, l := range lits {
		vs = append(vs, mk(l))
	}
	max := "1.7976931348623157e+308"
	if k.bits == 32 {
		max = "3.4028234663852886e+38"
	}
	vs = append(vs, mk(max))
	vs = append(vs,
		val{name: "-0", pre: "var z§ %s = 0\n", expr: "-z§", num: big.NewFloat(0)},
		val{name: "+Inf", pre: "var m§ %s = " + max + "\n", expr: "m§ * 2"},
		val{name: "NaN", pre: "var m§ %s = " + max + "\n", expr: "m§*2 - m§*2"},
	)
	return vs
}

// inRange reports whether the float value f, truncated toward zero, is
// representable in integer kind k (nil f = Inf/NaN: never).
func inRange(f *big.Float, k kind) bool {
	if f == nil {
		return false
	}
	i, _ := f.Int(nil) // truncates toward zero
	one := big.NewInt(1)
	var lo, hi *big.Int
	if k.signed {
		lo = new(big.Int).Neg(new(big.Int).Lsh(one, uint(k.bits-1)))
		hi = new(big.Int).Sub(new(big.Int).Lsh(one, uint(k.bits-1)), one)
	} else {
		lo = big.NewInt(0)
		hi = new(big.Int).Sub(new(big.Int).Lsh(one, uint(k.bits)), one)
	}
	return i.Cmp(lo) >= 0 && i.Cmp(hi) <= 0
}

// show prints the value of an integer expression twice: as it is, and widened
// to 64 bits. Printing alone goes through a typed reflect value, which
// truncates again and would hide a result left un-truncated in its register;
// the widening conversion reads the register as it is.
func (c f1case) show(expr string) string {
	if c.k.float || c.fam == "arith" && isCmp(c.op) {
		return "\tprintln(" + expr + ")\n"
	}
	w := "int64"
	if !c.k.signed {
		w = "uint64"
	}
	return "\tr := " + expr + "\n\tprintln(r, " + w + "(r), r > 100)\n"
}

func isCmp(op string) bool {
	for _, o := range cmpOps {
		if o == op {
			return true
		}
	}
	return false
}

func (c f1case) gen(i uint64) goprog.Case {
	var body, key string
	attrs := map[string]any{"family": c.fam, "op": c.op, "kind": c.k.name, "a": c.a.name, "form": c.form}
	switch c.fam {
	case "unary":
		body = c.a.decl("x", c.k) + c.show(c.op+"x")
		key = "family=unary op=" + c.op
	case "arith":
		attrs["b"] = c.b.name
		switch c.form {
		case "var/var":
			body = c.a.decl("x", c.k) + c.b.decl("y", c.k) + c.show("x "+c.op+" y")
		case "var/const":
			body = c.a.decl("x", c.k) + c.show("x "+c.op+" "+paren(c.b.lit))
		case "const/var":
			body = c.b.decl("y", c.k) + c.show(paren(c.a.lit)+" "+c.op+" y")
		}
		key = "family=arith op=" + c.op + " form=" + c.form
	case "shift":
		attrs["count"] = c.b.name
		attrs["countkind"] = c.k2.name
		if c.form == "var" {
			body = c.a.decl("x", c.k) + "\tvar n " + c.k2.name + " = " + c.b.lit + "\n" + c.show("x "+c.op+" n")
		} else {
			body = c.a.decl("x", c.k) + c.show("x "+c.op+" "+c.k2.name+"("+c.b.lit+")")
		}
		key = "family=shift op=" + c.op + " count=" + c.cclass
	case "conv":
		attrs["to"] = c.k2.name
		body = c.a.decl("x", c.k) + "\tprintln(" + c.k2.name + "(x))\n"
		key = "family=conv from=" + c.k.name + " to=" + c.k2.name
	case "tostring":
		body = c.a.decl("x", c.k) + "\ts := string(x)\n\tprintln(len(s), s)\n"
		key = "family=conv from=integer to=string"
	}
	kindAttr := c.k.name
	if c.fam == "conv" || c.fam == "unary" && c.op == "+" {
		// the kinds are already in the key / unary plus has no per-kind code at all
		kindAttr = ""
	}
	return goprog.Case{Body: body, Key: key, Kind: kindAttr, Attrs: attrs}
}

func f1Family(tier string) *goprog.Family {
	cs := f1Cases(tier)
	return &goprog.Family{
		Name: "F1.arith",
		Size: uint64(len(cs)),
		Gen:  func(i uint64) goprog.Case { return cs[i].gen(i) },
	}
}
