package main

// F8 — depth: plain recursion to every depth 1..D with frames that use each
// register kind (so every position of the frame pointer relative to the
// register-stack size is visited), and a go statement issued at depth d.

import (
	"fmt"
	"strings"

	"verif/gen/goprog"
)

var f8Kinds = []string{"int", "float", "string", "general", "mixed"}

func f8RecFunc(sfx uint64, kind string, pad int) string {
	var b strings.Builder
	pads := func(format string) {
		for p := 1; p <= pad; p++ {
			fmt.Fprintf(&b, format, p, p)
		}
	}
	switch kind {
	case "int":
		fmt.Fprintf(&b, "func r_%d(n int, acc int) int {\n", sfx)
		pads("\tp%d := n + %d\n")
		fmt.Fprintf(&b, "\tif n == 0 {\n\t\treturn acc\n\t}\n\tv := r_%d(n-1, acc+n)\n\tv++\n", sfx)
		pads("\tv += p%d - n - %d\n")
		b.WriteString("\treturn v\n}\n")
	case "float":
		fmt.Fprintf(&b, "func r_%d(n int, acc float64) float64 {\n", sfx)
		pads("\tp%d := acc + %d.5\n")
		fmt.Fprintf(&b, "\tif n == 0 {\n\t\treturn acc\n\t}\n\tv := r_%d(n-1, acc+1.5)\n\tv += 0.25\n", sfx)
		pads("\tv += p%d - acc - %d.5\n")
		b.WriteString("\treturn v\n}\n")
	case "string":
		fmt.Fprintf(&b, "func r_%d(n int, acc string) string {\n", sfx)
		pads("\tp%d := acc + \"%d\"\n")
		fmt.Fprintf(&b, "\tif n == 0 {\n\t\treturn acc\n\t}\n\tv := r_%d(n-1, acc+\"a\")\n\tv += \"b\"\n", sfx)
		pads("\tif len(p%d) != len(acc)+1 {\n\t\tv += \"BAD%d\"\n\t}\n")
		b.WriteString("\treturn v\n}\n")
	case "general":
		fmt.Fprintf(&b, "func r_%d(n int, acc []int) []int {\n", sfx)
		pads("\tp%d := []int{n, %d}\n")
		fmt.Fprintf(&b, "\tif n == 0 {\n\t\treturn acc\n\t}\n\tv := r_%d(n-1, append(acc, n))\n\tv = append(v, -1)\n", sfx)
		pads("\tif p%d[0] != n {\n\t\tv = append(v, -1000%d)\n\t}\n")
		b.WriteString("\treturn v\n}\n")
	case "mixed":
		fmt.Fprintf(&b, "func r_%d(n int, f float64, s string, g []int) (int, float64, string, []int) {\n", sfx)
		pads("\tp%d := n + %d\n")
		fmt.Fprintf(&b, "\tif n == 0 {\n\t\treturn n, f, s, g\n\t}\n\ta, b, c, d := r_%d(n-1, f+0.5, s+\"a\", append(g, n))\n", sfx)
		pads("\ta += p%d - n - %d\n")
		b.WriteString("\treturn a + 1, b + 1, c + \"b\", append(d, -1)\n}\n")
	}
	return b.String()
}

func f8RecBody(sfx uint64, kind string, d int) string {
	switch kind {
	case "int":
		return fmt.Sprintf("\tprintln(r_%d(%d, 0))\n", sfx, d)
	case "float":
		return fmt.Sprintf("\tprintln(r_%d(%d, 0))\n", sfx, d)
	case "string":
		return fmt.Sprintf("\tv := r_%d(%d, \"\")\n\tprintln(len(v), v[:1], v[len(v)-1:])\n", sfx, d)
	case "general":
		return fmt.Sprintf("\tv := r_%d(%d, nil)\n\tsum := 0\n\tfor _, x := range v {\n\t\tsum += x\n\t}\n\tprintln(len(v), sum)\n", sfx, d)
	}
	return fmt.Sprintf("\ta, b, c, d := r_%d(%d, 0, \"\", nil)\n\tsum := 0\n\tfor _, x := range d {\n\t\tsum += x\n\t}\n\tprintln(a, b, len(c), len(d), sum)\n", sfx, d)
}

func f8Recursion(tier string) *goprog.Family {
	maxD, pads := 600, 2
	if tier == "thorough" {
		maxD, pads = 1100, 4
	}
	nk := len(f8Kinds)
	return &goprog.Family{
		Name: "F8.recursion",
		Size: uint64(maxD * pads * nk),
		Gen: func(i uint64) goprog.Case {
			// depth is the most significant digit: shallow cases first
			kind := f8Kinds[i%uint64(nk)]
			pad := int(i / uint64(nk) % uint64(pads))
			d := int(i/uint64(nk*pads)) + 1
			return goprog.Case{
				Decls: f8RecFunc(i, kind, pad),
				Body:  f8RecBody(i, kind, d),
				Key:   "family=depth what=recursion registers=" + kind,
				Attrs: map[string]any{"family": "depth", "what": "recursion", "registers": kind, "pad": pad, "depth": d},
			}
		},
	}
}

var f8GoForms = []string{"closure", "func-args", "method-less-closure-arg"}

func f8Go(tier string) *goprog.Family {
	maxD := 600
	if tier == "thorough" {
		maxD = 1100
	}
	nf := len(f8GoForms)
	return &goprog.Family{
		Name:    "F8.go-at-depth",
		Size:    uint64(maxD * nf),
		AllowGo: true,
		Gen: func(i uint64) goprog.Case {
			form := f8GoForms[i%uint64(nf)]
			d := int(i/uint64(nf)) + 1
			var decl string
			switch form {
			case "closure":
				decl = fmt.Sprintf("func g_%[1]d(n int, ch chan int) {\n\tif n == 0 {\n\t\tgo func() {\n\t\t\tch <- 7\n\t\t}()\n\t\treturn\n\t}\n\tg_%[1]d(n-1, ch)\n}\n", i)
			case "func-args":
				decl = fmt.Sprintf("func send_%[1]d(ch chan int, a int, f float64, s string, g []int) {\n\tch <- a + int(f) + len(s) + len(g)\n}\n\nfunc g_%[1]d(n int, ch chan int) {\n\tif n == 0 {\n\t\tgo send_%[1]d(ch, 1, 2.5, \"abc\", []int{1, 2, 3, 4})\n\t\treturn\n\t}\n\tg_%[1]d(n-1, ch)\n}\n", i)
			case "method-less-closure-arg":
				decl = fmt.Sprintf("func g_%[1]d(n int, ch chan int) {\n\tif n == 0 {\n\t\tgo func(a int, s string) {\n\t\t\tch <- a + len(s)\n\t\t}(n+5, \"xy\")\n\t\treturn\n\t}\n\tg_%[1]d(n-1, ch)\n}\n", i)
			}
			return goprog.Case{
				Decls: decl,
				Body:  fmt.Sprintf("\tch := make(chan int)\n\tg_%d(%d, ch)\n\tprintln(<-ch)\n", i, d),
				Key:   "family=depth what=go-statement form=" + form,
				Attrs: map[string]any{"family": "depth", "what": "go", "form": form, "depth": d},
			}
		},
	}
}
