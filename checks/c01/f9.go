package main

// F9 — select and channels, sequential semantics only: every select statement
// of 1..3 communication cases (+ optional default) in which at most one case
// can proceed, so that the outcome is deterministic; then all channels are
// drained and printed. Plus a list of plain channel-operation templates.

import (
	"fmt"
	"strings"
	"time"

	"verif/gen/goprog"
)

type f9sym struct {
	name  string
	ready bool
}

var f9Syms = []f9sym{
	{"send-ready(var)", true},
	{"send-ready(const)", true},
	{"recv-ready(v)", true},
	{"recv-ready(v,ok)", true},
	{"recv-ready(bare)", true},
	{"recv-closed(v,ok)", true},
	{"recv-closed(v)", true},
	{"send-full", false},
	{"send-nil", false},
	{"recv-empty", false},
	{"recv-nil", false},
}

type f9elem struct {
	typ  string
	vals []string // value sent/received by case k
	fill string
}

var f9Elems = []f9elem{
	{"int", []string{"10", "20", "30"}, "99"},
	{"string", []string{`"v1"`, `"v2"`, `"v3"`}, `"fill"`},
	{"float64", []string{"1.5", "2.5", "3.5"}, "9.5"},
	{"[]int", []string{"[]int{1}", "[]int{1, 2}", "[]int{1, 2, 3}"}, "[]int{}"},
	{"int8", []string{"-1", "-2", "-3"}, "99"},
}

type f9case struct {
	syms []int
	def  bool
	elem int
}

func f9Selects() []f9case {
	var out []f9case
	var rec func(prefix []int, n int)
	for ei := range f9Elems {
		ei := ei
		rec = func(prefix []int, n int) {
			if len(prefix) == n {
				ready := 0
				for _, s := range prefix {
					if f9Syms[s].ready {
						ready++
					}
				}
				if ready > 1 {
					return
				}
				syms := append([]int{}, prefix...)
				if ready == 1 {
					out = append(out, f9case{syms, false, ei})
				}
				out = append(out, f9case{syms, true, ei})
				return
			}
			for s := range f9Syms {
				rec(append(prefix, s), n)
			}
		}
		for n := 1; n <= 3; n++ {
			rec(nil, n)
		}
	}
	return out
}

func (c f9case) body() string {
	e := f9Elems[c.elem]
	var setup, sel, drain strings.Builder
	pr := func(v string) string { // printable form of a received value
		if e.typ == "[]int" {
			return "len(" + v + ")"
		}
		return v
	}
	sel.WriteString("\tselect {\n")
	for k, si := range c.syms {
		s := f9Syms[si].name
		ch := fmt.Sprintf("c%d", k)
		switch s {
		case "send-nil", "recv-nil":
			fmt.Fprintf(&setup, "\tvar %s chan %s\n", ch, e.typ)
		default:
			fmt.Fprintf(&setup, "\t%s := make(chan %s, 1)\n", ch, e.typ)
		}
		switch s {
		case "send-full":
			fmt.Fprintf(&setup, "\t%s <- %s\n", ch, e.fill)
		case "recv-ready(v)", "recv-ready(v,ok)", "recv-ready(bare)":
			fmt.Fprintf(&setup, "\t%s <- %s\n", ch, e.vals[k])
		case "recv-closed(v,ok)", "recv-closed(v)":
			fmt.Fprintf(&setup, "\tclose(%s)\n", ch)
		}
		switch s {
		case "send-ready(var)", "send-full", "send-nil":
			fmt.Fprintf(&setup, "\tvar x%d %s = %s\n", k, e.typ, e.vals[k])
			fmt.Fprintf(&sel, "\tcase %s <- x%d:\n\t\tprintln(\"sent\", %d)\n", ch, k, k)
		case "send-ready(const)":
			fmt.Fprintf(&sel, "\tcase %s <- %s:\n\t\tprintln(\"sent\", %d)\n", ch, e.vals[k], k)
		case "recv-ready(v)", "recv-closed(v)", "recv-empty":
			v := fmt.Sprintf("v%d", k)
			fmt.Fprintf(&sel, "\tcase %s := <-%s:\n\t\tprintln(\"received\", %d, %s)\n", v, ch, k, pr(v))
		case "recv-ready(v,ok)", "recv-closed(v,ok)", "recv-nil":
			v := fmt.Sprintf("v%d", k)
			fmt.Fprintf(&sel, "\tcase %s, ok%d := <-%s:\n\t\tprintln(\"received\", %d, %s, ok%d)\n", v, k, ch, k, pr(v), k)
		case "recv-ready(bare)":
			fmt.Fprintf(&sel, "\tcase <-%s:\n\t\tprintln(\"received\", %d)\n", ch, k)
		}
		fmt.Fprintf(&drain, "\tfor len(%s) > 0 {\n\t\tw := <-%s\n\t\tprintln(\"drain\", %d, %s)\n\t}\n", ch, ch, k, pr("w"))
	}
	if c.def {
		sel.WriteString("\tdefault:\n\t\tprintln(\"default\")\n")
	}
	sel.WriteString("\t}\n")
	return setup.String() + sel.String() + drain.String()
}

func f9SelectFamily(tier string, withCtx bool) *goprog.Family {
	cs := f9Selects()
	f := &goprog.Family{
		Name: "F9.select",
		Size: uint64(len(cs)),
		Gen: func(i uint64) goprog.Case {
			c := cs[i]
			var names []string
			for _, s := range c.syms {
				names = append(names, f9Syms[s].name)
			}
			return goprog.Case{
				Body:      c.body(),
				Key:       "family=select",
				DiffLabel: goprog.DiffLine,
				Attrs:     map[string]any{"family": "select", "cases": names, "default": c.def, "elem": f9Elems[c.elem].typ},
			}
		},
	}
	if withCtx {
		// the same programs run with a cancellable context: the VM then takes its
		// other implementation of every channel operation (reflect.Select with the
		// done channel as an extra case)
		f.Name = "F9.select.ctx"
		f.Timeout = 60 * time.Second
	}
	return f
}

// plain channel operation templates
var f9Plain = []struct{ name, decls, body string }{
	{"buffered-fifo", "", "\tc := make(chan int, 3)\n\tc <- 1\n\tc <- 2\n\tc <- 3\n\tprintln(len(c), cap(c))\n\tprintln(<-c, <-c, <-c)\n\tprintln(len(c))\n"},
	{"recv-ok-closed", "", "\tc := make(chan string, 2)\n\tc <- \"a\"\n\tclose(c)\n\tv, ok := <-c\n\tprintln(v, ok)\n\tv, ok = <-c\n\tprintln(v == \"\", ok)\n"},
	{"close-closed", "", "\tc := make(chan int)\n\tclose(c)\n\tclose(c)\n"},
	{"close-nil", "", "\tvar c chan int\n\tclose(c)\n"},
	{"send-closed", "", "\tc := make(chan int, 1)\n\tclose(c)\n\tc <- 1\n"},
	{"send-closed-in-select", "", "\tc := make(chan int, 1)\n\tclose(c)\n\tselect {\n\tcase c <- 1:\n\t\tprintln(\"sent\")\n\tdefault:\n\t\tprintln(\"default\")\n\t}\n"},
	{"range-closed", "", "\tc := make(chan int, 3)\n\tc <- 4\n\tc <- 5\n\tclose(c)\n\tfor v := range c {\n\t\tprintln(v)\n\t}\n\tprintln(\"done\")\n"},
	{"makechan-negative", "", "\tn := -1\n\tc := make(chan int, n)\n\tprintln(len(c))\n"},
	{"makechan-var-size", "", "\tn := 2\n\tc := make(chan float64, n)\n\tc <- 0.5\n\tprintln(len(c), cap(c), <-c)\n"},
	{"chan-of-struct", "type T_§ struct {\n\tA int\n\tB string\n}\n", "\tc := make(chan T_§, 1)\n\tc <- T_§{3, \"x\"}\n\tv := <-c\n\tprintln(v.A, v.B)\n"},
	{"chan-of-chan", "", "\tc := make(chan chan int, 1)\n\td := make(chan int, 1)\n\tc <- d\n\td <- 8\n\te := <-c\n\tprintln(<-e)\n"},
	{"directional", "func prod_§(c chan<- int) {\n\tc <- 5\n}\n\nfunc cons_§(c <-chan int) int {\n\treturn <-c\n}\n", "\tc := make(chan int, 1)\n\tprod_§(c)\n\tprintln(cons_§(c))\n"},
	{"nil-chan-len-cap", "", "\tvar c chan int\n\tprintln(len(c), cap(c), c == nil)\n"},
	{"chan-compare", "", "\tc := make(chan int)\n\td := c\n\te := make(chan int)\n\tprintln(c == d, c == e, c != e)\n"},
	{"unbuffered-pingpong", "", "\tping := make(chan int)\n\tpong := make(chan int)\n\tgo func() {\n\t\tfor v := range ping {\n\t\t\tpong <- v * 2\n\t\t}\n\t\tclose(pong)\n\t}()\n\tfor i := 1; i <= 3; i++ {\n\t\tping <- i\n\t\tprintln(<-pong)\n\t}\n\tclose(ping)\n\t_, ok := <-pong\n\tprintln(ok)\n"},
	{"goroutine-args", "func w_§(c chan string, s string, n int) {\n\tr := \"\"\n\tfor i := 0; i < n; i++ {\n\t\tr += s\n\t}\n\tc <- r\n}\n", "\tc := make(chan string)\n\tgo w_§(c, \"ab\", 3)\n\tprintln(<-c)\n"},
	{"goroutine-closure-loopvar", "", "\tc := make(chan int)\n\tfor i := 0; i < 3; i++ {\n\t\tgo func() {\n\t\t\tc <- i\n\t\t}()\n\t\tprintln(<-c)\n\t}\n"},
	{"select-loop-fanin", "", "\ta := make(chan int)\n\tb := make(chan int)\n\tdone := make(chan bool)\n\tgo func() {\n\t\ta <- 1\n\t\t<-done\n\t\tb <- 2\n\t\t<-done\n\t\tclose(a)\n\t}()\n\tfor k := 0; k < 3; k++ {\n\t\tselect {\n\t\tcase v, ok := <-a:\n\t\t\tprintln(\"a\", v, ok)\n\t\tcase v := <-b:\n\t\t\tprintln(\"b\", v)\n\t\t}\n\t\tif k < 2 {\n\t\t\tdone <- true\n\t\t}\n\t}\n"},
	{"select-break", "", "\tc := make(chan int, 1)\n\tc <- 1\n\tfor i := 0; i < 2; i++ {\n\t\tselect {\n\t\tcase v := <-c:\n\t\t\tif v == 1 {\n\t\t\t\tbreak\n\t\t\t}\n\t\t\tprintln(\"not reached\")\n\t\tdefault:\n\t\t\tprintln(\"default\", i)\n\t\t}\n\t\tprintln(\"after\", i)\n\t}\n"},
	{"select-labeled-break", "", "\tc := make(chan int, 1)\n\tc <- 1\nL:\n\tfor i := 0; i < 3; i++ {\n\t\tselect {\n\t\tcase v := <-c:\n\t\t\tprintln(\"got\", v)\n\t\t\tcontinue L\n\t\tdefault:\n\t\t\tprintln(\"default\", i)\n\t\t\tbreak L\n\t\t}\n\t}\n\tprintln(\"end\")\n"},
	{"select-empty-default-only", "", "\tselect {\n\tdefault:\n\t\tprintln(\"default\")\n\t}\n\tprintln(\"end\")\n"},
	{"select-send-expr-evaluated", "func v_§(s string, n int) int {\n\tprintln(\"eval\", s)\n\treturn n\n}\n\nfunc ch_§(s string, c chan int) chan int {\n\tprintln(\"chan\", s)\n\treturn c\n}\n", "\ta := make(chan int, 1)\n\tb := make(chan int, 1)\n\ta <- 0\n\tselect {\n\tcase ch_§(\"a\", a) <- v_§(\"x\", 1):\n\t\tprintln(\"sent a\")\n\tcase ch_§(\"b\", b) <- v_§(\"y\", 2):\n\t\tprintln(\"sent b\")\n\t}\n\tprintln(<-a, <-b)\n"},
	{"select-recv-into-existing", "", "\tc := make(chan int, 1)\n\tc <- 4\n\tvar v int\n\tvar ok bool\n\tselect {\n\tcase v, ok = <-c:\n\t}\n\tprintln(v, ok)\n"},
	{"select-recv-into-map-elem", "", "\tc := make(chan int, 1)\n\tc <- 4\n\tm := map[string]int{}\n\tselect {\n\tcase m[\"k\"] = <-c:\n\t}\n\tprintln(m[\"k\"])\n"},
	{"sync-by-channel-sum", "", "\tc := make(chan int)\n\tdone := make(chan int)\n\tgo func() {\n\t\ts := 0\n\t\tfor v := range c {\n\t\t\ts += v\n\t\t}\n\t\tdone <- s\n\t}()\n\tfor i := 0; i < 100; i++ {\n\t\tc <- i\n\t}\n\tclose(c)\n\tprintln(<-done)\n"},
	{"recover-in-goroutine", "", "\tdone := make(chan string)\n\tgo func() {\n\t\tdefer func() {\n\t\t\tr := recover()\n\t\t\tdone <- r.(string)\n\t\t}()\n\t\tpanic(\"in goroutine\")\n\t}()\n\tprintln(<-done)\n"},
	{"select-same-var-name-in-two-clauses", "", "\ta := make(chan int, 1)\n\tb := make(chan int, 1)\n\ta <- 3\n\tselect {\n\tcase v := <-a:\n\t\tprintln(\"a\", v)\n\tcase v := <-b:\n\t\tprintln(\"b\", v)\n\t}\n"},
	{"select-same-var-name-different-types", "", "\ta := make(chan int, 1)\n\tb := make(chan string, 1)\n\tb <- \"s\"\n\tselect {\n\tcase v := <-a:\n\t\tprintln(\"a\", v)\n\tcase v, ok := <-b:\n\t\tprintln(\"b\", v, ok)\n\t}\n"},
	{"select-shadowing-outer-var", "", "\tv := 100\n\ta := make(chan int, 1)\n\ta <- 3\n\tselect {\n\tcase v := <-a:\n\t\tprintln(\"a\", v)\n\t}\n\tprintln(v)\n"},
	{"send-two-values-two-chans", "", "\ta := make(chan int, 1)\n\tb := make(chan int, 1)\n\tx, y := 1, 2\n\ta <- x\n\tb <- y\n\tprintln(<-a, <-b)\n"},
}

func f9PlainFamily() *goprog.Family {
	return &goprog.Family{
		Name:    "F9.channels",
		Size:    uint64(len(f9Plain)),
		AllowGo: true,
		Gen: func(i uint64) goprog.Case {
			t := f9Plain[i]
			sfx := fmt.Sprint(i)
			return goprog.Case{
				Decls: strings.ReplaceAll(t.decls, "§", sfx),
				Body:  strings.ReplaceAll(t.body, "§", sfx),
				Key:   "family=channels template=" + t.name,
				Attrs: map[string]any{"family": "channels", "template": t.name},
			}
		},
	}
}
