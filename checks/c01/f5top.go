package main

// F5.toplevel — whole programs WITHOUT any recover wrapper: the final outcome
// of the program itself is compared: gc's exit status (0 or 2) and the
// "panic: …" header lines it writes (goroutine trace stripped) against what
// Program.Run returns (nil or a *PanicError, whose Error() text must be that
// header), plus everything printed before.

import (
	"fmt"
	"regexp"
	"strings"
	"sync"

	"verif/gen/goprog"
	"verif/kit"
	"verif/oracle/gcref"
)

var f5Top = []struct{ name, decls, main string }{
	{"normal-exit", "", "\tprintln(\"done\")\n"},
	{"panic-string", "", "\tprintln(\"before\")\n\tpanic(\"boom\")\n"},
	{"panic-int", "", "\tpanic(42)\n"},
	{"panic-negative-int8", "", "\tpanic(int8(-3))\n"},
	{"panic-uint64", "", "\tpanic(uint64(18446744073709551615))\n"},
	{"panic-bool", "", "\tpanic(true)\n"},
	{"panic-float64", "", "\tpanic(1.5)\n"},
	{"panic-named-int", "type T int\n", "\tpanic(T(7))\n"},
	{"panic-named-string", "type S string\n", "\tpanic(S(\"x\"))\n"},
	{"panic-nil", "", "\tpanic(nil)\n"},
	{"panic-string-with-newline", "", "\tpanic(\"line1\\nline2\")\n"},
	{"fault-index", "", "\tvar a []int\n\ti := 5\n\tprintln(a[i])\n"},
	{"fault-nil-map", "", "\tvar m map[string]int\n\tm[\"a\"] = 1\n"},
	{"fault-div-zero", "", "\tz := 0\n\tprintln(1 / z)\n"},
	{"fault-nil-deref", "type T struct {\n\tA int\n}\n", "\tvar p *T\n\tprintln(p.A)\n"},
	{"fault-type-assertion", "", "\tvar v interface{} = \"s\"\n\tprintln(v.(int))\n"},
	{"fault-slice-bounds", "", "\ts := []int{1, 2, 3}\n\ti := 5\n\tprintln(len(s[i:]))\n"},
	{"fault-close-nil-chan", "", "\tvar c chan int\n\tclose(c)\n"},
	{"fault-negative-shift", "", "\tn := -1\n\tprintln(1 << n)\n"},
	{"fault-makeslice", "", "\tn := -1\n\tprintln(len(make([]int, n)))\n"},
	{"panic-in-called-function", "func f(n int) int {\n\tif n == 0 {\n\t\tpanic(\"deep\")\n\t}\n\treturn f(n-1) + 1\n}\n", "\tprintln(f(3))\n"},
	{"panic-after-deferred-print", "", "\tdefer println(\"deferred 1\")\n\tdefer func() {\n\t\tprintln(\"deferred 2\")\n\t}()\n\tpanic(\"boom\")\n"},
	{"panic-in-defer-during-panic", "", "\tdefer func() {\n\t\tpanic(\"second\")\n\t}()\n\tpanic(\"first\")\n"},
	{"three-panics", "", "\tdefer func() {\n\t\tpanic(\"third\")\n\t}()\n\tdefer func() {\n\t\tpanic(\"second\")\n\t}()\n\tpanic(\"first\")\n"},
	{"recover-then-panic-other", "", "\tdefer func() {\n\t\tr := recover()\n\t\tprintln(\"recovered\", r.(string))\n\t\tpanic(\"second\")\n\t}()\n\tpanic(\"first\")\n"},
	{"recover-then-repanic-same", "", "\tdefer func() {\n\t\tr := recover()\n\t\tpanic(r)\n\t}()\n\tpanic(\"first\")\n"},
	{"recovered-in-inner-then-outer-panics", "func inner() {\n\tdefer func() {\n\t\trecover()\n\t}()\n\tpanic(\"inner\")\n}\n", "\tinner()\n\tprintln(\"inner recovered\")\n\tpanic(\"outer\")\n"},
	{"panic-in-defer-of-normal-return", "func f() {\n\tdefer func() {\n\t\tpanic(\"in defer\")\n\t}()\n\tprintln(\"f body\")\n}\n", "\tf()\n\tprintln(\"not reached\")\n"},
	{"runtime-error-repanicked", "", "\tdefer func() {\n\t\tr := recover()\n\t\tpanic(r)\n\t}()\n\tvar a []int\n\ti := 1\n\tprintln(a[i])\n"},
	{"panic-in-package-var-init", "var v = f()\n\nfunc f() int {\n\tpanic(\"init\")\n}\n", "\tprintln(v)\n"},
	{"panic-in-init-func", "func init() {\n\tpanic(\"init func\")\n}\n", "\tprintln(\"main\")\n"},
}

var repanicked = regexp.MustCompile(`(?m)^(\t?)panic: (.*) \[recovered, repanicked\]$`)

// normHeader removes two purely presentational habits of the go1.25 crash
// printer that are not part of the panic *message*: a value re-panicked after
// recover is shown once as "X [recovered, repanicked]" (older toolchains and
// Scriggo show the chain "X [recovered]" + "panic: X"), and the continuation
// lines of a multi-line message are indented with a tab.
func normHeader(h string) string {
	h = repanicked.ReplaceAllString(h, "${1}panic: $2 [recovered]\n\tpanic: $2")
	lines := strings.Split(h, "\n")
	for i, ln := range lines {
		if i > 0 && strings.HasPrefix(ln, "\t") && !strings.HasPrefix(ln, "\tpanic: ") {
			lines[i] = ln[1:]
		}
	}
	return strings.Join(lines, "\n")
}

type f5TopResult struct {
	once sync.Once
	res  *gcref.Result
	err  error
}

var f5TopCache = make([]f5TopResult, len(f5Top))

func f5TopSource(i uint64) []byte {
	t := f5Top[i]
	var b strings.Builder
	b.WriteString("package main\n\n")
	if t.decls != "" {
		b.WriteString(t.decls + "\n")
	}
	b.WriteString("func main() {\n" + t.main + "}\n")
	return []byte(b.String())
}

func f5TopGC(i uint64) (*gcref.Result, error) {
	c := &f5TopCache[i]
	c.once.Do(func() { c.res, c.err = gcref.Run(f5TopSource(i)) })
	return c.res, c.err
}

func f5TopPrefill(par int) error {
	sem := make(chan struct{}, par)
	var wg sync.WaitGroup
	var mu sync.Mutex
	var first error
	for i := range f5Top {
		wg.Add(1)
		sem <- struct{}{}
		go func(i uint64) {
			defer wg.Done()
			defer func() { <-sem }()
			if _, err := f5TopGC(i); err != nil {
				mu.Lock()
				first = err
				mu.Unlock()
			}
		}(uint64(i))
	}
	wg.Wait()
	return first
}

func f5TopSpace() kit.Space {
	return kit.Space{
		Name: "F5.toplevel",
		Size: uint64(len(f5Top)),
		Describe: func(i uint64) any {
			return map[string]any{"family": "toplevel", "template": f5Top[i].name, "program": string(f5TopSource(i))}
		},
		Eval: func(i uint64) kit.Outcome {
			src := f5TopSource(i)
			gc, err := f5TopGC(i)
			if err != nil {
				panic("harness: gc oracle unavailable: " + err.Error())
			}
			if !gc.BuildOK {
				return kit.Outcome{OK: true, Class: "not-a-valid-program(gc rejects)", Detail: gc.BuildErr}
			}
			if gc.ExitCode != 0 && gc.ExitCode != 2 || gc.TimedOut {
				panic(fmt.Sprintf("harness: gc program %s exits with %d", f5Top[i].name, gc.ExitCode))
			}
			wantOut := string(gc.Stderr)
			wantHdr := ""
			if gc.ExitCode == 2 {
				wantHdr = gcref.PanicHeader(gc.Stderr)
				if k := strings.Index(wantOut, wantHdr); k >= 0 && wantHdr != "" {
					wantOut = wantOut[:k]
				}
				// gc adds the location of a goexit/fatal line "[signal …" for nil derefs
				if k := strings.Index(wantHdr, "\n[signal "); k >= 0 {
					wantHdr = wantHdr[:k]
				}
			}
			wantHdr = normHeader(wantHdr)
			got := goprog.RunScriggo(src, false, 0)
			gotHdr := ""
			switch got.Status {
			case "ok":
			case "panic":
				gotHdr = "panic: " + got.Msg
			default:
				gotHdr = got.Status + ": " + got.Msg
			}
			o := kit.Outcome{OK: true, Nontrivial: true, Ops: 1, Class: "final outcome same (normal return)"}
			if wantHdr != "" {
				o.Class = "final outcome same (unrecovered panic)"
			}
			if got.Out == wantOut && gotHdr == wantHdr {
				return o
			}
			o.OK = false
			what := "panic-message"
			switch {
			case got.Status == "host-panic":
				o.Key = "hostpanic|" + got.Frame + "|" + kit.NormMsg(got.Msg)
			case (wantHdr == "") != (gotHdr == ""):
				what = "final-outcome"
			case got.Out != wantOut:
				what = "output-before-the-panic"
			}
			if o.Key == "" {
				o.Key = "family=toplevel template=" + f5Top[i].name + " differs=" + what
			}
			o.Class = "FAIL " + what
			o.Detail = fmt.Sprintf("program:\n%s\ngc: exit %d, printed %q, header %q\nscriggo: status %s, printed %q, header %q", src, gc.ExitCode, wantOut, wantHdr, got.Status, got.Out, gotHdr)
			return o
		},
	}
}
