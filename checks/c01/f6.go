package main

// F6 — closures, methods, interfaces and value semantics: hand-written
// templates, each instantiated for every value of its parameter list.
// § is replaced by the case index (package-level names), ¤ by the parameter.

import (
	"fmt"
	"strings"

	"verif/gen/goprog"
)

type f6tpl struct {
	name   string
	params []string // "" = no parameter
	decls  string
	body   string
}

var intTypes = []string{"int", "int8", "int16", "int32", "int64", "uint", "uint8", "uint16", "uint32", "uint64"}
var elemTypes = []string{"int", "int8", "uint16", "float64", "float32", "string", "bool"}

func zeroish(t string) string {
	switch t {
	case "string":
		return `"s"`
	case "bool":
		return "true"
	case "float64", "float32":
		return "2.5"
	}
	return "7"
}

var f6Templates = []f6tpl{
	{"ptr-to-array-index-assign", []string{"1", "3", "8"}, "", "\ta := new([¤]int)\n\ta[0] = 5\n\ta[¤-1] += 2\n\tprintln(a[0], a[¤-1], len(a))\n"},
	{"ptr-to-array-range", nil, "", "\ta := &[3]int{1, 2, 3}\n\tfor i, v := range a {\n\t\ta[i] = v * 2\n\t}\n\tprintln(a[0], a[1], a[2])\n"},
	{"ptr-to-array-slice", nil, "", "\ta := &[4]int{1, 2, 3, 4}\n\ts := a[1:3]\n\ts[0] = 9\n\tprintln(a[1], len(s), cap(s))\n"},
	{"array-value-copy", elemTypes, "", "\tvar a [2]¤\n\tb := a\n\tb[0] = V\n\tc := [2][2]¤{a, b}\n\td := c\n\td[1][1] = V\n\tprintln(a[0] == b[0], c[1][0] == b[0], c[1][1] == d[1][1])\n"},
	{"struct-value-copy", elemTypes, "type T_§ struct {\n\tA ¤\n\tB [2]¤\n\tP *¤\n}\n", "\tvar x ¤ = V\n\ts := T_§{A: x, P: &x}\n\tt := s\n\tt.B[1] = V\n\t*t.P = s.B[0]\n\tprintln(s.A == V, s.B[1] == V, t.B[1] == V, x == V, *s.P == x)\n"},
	{"struct-in-map", nil, "type T_§ struct {\n\tA int\n\tB string\n}\n", "\tm := map[string]T_§{}\n\tm[\"k\"] = T_§{1, \"x\"}\n\tv := m[\"k\"]\n\tv.A = 2\n\tprintln(m[\"k\"].A, v.A, m[\"missing\"].B == \"\")\n"},
	{"slice-of-struct-modify", nil, "type T_§ struct {\n\tA int\n}\n", "\ts := []T_§{{1}, {2}}\n\tfor _, v := range s {\n\t\tv.A = 9\n\t}\n\tfor i := range s {\n\t\ts[i].A += 10\n\t}\n\tp := &s[0]\n\tp.A++\n\tprintln(s[0].A, s[1].A)\n"},
	{"closure-capture-by-reference", elemTypes, "", "\tvar x ¤\n\tset := func(v ¤) {\n\t\tx = v\n\t}\n\tget := func() ¤ {\n\t\treturn x\n\t}\n\tset(V)\n\tprintln(get() == V, x == V)\n"},
	{"closure-counter", intTypes, "func mk_§() func() ¤ {\n\tvar n ¤\n\treturn func() ¤ {\n\t\tn += 100\n\t\treturn n\n\t}\n}\n", "\tf, g := mk_§(), mk_§()\n\tf()\n\tf()\n\tprintln(f(), g())\n"},
	{"closure-per-iteration-loopvar", []string{"for3", "range-slice"}, "", "LOOPFUNCS\n\tfor _, f := range fs {\n\t\tprintln(f())\n\t}\n"},
	{"closure-recursive", nil, "", "\tvar fib func(n int) int\n\tfib = func(n int) int {\n\t\tif n < 2 {\n\t\t\treturn n\n\t\t}\n\t\treturn fib(n-1) + fib(n-2)\n\t}\n\tprintln(fib(15))\n"},
	{"closure-nested-3-levels", nil, "", "\tx := 1\n\tf := func() func() func() int {\n\t\ty := x + 1\n\t\treturn func() func() int {\n\t\t\tz := y + x\n\t\t\treturn func() int {\n\t\t\t\tx++\n\t\t\t\treturn x + y + z\n\t\t\t}\n\t\t}\n\t}\n\tg := f()()\n\tprintln(g(), g(), x)\n"},
	{"closure-captures-param-and-result", nil, "func f_§(a int) (r int) {\n\tdefer func() {\n\t\tr += a\n\t}()\n\ta *= 2\n\treturn a + 1\n}\n", "\tprintln(f_§(5))\n"},
	{"method-value-receiver", nil, "type T_§ struct {\n\tn int\n}\n\nfunc (t T_§) Get() int {\n\treturn t.n\n}\n\nfunc (t *T_§) Inc() {\n\tt.n++\n}\n", "\tt := T_§{1}\n\tg := t.Get\n\tinc := t.Inc\n\tinc()\n\tinc()\n\tprintln(g(), t.Get(), t.n)\n"},
	{"method-expression", nil, "type T_§ struct {\n\tn int\n}\n\nfunc (t T_§) Add(k int) int {\n\treturn t.n + k\n}\n\nfunc (t *T_§) Set(k int) {\n\tt.n = k\n}\n", "\tt := T_§{1}\n\tf := T_§.Add\n\tg := (*T_§).Set\n\tg(&t, 5)\n\tprintln(f(t, 2))\n"},
	{"method-on-named-basic", intTypes, "type N_§ ¤\n\nfunc (n N_§) Double() N_§ {\n\treturn n * 2\n}\n\nfunc (n *N_§) Bump() {\n\t*n += 100\n}\n", "\tvar n N_§ = 100\n\tn.Bump()\n\tprintln(n.Double(), n)\n"},
	{"method-on-slice-and-map", nil, "type S_§ []int\n\nfunc (s S_§) Sum() (t int) {\n\tfor _, v := range s {\n\t\tt += v\n\t}\n\treturn\n}\n\ntype M_§ map[string]int\n\nfunc (m M_§) Put(k string) {\n\tm[k]++\n}\n", "\ts := S_§{1, 2, 3}\n\tm := M_§{}\n\tm.Put(\"a\")\n\tm.Put(\"a\")\n\tprintln(s.Sum(), m[\"a\"], len(m))\n"},
	{"embedded-struct-promotion", nil, "type A_§ struct {\n\tX int\n}\n\nfunc (a A_§) Name() string {\n\treturn \"A\"\n}\n\nfunc (a *A_§) SetX(v int) {\n\ta.X = v\n}\n\ntype B_§ struct {\n\tA_§\n\tY int\n}\n\nfunc (b B_§) Name() string {\n\treturn \"B\" + b.A_§.Name()\n}\n", "\tb := B_§{A_§{1}, 2}\n\tb.SetX(7)\n\tprintln(b.X, b.A_§.X, b.Y, b.Name())\n"},
	{"embedded-pointer-nil-deref", nil, "type A_§ struct {\n\tX int\n}\n\ntype B_§ struct {\n\t*A_§\n}\n", "\tvar b B_§\n\tprintln(b.A_§ == nil)\n\tprintln(b.X)\n"},
	{"interface-dispatch", nil, "type Sh_§ interface {\n\tArea() int\n}\n\ntype Sq_§ struct {\n\ts int\n}\n\nfunc (q Sq_§) Area() int {\n\treturn q.s * q.s\n}\n\ntype Re_§ struct {\n\tw, h int\n}\n\nfunc (r *Re_§) Area() int {\n\treturn r.w * r.h\n}\n", "\tshapes := []Sh_§{Sq_§{3}, &Re_§{2, 5}}\n\tt := 0\n\tfor _, s := range shapes {\n\t\tt = t*100 + s.Area()\n\t}\n\tprintln(t)\n"},
	{"interface-embedded", nil, "type R_§ interface {\n\tRead() string\n}\n\ntype W_§ interface {\n\tWrite(s string)\n}\n\ntype RW_§ interface {\n\tR_§\n\tW_§\n}\n\ntype F_§ struct {\n\tbuf string\n}\n\nfunc (f *F_§) Read() string {\n\treturn f.buf\n}\n\nfunc (f *F_§) Write(s string) {\n\tf.buf += s\n}\n", "\tvar rw RW_§ = &F_§{}\n\trw.Write(\"ab\")\n\tvar r R_§ = rw\n\t_, ok := r.(W_§)\n\tprintln(r.Read(), ok)\n"},
	{"type-switch", []string{"1", "int8(2)", "\"s\"", "2.5", "nil", "[]int{1}", "true", "E_§{}", "&E_§{}", "uint(3)", "'x'"}, "type E_§ struct{}\n\nfunc (e E_§) Error() string {\n\treturn \"E\"\n}\n", "\tvar v interface{} = ¤\n\tswitch x := v.(type) {\n\tcase nil:\n\t\tprintln(\"nil\")\n\tcase int:\n\t\tprintln(\"int\", x)\n\tcase int8, int32:\n\t\tprintln(\"small\")\n\tcase string:\n\t\tprintln(\"string\", x)\n\tcase float64:\n\t\tprintln(\"float64\", x)\n\tcase error:\n\t\tprintln(\"error\", x.Error())\n\tcase []int:\n\t\tprintln(\"slice\", len(x))\n\tcase bool:\n\t\tprintln(\"bool\", x)\n\tdefault:\n\t\tprintln(\"other\")\n\t}\n"},
	{"failed-assertion", []string{"int", "string", "float64", "error", "[]int", "*int", "interface{ M() }", "T_§", "*T_§"}, "type T_§ struct{}\n", "\tvar v interface{} = int8(1)\n\tx, ok := v.(¤)\n\t_ = x\n\tprintln(ok)\n\ty := v.(¤)\n\t_ = y\n\tprintln(\"not reached\")\n"},
	{"failed-assertion-nil", []string{"int", "error", "interface{ M() }"}, "", "\tvar v interface{}\n\t_, ok := v.(¤)\n\tprintln(ok)\n\ty := v.(¤)\n\t_ = y\n\tprintln(\"not reached\")\n"},
	{"failed-assertion-named-iface", []string{"int", "string"}, "type I_§ interface {\n\tM()\n}\n\ntype T_§ struct{}\n\nfunc (T_§) M() {}\n", "\tvar v I_§ = T_§{}\n\t_, ok := v.(interface{ N() })\n\tprintln(ok)\n\tvar e interface{} = v\n\ty := e.(¤)\n\t_ = y\n\tprintln(\"not reached\")\n"},
	{"interface-nil-comparison", nil, "type E_§ struct{}\n\nfunc (e *E_§) Error() string {\n\treturn \"E\"\n}\n\nfunc f_§(fail bool) error {\n\tvar p *E_§\n\tif fail {\n\t\tp = &E_§{}\n\t}\n\treturn p\n}\n\nfunc g_§() error {\n\treturn nil\n}\n", "\tprintln(f_§(false) == nil, f_§(true) == nil, g_§() == nil)\n"},
	{"interface-equality", nil, "type P_§ struct {\n\tA int\n\tB string\n}\n", "\tvar a, b interface{} = P_§{1, \"x\"}, P_§{1, \"x\"}\n\tvar c interface{} = &P_§{1, \"x\"}\n\tvar d, e interface{} = 1, int8(1)\n\tprintln(a == b, a == c, d == e, d == 1, a != nil)\n"},
	{"interface-compare-uncomparable", nil, "", "\tvar a, b interface{} = []int{1}, []int{1}\n\tprintln(a == b)\n"},
	{"map-key-uncomparable", nil, "", "\tm := map[interface{}]int{}\n\tm[1] = 1\n\tprintln(len(m))\n\tm[[]int{1}] = 2\n\tprintln(\"not reached\")\n"},
	{"variadic", nil, "func sum_§(base int, xs ...int) int {\n\tfor _, x := range xs {\n\t\tbase += x\n\t}\n\treturn base*10 + len(xs)\n}\n", "\ts := []int{1, 2, 3}\n\tprintln(sum_§(1), sum_§(1, 2), sum_§(1, s...), sum_§(1, s[:0]...))\n"},
	{"variadic-aliasing", nil, "func z_§(xs ...int) {\n\tif len(xs) > 0 {\n\t\txs[0] = 0\n\t}\n}\n", "\ts := []int{1, 2}\n\tz_§(s...)\n\ta, b := 5, 6\n\tz_§(a, b)\n\tprintln(s[0], a)\n"},
	{"multiple-returns-swap", elemTypes, "func two_§(a, b ¤) (¤, ¤) {\n\treturn b, a\n}\n", "\tvar zero ¤\n\tvar a, b ¤ = V, zero\n\ta, b = two_§(a, b)\n\ta, b = b, a\n\tprintln(a == V, b == zero)\n"},
	{"named-results-and-defer", nil, "func f_§(n int) (a int, s string) {\n\tdefer func() {\n\t\ta *= 2\n\t\ts += \"!\"\n\t}()\n\tif n > 0 {\n\t\treturn n, \"pos\"\n\t}\n\ta, s = -1, \"neg\"\n\treturn\n}\n", "\ta, s := f_§(3)\n\tb, t := f_§(0)\n\tprintln(a, s, b, t)\n"},
	{"defer-order-and-args", nil, "", "\tfor i := 0; i < 3; i++ {\n\t\tdefer println(\"deferred\", i)\n\t\tdefer func(n int) {\n\t\t\tprintln(\"closure\", n, i)\n\t\t}(i * 10)\n\t}\n\tprintln(\"body done\")\n"},
	{"defer-method-value", nil, "type T_§ struct {\n\tn int\n}\n\nfunc (t T_§) Show() {\n\tprintln(\"show\", t.n)\n}\n\nfunc (t *T_§) PShow() {\n\tprintln(\"pshow\", t.n)\n}\n", "\tt := T_§{1}\n\tdefer t.Show()\n\tdefer t.PShow()\n\tt.n = 2\n"},
	{"switch-no-tag-fallthrough", []string{"-5", "0", "5", "50"}, "", "\tx := ¤\n\tswitch {\n\tcase x < 0:\n\t\tprintln(\"neg\")\n\t\tfallthrough\n\tcase x == 0:\n\t\tprintln(\"zero-or-fell\")\n\tcase x < 10:\n\t\tprintln(\"small\")\n\tdefault:\n\t\tprintln(\"big\")\n\t}\n"},
	{"switch-init-and-shadow", nil, "", "\tx := 1\n\tswitch x := x + 1; x {\n\tcase 1:\n\t\tprintln(\"one\")\n\tcase 2:\n\t\tx := x * 10\n\t\tprintln(\"two\", x)\n\t}\n\tprintln(x)\n"},
	{"const-iota", nil, "const (\n\tA_§ = iota * 10\n\tB_§\n\t_\n\tD_§\n)\n\ntype W_§ uint8\n\nconst (\n\tM_§ W_§ = 1 << iota\n\tN_§\n\tO_§\n)\n", "\tprintln(A_§, B_§, D_§, M_§, N_§, O_§, M_§|O_§)\n"},
	{"string-iteration-build", nil, "", "\ts := \"\"\n\tfor i := 0; i < 5; i++ {\n\t\ts += string(rune('a' + i))\n\t}\n\tb := []byte(s)\n\tfor i, j := 0, len(b)-1; i < j; i, j = i+1, j-1 {\n\t\tb[i], b[j] = b[j], b[i]\n\t}\n\tprintln(s, string(b))\n"},
	{"slice-of-slices-aliasing", nil, "", "\tg := make([][]int, 2)\n\trow := []int{1, 2}\n\tg[0], g[1] = row, row\n\tg[0][0] = 9\n\tg[1] = append(g[1], 3)\n\tg[1][1] = 8\n\tprintln(g[0][0], g[1][0], g[0][1], g[1][1], len(g[0]), len(g[1]))\n"},
	{"map-of-slices-and-delete-during-range", nil, "", "\tm := map[int][]int{1: {1}, 2: {2}}\n\tm[1] = append(m[1], 5)\n\tm[3] = append(m[3], 7)\n\tn := 0\n\tfor k := range m {\n\t\tdelete(m, k)\n\t\tn++\n\t}\n\tprintln(n, len(m))\n"},
	{"compound-assign-ops", intTypes, "", "\tvar x ¤ = 100\n\tx += 27\n\tx -= 1\n\tx *= 3\n\tx /= 2\n\tx %= 50\n\tx <<= 2\n\tx >>= 1\n\tx |= 5\n\tx &= 127\n\tx ^= 3\n\tx &^= 2\n\tx++\n\tx--\n\tprintln(x)\n"},
	{"compound-assign-on-index-and-field", nil, "type T_§ struct {\n\tA []int\n\tM map[string]int\n}\n\nfunc idx_§(s string) int {\n\tprintln(\"idx\", s)\n\treturn 0\n}\n", "\tt := T_§{[]int{1}, map[string]int{}}\n\tt.A[idx_§(\"a\")] += 5\n\tt.M[\"k\"] += 2\n\tt.M[\"k\"] *= 4\n\tt.A[idx_§(\"b\")]++\n\tprintln(t.A[0], t.M[\"k\"])\n"},
	{"evaluation-order", nil, "func e_§(s string, v int) int {\n\tprintln(\"eval\", s)\n\treturn v\n}\n", "\ta := []int{0, 0, 0}\n\ta[e_§(\"i\", 1)] = e_§(\"x\", 2) + e_§(\"y\", 3)*e_§(\"z\", 4)\n\tm := map[int]int{}\n\tm[e_§(\"k\", 1)], a[e_§(\"j\", 2)] = e_§(\"p\", 5), e_§(\"q\", 6)\n\tprintln(a[1], a[2], m[1])\n"},
	{"short-circuit", nil, "func b_§(s string, v bool) bool {\n\tprintln(\"eval\", s)\n\treturn v\n}\n", "\tprintln(b_§(\"a\", false) && b_§(\"b\", true), b_§(\"c\", true) || b_§(\"d\", false), b_§(\"e\", true) && b_§(\"f\", false) || b_§(\"g\", true))\n"},
	{"goto-loop", nil, "", "\ti := 0\nloop:\n\tif i < 3 {\n\t\tprintln(i)\n\t\ti++\n\t\tgoto loop\n\t}\n\tprintln(\"end\")\n"},
	{"labeled-continue-outer", nil, "", "outer:\n\tfor i := 0; i < 3; i++ {\n\t\tfor j := 0; j < 3; j++ {\n\t\t\tif j == 2 {\n\t\t\t\tcontinue outer\n\t\t\t}\n\t\t\tif i == 2 {\n\t\t\t\tbreak outer\n\t\t\t}\n\t\t\tprintln(i, j)\n\t\t}\n\t}\n"},
	{"func-value-nil-call", nil, "", "\tvar f func() int\n\tprintln(f == nil)\n\tprintln(f())\n"},
	{"nil-map-read-and-nil-slice", nil, "", "\tvar m map[string]int\n\tvar s []int\n\tv, ok := m[\"a\"]\n\tfor range m {\n\t\tprintln(\"never\")\n\t}\n\ts = append(s, 1)\n\tprintln(v, ok, len(m), len(s), s[0])\n"},
	{"nil-pointer-deref", []string{"field-read", "field-write", "method-value-recv", "deref"}, "type T_§ struct {\n\tA int\n}\n\nfunc (t T_§) V() int {\n\treturn t.A\n}\n", "\tvar p *T_§\n\tprintln(p == nil)\nNILDEREF\n\tprintln(\"not reached\")\n"},
	{"integer-divide-by-zero-forms", []string{"_ = x / y", "_ = x % y", "x /= y", "x %= y"}, "", "\tx, y := 5, 0\n\t¤\n\tprintln(\"not reached\", x)\n"},
	{"array-index-out-of-range", []string{"a[i]", "a[i] = 1", "p[i]", "s[i]", "s[i] = 1", "s[i]++"}, "", "\ta := [3]int{}\n\tp := &a\n\ts := a[:2]\n\ti := 3\n\t_, _, _ = a, p, s\n\tSTMT\n\tprintln(\"not reached\")\n"},
	{"slice3-bounds", []string{"s[1:2:3]", "s[0:0:0]", "s[2+i:1:3]", "s[1:4+i:3]", "s[1:2:5+i]", "a[1:2:4]", "a[:5+i]"}, "", "\ta := [4]int{1, 2, 3, 4}\n\ts := a[:3]\n\ti := 0\n\t_, _ = i, s\n\tr := ¤\n\tprintln(len(r), cap(r))\n"},
	{"make-slice-bad-size", []string{"make([]int, n)", "make([]int, 1, n)", "make([]int, 5, m)"}, "", "\tn, m := -1, 2\n\t_, _ = n, m\n\ts := ¤\n\tprintln(len(s))\n"},
	{"copy-overlap-and-string", nil, "", "\ts := []int{1, 2, 3, 4, 5}\n\tn := copy(s[1:], s)\n\tb := make([]byte, 3)\n\tk := copy(b, \"héllo\")\n\tprintln(n, s[0], s[1], s[4], k, b[1], b[2])\n"},
	{"append-growth-aliasing", nil, "", "\ta := make([]int, 2, 3)\n\tb := append(a, 1)\n\tc := append(a, 2)\n\td := append(c, 3)\n\td[0] = 9\n\tprintln(b[2], c[2], a[0], d[0], len(d), cap(a))\n"},
	{"struct-comparison-and-array-comparison", nil, "type P_§ struct {\n\tA int\n\tB string\n\tC [2]bool\n}\n", "\ta, b := P_§{1, \"x\", [2]bool{true, false}}, P_§{1, \"x\", [2]bool{true, false}}\n\tc := b\n\tc.C[1] = true\n\tx, y := [3]int{1, 2, 3}, [3]int{1, 2, 3}\n\tprintln(a == b, a == c, a != c, x == y)\n"},
	{"pointer-to-local-escapes", nil, "func np_§(v int) *int {\n\tx := v\n\treturn &x\n}\n", "\tp, q := np_§(1), np_§(1)\n\t*p += 5\n\tprintln(*p, *q, p == q, p != nil)\n"},
	{"pointer-to-struct-field-and-elem", nil, "type T_§ struct {\n\tA, B int\n}\n", "\tt := T_§{1, 2}\n\tpa := &t.B\n\t*pa = 7\n\ts := []int{1, 2, 3}\n\tps := &s[1]\n\t*ps = 8\n\ts = append(s, 4)\n\t*ps = 9\n\tm := [2]int{}\n\tpm := &m[1]\n\t*pm = 3\n\tprintln(t.B, s[1], m[1])\n"},
	{"pointer-deref-compound-assign", []string{"+= 1", "-= 2", "*= 3", "++", "|= 8", "<<= 1"}, "", "\tfiller := 1000\n\t_ = filler + 1\n\tz := 5\n\tq := &z\n\t*q ¤\n\tprintln(z)\n"},
	{"pointer-deref-compound-assign-other-kinds", []string{"float64", "string", "uint8"}, "", "\tvar z ¤ = V\n\tq := &z\n\t*q += V\n\tprintln(z)\n"},
	{"tuple-assign-array-elements", []string{"local", "package", "captured", "struct-field", "slice"}, "var ga_§ = [3]int{1, 2, 3}\n", "TUPLE"},
	{"recursive-struct-type", []string{"[]*N_§", "*N_§", "map[string]*N_§", "[]N_§"}, "type N_§ struct {\n\tv    int\n\tnext ¤\n}\n", "\tn := N_§{v: 1}\n\tm := N_§{v: 2}\n\t_ = m\n\tprintln(n.v, n.next == nil)\n"},
	{"shadowing-and-scopes", nil, "", "\tx := 1\n\t{\n\t\tx := x + 1\n\t\tx++\n\t\tprintln(x)\n\t}\n\tif x := x * 10; x > 5 {\n\t\tprintln(x)\n\t} else {\n\t\tprintln(-x)\n\t}\n\tfor x := 0; x < 1; x++ {\n\t\tx := x + 100\n\t\tprintln(x)\n\t}\n\tprintln(x)\n"},
	{"float-to-string-of-constants", nil, "", "\tconst big = 1 << 100\n\tvar f float64 = big\n\tvar g float32 = big >> 98\n\tprintln(f, g, big>>99)\n"},
	{"typed-const-overflow-wrap-at-runtime", intTypes, "", "\tvar x ¤ = 1\n\tfor i := 0; i < 70; i++ {\n\t\tx = x*2 + 1\n\t}\n\tprintln(x)\n"},
	{"complex-numbers", nil, "", "\tvar c complex128 = complex(1, 2)\n\td := c * c\n\tvar e complex64 = complex64(d) + 1i\n\tprintln(real(d), imag(d), real(e), imag(e), c == complex(1, 2))\n"},
	{"rune-and-byte-arith", nil, "", "\tvar r rune = 'a'\n\tvar b byte = 'z'\n\tr += 25\n\tb -= 25\n\tb += 200\n\tprintln(r, b, string(r), r == 'z')\n"},
	{"bool-ops", nil, "", "\ta, b := true, false\n\tprintln(a && b, a || b, !a, a == b, a != b, !(a && !b))\n"},
	{"print-formats", nil, "", "\tprint(1, \"a\", 2.5, true, \"\\n\")\n\tprintln()\n\tprintln(\"x\", -1, uint8(255), int64(-9223372036854775807), float32(0.1), 1e100, \"\")\n"},
	{"struct-with-func-field", nil, "type T_§ struct {\n\tF func(int) int\n\tn int\n}\n", "\tt := T_§{n: 3}\n\tt.F = func(x int) int {\n\t\treturn x * t.n\n\t}\n\tu := t\n\tu.n = 10\n\tprintln(t.F(2), u.F(2))\n"},
	{"method-value-captures-copy", nil, "type T_§ struct {\n\tn int\n}\n\nfunc (t T_§) Get() int {\n\treturn t.n\n}\n", "\tt := T_§{1}\n\tf := t.Get\n\tt.n = 2\n\tp := &t\n\tg := p.Get\n\tt.n = 3\n\tprintln(f(), g(), t.Get())\n"},
	{"init-function-and-package-var", nil, "var pv_§ = 5\n\nfunc init() {\n\tpv_§ *= 2\n}\n", "\tprintln(pv_§)\n"},
	{"range-over-array-copy-semantics", nil, "", "\ta := [3]int{1, 2, 3}\n\tfor i, v := range a {\n\t\ta[2] = 10\n\t\tif i == 2 {\n\t\t\tprintln(v)\n\t\t}\n\t}\n\ts := []int{1, 2, 3}\n\tfor i, v := range s {\n\t\ts[2] = 10\n\t\tif i == 2 {\n\t\t\tprintln(v)\n\t\t}\n\t}\n"},
	{"range-slice-append-during", nil, "", "\ts := []int{1, 2}\n\tn := 0\n\tfor range s {\n\t\ts = append(s, 0)\n\t\tn++\n\t}\n\tprintln(n, len(s))\n"},
}

func f6Cases() []goprog.Case {
	var cs []goprog.Case
	for _, t := range f6Templates {
		params := t.params
		if len(params) == 0 {
			params = []string{""}
		}
		for _, p := range params {
			i := uint64(len(cs))
			sfx := fmt.Sprint(i)
			decls, body := t.decls, t.body
			switch t.name {
			case "closure-per-iteration-loopvar":
				var loop string
				switch p {
				case "for3":
					loop = "\tfor i := 0; i < 3; i++ {\n\t\tfs = append(fs, func() int {\n\t\t\treturn i\n\t\t})\n\t}"
				case "range-slice":
					loop = "\tfor i, v := range []int{5, 6, 7} {\n\t\tfs = append(fs, func() int {\n\t\t\treturn i*10 + v\n\t\t})\n\t}"
				case "range-int":
					loop = "\tfor i := range 3 {\n\t\tfs = append(fs, func() int {\n\t\t\ti += 10\n\t\t\treturn i\n\t\t})\n\t}"
				}
				body = strings.Replace(body, "LOOPFUNCS", "\tvar fs []func() int\n"+loop, 1)
			case "nil-pointer-deref":
				stmt := map[string]string{"field-read": "\tprintln(p.A)", "field-write": "\tp.A = 1", "method-value-recv": "\tf := p.V\n\t_ = f", "deref": "\tt := *p\n\t_ = t"}[p]
				body = strings.Replace(body, "NILDEREF", stmt, 1)
			case "tuple-assign-array-elements":
				switch p {
				case "local":
					body = "\ta := [3]int{1, 2, 3}\n\ta[1], a[2] = 100, 200\n\tprintln(a[0], a[1], a[2])\n"
				case "package":
					body = "\tga_§[1], ga_§[2] = 100, 200\n\tprintln(ga_§[0], ga_§[1], ga_§[2])\n"
				case "captured":
					body = "\ta := [3]int{1, 2, 3}\n\tf := func() {\n\t\ta[1], a[2] = 100, 200\n\t}\n\tf()\n\tprintln(a[0], a[1], a[2])\n"
				case "struct-field":
					body = "\tvar s struct {\n\t\tarr [3]int\n\t}\n\tp := &s\n\tp.arr[1], p.arr[2] = 100, 200\n\tprintln(s.arr[0], s.arr[1], s.arr[2])\n"
				case "slice":
					body = "\ta := []int{1, 2, 3}\n\tf := func() {\n\t\ta[1], a[2] = 100, 200\n\t}\n\tf()\n\tprintln(a[0], a[1], a[2])\n"
				}
			case "array-index-out-of-range":
				stmt := p
				if !strings.Contains(p, "=") && !strings.Contains(p, "++") {
					stmt = "println(" + p + ")"
				}
				body = strings.Replace(body, "STMT", stmt, 1)
			}
			decls = strings.ReplaceAll(strings.ReplaceAll(decls, "¤", p), "§", sfx)
			body = strings.ReplaceAll(strings.ReplaceAll(body, "¤", p), "§", sfx)
			body = strings.ReplaceAll(body, "V", "V") // placeholder handled below
			if strings.Contains(t.body, " V") || strings.Contains(t.body, "(V") {
				body = replaceWord(body, "V", zeroish(p))
			}
			key := "family=templates template=" + t.name
			cs = append(cs, goprog.Case{Decls: decls, Body: body, Key: key,
				Attrs: map[string]any{"family": "templates", "template": t.name, "param": p}})
		}
	}
	return cs
}

// replaceWord replaces the identifier w (delimited by non-identifier bytes).
func replaceWord(s, w, by string) string {
	var b strings.Builder
	isId := func(c byte) bool {
		return c == '_' || c >= '0' && c <= '9' || c >= 'a' && c <= 'z' || c >= 'A' && c <= 'Z' || c >= 0x80
	}
	for i := 0; i < len(s); {
		if strings.HasPrefix(s[i:], w) && (i == 0 || !isId(s[i-1])) && (i+len(w) == len(s) || !isId(s[i+len(w)])) {
			b.WriteString(by)
			i += len(w)
			continue
		}
		b.WriteByte(s[i])
		i++
	}
	return b.String()
}
