// C01 — interpreted programs behave exactly like the same program compiled by gc.
//
// Families of tiny generated Go test functions are enumerated completely; the
// gc toolchain (oracle/gcref, batched and cached) says what each must print,
// and Scriggo builds and runs each case as its own program.
package main

import (
	"fmt"
	"os"
	"runtime"
	"runtime/debug"
	"strings"
	"time"

	"verif/gen/goprog"
	"verif/kit"
)

func families(tier string) []*goprog.Family {
	all := allFamilies(tier)
	// debugging aid only: C01_ONLY=F8,F9 restricts the run to some families
	if only := os.Getenv("C01_ONLY"); only != "" {
		var sel []*goprog.Family
		for _, f := range all {
			for _, p := range strings.Split(only, ",") {
				if strings.HasPrefix(f.Name, p) {
					sel = append(sel, f)
					break
				}
			}
		}
		return sel
	}
	return all
}

func allFamilies(tier string) []*goprog.Family {
	return append(append(f10TransferFamilies(), baseFamilies(tier)...), lateFamilies()...)
}

// lateFamilies are the families added after the others were recorded: their
// spaces come last (after F5.top), so that the earlier spaces keep their place.
func lateFamilies() []*goprog.Family {
	return []*goprog.Family{
		f11DeepDefer(),
		f12ConstFamily(),
	}
}

func isLate(f *goprog.Family) bool {
	return strings.HasPrefix(f.Name, "F11.") || strings.HasPrefix(f.Name, "F12.")
}

func baseFamilies(tier string) []*goprog.Family {
	return []*goprog.Family{
		// the small families whose cases may hang (20 s watchdog) go first, so that the wait overlaps with the rest
		f9PlainFamily(),
		listFamily("F6.templates", f6Cases()),
		f10ArrayExprFamily(),
		f4Family(tier),
		f1Family(tier),
		listFamily("F2.strings", f2Cases(tier)),
		f3Family(tier),
		f3bFamily(),
		listFamily("F1.int-faults", f1FaultCases()),
		f5Family(tier),
		f7Family(),
		f8Recursion(tier),
		f8Go(tier),
		f9SelectFamily(tier, false),
		f9SelectFamily(tier, true),
	}
}

func withTop() bool {
	only := os.Getenv("C01_ONLY")
	return only == "" || strings.Contains(only, "F5")
}

func spaces(tier string) []kit.Space {
	var sps []kit.Space
	fams := families(tier)
	for _, f := range fams {
		if !isLate(f) {
			sps = append(sps, f.Space())
		}
	}
	if withTop() {
		sps = append(sps, f5TopSpace())
	}
	for _, f := range fams {
		if isLate(f) {
			sps = append(sps, f.Space())
		}
	}
	return sps
}

// MaxHostStack is the largest Go stack a goroutine of the check may use. A
// Scriggo call must give its host frames back when it returns: with this bound
// a few hundred thousand sequential calls that each leak a frame overflow the
// stack (a fatal error that the isolated worker reports as a crash) instead of
// needing millions of calls to reach the default 1 GB.
const MaxHostStack = 64 << 20

func main() {
	debug.SetMaxStack(MaxHostStack)
	// `c01 prefill <tier>`: warm the gc cache (used by setup.sh)
	if len(os.Args) >= 2 && os.Args[1] == "prefill" {
		tier := kit.Tier(os.Args[2:])
		if err := goprog.PrefillAll(families(tier), runtime.NumCPU()); err != nil {
			fmt.Fprintln(os.Stderr, "prefill:", err)
			os.Exit(2)
		}
		if err := f5TopPrefill(runtime.NumCPU()); err != nil {
			fmt.Fprintln(os.Stderr, "prefill:", err)
			os.Exit(2)
		}
		fmt.Println("gc cache ready for C01", tier)
		return
	}
	// The master process (not a worker, not a replay) first makes sure that gc's
	// verdict on every batch is in the cache, compiling the missing batches in
	// parallel: the workers then only read the cache, so a slow gc build on a
	// loaded machine is never mistaken for a hanging case by the heartbeat.
	master := true
	for _, a := range os.Args[1:] {
		for _, f := range []string{"worker", "one", "replay"} {
			if a == "-"+f || a == "--"+f || strings.HasPrefix(a, "-"+f+"=") || strings.HasPrefix(a, "--"+f+"=") {
				master = false
			}
		}
	}
	if master {
		start := time.Now()
		if err := goprog.PrefillAll(families(kit.Tier(os.Args[1:])), runtime.NumCPU()); err != nil {
			fmt.Fprintln(os.Stderr, "HARNESS-ERROR: gc oracle:", err)
			os.Exit(2)
		}
		if withTop() {
			if err := f5TopPrefill(runtime.NumCPU()); err != nil {
				fmt.Fprintln(os.Stderr, "HARNESS-ERROR: gc oracle:", err)
				os.Exit(2)
			}
		}
		fmt.Printf("gc oracle ready for every batch in %.1fs\n", time.Since(start).Seconds())
	}
	kit.Main(&kit.Check{
		ID:          "C01",
		Level:       "model_checking",
		Isolated:    true,
		HangSeconds: 60,
		Rule:        "every case of every enumerated family (each index is a distinct program text); gc's output for the case is the oracle; non-trivial = the case is a valid Go program (gc compiles it) that was built and run by Scriggo",
		Assumptions: []string{
			"gc (go1.25.0) is the reference semantics",
			"output only through print/println of booleans, integers, floats and strings; no output depending on map order or addresses",
			"out-of-range float→integer conversions (implementation-defined) are excluded",
			"each case runs in Scriggo as its own program; gc runs them batched (cases are independent)",
		},
		Spaces: spaces,
	})
}
