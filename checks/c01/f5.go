package main

// F5 — the defer / panic / recover machine: a chain of calls of bounded depth;
// every frame picks a deferred-function shape and a body shape.

import (
	"fmt"
	"strings"

	"verif/gen/goprog"
)

var f5Defers = []string{"none", "plain", "recover", "recover-repanic", "panic-in-defer", "recover-in-nested-call", "named-recover", "two-defers"}
var f5Bodies = []string{"return", "panic-string", "panic-int", "fault-index", "fault-div", "call-next"}

type f5frame struct{ def, body int }

// f5Count returns the number of frame chains of depth <= d.
func f5Count(d int) uint64 {
	if d == 0 {
		return 0
	}
	leaf := uint64(len(f5Bodies) - 1)
	return uint64(len(f5Defers)) * (leaf + f5Count(d-1))
}

// f5Decode returns chain number i of the chains of depth <= d.
func f5Decode(i uint64, d int) []f5frame {
	nd := uint64(len(f5Defers))
	leaf := uint64(len(f5Bodies) - 1)
	def := int(i % nd)
	i /= nd
	if i < leaf {
		return []f5frame{{def, int(i)}}
	}
	return append([]f5frame{{def, len(f5Bodies) - 1}}, f5Decode(i-leaf, d-1)...)
}

func f5Frame(sfx string, k int, fr f5frame, last bool) string {
	var b strings.Builder
	fmt.Fprintf(&b, "func f%d_%s() (r int) {\n\tprintln(\"enter\", %d)\n", k, sfx, k)
	switch f5Defers[fr.def] {
	case "plain":
		fmt.Fprintf(&b, "\tdefer func() {\n\t\tprintln(\"deferred\", %d, r)\n\t}()\n", k)
	case "recover":
		fmt.Fprintf(&b, "\tdefer func() {\n\t\tv := recover()\n\t\tpv_%s(v)\n\t\tr = %d\n\t}()\n", sfx, 10*k)
	case "recover-repanic":
		fmt.Fprintf(&b, "\tdefer func() {\n\t\tif v := recover(); v != nil {\n\t\t\tpv_%s(v)\n\t\t\tpanic(\"repanic %d\")\n\t\t}\n\t}()\n", sfx, k)
	case "panic-in-defer":
		fmt.Fprintf(&b, "\tdefer func() {\n\t\tprintln(\"deferred\", %d)\n\t\tpanic(\"panic in defer %d\")\n\t}()\n", k, k)
	case "recover-in-nested-call":
		fmt.Fprintf(&b, "\tdefer func() {\n\t\tfunc() {\n\t\t\tv := recover()\n\t\t\tpv_%s(v)\n\t\t}()\n\t\tprintln(\"deferred\", %d)\n\t}()\n", sfx, k)
	case "named-recover":
		fmt.Fprintf(&b, "\tdefer rec_%s()\n", sfx)
	case "two-defers":
		fmt.Fprintf(&b, "\tdefer func() {\n\t\tv := recover()\n\t\tpv_%s(v)\n\t\tr += 100\n\t}()\n\tdefer func() {\n\t\tprintln(\"deferred first\", %d)\n\t\tr = %d\n\t}()\n", sfx, k, k)
	}
	switch f5Bodies[fr.body] {
	case "panic-string":
		fmt.Fprintf(&b, "\tpanic(\"boom %d\")\n", k)
	case "panic-int":
		fmt.Fprintf(&b, "\tpanic(%d)\n", 1000+k)
	case "fault-index":
		fmt.Fprintf(&b, "\tvar a []int\n\tprintln(a[%d])\n", k)
	case "fault-div":
		fmt.Fprintf(&b, "\tz := 0\n\tprintln(%d / z)\n", k)
	case "call-next":
		fmt.Fprintf(&b, "\tx := f%d_%s()\n\tprintln(\"returned\", %d, x)\n", k+1, sfx, k)
	}
	fmt.Fprintf(&b, "\tprintln(\"exit\", %d)\n\treturn %d\n}\n", k, k)
	return b.String()
}

func f5Helpers(sfx string) string {
	return fmt.Sprintf(`func pv_%[1]s(v interface{}) {
	switch x := v.(type) {
	case nil:
		println("recovered nil")
	case string:
		println("recovered string", x)
	case int:
		println("recovered int", x)
	case error:
		println("recovered error", x.Error())
	default:
		println("recovered other")
	}
}

func rec_%[1]s() {
	v := recover()
	pv_%[1]s(v)
}
`, sfx)
}

func f5Program(i uint64, chain []f5frame) (decls string, attrs map[string]any) {
	sfx := fmt.Sprint(i)
	var b strings.Builder
	b.WriteString(f5Helpers(sfx))
	var desc []string
	for k, fr := range chain {
		b.WriteString("\n")
		b.WriteString(f5Frame(sfx, k+1, fr, k == len(chain)-1))
		desc = append(desc, f5Defers[fr.def]+"/"+f5Bodies[fr.body])
	}
	return b.String(), map[string]any{"family": "defer", "frames": desc}
}

func f5Family(tier string) *goprog.Family {
	d := 3
	if tier == "thorough" {
		d = 4
	}
	return &goprog.Family{
		Name: "F5.defer",
		Size: f5Count(d),
		Gen: func(i uint64) goprog.Case {
			chain := f5Decode(i, d)
			decls, attrs := f5Program(i, chain)
			return goprog.Case{
				Decls:     decls,
				Body:      fmt.Sprintf("\tx := f1_%d()\n\tprintln(\"top\", x)\n", i),
				Key:       "family=defer",
				DiffLabel: goprog.DiffLine,
				Attrs:     attrs,
			}
		},
	}
}
