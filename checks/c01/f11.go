package main

// F11 — deferred calls at depth.
//
// A non-tail recursive function defers, at EVERY level, a call with k
// arguments of one register kind; the deferred calls run while the recursion
// unwinds (normally, or because the bottom level panics and the top level
// recovers). Every deferred call folds all its arguments, in order, into a
// checksum, so a deferred call that sees a wrong argument, runs in the wrong
// order or not at all changes what is printed.
//
//	{depth} x {number of deferred arguments 1..10} x {register kind} x {deferred form}
//
// The depths are a ladder that straddles the sizes at which the register
// stacks grow (512 registers of each kind, doubling), plus a ramp: one program
// that runs every depth 1..300 in turn in the same virtual machine, so that the
// deepest level reaches each growth boundary from below one frame at a time.

import (
	"fmt"
	"strings"

	"verif/gen/goprog"
)

var f11Depths = []int{10, 30, 60, 100, 150, 200, 300, 0} // 0 = ramp 1..f11Ramp

const f11Ramp = 300

const f11MaxArgs = 10

var f11Kinds = []string{"int", "float64", "string", "any", "slice", "mixed"}

var f11Forms = []string{"closure", "named-function", "closure+recovered-panic-at-bottom", "named-function+recovered-panic-at-bottom"}

// f11Arg returns the type of the j-th deferred argument (j from 1), the
// expression that computes it at level n and the statement folding parameter
// a<j> into the checksum h_<sfx>.
func f11Arg(kind string, j int, sfx string) (typ, expr, fold string) {
	k := kind
	if kind == "mixed" {
		k = []string{"int", "float64", "string", "slice"}[(j-1)%4]
	}
	if kind == "any" {
		typ = "interface{}"
		if j%2 == 1 {
			expr = fmt.Sprintf("n*3 + %d", j)
		} else {
			expr = fmt.Sprintf("al_%s[(n+%d)%%20 : (n+%d)%%20+%d]", sfx, j, j, 1+j%5)
		}
		fold = fmt.Sprintf("h_%s = ha_%s(h_%s, a%d)", sfx, sfx, sfx, j)
		return
	}
	switch k {
	case "int":
		return "int", fmt.Sprintf("n*3 + %d", j), fmt.Sprintf("h_%s = h_%s*31 + a%d", sfx, sfx, j)
	case "float64":
		return "float64", fmt.Sprintf("float64(n) + %d.25", j), fmt.Sprintf("h_%s = h_%s*31 + int(a%d*4)", sfx, sfx, j)
	case "string":
		return "string", fmt.Sprintf("al_%s[(n+%d)%%20 : (n+%d)%%20+%d]", sfx, j, j, 1+j%5), fmt.Sprintf("h_%s = hs_%s(h_%s, a%d)", sfx, sfx, sfx, j)
	case "slice":
		return "[]int", fmt.Sprintf("[]int{n, %d}", j), fmt.Sprintf("h_%s = h_%s*31 + a%d[0]*7 + a%d[1] + len(a%d)", sfx, sfx, j, j, j)
	}
	panic("f11Arg: " + kind)
}

func f11Case(i uint64, depth, nargs int, kind, form string) goprog.Case {
	sfx := fmt.Sprint(i)
	var params, args, folds []string
	for j := 1; j <= nargs; j++ {
		t, e, f := f11Arg(kind, j, sfx)
		params = append(params, fmt.Sprintf("a%d %s", j, t))
		args = append(args, e)
		folds = append(folds, "\t"+f+"\n")
	}
	var d strings.Builder
	fmt.Fprintf(&d, "var h_%s int\n\n", sfx)
	fmt.Fprintf(&d, "const al_%s = \"abcdefghijklmnopqrstuvwxyz\"\n\n", sfx)
	fmt.Fprintf(&d, "func hs_%s(h int, s string) int {\n\tfor k := 0; k < len(s); k++ {\n\t\th = h*31 + int(s[k])\n\t}\n\treturn h*31 + len(s)\n}\n\n", sfx)
	if kind == "any" {
		fmt.Fprintf(&d, "func ha_%[1]s(h int, v interface{}) int {\n\tswitch x := v.(type) {\n\tcase int:\n\t\treturn h*31 + x\n\tcase string:\n\t\treturn hs_%[1]s(h, x)\n\t}\n\treturn h*31 - 1\n}\n\n", sfx)
	}
	named := strings.HasPrefix(form, "named-function")
	panics := strings.HasSuffix(form, "panic-at-bottom")
	if named {
		fmt.Fprintf(&d, "func d_%s(%s) {\n%s}\n\n", sfx, strings.Join(params, ", "), strings.Join(folds, ""))
	}
	fmt.Fprintf(&d, "func r_%s(n int) int {\n\tif n == 0 {\n", sfx)
	if panics {
		d.WriteString("\t\tpanic(\"bottom\")\n")
	} else {
		d.WriteString("\t\treturn 0\n")
	}
	d.WriteString("\t}\n")
	if named {
		fmt.Fprintf(&d, "\tdefer d_%s(%s)\n", sfx, strings.Join(args, ", "))
	} else {
		fmt.Fprintf(&d, "\tdefer func(%s) {\n", strings.Join(params, ", "))
		for _, f := range folds {
			d.WriteString("\t" + f)
		}
		fmt.Fprintf(&d, "\t}(%s)\n", strings.Join(args, ", "))
	}
	fmt.Fprintf(&d, "\tv := r_%s(n - 1)\n\treturn v + n\n}\n", sfx)
	call := "r_" + sfx
	if panics {
		fmt.Fprintf(&d, "\nfunc top_%[1]s(d int) (res int) {\n\tdefer func() {\n\t\tif e := recover(); e != nil {\n\t\t\tres = -1\n\t\t}\n\t}()\n\treturn r_%[1]s(d)\n}\n", sfx)
		call = "top_" + sfx
	}
	var body string
	if depth > 0 {
		body = fmt.Sprintf("\th_%[1]s = 0\n\tprintln(\"result\", %[2]s(%[3]d))\n\tprintln(\"checksum\", h_%[1]s)\n", sfx, call, depth)
	} else {
		body = fmt.Sprintf("\th_%[1]s = 0\n\tfor d := 1; d <= %[3]d; d++ {\n\t\tx := %[2]s(d)\n\t\th_%[1]s = h_%[1]s*33 + x\n\t\tif d%%25 == 0 {\n\t\t\tprintln(\"depth\", d, h_%[1]s)\n\t\t}\n\t}\n\tprintln(\"checksum\", h_%[1]s)\n", sfx, call, f11Ramp)
	}
	var dep any = depth
	if depth == 0 {
		dep = fmt.Sprintf("every depth 1..%d in turn", f11Ramp)
	}
	return goprog.Case{
		Decls: d.String(),
		Body:  body,
		Key:   "family=deep-defer deferred=" + form + " arguments=" + kind,
		Attrs: map[string]any{"family": "deep-defer", "deferred": form, "arguments": kind, "nargs": nargs, "depth": dep},
	}
}

// f11Skipped tells the combinations left out: none. On the unchanged tree a
// function that defers a call with one to three int-register arguments makes
// the virtual machine index past the int register stack at some depths; that
// is a known finding of C01 (known_findings.json), not a reason to shrink the space.
func f11Skipped(kind string, nargs int) bool {
	return false
}

func f11DeepDefer() *goprog.Family {
	type combo struct {
		depth, nargs int
		kind, form   string
	}
	var cs []combo
	// depth is the most significant digit, then the number of arguments: small programs first
	for _, d := range f11Depths {
		for n := 1; n <= f11MaxArgs; n++ {
			for _, k := range f11Kinds {
				if f11Skipped(k, n) {
					continue
				}
				for _, f := range f11Forms {
					cs = append(cs, combo{d, n, k, f})
				}
			}
		}
	}
	return &goprog.Family{
		Name: "F11.deep-defer",
		Size: uint64(len(cs)),
		Gen: func(i uint64) goprog.Case {
			c := cs[i]
			return f11Case(i, c.depth, c.nargs, c.kind, c.form)
		},
	}
}
