#!/bin/bash
# Pre-fills the gc oracle cache (/verif/.cache/gc, git-ignored, recomputable)
# for the quick tier of C01, so that `bin/check C01 quick` does not pay for
# ~190 gc builds on its first run. The check works without this (it compiles
# the missing batches itself, in parallel, before it starts).
set -u
cd /verif
. bin/env.sh
mkdir -p .build
go build -tags verif -o .build/C01 ./checks/c01 || exit 1
exec .build/C01 prefill quick
