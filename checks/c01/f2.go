package main

// F2 — strings and runes: index, slice, concat, compare, range (with invalid
// UTF-8), len, conversions to and from []byte / []rune.

import (
	"fmt"
	"strconv"

	"verif/gen/goprog"
)

var f2Strings = []string{
	"", "a", "ab", "hé", "\xff", "a\xffb", "\xe2\x82", "日本", "\xc0\x80", "\xed\xa0\x80", "\U0001F600z", "abc",
}

func q(s string) string { return strconv.Quote(s) }

func f2Cases(tier string) []goprog.Case {
	var cs []goprog.Case
	add := func(key, body string, attrs map[string]any) {
		attrs["family"] = "strings"
		cs = append(cs, goprog.Case{Body: body, Key: "family=strings " + key, Attrs: attrs})
	}
	// len
	for _, s := range f2Strings {
		add("op=len", fmt.Sprintf("\ts := %s\n\tprintln(len(s))\n", q(s)), map[string]any{"s": s})
	}
	// index with a variable / constant index
	for _, s := range f2Strings {
		for i := -1; i <= len(s)+1; i++ {
			add("op=index form=var", fmt.Sprintf("\ts := %s\n\ti := %d\n\tprintln(s[i])\n", q(s), i), map[string]any{"s": s, "i": i})
			if i >= 0 {
				add("op=index form=const", fmt.Sprintf("\ts := %s\n\tprintln(s[%d])\n", q(s), i), map[string]any{"s": s, "i": i})
			}
		}
		for _, ik := range []string{"int8", "uint8", "uint64", "int64"} {
			for _, i := range []int{0, len(s), 127} {
				add("op=index form=var-"+ik, fmt.Sprintf("\ts := %s\n\tvar i %s = %d\n\tprintln(s[i])\n", q(s), ik, i), map[string]any{"s": s, "i": i, "indexkind": ik})
			}
		}
	}
	// slice: every i, j in -1..len+1 as variables, plus the open forms
	for _, s := range f2Strings {
		if len(s) > 4 {
			continue
		}
		for i := -1; i <= len(s)+1; i++ {
			for j := -1; j <= len(s)+1; j++ {
				add("op=slice form=s[i:j]", fmt.Sprintf("\ts := %s\n\ti, j := %d, %d\n\tr := s[i:j]\n\tprintln(len(r), r)\n", q(s), i, j), map[string]any{"s": s, "i": i, "j": j})
			}
			add("op=slice form=s[i:]", fmt.Sprintf("\ts := %s\n\ti := %d\n\tr := s[i:]\n\tprintln(len(r), r)\n", q(s), i), map[string]any{"s": s, "i": i})
			add("op=slice form=s[:j]", fmt.Sprintf("\ts := %s\n\tj := %d\n\tr := s[:j]\n\tprintln(len(r), r)\n", q(s), i), map[string]any{"s": s, "j": i})
			if i >= 0 {
				add("op=slice form=s[const:]", fmt.Sprintf("\ts := %s\n\tr := s[%d:]\n\tprintln(len(r), r)\n", q(s), i), map[string]any{"s": s, "i": i})
				add("op=slice form=s[:const]", fmt.Sprintf("\ts := %s\n\tr := s[:%d]\n\tprintln(len(r), r)\n", q(s), i), map[string]any{"s": s, "j": i})
			}
		}
	}
	// concat and compare on every ordered pair
	for _, a := range f2Strings {
		for _, b := range f2Strings {
			at := map[string]any{"a": a, "b": b}
			add("op=concat form=var/var", fmt.Sprintf("\ta, b := %s, %s\n\tr := a + b\n\tprintln(len(r), r)\n", q(a), q(b)), at)
			add("op=concat form=var/const", fmt.Sprintf("\ta := %s\n\tr := a + %s\n\tprintln(len(r), r)\n", q(a), q(b)), at)
			add("op=concat form=const/var", fmt.Sprintf("\tb := %s\n\tr := %s + b\n\tprintln(len(r), r)\n", q(b), q(a)), at)
			add("op=concat form=+=", fmt.Sprintf("\ta, b := %s, %s\n\ta += b\n\ta += b\n\tprintln(len(a), a)\n", q(a), q(b)), at)
			for _, op := range cmpOps {
				add("op=compare("+op+") form=var/var", fmt.Sprintf("\ta, b := %s, %s\n\tprintln(a %s b)\n", q(a), q(b), op), at)
				add("op=compare("+op+") form=var/const", fmt.Sprintf("\ta := %s\n\tprintln(a %s %s)\n", q(a), op, q(b)), at)
			}
		}
	}
	// range
	for _, s := range f2Strings {
		at := map[string]any{"s": s}
		add("op=range form=i,r", fmt.Sprintf("\ts := %s\n\tfor i, r := range s {\n\t\tprintln(i, r)\n\t}\n", q(s)), at)
		add("op=range form=i", fmt.Sprintf("\ts := %s\n\tfor i := range s {\n\t\tprintln(i)\n\t}\n", q(s)), at)
		add("op=range form=_,r", fmt.Sprintf("\ts := %s\n\tfor _, r := range s {\n\t\tprintln(r)\n\t}\n", q(s)), at)
		add("op=range form=none", fmt.Sprintf("\ts := %s\n\tn := 0\n\tfor range s {\n\t\tn++\n\t}\n\tprintln(n)\n", q(s)), at)
		add("op=range form=const", fmt.Sprintf("\tfor i, r := range %s {\n\t\tprintln(i, r)\n\t}\n", q(s)), at)
		add("op=range form=assign", fmt.Sprintf("\ts := %s\n\tvar i int\n\tvar r rune\n\tfor i, r = range s {\n\t}\n\tprintln(i, r)\n", q(s)), at)
	}
	// conversions
	for _, s := range f2Strings {
		at := map[string]any{"s": s}
		add("op=conv([]byte(s))", fmt.Sprintf("\ts := %s\n\tb := []byte(s)\n\tprintln(len(b))\n\tfor _, c := range b {\n\t\tprintln(c)\n\t}\n", q(s)), at)
		add("op=conv([]rune(s))", fmt.Sprintf("\ts := %s\n\tr := []rune(s)\n\tprintln(len(r))\n\tfor _, c := range r {\n\t\tprintln(c)\n\t}\n", q(s)), at)
		add("op=conv(string([]byte(s)))", fmt.Sprintf("\ts := %s\n\tb := []byte(s)\n\tt := string(b)\n\tprintln(len(t), t, t == s)\n", q(s)), at)
		add("op=conv(string([]rune(s)))", fmt.Sprintf("\ts := %s\n\tr := []rune(s)\n\tt := string(r)\n\tprintln(len(t), t, t == s)\n", q(s)), at)
		add("op=conv(mutate []byte)", fmt.Sprintf("\ts := %s + \"x\"\n\tb := []byte(s)\n\tb[0] = 'Z'\n\tprintln(s, string(b))\n", q(s)), at)
	}
	for _, r := range []int64{0, 65, 0x7f, 0x80, 0x7ff, 0x800, 0xd7ff, 0xd800, 0xdfff, 0xe000, 0xfffd, 0xffff, 0x10000, 0x10ffff, 0x110000, -1, 2147483647, -2147483648} {
		at := map[string]any{"rune": r}
		add("op=conv(string(rune))", fmt.Sprintf("\tvar r rune = %d\n\ts := string(r)\n\tprintln(len(s), s)\n", r), at)
		add("op=conv(string([]rune{r}))", fmt.Sprintf("\tr := []rune{'a', %d, 'b'}\n\ts := string(r)\n\tprintln(len(s), s)\n", r), at)
		if r >= 0 && r <= 255 {
			add("op=conv(string(byte))", fmt.Sprintf("\tvar c byte = %d\n\ts := string(rune(c))\n\tprintln(len(s), s)\n", r), at)
		}
	}
	return cs
}

func listFamily(name string, cs []goprog.Case) *goprog.Family {
	return &goprog.Family{Name: name, Size: uint64(len(cs)), Gen: func(i uint64) goprog.Case { return cs[i] }}
}
