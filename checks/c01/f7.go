package main

// F7 — package initialisation order: every dependency DAG over n <= 4
// package-level variables (declared in the order a, b, c, d; an edge i→j
// means the initialiser of i refers to j, in either direction relative to the
// declaration order), with the reference written directly or hidden inside a
// function. Every initialiser prints its name, tagged with the case index, so
// that a whole batch of cases can share one gc program.

import (
	"fmt"
	"strings"

	"verif/gen/goprog"
)

type f7case struct {
	n     int
	edges uint // bit i*n+j: i refers to j
	via   bool // references go through a function
}

func f7Acyclic(n int, edges uint) bool {
	state := make([]int, n)
	var visit func(i int) bool
	visit = func(i int) bool {
		if state[i] == 1 {
			return false
		}
		if state[i] == 2 {
			return true
		}
		state[i] = 1
		for j := 0; j < n; j++ {
			if edges&(1<<uint(i*n+j)) != 0 && !visit(j) {
				return false
			}
		}
		state[i] = 2
		return true
	}
	for i := 0; i < n; i++ {
		if !visit(i) {
			return false
		}
	}
	return true
}

func f7Cases() []f7case {
	var cs []f7case
	for n := 1; n <= 4; n++ {
		for e := uint(0); e < 1<<uint(n*n); e++ {
			diag := false
			for i := 0; i < n; i++ {
				if e&(1<<uint(i*n+i)) != 0 {
					diag = true
				}
			}
			if diag || !f7Acyclic(n, e) {
				continue
			}
			cs = append(cs, f7case{n, e, false})
			if e != 0 {
				cs = append(cs, f7case{n, e, true})
			}
		}
	}
	return cs
}

func (c f7case) gen(i uint64) goprog.Case {
	names := "abcd"
	var b strings.Builder
	var deps []string
	fmt.Fprintf(&b, "func f_%d(s string) int {\n\tprintln(\"%d:\" + s)\n\treturn 1\n}\n\n", i, i)
	for v := 0; v < c.n; v++ {
		fmt.Fprintf(&b, "var %c_%d = f_%d(\"%c\")", names[v], i, i, names[v])
		for w := 0; w < c.n; w++ {
			if c.edges&(1<<uint(v*c.n+w)) != 0 {
				deps = append(deps, fmt.Sprintf("%c->%c", names[v], names[w]))
				if c.via {
					fmt.Fprintf(&b, " + g%c_%d()", names[w], i)
				} else {
					fmt.Fprintf(&b, " + %c_%d", names[w], i)
				}
			}
		}
		b.WriteString("\n")
	}
	if c.via {
		for v := 0; v < c.n; v++ {
			fmt.Fprintf(&b, "\nfunc g%c_%d() int {\n\treturn %c_%d\n}\n", names[v], i, names[v], i)
		}
	}
	body := "\tprintln(0"
	for v := 0; v < c.n; v++ {
		body += fmt.Sprintf(" + %c_%d*%d", names[v], i, []int{1, 10, 100, 1000}[v])
	}
	body += ")\n"
	return goprog.Case{
		Decls:     b.String(),
		Body:      body,
		Tagged:    true,
		Key:       "family=init-order",
		DiffLabel: goprog.DiffNone,
		Attrs:     map[string]any{"family": "init-order", "vars": c.n, "deps": deps, "via_function": c.via},
	}
}

func f7Family() *goprog.Family {
	cs := f7Cases()
	return &goprog.Family{Name: "F7.init-order", Size: uint64(len(cs)), Gen: func(i uint64) goprog.Case { return cs[i].gen(i) }}
}
