package main

// F4 — control flow: all statement skeletons of bounded nesting depth over
// {3-clause for, range over slice, range over string, switch with
// fallthrough} with conditional continue / break / labelled continue and
// break of the outermost loop / goto out of everything as leaves, and print
// markers everywhere.

import (
	"fmt"
	"strings"

	"verif/gen/goprog"
)

// f4Stmts returns the statements of nesting depth <= d at loop level l
// (l = number of enclosing loops; their variables are i0..i(l-1)).
func f4Stmts(d, l int, inSwitch bool) []string {
	var out []string
	out = append(out, fmt.Sprintf("println(\"m\", %d)", l))
	if l > 0 {
		v := fmt.Sprintf("i%d", l-1)
		out = append(out,
			fmt.Sprintf("if %s == 1 {\ncontinue\n}\nprintln(\"n\", %d)", v, l),
			fmt.Sprintf("if %s == 1 {\nbreak\n}\nprintln(\"n\", %d)", v, l),
			fmt.Sprintf("if %s == 1 {\ncontinue L0\n}\nprintln(\"n\", %d)", v, l),
			fmt.Sprintf("if %s == 1 {\nbreak L0\n}\nprintln(\"n\", %d)", v, l),
			fmt.Sprintf("if %s == 2 {\ngoto End\n}\nprintln(\"n\", %d)", v, l),
		)
	}
	if d == 0 {
		return out
	}
	inner := f4Stmts(d-1, l+1, false)
	iv := fmt.Sprintf("i%d", l)
	lab := ""
	if l == 0 {
		lab = "L0:\n"
	}
	for _, s := range inner {
		out = append(out,
			fmt.Sprintf("%sfor %s := 0; %s < 3; %s++ {\nprintln(\"for\", %d, %s)\n%s\nprintln(\"endfor\", %d, %s)\n}", lab, iv, iv, iv, l, iv, s, l, iv),
			fmt.Sprintf("%sfor %s, v := range []int{5, 6, 7} {\nprintln(\"range\", %d, %s, v)\n%s\n}", lab, iv, l, iv, s),
			fmt.Sprintf("%sfor %s, r := range \"aé\" {\nprintln(\"srange\", %d, %s, r)\n%s\n}", lab, iv, l, iv, s),
		)
	}
	// a switch does not add a loop level: break inside it leaves the switch
	if l > 0 {
		tag := fmt.Sprintf("i%d", l-1)
		for _, s := range f4Stmts(d-1, l, true) {
			out = append(out, fmt.Sprintf("switch %s {\ncase 0:\nprintln(\"case0\")\n%s\ncase 1:\nprintln(\"case1\")\nfallthrough\ncase 2:\nprintln(\"case2\")\n%s\ndefault:\nprintln(\"default\")\n}\nprintln(\"endswitch\", %d)", tag, s, s, l))
		}
	}
	return out
}

func f4Family(tier string) *goprog.Family {
	d := 3
	if tier == "thorough" {
		d = 4
	}
	stmts := f4Stmts(d, 0, false)
	return &goprog.Family{
		Name: "F4.control-flow",
		Size: uint64(len(stmts)),
		Gen: func(i uint64) goprog.Case {
			s := stmts[i]
			if !strings.Contains(s, " L0\n") {
				s = strings.Replace(s, "L0:\n", "", 1)
			}
			body := s + "\nprintln(\"after\")\n"
			if strings.Contains(s, "goto End") {
				body += "End:\nprintln(\"end\")\n"
			}
			return goprog.Case{
				Body:      body,
				Key:       "family=control-flow",
				DiffLabel: goprog.DiffLine,
				Attrs:     map[string]any{"family": "control-flow"},
			}
		},
	}
}
