package main

// F3b — append and capacity: for element types with and without a fast path
// in the VM, a slice of length l and capacity l+extra receives k more
// elements (as constants, as variables, as a spread slice): k < extra leaves
// room, k == extra fills the capacity exactly, k > extra must reallocate.
// The program then observes len/cap of both slices, whether they share their
// backing array (write through one, read through the other) and what append
// wrote behind len(a).

import (
	"fmt"
	"strings"

	"verif/gen/goprog"
)

type f3bElem struct {
	name, typ string
	decl      string                // package-level declarations (§ = case index)
	val       func(j int) string    // j-th distinct value
	show      func(e string) string // printable expression(s) of an element
}

var f3bElems = []f3bElem{
	{"int", "int", "", func(j int) string { return fmt.Sprint(10 + j) }, func(e string) string { return e }},
	{"int32", "int32", "", func(j int) string { return fmt.Sprint(10 + j) }, func(e string) string { return e }},
	{"uint16", "uint16", "", func(j int) string { return fmt.Sprint(10 + j) }, func(e string) string { return e }},
	{"float64", "float64", "", func(j int) string { return fmt.Sprintf("%d.5", 10+j) }, func(e string) string { return e }},
	{"string", "string", "", func(j int) string { return fmt.Sprintf("\"s%d\"", 10+j) }, func(e string) string { return e }},
	{"struct", "T_§", "type T_§ struct {\n\tA int\n\tB string\n}\n", func(j int) string { return fmt.Sprintf("T_§{%d, \"s%d\"}", 10+j, j) }, func(e string) string { return e + ".A, " + e + ".B" }},
	{"interface", "interface{}", "", func(j int) string { return fmt.Sprint(10 + j) }, func(e string) string { return e + ".(int)" }},
	{"array", "[2]int", "", func(j int) string { return fmt.Sprintf("[2]int{%d, %d}", 10+j, j) }, func(e string) string { return e + "[0], " + e + "[1]" }},
	{"bool", "bool", "", func(j int) string { return []string{"true", "false"}[j%2] }, func(e string) string { return e }},
}

type f3bCase struct {
	elem        int
	l, extra, k int
	form        string
}

func f3bCases() []f3bCase {
	var cs []f3bCase
	for ei := range f3bElems {
		for l := 0; l <= 2; l++ {
			for extra := 0; extra <= 3; extra++ {
				for k := 1; k <= 3; k++ {
					for _, form := range []string{"const", "var", "spread"} {
						cs = append(cs, f3bCase{ei, l, extra, k, form})
					}
				}
			}
		}
	}
	return cs
}

func (c f3bCase) gen(i uint64) goprog.Case {
	e := f3bElems[c.elem]
	sfx := fmt.Sprint(i)
	r := func(s string) string { return strings.ReplaceAll(s, "§", sfx) }
	var b strings.Builder
	fmt.Fprintf(&b, "\ta := make([]%s, %d, %d)\n", r(e.typ), c.l, c.l+c.extra)
	for j := 0; j < c.l; j++ {
		fmt.Fprintf(&b, "\ta[%d] = %s\n", j, r(e.val(j)))
	}
	var args []string
	for j := 0; j < c.k; j++ {
		v := r(e.val(5 + j))
		switch c.form {
		case "var":
			fmt.Fprintf(&b, "\tvar e%d %s = %s\n", j, r(e.typ), v)
			args = append(args, fmt.Sprintf("e%d", j))
		default:
			args = append(args, v)
		}
	}
	if c.form == "spread" {
		fmt.Fprintf(&b, "\tt := []%s{%s}\n\tb := append(a, t...)\n", r(e.typ), strings.Join(args, ", "))
	} else {
		fmt.Fprintf(&b, "\tb := append(a, %s)\n", strings.Join(args, ", "))
	}
	if c.k <= c.extra {
		b.WriteString("\tprintln(\"len:\", len(a), cap(a), len(b), cap(b))\n")
	} else {
		// the capacity after a reallocation is up to the implementation (gc even
		// uses a stack buffer for slices that do not escape): only its lower bound
		b.WriteString("\tprintln(\"len:\", len(a), cap(a), len(b), cap(b) >= len(b))\n")
	}
	fmt.Fprintf(&b, "\tb[0] = %s\n", r(e.val(9)))
	if c.l > 0 {
		fmt.Fprintf(&b, "\tprintln(\"shared:\", %s)\n", e.show("a[0]"))
	}
	fmt.Fprintf(&b, "\tfull := a[:cap(a)]\n\tfor _, x := range full {\n\t\tprintln(\"full:\", %s)\n\t}\n", guard(e, "x"))
	fmt.Fprintf(&b, "\tfor _, x := range b {\n\t\tprintln(\"b:\", %s)\n\t}\n", e.show("x"))
	what := "room-left"
	switch {
	case c.k == c.extra:
		what = "fills-capacity-exactly"
	case c.k > c.extra:
		what = "beyond-capacity"
	}
	return goprog.Case{
		Decls:     r(e.decl),
		Body:      b.String(),
		Key:       "family=append elem=" + e.name + " append=" + what,
		DiffLabel: goprog.DiffPrefix,
		Attrs:     map[string]any{"family": "append", "elem": e.name, "len": c.l, "cap": c.l + c.extra, "appended": c.k, "form": c.form},
	}
}

// guard makes the element of the full-capacity view printable when it may be
// the zero value (a nil interface cannot be asserted).
func guard(e f3bElem, x string) string {
	if e.name == "interface" {
		return x + " == nil"
	}
	return e.show(x)
}

func f3bFamily() *goprog.Family {
	cs := f3bCases()
	return &goprog.Family{Name: "F3.append-capacity", Size: uint64(len(cs)), Gen: func(i uint64) goprog.Case { return cs[i].gen(i) }}
}

// F1.faults — run-time division and remainder by zero for every integer kind
// separately, in every statement form, with variable operands, in a function
// of its own whose deferred function recovers.
func f1FaultCases() []goprog.Case {
	var cs []goprog.Case
	for _, k := range intKinds {
		for _, op := range []string{"/", "%"} {
			for _, form := range []string{"x op y", "const op y", "x op= y", "callee(x, y)", "x op (y - y)", "elem op y"} {
				for _, div := range []string{"0", "-1"} {
					if div == "-1" && !k.signed {
						continue
					}
					i := len(cs)
					x := "100"
					if div == "-1" {
						x = intVals(k)[3].lit // min: min / -1 wraps, min % -1 is 0, no panic
					}
					var decls, body string
					pre := fmt.Sprintf("\tvar x %s = %s\n\tvar y %s = %s\n", k.name, x, k.name, div)
					switch form {
					case "x op y":
						body = pre + "\tr := x " + op + " y\n\tprintln(\"result\", r)\n"
					case "const op y":
						body = pre + "\t_ = x\n\tr := 100 " + op + " y\n\tprintln(\"result\", r)\n"
					case "x op= y":
						body = pre + "\tx " + op + "= y\n\tprintln(\"result\", x)\n"
					case "callee(x, y)":
						decls = fmt.Sprintf("func d_%d(x, y %s) (r %s, msg string) {\n\tdefer func() {\n\t\tif e := recover(); e != nil {\n\t\t\tmsg = e.(error).Error()\n\t\t}\n\t}()\n\tr = x %s y\n\treturn r, \"no panic\"\n}\n", i, k.name, k.name, op)
						body = pre + fmt.Sprintf("\tr, msg := d_%d(x, y)\n\tprintln(\"result\", r, msg)\n", i)
					case "x op (y - y)":
						body = pre + "\tr := x " + op + " (y - y)\n\tprintln(\"result\", r)\n"
					case "elem op y":
						body = pre + "\ts := []" + k.name + "{x}\n\ts[0] " + op + "= y\n\tprintln(\"result\", s[0])\n"
					}
					cs = append(cs, goprog.Case{Decls: decls, Body: body,
						Key:   "family=int-fault op=" + op + " form=" + form,
						Kind:  k.name,
						Attrs: map[string]any{"family": "int-fault", "kind": k.name, "op": op, "form": form, "divisor": div}})
				}
			}
		}
	}
	return cs
}
