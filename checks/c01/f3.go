package main

// F3 — composite values: every sequence of up to N operations over a slice, an
// array, a map, a nil map, a struct and an aliasing slice; the complete state
// is printed at the end, one labelled line per component.

import (
	"strings"

	"verif/gen/goprog"
	"verif/kit"
)

type f3op struct{ name, code string }

var f3Ops = []f3op{
	{"append1", "s = append(s, 1)"},
	{"append2", "s = append(s, 1, 2)"},
	{"slice[1:]", "s = s[1:]"},
	{"slice[:1:1]", "s = s[:1:1]"},
	{"copy", "println(\"copy:\", copy(s, t))"},
	{"set[0]", "s[0] = 9"},
	{"set[len]", "s[len(s)] = 9"},
	{"delete", "delete(m, \"a\")"},
	{"mapset", "m[\"b\"] = len(s)"},
	{"mapget-missing", "println(\"get:\", m[\"zz\"], len(m))"},
	{"nilmapset", "nm[\"x\"] = 1"},
	{"lencap", "println(\"lencap:\", len(s), cap(s))"},
	{"alias", "t = append(s[:1], 5)"},
	{"arrayset", "a[1] = s[0]"},
	{"arraycopy", "{\n\t\tb := a\n\t\tb[0] = 7\n\t\tprintln(\"arr:\", a[0], b[0])\n\t}"},
	{"struct", "st.X += len(s)\n\tp := &st\n\tp.Y += \"b\"\n\tp = nil\n\t_ = p"},
	{"appendself", "s = append(s, s...)"},
	{"mapinc", "m[\"a\"]++\n\tm[\"c\"] += 2"},
}

const f3Pre = `	s := []int{1, 2, 3}
	t := make([]int, 1, 4)
	a := [3]int{4, 5, 6}
	m := map[string]int{"a": 1}
	var nm map[string]int
	st := struct {
		X int
		Y string
	}{1, "a"}
	defer func() {
		print("s: ", len(s), " ", cap(s))
		for _, v := range s {
			print(" ", v)
		}
		println()
		print("t: ", len(t), " ", cap(t))
		for _, v := range t {
			print(" ", v)
		}
		println()
		println("a:", a[0], a[1], a[2])
		println("m:", len(m), m["a"], m["b"], m["c"])
		println("nm:", len(nm), nm == nil)
		println("st:", st.X, st.Y)
	}()
`

func f3Family(tier string) *goprog.Family {
	n := 3
	if tier == "thorough" {
		n = 4
	}
	names := make([]string, len(f3Ops))
	for i, o := range f3Ops {
		names[i] = o.name
	}
	en := kit.NewStringsUpTo(names, n)
	return &goprog.Family{
		Name: "F3.composite",
		Size: en.Size(),
		Gen: func(i uint64) goprog.Case {
			atoms := en.Atoms(i)
			var b strings.Builder
			b.WriteString(f3Pre)
			var seq []string
			for k, a := range atoms {
				code := f3Ops[a].code
				if f3Ops[a].name == "struct" {
					// p is declared by := : give each occurrence its own block
					code = "{\n\t" + code + "\n\t}"
				}
				_ = k
				b.WriteString("\t" + code + "\n")
				seq = append(seq, f3Ops[a].name)
			}
			return goprog.Case{
				Body:      b.String(),
				Key:       "family=composite",
				DiffLabel: goprog.DiffPrefix,
				Attrs:     map[string]any{"family": "composite", "ops": seq},
			}
		},
	}
}
