package main

// F12 — exact untyped constant arithmetic: constant expressions whose
// intermediate value does not fit in 64 bits while the final value does.
//
// Every ordered pair (a, b) of operand magnitudes around 2^31, 2^32, 2^40,
// 2^62 and 2^63-1 whose product does not fit in an int64, with every
// combination of signs, is brought back into range in each of the ways below
// (one output line per way), in each context: literal operands inside println,
// a typed int64 expression with a variable operand, and named untyped
// constants in a local or in a package-level const block.
//
// The pairs cover a wrapped (64-bit) product that is zero, that has the sign of
// the exact product and that has the opposite sign (attribute "wrapped").

import (
	"fmt"
	"math/big"
	"strings"

	"verif/gen/goprog"
)

func f12Magnitudes() []*big.Int {
	p := func(k uint, d int64) *big.Int {
		v := new(big.Int).Lsh(big.NewInt(1), k)
		return v.Add(v, big.NewInt(d))
	}
	return []*big.Int{
		p(31, -1), p(31, 0), p(32, -1), p(32, 0), p(32, 1), p(40, 1),
		p(62, -1), p(62, 0), p(62, 1), p(63, -1),
	}
}

var f12Contexts = []string{"literals-in-println", "typed-int64-with-variable", "local-const-block", "package-const-block"}

type f12pair struct{ a, b *big.Int }

// f12Pairs lists every ordered pair of magnitudes x signs whose exact product
// is outside the int64 range.
func f12Pairs() []f12pair {
	ms := f12Magnitudes()
	var ps []f12pair
	for _, a := range ms {
		for _, b := range ms {
			if new(big.Int).Mul(a, b).BitLen() <= 63 {
				continue
			}
			for s := 0; s < 4; s++ {
				x, y := new(big.Int).Set(a), new(big.Int).Set(b)
				if s&1 != 0 {
					x.Neg(x)
				}
				if s&2 != 0 {
					y.Neg(y)
				}
				ps = append(ps, f12pair{x, y})
			}
		}
	}
	return ps
}

func f12Lit(v *big.Int) string {
	if v.Sign() < 0 {
		return "(" + v.String() + ")"
	}
	return v.String()
}

// f12Wrapped returns v reduced to a two's complement 64-bit integer.
func f12Wrapped(v *big.Int) *big.Int {
	m := new(big.Int).Lsh(big.NewInt(1), 64)
	w := new(big.Int).Mod(v, m) // 0 <= w < 2^64
	if w.BitLen() == 64 {
		w.Sub(w, m)
	}
	return w
}

type f12way struct {
	name string
	bool bool
	// expr builds the constant expression from the operand texts A and B and
	// the text P of their product (A*B in parentheses, or the name of a constant)
	expr func(A, B, P string, a, b, p *big.Int) string
}

var f12Ways = []f12way{
	{"product-divided-by-operand", false, func(A, B, P string, a, b, p *big.Int) string { return P + " / " + B }},
	{"product-divided-by-power-of-two", false, func(A, B, P string, a, b, p *big.Int) string {
		return P + " / " + new(big.Int).Lsh(big.NewInt(1), uint(p.BitLen()-62)).String()
	}},
	{"product-shifted-right", false, func(A, B, P string, a, b, p *big.Int) string {
		return fmt.Sprintf("%s >> %d", P, p.BitLen()-62)
	}},
	{"product-greater-than-1<<63", true, func(A, B, P string, a, b, p *big.Int) string { return P + " > 1<<63" }},
	{"product-less-than-minus-1<<63", true, func(A, B, P string, a, b, p *big.Int) string { return P + " < -1<<63" }},
	{"product-equals-its-64-bit-wrap-around", true, func(A, B, P string, a, b, p *big.Int) string {
		return P + " == " + f12Lit(f12Wrapped(p))
	}},
	{"product-minus-large-literal", false, func(A, B, P string, a, b, p *big.Int) string {
		return P + " - " + f12Lit(new(big.Int).Sub(p, big.NewInt(12345)))
	}},
	{"product-minus-product", false, func(A, B, P string, a, b, p *big.Int) string {
		return P + " - " + A + "*(" + B + "-1)"
	}},
	{"product-modulo", false, func(A, B, P string, a, b, p *big.Int) string { return P + " % 1000000007" }},
	{"quotient-of-products", false, func(A, B, P string, a, b, p *big.Int) string {
		return "(" + P + " + " + B + ") / (" + B + "*4)"
	}},
}

func f12Case(i uint64, pr f12pair, ctx string) goprog.Case {
	sfx := fmt.Sprint(i)
	p := new(big.Int).Mul(pr.a, pr.b)
	A, B := f12Lit(pr.a), f12Lit(pr.b)
	P := "(" + A + "*" + B + ")"
	named := strings.HasSuffix(ctx, "const-block")
	pkg := ctx == "package-const-block"
	if named {
		A, B, P = "A", "B", "P"
		if pkg {
			A, B, P = "A_"+sfx, "B_"+sfx, "P_"+sfx
		}
	}
	var consts, body strings.Builder
	if named {
		fmt.Fprintf(&consts, "const (\n\t%s = %s\n\t%s = %s\n\t%s = %s * %s\n", A, pr.a.String(), B, pr.b.String(), P, A, B)
	}
	if ctx == "typed-int64-with-variable" {
		body.WriteString("\tvar z int64\n\tvar t bool\n")
	}
	for k, w := range f12Ways {
		e := w.expr(A, B, P, pr.a, pr.b, p)
		if named {
			r := fmt.Sprintf("R%d", k)
			if pkg {
				r += "_" + sfx
			}
			fmt.Fprintf(&consts, "\t%s = %s\n", r, e)
			e = r
		}
		switch {
		case ctx != "typed-int64-with-variable":
			fmt.Fprintf(&body, "\tprintln(%q, %s)\n", w.name, e)
		case w.bool:
			fmt.Fprintf(&body, "\tt = %s\n\tprintln(%q, t)\n", e, w.name)
		default:
			fmt.Fprintf(&body, "\tprintln(%q, z+(%s))\n", w.name, e)
		}
	}
	if named {
		consts.WriteString(")\n")
	}
	c := goprog.Case{
		Key:       "family=const-intermediate-overflow operands=" + ctx,
		DiffLabel: goprog.DiffLine,
		// a constant expression refused at build time is refused whatever the way its operands are written
		CoarseBuildErr: true,
	}
	if pkg {
		c.Decls = consts.String()
		c.Body = body.String()
	} else {
		c.Body = consts.String() + body.String()
	}
	wrapped := "opposite sign"
	switch w := f12Wrapped(p); {
	case w.Sign() == 0:
		wrapped = "zero"
	case w.Sign() == p.Sign():
		wrapped = "same sign"
	}
	c.Attrs = map[string]any{"family": "const-intermediate-overflow", "a": pr.a.String(), "b": pr.b.String(), "operands": ctx, "wrapped": wrapped}
	return c
}

func f12ConstFamily() *goprog.Family {
	ps := f12Pairs()
	nc := uint64(len(f12Contexts))
	return &goprog.Family{
		Name: "F12.const-intermediate-overflow",
		Size: uint64(len(ps)) * nc,
		Gen: func(i uint64) goprog.Case {
			return f12Case(i, ps[i/nc], f12Contexts[i%nc])
		},
	}
}
