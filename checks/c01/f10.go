package main

// F10 — control transfer across range statements, and range over array-valued
// expressions.
//
// F10.range-transfer composes
//
//	{what is ranged over} x {how the body is left} x {where the loop is}
//
// and every program observes the statements after the transfer in the same
// iteration, the later iterations and the code after the loop. The alphabets
// are ordered simplest first, so the smallest index is the simplest program.
//
// F10.range-array-expr ranges over an array-valued expression that is not a
// plain variable (gc iterates over a copy when both variables are used) while
// the body overwrites elements not visited yet.

import (
	"fmt"
	"strings"
	"time"

	"verif/gen/goprog"
)

// a range kind: how the container is built (in the scope where the loop is, or
// passed as the parameter c of a helper) and the loop header giving v (1, 2, 3).
type f10range struct {
	name  string
	typ   string // type of the container
	build string // expression building it
	head  string // loop header over container c, declaring v (an int 1..3)
	pre   string // statement inside the body before everything else (derives v)
}

var f10Ranges = []f10range{
	{"slice", "[]int", "[]int{1, 2, 3}", "for _, v := range c", ""},
	{"array", "[3]int", "[3]int{1, 2, 3}", "for _, v := range c", ""},
	{"string", "string", "\"abc\"", "for _, r := range c", "v := int(r-'a') + 1"},
	{"map1", "map[int]int", "map[int]int{7: 2}", "for _, v := range c", ""},
	{"chan", "chan int", "mkch_§()", "for v := range c", ""},
	{"slice-index-only", "[]int", "[]int{1, 2, 3}", "for i := range c", "v := c[i]"},
}

// exits: how the body is left. {V} is the iteration value.
type f10exit struct {
	name  string
	decls string // package-level declarations (§ = suffix)
	body  string // statements of the loop body
	outer bool   // the loop is nested in an outer labelled range loop
}

const f10Find = `func find_§(xs []int, x int) int {
	for i, v := range xs {
		if v == x {
			return i
		}
	}
	return -1
}
`

var f10Exits = []f10exit{
	{"falls-through", "", "println(\"body\", v)", false},
	{"continue", "", "if v == 2 {\ncontinue\n}\nprintln(\"body\", v)", false},
	{"break", "", "if v == 2 {\nbreak\n}\nprintln(\"body\", v)", false},
	{"return", "", "if v == 2 {\nprintln(\"returning\")\nreturn\n}\nprintln(\"body\", v)", false},
	{"defer-in-body", "", "defer println(\"deferred\", v)\nprintln(\"body\", v)", false},
	{"call-returning-from-its-range(slice)", f10Find, "println(\"found\", find_§([]int{1, 2, 3}, v))\nprintln(\"after-call\", v)", false},
	{"call-returning-from-its-range(string)", "func finds_§(s string, x int) int {\n\tfor i, r := range s {\n\t\tif int(r-'a')+1 == x {\n\t\t\treturn i\n\t\t}\n\t}\n\treturn -1\n}\n",
		"println(\"found\", finds_§(\"abc\", v))\nprintln(\"after-call\", v)", false},
	{"call-returning-from-its-range(map)", "func findm_§(m map[int]int, x int) int {\n\tfor k, v := range m {\n\t\tif v == 2 {\n\t\t\treturn k + x\n\t\t}\n\t}\n\treturn -1\n}\n",
		"println(\"found\", findm_§(map[int]int{7: 2}, v))\nprintln(\"after-call\", v)", false},
	{"call-breaking-out-of-its-range", "func cnt_§(xs []int, x int) int {\n\tn := 0\n\tfor _, v := range xs {\n\t\tif v == x {\n\t\t\tbreak\n\t\t}\n\t\tn++\n\t}\n\treturn n\n}\n",
		"println(\"count\", cnt_§([]int{1, 2, 3}, v))\nprintln(\"after-call\", v)", false},
	{"call-that-panics-and-recovers", "func safe_§(v int) {\n\tdefer func() {\n\t\tif r := recover(); r != nil {\n\t\t\tprintln(\"recovered\", r.(string))\n\t\t}\n\t}()\n\tif v == 2 {\n\t\tpanic(\"two\")\n\t}\n\tprintln(\"safe\", v)\n}\n",
		"safe_§(v)\nprintln(\"after-call\", v)", false},
	{"call-that-faults-and-recovers", "func safef_§(v int) (r int) {\n\tdefer func() {\n\t\tif e := recover(); e != nil {\n\t\t\tr = -1\n\t\t}\n\t}()\n\txs := []int{10, 20}\n\treturn xs[v-1]\n}\n",
		"println(\"safe\", safef_§(v))\nprintln(\"after-call\", v)", false},
	{"call-panicking-inside-its-range-and-recovering", "func safer_§(v int) {\n\tdefer func() {\n\t\trecover()\n\t}()\n\tfor _, w := range []int{1, 2, 3} {\n\t\tif w == v {\n\t\t\tpanic(\"p\")\n\t\t}\n\t\tprintln(\"inner\", w)\n\t}\n}\n",
		"safer_§(v)\nprintln(\"after-call\", v)", false},
	{"recursive-call-returning-from-its-range", "func rec_§(xs []int, d int) int {\n\tfor i, v := range xs {\n\t\tif d > 0 {\n\t\t\tr := rec_§(xs, d-1)\n\t\t\tprintln(\"rec\", d, i, r)\n\t\t}\n\t\tif v == 2 {\n\t\t\treturn v*10 + d\n\t\t}\n\t}\n\treturn -1\n}\n",
		"println(\"walk\", rec_§([]int{1, 2, 3}, v-1))\nprintln(\"after-call\", v)", false},
	{"tree-walk", "var kids_§ = [][]int{{1, 2, 3}, {4, 5}, {}, {6}, {}, {}, {}}\n\nfunc walk_§(n, x int) bool {\n\tprintln(\"visit\", n)\n\tif n == x {\n\t\treturn true\n\t}\n\tfor _, k := range kids_§[n] {\n\t\tif walk_§(k, x) {\n\t\t\treturn true\n\t\t}\n\t}\n\treturn false\n}\n",
		"println(\"found\", walk_§(0, v+3))\nprintln(\"after-call\", v)", false},
	{"closure-call-returning-from-its-range", "", "f := func(x int) int {\nfor i, w := range []int{1, 2, 3} {\nif w == x {\nreturn i\n}\n}\nreturn -1\n}\nprintln(\"found\", f(v))\nprintln(\"after-call\", v)", false},
	{"labelled-continue-of-outer-range", "", "if v == 2 {\ncontinue Outer\n}\nprintln(\"body\", v)", true},
	{"labelled-break-of-outer-range", "", "if v == 2 && w == 20 {\nbreak Outer\n}\nprintln(\"body\", v)", true},
}

var f10Positions = []string{"function-body", "helper-range-first-statement", "closure", "deferred-function"}

func f10Loop(r f10range, e f10exit) string {
	var b strings.Builder
	if e.outer {
		b.WriteString("Outer:\nfor _, w := range []int{10, 20, 30} {\nprintln(\"outer\", w)\n")
	}
	b.WriteString(r.head + " {\n")
	if r.pre != "" {
		b.WriteString(r.pre + "\n")
	}
	b.WriteString(e.body + "\nprintln(\"end-of-iteration\", v)\n}\n")
	if e.outer {
		b.WriteString("println(\"outer-end\", w)\n}\n")
	}
	b.WriteString("println(\"after-loop\")\n")
	return b.String()
}

// f10Case builds the program of one (range, exit, position) triple.
func f10Case(i uint64, r f10range, e f10exit, pos string) goprog.Case {
	sfx := fmt.Sprint(i)
	rep := func(s string) string { return strings.ReplaceAll(s, "§", sfx) }
	decls := rep(e.decls)
	if r.name == "chan" {
		decls += rep("func mkch_§() chan int {\n\tch := make(chan int, 3)\n\tch <- 1\n\tch <- 2\n\tch <- 3\n\tclose(ch)\n\treturn ch\n}\n")
	}
	loop := rep(f10Loop(r, e))
	var body string
	switch pos {
	case "function-body":
		body = "c := " + rep(r.build) + "\n" + loop + "println(\"end\")\n"
	case "helper-range-first-statement":
		decls += rep("func h_§(c "+r.typ+") {\n") + loop + "}\n"
		body = "h_" + sfx + "(" + rep(r.build) + ")\nprintln(\"end\")\n"
	case "closure":
		body = "c := " + rep(r.build) + "\nfunc() {\n" + loop + "}()\nprintln(\"end\")\n"
	case "deferred-function":
		body = "c := " + rep(r.build) + "\ndefer func() {\n" + loop + "}()\nprintln(\"end\")\n"
	}
	return goprog.Case{
		Decls:          decls,
		Body:           body,
		Key:            "family=range-transfer range=" + r.name + " exit=" + e.name + " loop-in=" + pos,
		CoarseBuildErr: true,
		Attrs:          map[string]any{"family": "range-transfer", "range": r.name, "exit": e.name, "loop_in": pos},
	}
}

// f10TransferFamilies returns one small family per (exit kind, loop position),
// simplest first; each ranges over every range kind. (Separate families are
// separate chunks of work: a program that a defect turns into an endless loop
// costs its worker the whole time-out, so they must not queue up behind each
// other.)
func f10TransferFamilies() []*goprog.Family {
	var fams []*goprog.Family
	for _, e := range f10Exits {
		for _, pos := range f10Positions {
			e, pos := e, pos
			fams = append(fams, &goprog.Family{
				Name:          "F10.range-transfer/" + e.name + "/" + pos,
				Size:          uint64(len(f10Ranges)),
				Timeout:       2 * time.Second, // a miscompiled loop may run (and print) for ever: the context stops it
				RunawayOutput: 16 << 10,
				Gen:           func(i uint64) goprog.Case { return f10Case(i, f10Ranges[i], e, pos) },
			})
		}
	}
	// many calls that return from inside their range loop: every call must give
	// its frame back. A leak shows as a Go stack overflow that kills the process;
	// main() lowers the maximum stack size (MaxHostStack) so that 400000 leaked
	// frames are enough.
	manyExit := f10exit{"400000-calls-returning-from-their-range", f10Find,
		"if v == 1 {\ns := 0\nfor k := 0; k < 400000; k++ {\ns += find_§([]int{1, 2, 3}, 2)\n}\nprintln(\"sum\", s)\n}\nprintln(\"body\", v)", false}
	for _, pos := range f10Positions {
		pos := pos
		fams = append(fams, &goprog.Family{
			Name:    "F10.range-transfer/" + manyExit.name + "/" + pos,
			Size:    1,
			Timeout: 30 * time.Second,
			Gen:     func(i uint64) goprog.Case { return f10Case(i, f10Ranges[0], manyExit, pos) },
		})
	}
	return fams
}

// ---- range over an array-valued expression ----

type f10expr struct {
	name  string
	decls string
	setup string // statements before the loop
	expr  string // the range expression
	mut   string // statement overwriting elements 1 and 2 of the array the expression denotes
	live  string // expression reading element i of the live array
}

var f10Exprs = []f10expr{
	{"variable", "", "a := [3]int{1, 2, 3}", "a", "a[1] = 100\na[2] = 200", "a[i]"},
	{"parenthesized-variable", "", "a := [3]int{1, 2, 3}", "(a)", "a[1] = 100\na[2] = 200", "a[i]"},
	{"struct-field", "type S_§ struct {\n\tn   int\n\tarr [3]int\n}\n", "s := S_§{0, [3]int{1, 2, 3}}", "s.arr", "s.arr[1] = 100\ns.arr[2] = 200", "s.arr[i]"},
	{"field-through-pointer", "type S_§ struct {\n\tn   int\n\tarr [3]int\n}\n", "p := &S_§{0, [3]int{1, 2, 3}}", "p.arr", "p.arr[1] = 100\np.arr[2] = 200", "p.arr[i]"},
	{"nested-struct-field", "type I_§ struct {\n\tarr [3]int\n}\n\ntype O_§ struct {\n\tin I_§\n}\n", "o := O_§{I_§{[3]int{1, 2, 3}}}", "o.in.arr", "o.in.arr[1] = 100\no.in.arr[2] = 200", "o.in.arr[i]"},
	{"slice-element", "", "rows := [][3]int{{7, 8, 9}, {1, 2, 3}}\nk := 1", "rows[k]", "rows[k][1] = 100\nrows[k][2] = 200", "rows[k][i]"},
	{"array-element", "", "grid := [2][3]int{{7, 8, 9}, {1, 2, 3}}\nk := 1", "grid[k]", "grid[k][1] = 100\ngrid[k][2] = 200", "grid[k][i]"},
	{"map-element", "", "m := map[string][3]int{\"k\": {1, 2, 3}}", "m[\"k\"]", "m[\"k\"] = [3]int{1, 100, 200}", "m[\"k\"][i]"},
	{"dereferenced-pointer", "", "a := [3]int{1, 2, 3}\np := &a", "*p", "a[1] = 100\na[2] = 200", "a[i]"},
	{"call-result", "var g_§ = [3]int{1, 2, 3}\n\nfunc get_§() [3]int {\n\treturn g_§\n}\n", "", "get_§()", "g_§[1] = 100\ng_§[2] = 200", "g_§[i]"},
	{"package-variable", "var g_§ = [3]int{1, 2, 3}\n", "", "g_§", "g_§[1] = 100\ng_§[2] = 200", "g_§[i]"},
	{"closure-captured-variable", "", "a := [3]int{1, 2, 3}\nset := func() {\n\ta[1] = 100\n\ta[2] = 200\n}", "a", "set()", "a[i]"},
	{"pointer-to-array", "", "a := [3]int{1, 2, 3}\np := &a", "p", "a[1] = 100\na[2] = 200", "a[i]"},
	{"array-of-strings-field", "type S_§ struct {\n\tarr [3]string\n}\n", "s := S_§{[3]string{\"a\", \"b\", \"c\"}}", "s.arr", "s.arr[1] = \"X\"\ns.arr[2] = \"Y\"", "s.arr[i]"},
}

var f10Forms = []string{"i-only", "i,v", "_,v", "i,v-assigned-to-existing"}

func f10ArrayExprFamily() *goprog.Family {
	type combo struct{ x, f int }
	var cs []combo
	for x := range f10Exprs {
		for f := range f10Forms {
			cs = append(cs, combo{x, f})
		}
	}
	return &goprog.Family{
		Name:    "F10.range-array-expr",
		Size:    uint64(len(cs)),
		Timeout: 2 * time.Second,
		Gen: func(i uint64) goprog.Case {
			c := cs[i]
			x, form := f10Exprs[c.x], f10Forms[c.f]
			sfx := fmt.Sprint(i)
			rep := func(s string) string { return strings.ReplaceAll(s, "§", sfx) }
			var b strings.Builder
			if x.setup != "" {
				b.WriteString(rep(x.setup) + "\n")
			}
			switch form {
			case "i-only":
				fmt.Fprintf(&b, "for i := range %s {\n%s\nprintln(\"iter\", i, %s)\n}\n", rep(x.expr), rep(x.mut), rep(x.live))
			case "i,v":
				fmt.Fprintf(&b, "for i, v := range %s {\n%s\nprintln(\"iter\", i, v, %s)\n}\n", rep(x.expr), rep(x.mut), rep(x.live))
			case "_,v":
				fmt.Fprintf(&b, "i := 0\nfor _, v := range %s {\n%s\nprintln(\"iter\", v, %s)\ni++\n}\n", rep(x.expr), rep(x.mut), rep(x.live))
			case "i,v-assigned-to-existing":
				elem := "int"
				if strings.Contains(x.name, "strings") {
					elem = "string"
				}
				fmt.Fprintf(&b, "var i int\nvar v %s\nfor i, v = range %s {\n%s\nprintln(\"iter\", i, v, %s)\n}\nprintln(\"last\", i, v)\n", elem, rep(x.expr), rep(x.mut), rep(x.live))
			}
			b.WriteString("println(\"after-loop\")\n")
			return goprog.Case{
				Decls: rep(x.decls),
				Body:  b.String(),
				Key:   "family=range-array-expr expr=" + x.name + " vars=" + form,
				Attrs: map[string]any{"family": "range-array-expr", "expr": x.name, "vars": form},
			}
		},
	}
}
