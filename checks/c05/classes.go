package main

// Situation classes added after review:
//
//	chan-seq     state left in the VM by an earlier channel operation
//	embedded     native struct values with embedded pointers (promoted fields and methods)
//	assert-iface failing assertions / type switches to native non-empty interfaces
//	big-tables   instructions whose table index is >= 128 (and around 256) at run time
//
// Every case is a program (or template) that prints what it computes; the
// expected text is known by construction (Go semantics, computed natively
// where the values are native). Oracle: C05's (never a host panic, documented
// result kinds) plus the differential: the printed text is the expected one.

import (
	"context"
	"errors"
	"fmt"
	"reflect"
	"runtime/debug"
	"strings"

	"verif/kit"

	"github.com/open2b/scriggo"
	"github.com/open2b/scriggo/native"
)

// runOut builds and runs sc with the host declarations plus extra, capturing
// what print/println print and what the template writes.
func runOut(sc srcCase, extra native.Declarations, withCtx bool) (r runResult, ctx context.Context, printed, written string) {
	files := scriggo.Files{}
	for n, s := range sc.files {
		files[n] = []byte(s)
	}
	var pb strings.Builder
	opts := &scriggo.RunOptions{Print: func(v any) { fmt.Fprint(&pb, v) }}
	if withCtx {
		var cancel context.CancelFunc
		ctx, cancel = context.WithCancel(context.Background())
		defer cancel()
		opts.Context = ctx
	}
	decls := hostDecls()
	for k, v := range extra {
		decls[k] = v
	}
	defer func() {
		if v := recover(); v != nil {
			r.buildPanic = v
			r.stack = string(debug.Stack())
		}
	}()
	var run func() error
	var wb strings.Builder
	if sc.program {
		p, err := scriggo.Build(files, &scriggo.BuildOptions{Packages: native.Packages{"host": native.Package{Name: "host", Declarations: decls}}, AllowGoStmt: true})
		if err != nil {
			r.buildErr = err
			return
		}
		run = func() error { return p.Run(opts) }
	} else {
		t, err := scriggo.BuildTemplate(files, sc.entry, &scriggo.BuildOptions{Globals: decls, AllowGoStmt: true})
		if err != nil {
			r.buildErr = err
			return
		}
		run = func() error { return t.Run(&wb, nil, opts) }
	}
	func() {
		defer func() {
			if v := recover(); v != nil {
				r.hostPanic = v
				r.stack = string(debug.Stack())
			}
		}()
		r.err = run()
	}()
	return r, ctx, pb.String(), wb.String()
}

// expectation of a class case
type expect struct {
	panicContains string // non-empty: Run must return a *PanicError whose message contains it
	panicExact    string // non-empty: … whose String() is exactly it
	out           string // expected printed (programs) or written (templates) text when Run returns nil
	buildMayFail  bool   // a *BuildError is acceptable (limits)
}

// judgeClass applies C05's oracle and the class expectation.
func judgeClass(class string, sc srcCase, r runResult, ctx context.Context, got string, e expect, what string) kit.Outcome {
	detail := what + "\n" + describeFiles(sc.files)
	if len(detail) > 6000 {
		detail = detail[:3000] + "\n…\n" + detail[len(detail)-2500:]
	}
	if r.buildErr != nil {
		var be *scriggo.BuildError
		if e.buildMayFail && errors.As(r.buildErr, &be) {
			return kit.Outcome{OK: true, Class: class + ": does not build: " + kit.NormMsg(stripPos(r.buildErr.Error()))}
		}
		return kit.Outcome{Key: "harness|" + class + " source does not build|" + kit.NormMsg(stripPos(r.buildErr.Error())), Detail: detail + "\n" + r.buildErr.Error(), Class: "fail", Nontrivial: true}
	}
	o := judge(r, ctx, detail, false, false, "|in="+class)
	if !o.OK || r.buildPanic != nil {
		return o
	}
	fail := func(key, more string) kit.Outcome {
		return kit.Outcome{Key: class + "|" + key, Detail: detail + "\n" + more, Class: "fail", Nontrivial: true}
	}
	pe, isPanic := r.err.(*scriggo.PanicError)
	switch {
	case e.panicContains != "" || e.panicExact != "":
		if !isPanic {
			return fail("want a *PanicError, got "+o.Class, fmt.Sprintf("expected a *PanicError containing %q; Run returned %v; output %q", e.panicContains+e.panicExact, r.err, got))
		}
		if e.panicContains != "" && !strings.Contains(pe.String(), e.panicContains) {
			return fail("message of the *PanicError is not the expected runtime error", fmt.Sprintf("expected message containing %q, got %q", e.panicContains, pe.String()))
		}
		if e.panicExact != "" && pe.String() != e.panicExact {
			return fail("message of the *PanicError differs from gc's", fmt.Sprintf("gc: %q\nScriggo: %q", e.panicExact, pe.String()))
		}
		o.Class = class + ": *PanicError as expected"
	default:
		if r.err != nil {
			return fail("want nil, got "+o.Class, fmt.Sprintf("expected Run to return nil and the output %q; Run returned (%T) %v; output %q", e.out, r.err, r.err, got))
		}
		if got != e.out {
			return fail("output differs from the expected one", fmt.Sprintf("expected output %q\nobserved output %q", e.out, got))
		}
		o.Class = class + ": ran, output as expected"
	}
	return o
}

// ---- (a) channel operation sequences ----

type chanOp struct {
	name string
	code []string
	out  string
}

var chanOps = []chanOp{
	{"receive", []string{"c := make(chan int, 1)", "c <- 5", "v := <-c", `println("recv", v)`}, "recv 5\n"},
	{"send", []string{"c := make(chan int, 1)", "c <- 7", `println("send", len(c))`}, "send 1\n"},
	{"range over a channel", []string{"c := make(chan int, 2)", "c <- 1", "c <- 2", "close(c)", "for v := range c {", "\t" + `println("range", v)`, "}"}, "range 1\nrange 2\n"},
	{"select with default", []string{"c := make(chan int)", "select {", "case v := <-c:", "\t" + `println("sel-d got", v)`, "default:", "\t" + `println("sel-d default")`, "}"}, "sel-d default\n"},
	{"select ready to receive", []string{"c := make(chan int, 1)", "c <- 9", "select {", "case v := <-c:", "\t" + `println("sel-r", v)`, "}"}, "sel-r 9\n"},
	{"select ready to send", []string{"c := make(chan int, 1)", "select {", "case c <- 3:", "\t" + `println("sel-s", len(c))`, "}"}, "sel-s 1\n"},
	{"select cut short by a recovered send on a closed channel", []string{"func() {", "\tdefer func() {", "\t\t" + `println("recovered", recover() != nil)`, "\t}()", "\tc := make(chan int, 1)", "\tclose(c)", "\tselect {", "\tcase c <- 1:", "\t\t" + `println("sent")`, "\tdefault:", "\t\t" + `println("default")`, "\t}", "}()"}, "recovered true\n"},
	{"receive from a closed channel", []string{"c := make(chan string)", "close(c)", "v, ok := <-c", `println("closed", v, ok)`}, "closed  false\n"},
	{"select receiving from a closed channel", []string{"c := make(chan int)", "close(c)", "select {", "case v, ok := <-c:", "\t" + `println("sel-c", v, ok)`, "}"}, "sel-c 0 false\n"},
	{"recovered send on a closed channel", []string{"func() {", "\tdefer func() {", "\t\t" + `println("recovered-send", recover() != nil)`, "\t}()", "\tc := make(chan int, 1)", "\tclose(c)", "\tc <- 1", "}()"}, "recovered-send true\n"},
}

func chanSeqSpace() kit.Space {
	n := uint64(len(chanOps))
	// sequences of 2 then of 3 operations, each with the context option off/on
	pairs, triples := n*n*2, n*n*n*2
	at := func(i uint64) ([]int, bool) {
		if i < pairs {
			return []int{int(i / 2 % n), int(i / 2 / n)}, i%2 == 1
		}
		i -= pairs
		return []int{int(i / 2 % n), int(i / 2 / n % n), int(i / 2 / n / n)}, i%2 == 1
	}
	src := func(seq []int) (srcCase, string) {
		var b strings.Builder
		var want string
		b.WriteString("package main\nimport \"host\"\nvar _ = host.Err\nfunc main() {\n")
		for _, k := range seq {
			b.WriteString("\t{\n")
			for _, l := range chanOps[k].code {
				b.WriteString("\t\t" + l + "\n")
			}
			b.WriteString("\t}\n")
			want += chanOps[k].out
		}
		b.WriteString("}\n")
		return srcCase{program: true, files: map[string]string{"main.go": b.String()}}, want
	}
	name := func(seq []int) string {
		var ns []string
		for _, k := range seq {
			ns = append(ns, chanOps[k].name)
		}
		return strings.Join(ns, " → ")
	}
	return kit.Space{Name: "chan-seq", Size: pairs + triples,
		Eval: func(i uint64) kit.Outcome {
			seq, withCtx := at(i)
			sc, want := src(seq)
			r, ctx, printed, _ := runOut(sc, nil, withCtx)
			o := judgeClass("chan-seq", sc, r, ctx, printed, expect{out: want}, fmt.Sprintf("channel operations in one run: %s; cancellable context: %v (each operation alone prints its own line)", name(seq), withCtx))
			if !o.OK && strings.HasPrefix(o.Key, "chan-seq|") {
				o.Key += "|last=" + chanOps[seq[len(seq)-1]].name
			}
			return o
		},
		Describe: func(i uint64) any {
			seq, withCtx := at(i)
			sc, _ := src(seq)
			return map[string]any{"sequence": name(seq), "with_context": withCtx, "files": sc.files}
		}}
}

// ---- (b) native structs with embedded pointers ----

type Inner struct {
	City  string
	Zip   int
	Score float64
	Tags  []string
}

func (i *Inner) IsNil() bool  { return i == nil }
func (i Inner) Label() string { return "L:" + i.City }

type Customer struct {
	Name string
	*Inner
}

type Mid struct {
	*Inner
	Level int
}

type Deep struct {
	Mid
	Id int
}

type embValue struct {
	name     string
	nilOuter bool // the value is a nil pointer
	nilInner bool // the embedded *Inner on the path is nil
	pointer  bool
}

var embValues = []embValue{
	{"CSet", false, false, false}, {"CNil", false, true, false}, {"DSet", false, false, false}, {"DNil", false, true, false},
	{"PCSet", false, false, true}, {"PCIn", false, true, true}, {"PCNil", true, true, true},
	{"PDSet", false, false, true}, {"PDIn", false, true, true}, {"PDNil", true, true, true},
}

func embDecls() native.Declarations {
	in := func() *Inner { return &Inner{"Rome", 7, 1.5, []string{"a"}} }
	cset, cnil := Customer{"s", in()}, Customer{Name: "n"}
	dset, dnil := Deep{Mid{in(), 1}, 2}, Deep{}
	pcset, pcin := &Customer{"s", in()}, &Customer{Name: "p"}
	var pcnil *Customer
	pdset, pdin := &Deep{Mid{in(), 1}, 2}, &Deep{}
	var pdnil *Deep
	return native.Declarations{"Customer": reflect.TypeOf(Customer{}), "Deep": reflect.TypeOf(Deep{}), "Inner": reflect.TypeOf(Inner{}),
		"CSet": &cset, "CNil": &cnil, "DSet": &dset, "DNil": &dnil, "PCSet": &pcset, "PCIn": &pcin, "PCNil": &pcnil, "PDSet": &pdset, "PDIn": &pdin, "PDNil": &pdnil}
}

type embOp struct {
	name string
	code []string // X is the operand
	out  string
	// needs: what must be non-nil for the operation not to panic
	needsInner bool
	tmpl       string // template form, "" if none
	tmplOut    string
	addr       bool
}

var embOps = []embOp{
	{"read string field", []string{"println(X.City)"}, "Rome\n", true, "{{ X.City }}", "Rome", false},
	{"read int field", []string{"println(X.Zip)"}, "7\n", true, "{{ X.Zip }}", "7", false},
	{"read float field", []string{"println(X.Score)"}, "1.5\n", true, "{{ X.Score }}", "1.5", false},
	{"read slice field", []string{"println(len(X.Tags), X.Tags[0])"}, "1 a\n", true, "{{ len(X.Tags) }}{{ X.Tags[0] }}", "1a", false},
	{"write string field", []string{`X.City = "Z"`, "println(X.City)"}, "Z\n", true, `{% X.City = "Z" %}{{ X.City }}`, "Z", false},
	{"write int field", []string{"X.Zip = 9", "println(X.Zip)"}, "9\n", true, "{% X.Zip = 9 %}{{ X.Zip }}", "9", false},
	{"write float field", []string{"X.Score = 2.5", "println(X.Score)"}, "2.5\n", true, "{% X.Score = 2.5 %}{{ X.Score }}", "2.5", false},
	{"write slice field", []string{"X.Tags = nil", "println(len(X.Tags))"}, "0\n", true, "{% X.Tags = nil %}{{ len(X.Tags) }}", "0", false},
	{"increment int field", []string{"X.Zip++", "println(X.Zip)"}, "8\n", true, "{% X.Zip++ %}{{ X.Zip }}", "8", false},
	{"add-assign float field", []string{"X.Score += 1", "println(X.Score)"}, "2.5\n", true, "{% X.Score += 1 %}{{ X.Score }}", "2.5", false},
	{"address of int field", []string{"p := &X.Zip", "*p = 11", "println(X.Zip)"}, "11\n", true, "", "", true},
	{"address of string field", []string{"p := &X.City", `*p = "Q"`, "println(X.City)"}, "Q\n", true, "", "", true},
	{"promoted pointer-receiver method", []string{"println(X.IsNil())"}, "false\n", false, "{{ X.IsNil() }}", "false", false},
	{"promoted value-receiver method", []string{"println(X.Label())"}, "L:Rome\n", true, "{{ X.Label() }}", "L:Rome", false},
	{"read the embedded pointer itself", []string{"println(X.Inner == nil)"}, "false\n", false, "{{ X.Inner == nil }}", "false", false},
}

var embHolders = []string{"the native variable itself", "a local copy", "a local copy captured by a closure", "a package-level copy", "template global", "template variable"}

const nilDerefMsg = "invalid memory address or nil pointer dereference"

func embeddedSpace() kit.Space {
	radices := []uint64{2, uint64(len(embHolders)), uint64(len(embOps)), uint64(len(embValues))}
	type ecase struct {
		v       embValue
		op      embOp
		holder  int
		recover bool
	}
	at := func(i uint64) ecase {
		d := kit.Mixed(i, radices...)
		return ecase{embValues[d[3]], embOps[d[2]], int(d[1]), d[0] == 1}
	}
	build := func(c ecase) (sc srcCase, e expect, na string) {
		panics := c.v.nilOuter || (c.op.needsInner && c.v.nilInner)
		if c.op.name == "promoted value-receiver method" && panics {
			return sc, e, "value method through a nil pointer: the known finding of the faults space"
		}
		out, tout := c.op.out, c.op.tmplOut
		if !c.op.needsInner && c.v.nilInner && !c.v.nilOuter {
			out, tout = "true\n", "true" // IsNil / Inner == nil on a nil embedded pointer
		}
		if c.holder >= 4 {
			if c.op.tmpl == "" {
				return sc, e, "no template form"
			}
			x := c.v.name
			pre := ""
			if c.holder == 5 {
				pre, x = "{% var x = "+c.v.name+" %}", "x"
			}
			body := strings.ReplaceAll(c.op.tmpl, "X", x)
			if c.recover {
				// the macro recovers; the text after the call shows the run went on
				sc = srcCase{entry: "index.html", files: map[string]string{"index.html": pre + "{% macro M %}{%% defer func() { if recover() != nil { print(\"recovered\") } }() %%}" + body + "{% end %}{{ M() }}|end"}}
				if c.holder == 5 {
					return sc, e, "a macro does not see the variables of the template body"
				}
				if panics {
					return sc, expect{out: "recovered|end"}, ""
				}
				return sc, expect{out: tout + "|end"}, ""
			}
			sc = srcCase{entry: "index.html", files: map[string]string{"index.html": pre + body + "|end"}}
			if panics {
				return sc, expect{panicContains: nilDerefMsg}, ""
			}
			return sc, expect{out: tout + "|end"}, ""
		}
		var b strings.Builder
		b.WriteString("package main\nimport \"host\"\nvar _ = host.Err\n")
		x := "host." + c.v.name
		var pre []string
		switch c.holder {
		case 1, 2:
			pre, x = []string{"x := host." + c.v.name}, "x"
		case 3:
			b.WriteString("var px = host." + c.v.name + "\n")
			x = "px"
		}
		b.WriteString("func main() {\n")
		ind := "\t"
		if c.recover {
			b.WriteString("\tfunc() {\n\t\tdefer func() {\n\t\t\tif recover() != nil {\n\t\t\t\tprintln(\"recovered\")\n\t\t\t}\n\t\t}()\n")
			ind = "\t\t"
		}
		for _, l := range pre {
			b.WriteString(ind + l + "\n")
		}
		if c.holder == 2 {
			b.WriteString(ind + "func() {\n")
			ind += "\t"
		}
		for _, l := range c.op.code {
			b.WriteString(ind + strings.ReplaceAll(l, "X", x) + "\n")
		}
		if c.holder == 2 {
			ind = ind[1:]
			b.WriteString(ind + "}()\n")
		}
		if c.recover {
			b.WriteString("\t}()\n\tprintln(\"end\")\n")
		}
		b.WriteString("}\n")
		sc = srcCase{program: true, files: map[string]string{"main.go": b.String()}}
		switch {
		case panics && c.recover:
			e = expect{out: "recovered\nend\n"}
		case panics:
			e = expect{panicContains: nilDerefMsg}
		case c.recover:
			e = expect{out: out + "end\n"}
		default:
			e = expect{out: out}
		}
		return sc, e, ""
	}
	return kit.Space{Name: "embedded", Size: kit.Product(radices...),
		Eval: func(i uint64) kit.Outcome {
			c := at(i)
			sc, e, na := build(c)
			if na != "" {
				return kit.Outcome{OK: true, Class: "n/a: " + na}
			}
			r, ctx, printed, written := runOut(sc, embDecls(), false)
			got := printed
			if !sc.program {
				got = printed + written // print goes first only in the recover form, where nothing else is written before
			}
			what := fmt.Sprintf("%s on %s held by %s; nil outer pointer: %v, nil embedded pointer: %v; recovered by the caller: %v", c.op.name, c.v.name, embHolders[c.holder], c.v.nilOuter, c.v.nilInner, c.recover)
			o := judgeClass("embedded", sc, r, ctx, got, e, what)
			if !o.OK && strings.HasPrefix(o.Key, "embedded|") {
				kind := "non-nil path"
				if c.v.nilOuter || c.v.nilInner {
					kind = "nil pointer on the path"
				}
				o.Key += "|" + kind + "|" + strings.SplitN(c.op.name, " ", 2)[0]
			}
			return o
		},
		Describe: func(i uint64) any {
			c := at(i)
			sc, _, na := build(c)
			return map[string]any{"value": c.v.name, "operation": c.op.name, "holder": embHolders[c.holder], "recover": c.recover, "files": sc.files, "na": na}
		}}
}

// ---- (c) assertions to native non-empty interfaces ----

type Namer interface{ Name(prefix string) string }
type Other interface{ Other() int }

type NoMethod struct{}

func (NoMethod) Other() int { return 1 }

type Fewer struct{}

func (Fewer) Name() string { return "fewer" }
func (Fewer) Other() int   { return 2 }

type More struct{}

func (More) Name(a, b string) string { return a + b }
func (More) Other() int              { return 3 }

type DiffRes struct{}

func (DiffRes) Name(p string) int { return len(p) }
func (DiffRes) Other() int        { return 4 }

type PtrRecv struct{}

func (*PtrRecv) Name(p string) string { return p + "ptr" }
func (PtrRecv) Other() int            { return 5 }

type Good struct{}

func (Good) Name(p string) string { return p + "good" }
func (Good) Other() int           { return 6 }

type dynVal struct {
	name    string
	v       any    // native value; nil for the values declared in Scriggo
	scriggo string // Scriggo expression when the value is declared in the program
	decl    string
}

var dynVals = []dynVal{
	{"Good", Good{}, "", ""}, {"NoMethod", NoMethod{}, "", ""}, {"Fewer", Fewer{}, "", ""}, {"More", More{}, "", ""}, {"DiffRes", DiffRes{}, "", ""},
	{"PtrRecvValue", PtrRecv{}, "", ""}, {"PtrRecvPointer", &PtrRecv{}, "", ""}, {"Int", 7, "", ""}, {"NilInterface", nil, "", ""},
	{"ScriggoInt", nil, "L(1)", "type L int"}, {"ScriggoStruct", nil, "LS{1}", "type LS struct{ A int }"}, {"ScriggoSliceOfNative", nil, "[]host.Good{}", ""},
}

var assertForms = []string{"single value", "single value inside an expression", "comma ok", "type switch"}
var assertSources = []string{"any", "native interface Other"}
var assertHolders = []string{"local variable", "variable captured by a closure", "package-level variable"}

// nativeAssert computes with Go itself what the form gives for a native value.
func nativeAssert(form int, x any) (out string, panicMsg string) {
	defer func() {
		if r := recover(); r != nil {
			panicMsg = r.(error).Error()
		}
	}()
	switch form {
	case 0:
		n := x.(Namer)
		out = fmt.Sprintln(n.Name("p"))
	case 1:
		out = fmt.Sprintln(x.(Namer).Name("q"))
	case 2:
		n, ok := x.(Namer)
		out = fmt.Sprintln(ok, n == nil)
	case 3:
		switch v := x.(type) {
		case Namer:
			out = fmt.Sprintln("namer", v.Name("p"))
		case Other:
			out = fmt.Sprintln("other", v.Other())
		default:
			out = fmt.Sprintln("default")
		}
	}
	return
}

func assertSpace() kit.Space {
	radices := []uint64{uint64(len(assertHolders)), uint64(len(assertSources)), uint64(len(assertForms)), uint64(len(dynVals))}
	type acase struct {
		v                    dynVal
		form, source, holder int
	}
	at := func(i uint64) acase {
		d := kit.Mixed(i, radices...)
		return acase{dynVals[d[3]], int(d[2]), int(d[1]), int(d[0])}
	}
	build := func(c acase) (sc srcCase, e expect, na string) {
		typ, init := "any", "host.V"+c.v.name
		if c.v.scriggo != "" {
			init = c.v.scriggo
		}
		if c.source == 1 {
			typ = "host.Other"
			if _, ok := c.v.v.(Other); !ok {
				return sc, e, "the value does not implement Other"
			}
			init = "host.O" + c.v.name
		}
		var code []string
		switch c.form {
		case 0:
			code = []string{"n := x.(host.Namer)", `println(n.Name("p"))`}
		case 1:
			code = []string{`println(x.(host.Namer).Name("q"))`}
		case 2:
			code = []string{"n, ok := x.(host.Namer)", "println(ok, n == nil)"}
		case 3:
			code = []string{"switch v := x.(type) {", "case host.Namer:", "\t" + `println("namer", v.Name("p"))`, "case host.Other:", "\t" + `println("other", v.Other())`, "default:", "\t" + `println("default")`, "}"}
		}
		var b strings.Builder
		b.WriteString("package main\nimport \"host\"\nvar _ = host.Err\n")
		if c.v.decl != "" {
			b.WriteString(c.v.decl + "\n")
		}
		ind := "\t"
		if c.holder == 2 {
			b.WriteString("var x " + typ + " = " + init + "\nfunc main() {\n")
		} else {
			b.WriteString("func main() {\n\tvar x " + typ + " = " + init + "\n")
			if c.holder == 1 {
				b.WriteString("\tfunc() {\n")
				ind = "\t\t"
			}
		}
		for _, l := range code {
			b.WriteString(ind + l + "\n")
		}
		if c.holder == 1 {
			b.WriteString("\t}()\n")
		}
		b.WriteString("}\n")
		sc = srcCase{program: true, files: map[string]string{"main.go": b.String()}}
		if c.v.scriggo != "" {
			// a type declared in Scriggo has no methods
			switch c.form {
			case 0, 1:
				e = expect{panicContains: "missing method Name"}
			case 2:
				e = expect{out: "false true\n"}
			case 3:
				e = expect{out: "default\n"}
			}
			return
		}
		out, msg := nativeAssert(c.form, c.v.v)
		if msg != "" {
			e = expect{panicExact: msg}
		} else {
			e = expect{out: out}
		}
		return
	}
	decls := func() native.Declarations {
		d := native.Declarations{"Namer": reflect.TypeOf((*Namer)(nil)).Elem(), "Other": reflect.TypeOf((*Other)(nil)).Elem(), "Good": reflect.TypeOf(Good{})}
		for _, v := range dynVals {
			if v.scriggo != "" {
				continue
			}
			a := v.v
			d["V"+v.name] = &a
			if o, ok := v.v.(Other); ok {
				ov := o
				d["O"+v.name] = &ov
			}
		}
		return d
	}
	return kit.Space{Name: "assert-iface", Size: kit.Product(radices...),
		Eval: func(i uint64) kit.Outcome {
			c := at(i)
			sc, e, na := build(c)
			if na != "" {
				return kit.Outcome{OK: true, Class: "n/a: " + na}
			}
			r, ctx, printed, _ := runOut(sc, decls(), false)
			what := fmt.Sprintf("%s of %s held as %s in a %s, to the native interface Namer{ Name(string) string }", assertForms[c.form], c.v.name, assertSources[c.source], assertHolders[c.holder])
			o := judgeClass("assert-iface", sc, r, ctx, printed, e, what)
			if !o.OK && strings.HasPrefix(o.Key, "assert-iface|") {
				o.Key += "|form=" + assertForms[c.form]
			}
			return o
		},
		Describe: func(i uint64) any {
			c := at(i)
			sc, _, na := build(c)
			return map[string]any{"value": c.v.name, "form": assertForms[c.form], "source": assertSources[c.source], "holder": assertHolders[c.holder], "files": sc.files, "na": na}
		}}
}
