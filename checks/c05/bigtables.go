package main

// (d) table indexes >= 128 at run time: a function first uses n distinct
// types / functions / native functions / constants / package variables /
// field indexes, then executes one table-indexed instruction whose operand
// therefore has index n; the program prints what the instruction computed.
// Operands are int8/uint8: a sign-extension slip shows up only above 127, a
// wrap-around only above 255 (where the compiler must refuse or cope).

import (
	"fmt"
	"strings"

	"verif/kit"

	"github.com/open2b/scriggo/native"
)

type bigKind struct {
	name string
	// gen returns the declarations before main, the body of main and the
	// expected output / panic for n items used before the instruction.
	gen func(n int) (decls, body []string, e expect)
}

func fill(n int, f func(k int) string) []string {
	out := make([]string, 0, n)
	for k := 0; k < n; k++ {
		out = append(out, f(k))
	}
	return out
}

// blocks puts every statement in its own block, so that the registers of its
// temporaries are released (a function has at most 127 registers per kind).
func blocks(stmts []string) []string {
	out := make([]string, len(stmts))
	for i, s := range stmts {
		out[i] = "{ " + s + " }"
	}
	return out
}

// typeFill uses n distinct types ([1]bool … [n]bool) through one variable.
func typeFill(n int) []string {
	return append([]string{"var sink any"}, append(fill(n, func(k int) string { return fmt.Sprintf("sink = new([%d]bool)", k+1) }), "_ = sink")...)
}

func bigKinds() []bigKind {
	T := func(n int) string { return fmt.Sprintf("[%d]bool", n+1) }
	typeKind := func(name string, test func(n int) ([]string, expect)) bigKind {
		return bigKind{"types: " + name, func(n int) ([]string, []string, expect) {
			t, e := test(n)
			return nil, append(typeFill(n), t...), e
		}}
	}
	funcDecls := func(n int) []string {
		return fill(n+1, func(k int) string { return fmt.Sprintf("func f%d() int {\n\treturn %d\n}", k, k) })
	}
	funcFill := func(n int) []string {
		return append([]string{"s := 0"}, append(blocks(fill(n, func(k int) string { return fmt.Sprintf("s += f%d()", k) })), "_ = s")...)
	}
	nativeFill := func(n int) []string {
		return append([]string{"s := 0"}, append(blocks(fill(n, func(k int) string { return fmt.Sprintf("s += host.NF%d()", k) })), "_ = s")...)
	}
	// package variables of the four register kinds in turn (a function has at
	// most 127 registers per kind, and a package variable it uses takes one)
	varTypes := []string{"int", "float64", "string", "[]int"}
	varVals := func(k int) string {
		return []string{fmt.Sprint(k), fmt.Sprintf("%d.5", k), fmt.Sprintf("\"s%d\"", k), fmt.Sprintf("[]int{%d}", k)}[k%4]
	}
	varDecls := func(n int) []string {
		return append(fill(n, func(k int) string { return fmt.Sprintf("var v%d %s", k, varTypes[k%4]) }), fmt.Sprintf("var v%d int", n), "var vprev = 41")
	}
	varFill := func(n int) []string {
		return blocks(fill(n, func(k int) string { return fmt.Sprintf("v%d = %s", k, varVals(k)) }))
	}
	structDecl := func(n int) []string {
		return []string{"type S struct {\n" + strings.Join(fill(n+1, func(k int) string { return fmt.Sprintf("\tF%d int", k) }), "\n") + "\n}"}
	}
	fieldFill := func(n int) []string {
		return append([]string{"var s S"}, fill(n, func(k int) string { return fmt.Sprintf("s.F%d = %d", k, k) })...)
	}
	return []bigKind{
		typeKind("Assert succeeding", func(n int) ([]string, expect) {
			return []string{"var x any = " + T(n) + "{}", "v, ok := x.(" + T(n) + ")", "println(ok, len(v))"}, expect{out: fmt.Sprintf("true %d\n", n+1)}
		}),
		typeKind("Assert failing (comma ok)", func(n int) ([]string, expect) {
			return []string{"var x any = 1", "_, ok := x.(" + T(n) + ")", "println(ok)"}, expect{out: "false\n"}
		}),
		typeKind("Assert failing", func(n int) ([]string, expect) {
			return []string{"var x any = 1", "_ = x.(" + T(n) + ")"}, expect{panicContains: fmt.Sprintf("interface conversion: interface {} is int, not [%d]bool", n+1)}
		}),
		typeKind("Convert", func(n int) ([]string, expect) {
			return []string{fmt.Sprintf("sl := make([]bool, %d)", n+1), "pa := (*" + T(n) + ")(sl)", "println(len(pa))"}, expect{out: fmt.Sprintf("%d\n", n+1)}
		}),
		typeKind("New", func(n int) ([]string, expect) {
			return []string{"p := new(" + T(n) + ")", "println(len(p), p[0])"}, expect{out: fmt.Sprintf("%d false\n", n+1)}
		}),
		typeKind("MakeSlice", func(n int) ([]string, expect) {
			return []string{"k := 2", "sl := make([]" + T(n) + ", k)", "println(len(sl), len(sl[1]))"}, expect{out: fmt.Sprintf("2 %d\n", n+1)}
		}),
		typeKind("MakeMap", func(n int) ([]string, expect) {
			return []string{"m := make(map[" + T(n) + "]int)", "m[" + T(n) + "{}] = 5", "println(len(m), m[" + T(n) + "{}])"}, expect{out: "1 5\n"}
		}),
		typeKind("MakeChan", func(n int) ([]string, expect) {
			return []string{"c := make(chan " + T(n) + ", 1)", "c <- " + T(n) + "{}", "v := <-c", "println(cap(c), len(v))"}, expect{out: fmt.Sprintf("1 %d\n", n+1)}
		}),
		typeKind("Typify", func(n int) ([]string, expect) {
			return []string{"arr := " + T(n) + "{}", "var a any = arr", "println(len(a.(" + T(n) + ")))"}, expect{out: fmt.Sprintf("%d\n", n+1)}
		}),
		typeKind("composite literal and type switch", func(n int) ([]string, expect) {
			return []string{"var a any = []" + T(n) + "{{true}}", "switch v := a.(type) {", "case []" + T(n) + ":", "\tprintln(len(v), v[0][0])", "default:", "\tprintln(\"default\")", "}"}, expect{out: "1 true\n"}
		}),
		{"functions: CallFunc", func(n int) ([]string, []string, expect) {
			return funcDecls(n), append(funcFill(n), fmt.Sprintf("println(f%d())", n)), expect{out: fmt.Sprintf("%d\n", n)}
		}},
		{"functions: LoadFunc", func(n int) ([]string, []string, expect) {
			return funcDecls(n), append(funcFill(n), fmt.Sprintf("g := f%d", n), "println(g())"), expect{out: fmt.Sprintf("%d\n", n)}
		}},
		{"functions: defer and go", func(n int) ([]string, []string, expect) {
			return funcDecls(n), append(funcFill(n), "c := make(chan int)", "go func() {", fmt.Sprintf("\tc <- f%d()", n), "}()", "println(<-c)", fmt.Sprintf("defer f%d()", n)), expect{out: fmt.Sprintf("%d\n", n)}
		}},
		{"native functions: CallNative", func(n int) ([]string, []string, expect) {
			return nil, append(nativeFill(n), fmt.Sprintf("println(host.NF%d())", n)), expect{out: fmt.Sprintf("%d\n", n)}
		}},
		{"native functions: function value", func(n int) ([]string, []string, expect) {
			return nil, append(nativeFill(n), fmt.Sprintf("g := host.NF%d", n), "println(g())"), expect{out: fmt.Sprintf("%d\n", n)}
		}},
		{"native functions: deferred", func(n int) ([]string, []string, expect) {
			return nil, append(nativeFill(n), fmt.Sprintf("defer host.NFP%d()", n)), expect{out: fmt.Sprintf("deferred %d\n", n)}
		}},
		{"string constants", func(n int) ([]string, []string, expect) {
			b := append([]string{`str := ""`}, fill(n, func(k int) string { return fmt.Sprintf("str = \"k%d\"", k) })...)
			return nil, append(b, fmt.Sprintf("println(str, \"last-%d\")", n)), expect{out: fmt.Sprintf("k%d last-%d\n", n-1, n)}
		}},
		{"int constants", func(n int) ([]string, []string, expect) {
			b := append([]string{"x := 0"}, fill(n, func(k int) string { return fmt.Sprintf("x = %d", 100000+k) })...)
			return nil, append(b, fmt.Sprintf("println(x, %d)", 200000+n)), expect{out: fmt.Sprintf("%d %d\n", 100000+n-1, 200000+n)}
		}},
		{"float constants", func(n int) ([]string, []string, expect) {
			b := append([]string{"x := 0.0"}, fill(n, func(k int) string { return fmt.Sprintf("x = %d.25", k) })...)
			return nil, append(b, fmt.Sprintf("y := %d.75", n), "println(x + y)"), expect{out: fmt.Sprintln(float64(n-1) + 0.25 + float64(n) + 0.75)}
		}},
		{"general constants", func(n int) ([]string, []string, expect) {
			b := append([]string{"var x complex128"}, fill(n, func(k int) string { return fmt.Sprintf("x = complex(%d, 1)", k) })...)
			return nil, append(b, fmt.Sprintf("y := complex(%d, 2)", n), "println(real(x) + real(y) == "+fmt.Sprint(2*n-1)+", imag(y) == 2)"), expect{out: "true true\n"}
		}},
		{"package variables: SetVar and GetVar", func(n int) ([]string, []string, expect) {
			return varDecls(n), append(varFill(n), fmt.Sprintf("v%d = 77", n), fmt.Sprintf("println(v%d, vprev)", n)), expect{out: "77 41\n"}
		}},
		{"package variables: address", func(n int) ([]string, []string, expect) {
			return varDecls(n), append(varFill(n), fmt.Sprintf("p := &v%d", n), "*p = 5", fmt.Sprintf("v%d++", n), fmt.Sprintf("println(v%d)", n)), expect{out: "6\n"}
		}},
		{"package variables: closure", func(n int) ([]string, []string, expect) {
			return varDecls(n), append(varFill(n), "func() {", fmt.Sprintf("\tv%d = vprev + 1", n), "}()", fmt.Sprintf("println(v%d)", n)), expect{out: "42\n"}
		}},
		{"field indexes: SetField and Field", func(n int) ([]string, []string, expect) {
			return structDecl(n), append(fieldFill(n), fmt.Sprintf("s.F%d = 9", n), fmt.Sprintf("println(s.F%d, s.F%d)", n, n-1)), expect{out: fmt.Sprintf("9 %d\n", n-1)}
		}},
		{"field indexes: through a pointer", func(n int) ([]string, []string, expect) {
			return structDecl(n), append(fieldFill(n), "ps := &s", fmt.Sprintf("ps.F%d++", n), fmt.Sprintf("q := &ps.F%d", n), "*q += 2", fmt.Sprintf("println(s.F%d)", n)), expect{out: "3\n"}
		}},
		{"select with many cases", func(n int) ([]string, []string, expect) {
			b := []string{fmt.Sprintf("cs := make([]chan int, %d)", n+1), fmt.Sprintf("cs[%d] = make(chan int, 1)", n), fmt.Sprintf("cs[%d] <- 5", n), "select {"}
			for k := 0; k <= n; k++ {
				b = append(b, fmt.Sprintf("case v := <-cs[%d]:", k), fmt.Sprintf("\tprintln(%d, v)", k))
			}
			return nil, append(b, "}"), expect{out: fmt.Sprintf("%d 5\n", n)}
		}},
		{"switch with many cases", func(n int) ([]string, []string, expect) {
			b := []string{fmt.Sprintf("x := %d", n), "switch x {"}
			for k := 0; k <= n; k++ {
				b = append(b, fmt.Sprintf("case %d:", k), fmt.Sprintf("\tprintln(\"case\", %d)", k))
			}
			return nil, append(b, "}"), expect{out: fmt.Sprintf("case %d\n", n)}
		}},
	}
}

var nativeMany native.Declarations

func manyNatives() native.Declarations {
	if nativeMany == nil {
		nativeMany = native.Declarations{}
		for k := 0; k <= 320; k++ {
			k := k
			nativeMany[fmt.Sprintf("NF%d", k)] = func() int { return k }
			nativeMany[fmt.Sprintf("NFP%d", k)] = func(env native.Env) { env.Println("deferred", k) }
		}
	}
	return nativeMany
}

func bigTablesSpace(tier string) kit.Space {
	kinds := bigKinds()
	ns := []int{100, 120, 126, 127, 128, 129, 130, 200, 254, 255, 256, 257, 300}
	if tier == "thorough" {
		ns = []int{2, 64, 100, 126, 127, 128, 129, 130, 131, 160, 200, 254, 255, 256, 257, 258, 300, 320}
	}
	radices := []uint64{uint64(len(ns)), uint64(len(kinds))}
	build := func(i uint64) (bigKind, int, srcCase, expect) {
		d := kit.Mixed(i, radices...)
		k, n := kinds[d[1]], ns[d[0]]
		decls, body, e := k.gen(n)
		var b strings.Builder
		b.WriteString("package main\nimport \"host\"\nvar _ = host.Err\n")
		for _, l := range decls {
			b.WriteString(l + "\n")
		}
		b.WriteString("func main() {\n")
		for _, l := range body {
			b.WriteString("\t" + l + "\n")
		}
		b.WriteString("}\n")
		e.buildMayFail = true // the compiler may refuse what exceeds a table
		return k, n, srcCase{program: true, files: map[string]string{"main.go": b.String()}}, e
	}
	return kit.Space{Name: "big-tables", Size: kit.Product(radices...),
		Eval: func(i uint64) kit.Outcome {
			k, n, sc, e := build(i)
			r, ctx, printed, _ := runOut(sc, manyNatives(), false)
			o := judgeClass("big-tables", sc, r, ctx, printed, e, fmt.Sprintf("%s after %d other entries of the table", k.name, n))
			if !o.OK && (strings.HasPrefix(o.Key, "big-tables|") || strings.HasPrefix(o.Key, "hostpanic")) {
				rng := "index<128"
				switch {
				case n >= 256:
					rng = "index>=256"
				case n >= 128:
					rng = "index 128..255"
				}
				o.Key += "|" + k.name + "|" + rng
			}
			return o
		},
		Describe: func(i uint64) any {
			k, n, sc, _ := build(i)
			src := sc.files["main.go"]
			if len(src) > 3000 {
				src = src[:1200] + "\n…\n" + src[len(src)-1500:]
			}
			return map[string]any{"kind": k.name, "entries_before": n, "main.go": src}
		}}
}
